#!/bin/bash
# MANIFEST.setup_cmd : offline build of the verification framework from files on disk.
set -e
cd "$(dirname "$0")"
export PYTHONPATH=/verif PYTHONHASHSEED=0 PIP_NO_INDEX=1
# 1. hygiene gate: no admitted proofs, no axioms declared by this development, no disabled checks
if grep -rnE '\b(Admitted|admit|Axiom|Axioms|Parameter|Parameters|Conjecture|Admit Obligations)\b|Unset Guard|bypass_check|type-in-type|impredicative-set|Unset Universe Checking|Unset Positivity' \
     --include='*.v' coq/Base coq/Model coq/Proofs coq/Properties coq/Findings coq/Exec 2>/dev/null | grep -v '^coq/Exec/cases_' ; then
  echo "hygiene gate failed" >&2; exit 1
fi
# 2. Tie A: regenerate coq/Gen from /repo's working tree
/venv/bin/python -W ignore -m py.translate.run /repo > coq/Gen/_status.json || true
# 3. full .vo build (no -vos)
/venv/bin/python -W ignore - <<'PY'
from py import vlib
import sys
vlib.coq_project()
ok, out = vlib.coq_make([], timeout=3000)
sys.stdout.write(out[-3000:])
# a Gen file that failed to translate must not break setup: properties depending on it report it
PY
# 4. extraction drivers
if [ -f ocaml/build.sh ]; then bash ocaml/build.sh; fi
echo setup-done
