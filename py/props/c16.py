"""C16 -- checkpoint and resume preserve the privacy ledger and the training trajectory."""
import re
from py import vlib

GENS = ['Ckpt', 'Sched']
RULE = ('real PrivacyEngine.save_checkpoint -> BytesIO -> load_checkpoint into a freshly constructed engine / model / optimizer / schedulers: a case is '
        '(accountant, inner optimizer, noise / clip scheduler kinds, grad sample mode, n steps, cut index, optimizer passed or not); compared: history, epsilon, '
        'module / inner-optimizer / scheduler state right after loading, and history, epsilon, parameters after continuing on the same batches and noise generator '
        'state vs the uninterrupted run; non-trivial = at least one step taken before or after the cut; distinct by canonical JSON of the case')
ASSUMPTIONS = ['torch.save / torch.load (pickle) are the identity on the checkpoint dictionary', 'module.state_dict / load_state_dict and the inner optimizer\'s are exact (torch)']
TRUSTED = ['harness restores the noise generator state by hand (the property is stated "given the same noise generator state")']
ACCS = ['rdp', 'gdp', 'prv']


def gen(ctx, n):
    r = ctx.rng
    cases = []
    for i in range(n):
        nsteps = r.randint(1, 6)
        acc = r.choice(ACCS)
        sched_n = r.choice(['none', 'none', 'exp', 'step', 'lambda']) if acc != 'gdp' else 'none'
        cases.append({'seed': r.randint(0, 10**6), 'acc': acc, 'inner': r.choice(['sgd', 'sgd_mom', 'adam']),
                      'sched_n': sched_n, 'sched_c': r.choice(['none', 'none', 'exp', 'step', 'lambda']),
                      'mode': r.choice(['hooks', 'hooks', 'ghost', 'functorch']), 'n': nsteps, 'cut': r.randint(0, nsteps),
                      'sigma': r.choice([0.8, 1.0, 1.3]), 'C': r.choice([0.5, 1.0]), 'pass_opt': r.random() < 0.85, 'save_opt': True,
                      'early_save': r.choice([None, 0, 1])})
        cases[-1]['carry'] = cases[-1]['early_save'] is not None and r.random() < 0.5
    # every cut point of one longer history, per accountant
    for acc in (ACCS if ctx.thorough else ACCS[:2]):
        for cut in range(0, 6):
            cases.append({'seed': 11, 'acc': acc, 'inner': 'adam', 'sched_n': 'none', 'sched_c': 'none', 'mode': 'hooks', 'n': 5, 'cut': cut,
                          'sigma': 1.0, 'C': 1.0, 'pass_opt': True, 'save_opt': True, 'early_save': 1 if cut >= 3 else None, 'carry': cut >= 4})
    return cases


KEYS = {'module': 'module_state_dict', 'acc': 'privacy_accountant_state_dict'}


def model_keys(ctx):
    """keys of the generated save_ckpt for the 8 flag combinations, evaluated inside Coq"""
    hdr = ('From Coq Require Import ZArith List String Bool.\nFrom OV Require Import Base.Num Base.NumZ Base.Py Model.SchedState Model.Ckpt Gen.Sched Gen.Ckpt.\n'
           'Import ListNotations.\nLocal Open Scope string_scope.\n'
           'Definition y0 : sys Z Z Z := mksys 1%Z 2%Z [(3%Z,4%Z,5%Z)] "rdp" (mkss 0%Z 1%Z 1%Z 0%Z (fun _ => 1%Z) 3%Z) (mkss 0%Z 1%Z 1%Z 0%Z (fun _ => 1%Z) 2%Z).\n'
           'Definition a0 : acc := mkacc 0 "rdp".\n'
           'Definition show (r : result (heap Z * acc)) : string := match r with Ok _ => "Ok" | Err ValueError => "ValueError" | Err KeyError => "KeyError" | Err TypeError => "TypeError" | Err _ => "Other" end.\n')
    body = []
    for o in ('true', 'false'):
        for n in ('true', 'false'):
            for c in ('true', 'false'):
                body.append('Eval vm_compute in (map fst (save_ckpt y0 %s %s %s)).' % (o, n, c))
    variants = ['None', 'Some []', 'Some [("mechanism", VMech "rdp")]', 'Some [("history", VLoc 0)]',
                'Some [("history", VLoc 0); ("mechanism", VMech "gdp")]', 'Some [("history", VLoc 0); ("mechanism", VMech "rdp")]']
    for v in variants:
        body.append('Eval vm_compute in (show (acc_load_state_dict [[(1,1,1)%%Z]] a0 (%s))).' % v)
    # does the loaded accountant own its history cell (deepcopy) or the caller's (cell 0)?
    body.append('Eval vm_compute in (match acc_load_state_dict [[(1,1,1)%Z]] a0 (Some [("history", VLoc 0); ("mechanism", VMech "rdp")]) with '
                'Ok (_, b) => if Nat.eqb (a_loc b) 0 then "Aliased" else "Fresh" | Err _ => "Raised" end).')
    rc, out = vlib.coq_eval('cases_c16', hdr, '\n'.join(body))
    if rc != 0:
        ctx.obligation('correspondence:ckpt-keys', False, 'model evaluation failed: ' + out[-600:])
        return None, None
    lists = [re.findall(r'"([^"]*)"', m) for m in re.findall(r'=\s*(\[[^\]]*\])\s*:\s*list', out, re.S)]
    shows = re.findall(r'=\s*"(\w+)"\s*:\s*string', out)
    return lists, shows


def judge(ctx, c, rr):
    if rr.get('error'):
        ctx.fail('ckpt-harness-error', rr['error'], c)
        return
    for key, what in rr['fails']:
        ctx.fail(key, what, c)


def run_cases(ctx, n):
    cases = gen(ctx, n)
    res = vlib.run_impl('ckpt_runs.py', {'cases': cases, 'accountant': True}, timeout=7200)
    for c, rr in zip(cases, res['results']):
        ctx.case(c, nontrivial=bool(rr.get('nontrivial')), kind='%s/%s/n=%s,c=%s' % (c['acc'], c['inner'], c['sched_n'], c['sched_c']))
        judge(ctx, c, rr)
    ctx.traces += len(cases)
    return cases, res


def run(ctx, gen_status):
    vlib.check_property_file(ctx, 'C16', gen_status, GENS)
    cases, res = run_cases(ctx, ctx.n(16, 600))
    # correspondence: keys written by the real save_checkpoint vs the generated save_ckpt; guards of load_state_dict vs the generated ones
    lists, shows = model_keys(ctx)
    if lists is not None:
        want = {}
        i = 0
        for o in (True, False):
            for n in (True, False):
                for c in (True, False):
                    want[(o, n, c)] = sorted(lists[i])
                    i += 1
        bad = None
        for c, rr in zip(cases, res['results']):
            if rr.get('error') or 'keys' not in rr:
                continue
            flags = (bool(c['save_opt']), c['sched_n'] != 'none', c['sched_c'] != 'none')
            if sorted(k for k in rr['keys'] if k != 'user_entry') != want[flags]:      # 'user_entry': the caller's own entry in a carried checkpoint_dict
                bad = 'checkpoint keys %s, generated model %s for flags %s' % (rr['keys'], want[flags], flags)
                ctx.fail('checkpoint-keys', bad, c)
                break
        ctx.obligation('correspondence:checkpoint-keys(model=impl)', bad is None, bad or '')
        names = ['none', 'empty', 'no_history', 'no_mechanism', 'other_mechanism', 'good']
        bad = None
        for a in res['accountant']:
            for nm, sh in zip(names, shows):
                got = a['variants'][nm]
                if got != sh:
                    bad = '%s accountant load_state_dict(%s): real %s, generated model %s' % (a['mech'], nm, got, sh)
        ctx.obligation('correspondence:load_state_dict-guards(model=impl)', bad is None, bad or '')
        own = shows[len(names)] if len(shows) > len(names) else '?'
        bad = None
        for a in res['accountant']:
            got = 'Fresh' if a.get('load_isolated') else 'Aliased'
            if got != own:
                bad = '%s accountant: loaded history is %s in the real code, %s in the generated model' % (a['mech'], got, own)
        ctx.obligation('correspondence:load_state_dict-ownership(model=impl)', bad is None, bad or '')
    for a in res['accountant']:
        case = {'accountant': a['mech']}
        ctx.case(case, kind='accountant-guards')
        if not a['isolated']:
            ctx.fail('state-dict-aliases-history', 'a state_dict taken earlier changed when the accountant stepped', case)
        if not a.get('load_isolated', True):
            ctx.fail('load-aliases-history', '%s accountant: load_state_dict keeps the caller\'s history list: stepping the accountant changed the state it was loaded from (and a sibling loaded from it)' % a['mech'], case)
        if not a.get('refusal_keeps', True):
            ctx.fail('refused-step-wipes-ledger', '%s accountant: a refused step (another sigma) changed the recorded history' % a['mech'], case)
        v = a['variants']
        for nm in ('none', 'empty', 'no_history', 'no_mechanism', 'other_mechanism', 'from_other'):
            if v[nm] == 'Ok' or v[nm] == 'Ok-wrong-history':
                ctx.fail('accepts-bad-state', 'load_state_dict accepted a %s state' % nm, case)
        if v['good'] != 'Ok':
            ctx.fail('rejects-good-state', 'load_state_dict(good state) -> %s' % v['good'], case)
        if not a['same_eps']:
            ctx.fail('load-epsilon', 'epsilon of the loaded accountant differs', case)


def search(ctx):
    if all(f['key'] == 'resume-live-value' for f in ctx.failures) and not ctx.broken:
        return
    run_cases(ctx, 150)


def replay_case(ctx, failure):
    c = failure['case']
    n0 = len(ctx.failures)
    if 'accountant' in c:
        res = vlib.run_impl('ckpt_runs.py', {'cases': [], 'accountant': True})
        bad = [a for a in res['accountant'] if a['mech'] == c['accountant'] and (not a['isolated'] or not a.get('load_isolated', True) or not a.get('refusal_keeps', True) or a['variants']['good'] != 'Ok' or
               any(a['variants'][k].startswith('Ok') for k in ('none', 'empty', 'no_history', 'no_mechanism', 'other_mechanism', 'from_other')))]
        return not bad, bad or 'holds'
    rr = vlib.run_impl('ckpt_runs.py', {'cases': [c]})['results'][0]
    judge(ctx, c, rr)
    new = [f for f in ctx.failures[n0:] if f['key'] != 'resume-live-value']
    return not new, new or 'holds'
