"""C12 -- accountants are monotone and invariant to history order and run splitting (proof, partial)."""
from py import vlib

GENS = ['Rdp', 'Optim', 'Prv']
RULE = ('metamorphic pairs on the real rdp / prv / gdp accountants: permutations, splitting / merging runs, one-by-one vs run-length recording, '
        '+steps, +sample rate, +sigma, +delta, q = 1 vs the Gaussian closed form, CLI script vs RDP accountant; tolerance = 1e-9 relative for rdp/gdp, '
        "the accountant's own eps_error for prv; non-trivial = the two histories differ; distinct by canonical JSON")
ASSUMPTIONS = ['scipy brentq / quad / fft are not modelled', 'PRV invariances hold up to the configured eps_error']
TRUSTED = []
TOL = {'rdp': 1e-9, 'gdp': 1e-7, 'prv': 0.025}


def gen(ctx, n):
    r = ctx.rng
    cases = []
    for _ in range(n):
        acc = r.choices(['rdp', 'gdp', 'prv'], weights=[5, 2, 2])[0]
        d = r.choice([1e-5, 1e-6, 1e-4])
        runs = [[r.choice([0.9, 1.1, 1.5, 2.5]), r.choice([0.01, 0.02, 0.1]), r.randint(1, 60)] for _ in range(1 if acc == 'gdp' else r.randint(1, 4))]
        t = r.choice(['perm', 'split', 'onebyone', 'steps', 'rate', 'sigma', 'delta'])
        if acc == 'gdp' and t in ('perm', 'split'):
            t = 'steps'
        c = {'acc': acc, 'h1': runs, 'd1': d, 'd2': d, 'mm': t, 'kind': 'pair'}
        h2 = [list(x) for x in runs]
        if t == 'perm':
            r.shuffle(h2)
        elif t == 'split':
            i = r.randrange(len(h2))
            if h2[i][2] >= 2:
                k = r.randint(1, h2[i][2] - 1)
                h2 = h2[:i] + [[h2[i][0], h2[i][1], k], [h2[i][0], h2[i][1], h2[i][2] - k]] + h2[i + 1:]
        elif t == 'onebyone':
            c['kind'] = 'onebyone'
            if sum(x[2] for x in runs) > 80:
                for x in runs:
                    x[2] = min(x[2], 15)
        elif t == 'steps':
            h2[0][2] += r.randint(1, 30)
        elif t == 'rate':
            h2[0][1] = min(1.0, h2[0][1] * r.choice([1.5, 2.0]))
        elif t == 'sigma':
            h2[0][0] = h2[0][0] * r.choice([1.2, 2.0])
        elif t == 'delta':
            c['d2'] = d * 10
        c['h2'] = h2
        cases.append(c)
    # prv, strongly heterogeneous histories: a heavy run and a light tail, in both orders, and the tail appended (epsilon must not drop)
    for _ in range(max(2, n // 60)):
        main = [r.choice([0.8, 1.5]), 0.05, r.choice([300, 1000])]
        tail = [3.0, 0.001, r.randint(5, 20)]
        cases.append({'acc': 'prv', 'h1': [main, tail], 'h2': [tail, main], 'd1': 1e-5, 'd2': 1e-5, 'mm': 'perm', 'kind': 'pair'})
        cases.append({'acc': 'prv', 'h1': [main], 'h2': [main, tail], 'd1': 1e-5, 'd2': 1e-5, 'mm': 'steps', 'kind': 'pair'})
    # prv, one long run recorded as several runs of the same (sigma, q) with a large total epsilon (the truncation domain must cover the WHOLE composition)
    for _ in range(max(2, n // 80)):
        sg, q, k, m = r.choice([0.8, 0.9]), 0.05, r.choice([4, 5, 6]), r.choice([300, 500])
        cases.append({'acc': 'prv', 'h1': [[sg, q, k * m]], 'h2': [[sg, q, m]] * k, 'd1': 1e-5, 'd2': 1e-5, 'mm': 'split', 'kind': 'pair'})
        cases.append({'acc': 'prv', 'h1': [[sg, q, (k - 1) * m]], 'h2': [[sg, q, m]] * k, 'd1': 1e-5, 'd2': 1e-5, 'mm': 'steps', 'kind': 'pair'})
    # a re-used accountant object: queried with one history, then given another of at least the same length
    for _ in range(max(4, n // 20)):
        acc = r.choice(['rdp', 'rdp', 'prv'])
        k = r.randint(2, 4)
        h1 = [[r.choice([0.7, 1.1, 1.5, 2.5]), r.choice([0.01, 0.02]), r.randint(5, 200)] for _ in range(k)]
        h2 = [[r.choice([0.7, 1.1, 1.5, 2.5]), r.choice([0.01, 0.02]), r.randint(5, 200)] for _ in range(k + r.randint(0, 1))]
        cases.append({'kind': 'reuse', 'acc': acc, 'h1': h1, 'h2': h2, 'd1': 1e-5, 'd2': 1e-5, 'mm': 'reuse', 'via': r.choice(['load', 'assign']), 'more': r.choice([0, 3])})
    # structured re-use: both histories share one (sigma, q) entry and the total number of steps, and the first is much cheaper
    for s_late in (0.8, 0.9):
        cases.append({'kind': 'reuse', 'acc': 'prv', 'h1': [[1.1, 0.02, 300], [3.0, 0.02, 1500]], 'h2': [[1.1, 0.02, 300], [s_late, 0.02, 1500]],
                      'd1': 1e-5, 'd2': 1e-5, 'mm': 'reuse', 'via': 'assign', 'more': 0})
    for _ in range(max(2, n // 40)):
        q = r.choice([0.01, 0.02])
        n1, n2 = r.choice([100, 300]), r.choice([600, 1500])
        shared = [1.1, q, n1]
        cases.append({'kind': 'reuse', 'acc': 'prv', 'h1': [shared, [r.choice([2.5, 3.0]), q, n2]], 'h2': [shared, [r.choice([0.8, 0.9]), q, n2]],
                      'd1': 1e-5, 'd2': 1e-5, 'mm': 'reuse', 'via': r.choice(['load', 'assign']), 'more': 0})
    for _ in range(max(3, n // 15)):
        q = r.choice([0.01, 0.04, 0.1])
        cases.append({'kind': 'cli', 'acc': 'rdp', 'q': q, 's': r.choice([0.8, 1.1, 2.0]), 'n': r.randint(10, 500), 'epochs': r.randint(1, 5), 'd1': 1e-5, 'mm': 'cli'})
    for _ in range(max(2, n // 20)):        # q = 1: the plain Gaussian mechanism, RDP = alpha/(2 sigma^2)
        cases.append({'kind': 'pair', 'acc': 'rdp', 'h1': [[r.choice([1.0, 2.0, 4.0]), 1.0, r.randint(1, 20)]], 'h2': None, 'd1': 1e-5, 'd2': 1e-5, 'mm': 'q1'})
    for c in cases:
        if c['mm'] == 'q1':
            c['h2'] = c['h1']
    return cases


def judge(ctx, c, rr):
    if rr.get('error'):
        if c['acc'] == 'gdp' and 'ValueError' in rr['error']:
            return
        ctx.fail('acc-harness-error', rr['error'], c)
        return
    a, b = rr['a'], rr['b']
    tol = TOL[c['acc']] * (1 + abs(a))
    t = c['mm']
    if t in ('perm', 'split', 'onebyone', 'cli'):
        if abs(a - b) > tol:
            ctx.fail('acc-not-invariant-' + t, '%s accountant: %s changes epsilon from %r to %r' % (c['acc'], t, a, b), c)
        if t == 'cli' and abs(rr['cli_epochs'] - rr['acc_epochs']) > tol:
            ctx.fail('cli-disagrees', 'CLI script %r vs RDP accountant %r for %d steps' % (rr['cli_epochs'], rr['acc_epochs'], rr['cli_steps']), c)
    elif t == 'reuse':
        if abs(a - b) > tol or abs(rr['a2'] - rr['b2']) > tol:
            ctx.fail('acc-depends-on-object-history', '%s accountant re-used after another history reports %r (then %r), a fresh accountant with the same history %r (then %r)' % (c['acc'], b, rr['b2'], a, rr['a2']), c)
    elif t in ('steps', 'rate'):
        if b < a - tol:
            ctx.fail('acc-not-monotone-' + t, '%s accountant: more %s lowered epsilon from %r to %r' % (c['acc'], t, a, b), c)
    elif t in ('sigma', 'delta'):
        if b > a + tol:
            ctx.fail('acc-not-antitone-' + t, '%s accountant: larger %s raised epsilon from %r to %r' % (c['acc'], t, a, b), c)
    elif t == 'q1':
        import math
        s, _, n = c['h1'][0]
        from_formula = min(n * al / (2 * s * s) - (math.log(c['d1']) + math.log(al)) / (al - 1) + math.log((al - 1) / al)
                           for al in [1 + x / 10.0 for x in range(1, 100)] + list(range(12, 64)))
        if abs(a - from_formula) > 1e-9 * (1 + abs(a)):
            ctx.fail('q1-not-gaussian', 'q = 1: accountant %r, Gaussian-mechanism closed form %r' % (a, from_formula), c)


def run_cases(ctx, n):
    cases = gen(ctx, n)
    res = vlib.run_impl('acc_meta.py', {'cases': cases}, timeout=7200)['results']
    for c, rr in zip(cases, res):
        ctx.case(c, nontrivial=c.get('h1') != c.get('h2') or c['mm'] in ('cli', 'delta', 'onebyone'), kind='%s/%s' % (c['acc'], c['mm']))
        judge(ctx, c, rr)
    ctx.traces += len(cases)


def run(ctx, gen_status):
    vlib.check_property_file(ctx, 'C12', gen_status, GENS)
    run_cases(ctx, ctx.n(90, 2500))


def search(ctx):
    if not ctx.failures:
        run_cases(ctx, 300)


def replay_case(ctx, failure):
    c = failure['case']
    n0 = len(ctx.failures)
    rr = vlib.run_impl('acc_meta.py', {'cases': [c]})['results'][0]
    judge(ctx, c, rr)
    return len(ctx.failures) == n0, ctx.failures[n0:] or 'holds'
