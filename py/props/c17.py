"""C17 -- noise / clipping schedules follow their closed forms and are what is used."""
from py import vlib

GENS = ['Sched', 'Optim', 'Ghost']
RULE = ('cases = (family noise|clip) x (kind exp|step|lambda) x init x gamma x step_size x lambda-id x op sequence over '
        '{S scheduler.step, O DP optimizer step, R save/fresh/load}; generated from the seed; a case is non-trivial when it '
        'contains at least one S; distinct by canonical JSON of the case')
ASSUMPTIONS = ['IEEE binary64 multiplication in CPython = PrimFloat.mul', 'lambda functions are pure']
TRUSTED = ['Exec/RunSched.v runner (construct/step/restore dispatch)']


def gen_cases(ctx, n):
    r = ctx.rng
    cases = []
    for i in range(n):
        kind = r.choice(['exp', 'step', 'lambda'])
        fam = r.choice(['noise', 'clip'])
        nops = r.randint(0, 14) if not ctx.thorough else r.randint(0, 40)
        ops = [r.choices(['S', 'O', 'R'], weights=[6, 2, 1])[0] for _ in range(nops)]
        c = {'family': fam, 'kind': kind,
             'init': r.choice([1.0, 0.5, 2.0, 1.1, 0.3, 7.25, r.uniform(0.1, 5)]),
             'gamma': r.choice([0.99, 0.5, 0.1, 1.0, 1.5, 0.9, r.uniform(0.2, 1.3)]),
             'step_size': r.choice([1, 2, 3, 5, 7]), 'lam': r.choice([0, 1, 2]), 'ops': ops}
        if kind == 'lambda' and c['lam'] == 2:
            # schedule 1 - k/10 is a legal (positive) noise multiplier / clipping norm for k <= 9 only: keep at most 9 scheduler steps
            seen = 0
            for j, o in enumerate(ops):
                if o == 'S':
                    seen += 1
                    if seen > 9:
                        ops[j] = 'O'
        u = r.random()
        if u < 0.3:
            c['opt'] = 'per_layer'       # DPPerLayerOptimizer: the scheduled scalar is the norm of the per-layer bounds
        elif u < 0.5:
            c['opt'] = 'ghost'           # ghost clipping: the module computes the clipping coefficients, the optimizer the noise
        cases.append(c)
    for kind in ('exp', 'step'):
        cases.append({'family': 'clip', 'kind': kind, 'init': 2.0, 'gamma': 0.5, 'step_size': 1, 'lam': 0, 'ops': ['O', 'S', 'O', 'S', 'S', 'O'], 'opt': 'per_layer'})
    for kind in ('exp', 'step'):
        cases.append({'family': 'clip', 'kind': kind, 'init': 2.0, 'gamma': 0.5, 'step_size': 1, 'lam': 0, 'ops': ['O', 'S', 'O', 'S', 'S', 'O'], 'opt': 'ghost'})
    # a grad-clip / noise scheduler stepping BETWEEN the physical batches of one logical batch (virtual steps)
    for kind in ('exp', 'step', 'lambda'):
        for fam in ('clip', 'noise'):
            cases.append({'family': fam, 'kind': kind, 'init': 1.0, 'gamma': 0.5, 'step_size': 1, 'lam': 0,
                          'ops': ['S', 'V', 'S', 'O', 'V', 'S', 'S', 'O', 'S', 'O']})
    return cases


def closed_form(c, nsteps):
    """the property's closed form, evaluated by iterated float multiplication (bit-exact)"""
    v = c['init']
    if c['kind'] == 'exp':
        for _ in range(nsteps):
            v = v * c['gamma']
        return v
    if c['kind'] == 'step':
        for _ in range(nsteps // c['step_size']):
            v = c['gamma'] * v
        return v
    lam = {0: lambda k: 1 / (1 + k), 1: lambda k: 0.5 * k + 1, 2: lambda k: 1 - k / 10}[c['lam']]
    return c['init'] * lam(nsteps)


LAMS = {0: lambda k: 1 / (1 + k), 1: lambda k: 0.5 * k + 1, 2: lambda k: 1 - k / 10}


def defect_traj(c):
    """what the RECORDED finding (live value not checkpointed: a restored scheduler restarts from the
    fresh optimizer's initial value) predicts, op by op"""
    init = c['init']
    v = init * LAMS[c['lam']](0) if c['kind'] == 'lambda' else init
    k = 0
    out = [v]
    for op in c['ops']:
        if op == 'S':
            k += 1
            if c['kind'] == 'exp':
                v = v * c['gamma']
            elif c['kind'] == 'step':
                if k % c['step_size'] == 0:
                    v = c['gamma'] * v
            else:
                v = init * LAMS[c['lam']](k)
        elif op == 'R':
            v = init * LAMS[c['lam']](0) if c['kind'] == 'lambda' else init
        out.append(v)
    return out


def oracle_case(ctx, c, res):
    """direct check of the property on the implementation's observations"""
    if res['err']:
        ctx.fail('sched-raises', 'scheduler sequence raised %s' % res['err'], c)
        return
    traj = [float.fromhex(h) for h in res['traj']]
    if 'R' in c['ops']:
        ideal = []
        k = 0
        for op in [None] + c['ops']:
            k += op == 'S'
            ideal.append(closed_form(c, k))
        if traj != ideal:
            if traj == defect_traj(c):
                j = next(i for i in range(len(traj)) if traj[i] != ideal[i])
                ctx.fail('restore-live-value', 'restored scheduler does not continue the trajectory: op #%d gives %r, uninterrupted %r'
                         % (j, traj[j], ideal[j]), c)
                return
    k = 0
    oi = 0
    for j, op in enumerate([None] + c['ops']):
        if op == 'S':
            k += 1
        want = closed_form(c, k)
        if traj[j] != want:
            ctx.fail('closed-form', 'after %d scheduler steps (op #%d=%s) the live value is %r, closed form %r'
                     % (k, j, op, traj[j], want), c)
            return
        if op == 'O':
            o = res['osteps'][oi]
            oi += 1
            nm, C = o['nm'], o['C']
            live = nm if c['family'] == 'noise' else C
            if live != want:
                ctx.fail('value-in-force', 'optimizer step used %r, schedule says %r' % (live, want), c)
                return
            if o['ncalls'] != 1 or o['std'] != nm * C:
                ctx.fail('noise-std', 'noise std %r != sigma*C = %r (calls=%d)' % (o['std'], nm * C, o['ncalls']), c)
                return
            if o['acc_sigma'] != nm:
                ctx.fail('accounted-sigma', 'accountant recorded %r, in force %r' % (o['acc_sigma'], nm), c)
                return
            if abs(o['clipnorm'] - C) > 1e-6 * C:
                ctx.fail('clip-norm', 'clipped norm %r, clipping norm in force %r' % (o['clipnorm'], C), c)
                return
            if o.get('virt_clip') is not None and abs(o['virt_clip'] - o['virt_C']) > 1e-6 * o['virt_C']:
                ctx.fail('clip-norm-virtual-step', 'a sample of an earlier physical batch of the logical batch was clipped to %r, the clipping norm in force when it was processed was %r'
                         % (o['virt_clip'], o['virt_C']), c)
                return


def coq_cases(cases, results):
    items = []
    for c, r in zip(cases, results):
        ops = '[' + '; '.join({'S': 'S_', 'O': 'O_', 'R': 'R_', 'V': 'O_'}[o] for o in c['ops']) + ']'
        exp = '[' + '; '.join(vlib.fhex(float.fromhex(h)) for h in r['traj']) + ']'
        items.append('mkcase %s %d%%Z %s %s %d%%Z %d%%Z %s %s' % (
            'true' if c['family'] == 'noise' else 'false', {'exp': 0, 'step': 1, 'lambda': 2}[c['kind']],
            vlib.fhex(c['init']), vlib.fhex(c['gamma']), c['step_size'], c['lam'], ops, exp))
    return items


def tie_b(ctx, cases, results, tag='c17'):
    ok = [i for i, r in enumerate(results) if not r['err']]
    items = coq_cases([cases[i] for i in ok], [results[i] for i in ok])
    header = ('From Coq Require Import ZArith List Floats.PrimFloat.\nFrom OV Require Import Base.Num Base.NumF Base.Py '
              'Model.SchedState Gen.Sched Exec.RunSched.\nImport ListNotations.\nOpen Scope float_scope.\n')
    body = 'Definition cases : list scase := [\n ' + ';\n '.join(items) + '\n].\nEval vm_compute in (bad_indices 0 cases).\n'
    with vlib.CoqLock():
        okb, out = vlib.coq_make(['Exec/RunSched.vo'])
    if not okb:
        ctx.obligation('correspondence:sched-model-vs-impl', False, 'runner does not build: ' + vlib.first_error(out))
        return
    rc, out = vlib.coq_eval('cases_%s_%d' % (tag, ctx.seed % 100000), header, body)
    lists = vlib.parse_eval_lists(out)
    if rc != 0 or len(lists) != 1:
        ctx.obligation('correspondence:sched-model-vs-impl', False, 'case file failed: ' + out[-800:])
        return
    bad = lists[0]
    ctx.traces += len(ok)
    ctx.obligation('correspondence:sched-model-vs-impl', not bad,
                   '' if not bad else 'generated model and implementation trajectories differ on case(s) %s, e.g. %s -> impl %s'
                   % (bad[:5], cases[ok[bad[0]]], results[ok[bad[0]]]['traj']))


def adaptive_engine_schedule(ctx):
    """the ghost-clipping adaptive engine with a noise scheduler: after k scheduler steps the nominal sigma is sigma0 * gamma^k, so the gradient
    noise multiplier used by step k+1 must be (sigma_k^-2 - (2 sigma_b)^-2)^(-1/2) for THAT sigma_k"""
    r = ctx.rng
    cases = [{'ghost': True, 'seed': r.randint(0, 10**6), 'N': 96, 'B': 32, 'scale': 1.0, 'sigma': 2.0, 'C': 1.0, 'q': 0.5, 'lr': 0.2, 'minc': 1e-3, 'maxc': 1e3,
              'gamma': g, 'adaptive_sched': True} for g in (0.5, 0.9)]
    res = vlib.run_impl('adaptive_ghost.py', {'cases': cases}, timeout=900)['results']
    for c, rr in zip(cases, res):
        ctx.case(c, nontrivial=True, kind='adaptive-engine/exp')
        judge_adaptive(ctx, c, rr)
    ctx.traces += len(cases)


def judge_adaptive(ctx, c, rr):
    if rr.get('error'):
        ctx.fail('sched-harness-error', rr['error'], c)
        return
    for k, st in enumerate(rr['steps']):
        sk = c['sigma'] * c['gamma'] ** k
        sb = st['rec'][0][0]
        want = (sk ** -2 - (2 * sb) ** -2) ** -0.5
        if abs(st['nm'] - want) > 1e-9 * want:
            ctx.fail('adaptive-engine-overwrites-scheduled-sigma', 'ghost adaptive engine, step %d after %d scheduler steps: gradient noise multiplier %r, the schedule gives sigma %r hence %r '
                     '(the engine recomputes it from the sigma of construction time)' % (k + 1, k, st['nm'], sk, want), c)
            return


def run(ctx, gen_status):
    vlib.check_property_file(ctx, 'C17', gen_status, GENS)
    cases = gen_cases(ctx, ctx.n(120, 1500))
    # metamorphic twin for restore: the same case without R must give the same values at the other ops
    res = vlib.run_impl('c17_sched.py', {'cases': cases})['results']
    for c, r in zip(cases, res):
        ctx.case(c, nontrivial='S' in c['ops'], kind='%s/%s' % (c['family'], c['kind']))
        oracle_case(ctx, c, r)
    tie_b(ctx, cases, res)
    adaptive_engine_schedule(ctx)


def search(ctx):
    if ctx.failures:
        return
    # deeper search: long sequences with many restores
    r = ctx.rng
    cases = []
    for kind in ['exp', 'step', 'lambda']:
        for fam in ['noise', 'clip']:
            for ss in [1, 2, 3]:
                for pat in (['S'] * 9, ['S', 'R'] * 6, ['S', 'O'] * 5, ['S', 'S', 'R', 'S', 'O', 'S', 'R', 'O', 'S']):
                    cases.append({'family': fam, 'kind': kind, 'init': 1.3, 'gamma': 0.7, 'step_size': ss, 'lam': 2, 'ops': pat})
    res = vlib.run_impl('c17_sched.py', {'cases': cases})['results']
    for c, rr in zip(cases, res):
        ctx.case(c, kind='search')
        oracle_case(ctx, c, rr)


def replay_case(ctx, failure):
    c = failure['case']
    n0 = len(ctx.failures)
    if c.get('adaptive_sched'):
        judge_adaptive(ctx, c, vlib.run_impl('adaptive_ghost.py', {'cases': [c]})['results'][0])
        return len(ctx.failures) == n0, ctx.failures[n0:] or 'holds'
    res = vlib.run_impl('c17_sched.py', {'cases': [c]})['results'][0]
    oracle_case(ctx, c, res)
    return len(ctx.failures) == n0, ctx.failures[n0:] or 'holds'
