"""C02 -- one example moves the noise-free update by at most the clipping norm."""
from py import vlib
from py.props import clip_common as cc

GENS = ['Optim', 'Ghost']
RULE = ('(a) neighbouring-batch cases on real GradSampleModules / DP optimizers: model kind (mlp, seq = Linear on 3-D input, conv, embedding, '
        'layer/group norm) x clipping (flat, per_layer, adaptive, ghost) x reduction x C x gradient scale 1e-4..1e3 x dropped example; '
        '(b) ghost-norm formulas on small-integer tensors (exact) vs the index-sum model evaluated in Coq; '
        'non-trivial = at least one example is actually clipped; distinct by canonical JSON')
ASSUMPTIONS = ['per-sample gradients are a function of the sample alone (C01, C15)', 'autograd delivers the cotangent to the hooks']
TRUSTED = ['Exec/RunGhost.v, Exec/RunClip.v runners']


def zl(l):
    return '[' + '; '.join('(%d)%%Z' % x for x in l) + ']'


def ghost_correspondence(ctx, n):
    r = ctx.rng
    cases = []
    for _ in range(n):
        L, p, q = r.randint(1, 3), r.randint(1, 3), r.randint(1, 3)
        cases.append({'L': L, 'p': p, 'q': q, 'dim': 3, 'g': [[r.randint(-3, 3) for _ in range(p)] for _ in range(L)],
                      'a': [[r.randint(-3, 3) for _ in range(q)] for _ in range(L)]})
    res = vlib.run_impl('ghost_norms.py', {'cases': cases})['results']
    with vlib.CoqLock():
        ok, out = vlib.coq_make(['Exec/RunGhost.vo'])
    if not ok:
        ctx.obligation('correspondence:ghost-norm-formulas', False, 'runner does not build: ' + vlib.first_error(out))
        return
    items = []
    for c, rr in zip(cases, res):
        ctx.case(c, kind='ghost-int/L%d' % c['L'], nontrivial=c['L'] > 1)
        if rr['w2'] != rr['tw'] or rr['b2'] != rr['tb']:
            ctx.fail('ghost-norm-vs-true-norm', 'ghost norm^2 (w %s, b %s) != true per-sample gradient norm^2 (w %s, b %s)' % (rr['w2'], rr['b2'], rr['tw'], rr['tb']), c)
        items.append('((%d%%nat, %d%%nat, %d%%nat, [%s], [%s]), %s)' % (
            c['L'], c['p'], c['q'], '; '.join(zl(x) for x in c['g']), '; '.join(zl(x) for x in c['a']),
            zl([rr['w2'][0], rr['b2'][0], rr['tw'][0], rr['tb'][0]])))
    header = 'From Coq Require Import ZArith List.\nFrom OV Require Import Base.Num Base.NumZ Model.GhostNorm Exec.RunGhost.\nImport ListNotations.\n'
    body = 'Definition cases : list (nat * nat * nat * list (list Z) * list (list Z) * list Z) := [\n ' + ';\n '.join(items) + '\n].\nEval vm_compute in (bad_ghost 0 cases).\n'
    rc, out = vlib.coq_eval('cases_c02g_%d' % (ctx.seed % 100000), header, body)
    lists = vlib.parse_eval_lists(out)
    if rc != 0 or len(lists) != 1:
        ctx.obligation('correspondence:ghost-norm-formulas', False, 'case file failed: ' + out[-600:])
        return
    ctx.traces += len(items)
    ctx.obligation('correspondence:ghost-norm-formulas', not lists[0],
                   '' if not lists[0] else 'index-sum model and compute_linear_norm_sample differ on %s' % [cases[i] for i in lists[0][:2]])


def emb_correspondence(ctx, n):
    """the real norm sampler and grad sampler of nn.Embedding on integer tensors vs ghost_sq_embedding / true_norm_sq_embedding on Z"""
    r = ctx.rng
    cases = []
    for _ in range(n):
        V, L, D, nb = r.randint(1, 5), r.randint(1, 4), r.randint(1, 3), r.randint(1, 3)
        pad = r.choice([None, None, 0, V - 1, r.randrange(V)])
        cases.append({'V': V, 'L': L, 'D': D, 'pad': pad, 'freq': r.random() < 0.3, 'ids': [[r.randrange(V) if r.random() < 0.7 or pad is None else pad for _ in range(L)] for _ in range(nb)],
                      'g': [[[r.randint(-3, 3) for _ in range(D)] for _ in range(L)] for _ in range(nb)]})
    res = vlib.run_impl('ghost_norms.py', {'emb': cases})['emb']
    items, owners = [], []
    for c, rr in zip(cases, res):
        ctx.case(c, kind='ghost-emb/%s' % ('pad' if c['pad'] is not None else 'nopad'),
                 nontrivial=any(len(set(row)) < len(row) for row in c['ids']) or (c['pad'] is not None and any(c['pad'] in row for row in c['ids'])))
        if c['freq']:
            if any(abs(a - b) > 1e-9 * (1 + abs(b)) for a, b in zip(rr['n2f'], rr['t2f'])):
                ctx.fail('ghost-embedding-norm', 'nn.Embedding(padding_idx=%s, scale_grad_by_freq=True): ghost norm^2 %s != norm^2 of the per-sample gradient %s' % (c['pad'], rr['n2f'], rr['t2f']), c)
            continue
        if rr['n2'] != rr['t2'] or rr['resid'] > 1e-6:
            ctx.fail('ghost-embedding-norm', 'nn.Embedding(padding_idx=%s): ghost norm^2 %s != norm^2 of the per-sample gradient %s' % (c['pad'], rr['n2'], rr['t2']), c)
        for i in range(len(c['ids'])):
            items.append('((%s, %d%%nat, %d%%nat, %d%%nat, [%s], [%s]), %s)' % (
                'None' if c['pad'] is None else '(Some %d%%nat)' % c['pad'], c['V'], c['L'], c['D'], '; '.join('%d%%nat' % v for v in c['ids'][i]),
                '; '.join(zl(x) for x in c['g'][i]), zl([rr['n2'][i], rr['t2'][i]])))
            owners.append(c)
    header = 'From Coq Require Import ZArith List.\nFrom OV Require Import Base.Num Base.NumZ Model.GhostNorm Exec.RunGhost.\nImport ListNotations.\n'
    body = ('Definition cases : list (option nat * nat * nat * nat * list nat * list (list Z) * list Z) := [\n ' + ';\n '.join(items) +
            '\n].\nEval vm_compute in (bad_emb 0 cases).\n')
    with vlib.CoqLock():
        ok, out = vlib.coq_make(['Exec/RunGhost.vo'])
        rc, out = vlib.coq_eval('cases_c02e_%d' % (ctx.seed % 100000), header, body) if ok else (1, out)
    lists = vlib.parse_eval_lists(out)
    if rc != 0 or len(lists) != 1:
        ctx.obligation('correspondence:ghost-embedding-norm', False, 'case file failed: ' + out[-600:])
        return
    ctx.traces += len(items)
    ctx.obligation('correspondence:ghost-embedding-norm', not lists[0],
                   '' if not lists[0] else 'index model and compute_embedding_norm_sample / compute_embedding_grad_sample differ on %s' % [owners[i] for i in lists[0][:2]])
    for i in lists[0][:1]:
        ctx.fail('ghost-embedding-model-vs-impl', 'embedding norm sampler / grad sampler differ from the model', owners[i])


def run_sens(ctx, n):
    cases = cc.gen_sens(ctx, n)
    res = vlib.run_impl('clip_numeric.py', {'sens': cases, 'step': []}, timeout=7200)['sens']
    for c, r in zip(cases, res):
        ctx.case(c, nontrivial=(r.get('delta') or 0) > 0.5 * (r.get('bound') or 1e99), kind='sens/%s/%s' % (c['clipping'], c['model']))
        if r['error'] and 'Parameter tying is not supported with Ghost Clipping' in r['error']:
            ctx.dist['sens/refused-tying'] = ctx.dist.get('sens/refused-tying', 0) + 1      # the mode refuses the model: nothing is released
            continue
        if r['error']:
            ctx.fail('sens-harness-error', r['error'], c)
        for b in r['bad'][:1]:
            # a packed batch that is not length-sorted: the recurrent layer's per-sample gradients come in length-sorted row order (finding of C01),
            # so one example is clipped in two different rows
            known = c['model'] == 'rnnpack' and r.get('lens_sorted') is False
            # ghost clipping with column-shaped per-sample losses: the sum is the broadcast form (finding of C03)
            col = c['clipping'] == 'ghost' and c.get('lcol') and r.get('defect_form') is True
            ctx.fail('rnn-packed-unsorted-sensitivity' if known else 'ghost-column-loss-sensitivity' if col else 'sensitivity-exceeds-bound', b, c)


def run(ctx, gen_status):
    vlib.check_property_file(ctx, 'C02', gen_status, GENS)
    run_sens(ctx, ctx.n(120, 2500))
    ghost_correspondence(ctx, ctx.n(150, 1000))
    emb_correspondence(ctx, ctx.n(120, 800))
    steps = cc.gen_step(ctx, ctx.n(25, 300))
    res = vlib.run_impl('clip_numeric.py', {'sens': [], 'step': steps}, timeout=7200)['step']
    cc.clip_factor_correspondence(ctx, steps, res, 'c02')


def search(ctx):
    if ctx.failures and not all(f['key'] in ('rnn-packed-unsorted-sensitivity', 'ghost-column-loss-sensitivity') for f in ctx.failures):
        return
    if ctx.failures and not ctx.broken:
        return
    run_sens(ctx, 600)


def replay_case(ctx, failure):
    c = failure['case']
    n0 = len(ctx.failures)
    if 'drop' in c:
        r = vlib.run_impl('clip_numeric.py', {'sens': [c], 'step': []})['sens'][0]
        for b in r['bad'][:1]:
            known = c['model'] == 'rnnpack' and r.get('lens_sorted') is False
            # ghost clipping with column-shaped per-sample losses: the sum is the broadcast form (finding of C03)
            col = c['clipping'] == 'ghost' and c.get('lcol') and r.get('defect_form') is True
            ctx.fail('rnn-packed-unsorted-sensitivity' if known else 'ghost-column-loss-sensitivity' if col else 'sensitivity-exceeds-bound', b, c)
    return len(ctx.failures) == n0, ctx.failures[n0:] or 'holds'
