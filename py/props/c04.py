"""C04 -- released noise is fresh isotropic Gaussian with std sigma x max_grad_norm (proof of the noise ledger; partial)."""
from py import vlib
from py.props import optim_common as oc

GENS = ['Optim', 'Engine']
RULE = ('(a) op sequences on the real optimizers incl. secure_mode, comparing the number of parameter-shaped torch.normal calls per op with '
        "the generated state machine's ENoise events; (b) numeric one-step cases (variant x secure x sigma incl. 0 x C x B x reduction x "
        'user generator) checked directly: call count, std, shape, (clipped sum + noise)/B, reproducibility, step/parameter independence; '
        'distinct by canonical JSON; non-trivial = a noised step occurs')
ASSUMPTIONS = ['torch.normal returns i.i.d. N(0, std^2) draws from fresh generator state (modelled, not verified)',
               'lock-step abstraction of the optimised parameters']
TRUSTED = ['wrapper around torch.normal that logs calls']


def numeric_cases(ctx, n):
    r = ctx.rng
    out = []
    for i in range(n):
        out.append({'seed': r.randint(0, 10**6), 'variant': r.choice(['flat', 'perlayer', 'adaptive']), 'secure': r.random() < 0.4,
                    'nm': r.choice([0, 0.5, 1.0, 2.5]), 'C': r.choice([0.1, 1.0, 3.0]), 'B': r.choice([1, 4, 7]),
                    'red': r.choice(['mean', 'sum']), 'usergen': r.random() < 0.6, 'n': r.choice([1, 3, 5])})
        if out[-1]['variant'] == 'adaptive' and out[-1]['nm'] == 0:
            out[-1]['nm'] = 0.5        # sigma = 0 has no meaning for the adaptive optimizer (its noise split divides by sigma^2): construction raises
    # statistical sanity of the released noise (a TEST of the assumed Gaussian law / independence, not part of the proof)
    for secure in (False, True):
        for _ in range(1 if not ctx.thorough else 6):
            out.append({'stat': True, 'seed': r.randint(0, 10**6), 'secure': secure, 'nm': r.choice([0.5, 1.0, 2.5]), 'C': r.choice([0.1, 1.0, 3.0]),
                        'variant': 'flat', 'red': 'sum'})
    for secure in (False, True):
        for user in (False, True):
            for poisson in (False, True):
                out.append({'enggen': True, 'secure': secure, 'user': user, 'poisson': poisson, 'variant': 'engine', 'nm': 1.0})
    return out


def run_numeric(ctx, n):
    cases = numeric_cases(ctx, n)
    res = vlib.run_impl('noise_props.py', {'cases': cases}, timeout=3600)['results']
    for c, r in zip(cases, res):
        ctx.case(c, nontrivial=c['nm'] != 0, kind=('generator' if c.get('enggen') else ('stat' if c.get('stat') else 'numeric')) + '/%s/secure=%s' % (c['variant'], c['secure']))
        if r['error']:
            ctx.fail('noise-harness-error', r['error'], c)
        for b in r['bad'][:1]:
            ctx.fail('noise-' + b.split(':')[0][:40].replace(' ', '-'), b, c)


def run(ctx, gen_status):
    vlib.check_property_file(ctx, 'C04', gen_status, GENS)
    cases = oc.gen_cases(ctx, ctx.n(3, 4), ctx.n(300, 2500), secure=True)
    res = oc.run_impl_cases(cases)
    oc.register(ctx, cases)
    for c, r in zip(cases, res):
        oc.oracle_accounting(ctx, c, r)      # includes: every draw of a noised step has std = sigma*C in force
    bad = oc.model_vs_impl(ctx, cases, res, 'c04')
    if bad is not None:
        ctx.obligation('correspondence:noise-call-log', not bad,
                       '' if not bad else 'torch.normal call log differs from the generated ledger on %d sequence(s), e.g. %s -> impl %s'
                       % (len(bad), cases[bad[0]], res[bad[0]]['obs']))
    run_numeric(ctx, ctx.n(60, 600))


def search(ctx):
    if ctx.failures:
        return
    run_numeric(ctx, 300)


def replay_case(ctx, failure):
    c = failure['case']
    n0 = len(ctx.failures)
    if 'ops' in c:
        r = oc.run_impl_cases([c])[0]
        oc.oracle_accounting(ctx, c, r)
    else:
        r = vlib.run_impl('noise_props.py', {'cases': [c]})['results'][0]
        for b in r['bad'][:1]:
            ctx.fail('noise', b, c)
    return len(ctx.failures) == n0, ctx.failures[n0:] or 'holds'
