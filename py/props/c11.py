"""C11 -- no per-sample gradient is ever released twice; stale state never leaks."""
from py import vlib
from py.props import optim_common as oc

GENS = ['Optim']
RULE = ('op sequences over {FB(batch) ST OZ MZ SK(b) NM(v) CC(v)} on the real optimizers (one-hot probe): exhaustive up to the '
        'stated depth for flat / per-layer / ghost x accumulation allowed / forbidden, plus seeded random longer sequences; '
        'non-trivial = contains a backward and a step; distinct by canonical JSON')
ASSUMPTIONS = ['all optimised parameters receive a per-sample gradient in every backward pass (lock-step abstraction)',
               'the one-hot probe decodes released sample ids exactly (huge clipping norm, zeroed noise)']
TRUSTED = ['Proofs/OptimSM.v method-resolution glue and the hand-modelled backward hook (fb_hooks / fb_ghost), validated by the op-sequence correspondence']


def run(ctx, gen_status):
    vlib.check_property_file(ctx, 'C11', gen_status, GENS)
    cases = oc.gen_cases(ctx, ctx.n(4, 6), ctx.n(300, 3000))
    res = oc.run_impl_cases(cases)
    oc.register(ctx, cases)
    for c, r in zip(cases, res):
        oc.oracle_release(ctx, c, r)
    bad = oc.model_vs_impl(ctx, cases, res, 'c11')
    if bad is not None:
        ctx.obligation('correspondence:optimizer-state-machine', not bad,
                       '' if not bad else 'generated state machine and implementation differ on %d sequence(s), e.g. %s -> impl %s'
                       % (len(bad), cases[bad[0]], res[bad[0]]['obs']))
        ctx.extra['exhaustive_depth'] = ctx.n(4, 6)


def search(ctx):
    if ctx.failures:
        return
    cases = oc.gen_cases(ctx, 5, 1500, rnd_len=(8, 18))
    res = oc.run_impl_cases(cases)
    for c, r in zip(cases, res):
        ctx.case(c, kind='search')
        oc.oracle_release(ctx, c, r)


def replay_case(ctx, failure):
    c = failure['case']
    r = vlib.run_impl('optim_ops.py', {'cases': [c]})['results'][0]
    n0 = len(ctx.failures)
    oc.oracle_release(ctx, c, r)
    return len(ctx.failures) == n0, ctx.failures[n0:] or 'holds'
