"""shared by C02 / C03: numeric cases on the real optimizers and their Coq-side evaluation"""
from py import vlib

MODELS = ['mlp', 'linear_nobias', 'seq', 'conv', 'emb', 'embpad', 'norm', 'gn', 'sublinear']
SENS_MODELS = MODELS + ['rnnpack', 'tied_custom']
CLIPS = ['flat', 'per_layer', 'adaptive', 'ghost']


def gen_sens(ctx, n):
    r = ctx.rng
    out = []
    for _ in range(n):
        clip = r.choice(CLIPS)
        nn_ = r.choice([2, 3, 4, 5])
        out.append({'seed': r.randint(0, 10**6), 'model': r.choice(SENS_MODELS), 'clipping': clip, 'red': r.choice(['mean', 'sum']),
                    'C': r.choice([0.01, 0.3, 1.0, 7.0]), 'n': nn_, 'drop': r.randrange(nn_), 'nm': 1.0, 'B': nn_, 'split': r.choice([1, 1, 2, 3]),
                    'wscale': r.choice([0.1, 1.0, 3.0]), 'xscale': r.choice([1e-4, 1e-2, 1.0, 10.0, 1e3]), 'tscale': r.choice([1e-3, 1.0, 1e3]),
                    'lcol': r.random() < 0.3})      # the criterion returns its per-sample losses as a column [B, 1] (MSELoss / BCE on one output unit)
    return out


def gen_step(ctx, n):
    r = ctx.rng
    out = []
    for _ in range(n):
        clip = r.choice(CLIPS)
        nn_ = r.choice([1, 2, 3, 4])
        out.append({'seed': r.randint(0, 10**6), 'model': r.choice(MODELS), 'clipping': clip, 'red': r.choice(['mean', 'sum']),
                    'C': r.choice([0.05, 1.0, 4.0, 1e6]), 'n': nn_, 'nm': 1.0 if clip == 'adaptive' else r.choice([0.0, 0.7]), 'B': r.choice([nn_, 5]),
                    'split': r.choice([1, 1, 2, 3]), 'accum': r.choice([1, 1, 1, 2, 3]), 'zg2': r.random() < 0.3, 'wscale': r.choice([0.3, 1.0]), 'xscale': r.choice([1e-2, 1.0, 10.0]), 'tscale': r.choice([1e-2, 1.0, 10.0]), 'lcol': r.random() < 0.3})
    return out


def fl(x):
    return vlib.fhex(x)


def clip_factor_correspondence(ctx, cases, results, tag):
    """torch's clip factors vs the GENERATED clip factor evaluated on binary64 inside Coq"""
    with vlib.CoqLock():
        ok, out = vlib.coq_make(['Exec/RunClip.vo'])
    if not ok:
        ctx.obligation('correspondence:clip-factor-binary64', False, 'runner does not build: ' + vlib.first_error(out))
        return
    items, idx = [], []
    for ci, (c, r) in enumerate(zip(cases, results)):
        if r.get('error') or 'grads' not in r:
            continue
        for gs, fs in zip(r['grads'], r['factors']):
            g = '[' + '; '.join('[' + '; '.join(fl(v) for v in vec) + ']' for vec in gs) + ']'
            w = '[' + '; '.join(fl(f) for f in fs) + ']'
            items.append('(%s, %s, %s, %s)' % (fl(c['C']), g, w, 'true' if c['clipping'] == 'per_layer' else 'false'))
            idx.append(ci)
    if not items:
        return
    header = ('From Coq Require Import ZArith List Floats.PrimFloat.\nFrom OV Require Import Base.Num Base.NumF Exec.RunClip.\n'
              'Import ListNotations.\nOpen Scope float_scope.\n')
    bad = []
    for k in range(0, len(items), 300):
        body = 'Definition cases : list (float * list (list float) * list float * bool) := [\n ' + ';\n '.join(items[k:k + 300]) + '\n].\nEval vm_compute in (bad_clip 0 cases).\n'
        rc, out = vlib.coq_eval('cases_%s_%d_%d' % (tag, ctx.seed % 100000, k), header, body)
        lists = vlib.parse_eval_lists(out)
        if rc != 0 or len(lists) != 1:
            ctx.obligation('correspondence:clip-factor-binary64', False, 'case file failed: ' + out[-600:])
            return
        bad += [idx[k + i] for i in lists[0]]
    ctx.traces += len(items)
    ctx.obligation('correspondence:clip-factor-binary64', not bad,
                   '' if not bad else 'generated clip factor (binary64) differs from the closed-form factor on case(s) %s' % [cases[i] for i in bad[:2]])
