"""C05 -- every noised step is accounted exactly once, with the parameters in force."""
from py import vlib
from py.props import optim_common as oc

GENS = ['Optim', 'Bmm']
RULE = ('op sequences on the real optimizers with a real accountant attached through get_optimizer_hook_fn: exhaustive to the stated '
        'depth (rdp) and seeded random sequences over rdp / prv / gdp with noise-multiplier and clipping-norm writes; '
        'non-trivial = contains a backward and a step; plus engine-level histories (make_private, Poisson loader, '
        'BatchMemoryManager, empty batches, two make_private calls)')
ASSUMPTIONS = ['lock-step abstraction of the optimised parameters', "Python == on the recorded floats decides equality (+0/-0 aside)"]
TRUSTED = ['Proofs/OptimSM.v glue', 'wrappers around accountant.step / inner optimizer.step used to log the order of events']


def run(ctx, gen_status):
    vlib.check_property_file(ctx, 'C05', gen_status, GENS)
    cases = oc.gen_cases(ctx, ctx.n(3, 5), ctx.n(500, 4000), accs=('rdp', 'prv', 'gdp'))
    res = oc.run_impl_cases(cases)
    oc.register(ctx, cases)
    for c, r in zip(cases, res):
        oc.oracle_accounting(ctx, c, r)
    bad = oc.model_vs_impl(ctx, cases, res, 'c05')
    if bad is not None:
        ctx.obligation('correspondence:optimizer-state-machine', not bad,
                       '' if not bad else 'generated state machine and implementation differ on %d sequence(s), e.g. %s -> impl %s'
                       % (len(bad), cases[bad[0]], res[bad[0]]['obs']))
    engine_histories(ctx)
    distributed_histories(ctx)


def distributed_histories(ctx):
    """the distributed optimizers (gloo groups of 1 and 2 ranks): every noised step is recorded once with the sigma and the rate in force"""
    r = ctx.rng
    for W in (1, 2):
        cases = []
        for clip, mode in (('per_layer', 'hooks'), ('flat', 'hooks'), ('per_layer', 'ew')):
            k = r.randint(1, 3)
            cases.append({'seed': r.randint(0, 10**5), 'model': 'lin', 'B': 4 * W, 'sigma': r.choice([0.7, 1.3]), 'C': 0.4, 'clipping': clip, 'mode': mode,
                          'reduction': 'mean', 'scale': 1.0, 'shards': [[r.randint(1, 3) for _ in range(W)] for _ in range(k)]})
        res = vlib.run_impl('dist_runs.py', {'W': W, 'cases': cases}, timeout=900)['results']
        for c, rr in zip(cases, res):
            cw = dict(c, W=W, dist_hist=True)
            ctx.case(cw, nontrivial=True, kind='dist-history/W%d/%s-%s' % (W, c['clipping'], c['mode']))
            for i, rk in enumerate(rr['ranks']):
                if rk.get('error'):
                    ctx.fail('dist-error', 'rank %d raised or hung: %s' % (i, rk['error'][:200]), cw)
                    break
                want = [[c['sigma'], 0.25, rk['nsteps']]]       # the harness loader has 4 batches: sample rate 1/4
                if rk['hist'] != want:
                    ctx.fail('accounted-rate' if [h[:1] + h[2:] for h in rk['hist']] == [w[:1] + w[2:] for w in want] else 'logical-steps-vs-records',
                             '%s on rank %d of %d recorded %s, expected %s' % (rk.get('opt_class'), i, W, rk['hist'], want), cw)
                    break
        ctx.traces += len(cases)


def engine_histories(ctx, n=None):
    n = n or ctx.n(12, 80)
    r = ctx.rng
    cases = []
    for i in range(n):
        cases.append({'seed': r.randint(0, 10**6), 'N': r.choice([12, 20, 33]), 'L': r.choice([2, 3, 4, 5]),
                      'epochs': r.choice([1, 2]), 'acc': r.choice(['rdp', 'prv', 'gdp']),
                      'mode': r.choice(['hooks', 'hooks', 'ghost', 'functorch']), 'bmm': r.choice([0, 0, 1, 2, 3]),
                      'poisson': r.random() < 0.7, 'sched': r.random() < 0.3 , 'two': r.random() < 0.35,
                      'q_tiny': r.random() < 0.3})
    for c in cases:
        if c['acc'] == 'gdp':
            c['two'] = False          # the GDP accountant (by design) refuses a second sample rate
    res = vlib.run_impl('engine_hist.py', {'cases': cases}, timeout=3600)['results']
    for c, rr in zip(cases, res):
        ctx.case(c, kind='engine/%s/%s' % (c['mode'], c['acc']), nontrivial=rr.get('n_inner', 0) > 0)
        if rr.get('error'):
            ctx.fail('engine-harness-error', 'engine run raised %s' % rr['error'], c)
            continue
        if rr.get('n_logical') is not None and rr['n_records'] != rr['n_logical']:
            ctx.fail('logical-steps-vs-records', 'engine run: %d logical batches (empty ones included) but %d recorded steps' % (rr['n_logical'], rr['n_records']), c)
        elif rr['n_inner'] != rr['n_records']:
            ctx.fail('records-vs-steps', 'engine run: %d inner steps, %d recorded steps' % (rr['n_inner'], rr['n_records']), c)
        elif rr['bad_order']:
            ctx.fail('unaccounted-step', 'engine run: %s' % rr['bad_order'], c)
        elif rr['bad_sigma']:
            ctx.fail('accounted-sigma', 'engine run: %s' % rr['bad_sigma'], c)
        elif rr['bad_rate']:
            ctx.fail('accounted-rate', 'engine run: %s' % rr['bad_rate'], c)
        ctx.traces += 1


def search(ctx):
    if ctx.failures:
        return
    cases = oc.gen_cases(ctx, 4, 2500, accs=('rdp', 'prv', 'gdp'), rnd_len=(8, 18))
    res = oc.run_impl_cases(cases)
    for c, r in zip(cases, res):
        ctx.case(c, kind='search')
        oc.oracle_accounting(ctx, c, r)
    engine_histories(ctx, 60)


def replay_case(ctx, failure):
    c = failure['case']
    n0 = len(ctx.failures)
    if 'ops' in c:
        r = vlib.run_impl('optim_ops.py', {'cases': [c]})['results'][0]
        oc.oracle_accounting(ctx, c, r)
    elif c.get('dist_hist'):
        c2 = {k: v for k, v in c.items() if k not in ('W', 'dist_hist')}
        rr = vlib.run_impl('dist_runs.py', {'W': c['W'], 'cases': [c2]}, timeout=600)['results'][0]
        bad = [rk for rk in rr['ranks'] if rk.get('error') or rk['hist'] != [[c['sigma'], 0.25, rk['nsteps']]]]
        return not bad, [rk.get('hist') for rk in bad] or 'holds'
    return len(ctx.failures) == n0, ctx.failures[n0:] or 'holds'
