"""C06 -- RDP accountant never under-reports (proof, partial) + kernel-checked numeric certificates."""
import math
from py import vlib

GENS = ['Rdp']
RULE = ('(a) integer-order points (q, sigma, alpha) incl. tiny q, small sigma, q near 1, alpha up to 63: the Python value of _compute_rdp must lie within 1e-9 (relative) '
        'of the real-valued binomial moment formula, certified per point by the `interval` tactic (kernel-checked enclosure); (b) fractional orders: monotone sandwich between the '
        'neighbouring integer orders; (c) get_privacy_spent / RDPAccountant.get_epsilon on heterogeneous histories vs recomputation from certified RDP values; '
        'non-trivial = 0 < q < 1 and sigma > 0; distinct by canonical JSON')
ASSUMPTIONS = ['A_alpha is the Renyi moment of the Poisson-subsampled Gaussian mechanism in the worse direction (Mironov, Talwar, Zhang 2019; cited)',
               'the continuous version of the RDP->DP conversion (proved here for finite distributions)', 'Coq Interval library (reflexive, kernel-checked)']
TRUSTED = ['printing of Python floats into Coq real literals (decimal repr)']


def expr(q, s, a):
    terms = ['%d * (1 - %r)^%d * %r^%d * exp(%d / (2 * %r * %r))' % (math.comb(a, k), q, a - k, q, k, k * k - k, s, s) for k in range(a + 1)]
    return 'ln (' + ' + '.join(terms) + ') / %d' % (a - 1)


def certify(ctx, pts, vals, tag):
    """one Goal per point, proved by interval; returns index of the first point that fails to certify (or None)"""
    lines = ['From Coq Require Import Reals.', 'From Interval Require Import Tactic.', 'Open Scope R_scope.']
    for i, ((q, s, a), v) in enumerate(zip(pts, vals)):
        lines.append('Goal Rabs (%s - %r) <= %r. Proof. interval with (i_prec 90). Qed. (* point %d *)' % (expr(q, s, a), v, 1e-9 * (1 + abs(v)), i))
    rc, out = vlib.coq_eval('cases_%s_%d' % (tag, ctx.seed % 100000), '', '\n'.join(lines), timeout=1500)
    if rc == 0:
        return None, ''
    import re
    m = re.search(r'line (\d+)', out)
    return (int(m.group(1)) - 4 if m else 0), out[-400:]


def run(ctx, gen_status):
    vlib.check_property_file(ctx, 'C06', gen_status, GENS)
    r = ctx.rng
    pts = []
    for _ in range(ctx.n(40, 600)):
        q = r.choice([1e-4, 0.001, 0.01, 0.04, 0.1, 0.3, 0.5, 0.9, 0.99, round(r.uniform(0.001, 0.6), 4)])
        s = r.choice([0.3, 0.5, 0.8, 1.0, 1.5, 3.0, 10.0, round(r.uniform(0.4, 4), 3)])
        a = r.choice([2, 3, 4, 5, 8, 12, 16, 24, 32, 48, 63])
        if (a * a) / (2 * s * s) > 600:      # e^{..} beyond binary64: the code returns inf there
            continue
        pts.append((q, s, a))
    frac = [(q, s, a + f) for (q, s, a) in pts[:ctx.n(20, 200)] if a < 11 for f in (0.3, 0.7)]
    hists = []
    for _ in range(ctx.n(20, 300)):
        h = [[r.choice([0.8, 1.0, 1.3, 2.0]), r.choice([0.01, 0.05, 0.2]), r.randint(1, 200)] for _ in range(r.randint(1, 4))]
        hists.append({'acc': 'rdp', 'hist': h, 'delta': r.choice([1e-5, 1e-6, 1e-3]), 'kw': {'alphas': [2, 3, 4, 5, 6, 8, 12, 16, 24, 32]}})
    py = vlib.run_impl('rdp_values.py', {'rdp1': [list(p) for p in pts] + [list(p) for p in frac] + [[q, s, math.floor(a)] for q, s, a in frac] + [[q, s, math.ceil(a)] for q, s, a in frac],
                                         'eps': hists,
                                         'rdp_steps': [[h[1], h[0], h[2], c['kw']['alphas']] for c in hists for h in c['hist']]}, timeout=3600)
    vals = py['rdp1'][:len(pts)]
    for p_, v in zip(pts, vals):
        ctx.case({'q': p_[0], 'sigma': p_[1], 'alpha': p_[2]}, kind='int-order/alpha%d' % p_[2], nontrivial=0 < p_[0] < 1)
    bad, msg = certify(ctx, pts, vals, 'c06')
    ctx.traces += len(pts)
    if bad is not None:
        i = max(0, min(bad, len(pts) - 1))
        ctx.fail('rdp-value-outside-certified-enclosure', '_compute_rdp%s = %r is not within 1e-9 of the certified real value (%s)' % (pts[i], vals[i], msg[-150:]),
                 {'q': pts[i][0], 'sigma': pts[i][1], 'alpha': pts[i][2]})
    ctx.obligation('certificate:rdp-integer-orders', bad is None, '' if bad is None else 'interval certificate failed at point %s' % (pts[max(0, min(bad, len(pts) - 1))],))
    # fractional orders: sandwich
    nf = len(frac)
    fv = py['rdp1'][len(pts):len(pts) + nf]
    lo = py['rdp1'][len(pts) + nf:len(pts) + 2 * nf]
    hi = py['rdp1'][len(pts) + 2 * nf:len(pts) + 3 * nf]
    for (q, s, a), v, l, h in zip(frac, fv, lo, hi):
        ctx.case({'q': q, 'sigma': s, 'alpha': a}, kind='frac-order')
        tol = 1e-7 * (1 + abs(h))
        if not (l - tol <= v <= h + tol):
            ctx.fail('rdp-fractional-order-not-between-integers', 'RDP at order %r is %r, outside [%r, %r] given by the neighbouring integer orders' % (a, v, l, h), {'q': q, 'sigma': s, 'alpha': a})
    # epsilon from certified RDP values
    k = 0
    for c, e in zip(hists, py['eps']):
        al = c['kw']['alphas']
        tot = [0.0] * len(al)
        for h in c['hist']:
            row = py['rdp_steps'][k]
            k += 1
            tot = [t + x for t, x in zip(tot, row)]
        cand = [t - (math.log(c['delta']) + math.log(a)) / (a - 1) + math.log((a - 1) / a) for t, a in zip(tot, al)]
        want = min(cand)
        ctx.case(c, kind='epsilon')
        if isinstance(e, str) or abs(e - want) > 1e-9 * (1 + abs(want)):
            ctx.fail('epsilon-not-min-over-orders', 'get_epsilon = %r, min over orders of the conversion formula = %r' % (e, want), c)
        elif e < want - 1e-9:
            ctx.fail('epsilon-under-reported', 'reported %r < %r' % (e, want), c)
    reuse_cases(ctx, ctx.n(8, 100))


def reuse_cases(ctx, n):
    """never under-report also through an accountant OBJECT that was queried before and then given another history"""
    r = ctx.rng
    cases = []
    for _ in range(n):
        k = r.randint(2, 4)
        h1 = [[r.choice([0.7, 1.1, 1.5, 2.5]), r.choice([0.01, 0.02]), r.randint(5, 300)] for _ in range(k)]
        h2 = [[r.choice([0.7, 1.1, 1.5, 2.5]), r.choice([0.01, 0.02]), r.randint(5, 300)] for _ in range(k + r.randint(0, 1))]
        cases.append({'kind': 'reuse', 'acc': 'rdp', 'h1': h1, 'h2': h2, 'd1': 1e-5, 'via': r.choice(['load', 'assign']), 'more': r.choice([0, 5])})
    res = vlib.run_impl('acc_meta.py', {'cases': cases})['results']
    for c, rr in zip(cases, res):
        ctx.case(c, kind='reused-accountant')
        if rr.get('error'):
            ctx.fail('rdp-harness-error', rr['error'], c)
        elif rr['b'] < rr['a'] - 1e-9 * (1 + abs(rr['a'])) or rr['b2'] < rr['a2'] - 1e-9 * (1 + abs(rr['a2'])):
            ctx.fail('epsilon-under-reported', 'a re-used RDPAccountant reports %r (then %r) for a history whose epsilon is %r (then %r)' % (rr['b'], rr['b2'], rr['a'], rr['a2']), c)
        elif abs(rr['b'] - rr['a']) > 1e-9 * (1 + abs(rr['a'])) or abs(rr['b2'] - rr['a2']) > 1e-9 * (1 + abs(rr['a2'])):
            ctx.fail('epsilon-not-a-function-of-history', 'a re-used RDPAccountant reports %r / %r, a fresh one %r / %r' % (rr['b'], rr['b2'], rr['a'], rr['a2']), c)


def search(ctx):
    reuse_cases(ctx, 20)


def replay_case(ctx, failure):
    c = failure['case']
    if 'alpha' in c and float(c['alpha']).is_integer():
        v = vlib.run_impl('rdp_values.py', {'rdp1': [[c['q'], c['sigma'], int(c['alpha'])]]})['rdp1'][0]
        bad, msg = certify(ctx, [(c['q'], c['sigma'], int(c['alpha']))], [v], 'c06r')
        return bad is None, msg or 'holds'
    return True, 'replay by re-running the check with the same seed'
