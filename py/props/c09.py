"""C09 -- Poisson sampling: independent inclusion at the accounted rate, empties kept."""
import math
import struct
from py import vlib

GENS = ['Engine', 'SamplerPins']
RULE = ('(a) real UniformWithReplacementSampler / DistributedUniformWithReplacementSampler (world sizes 1..4, patched rank) with torch.rand fed from a '
        'generated float32 stream incl. values equal / adjacent to the threshold: yielded index lists vs the Coq model (exact); (b) DPDataLoader.from_data_loader '
        'over dataset sizes, loader lengths (incl. 93, 99, 105 ...) and element structures: batches per epoch = len(loader), empties kept with right shape/dtype, '
        'engine sample rate = sampler rate = accounted rate, expected batch size; non-trivial = some batch non-empty and some index excluded')
ASSUMPTIONS = ['torch.rand yields i.i.d. uniforms (modelled, not verified)', 'torch compares a float32 tensor with a Python float after rounding the scalar to float32']
TRUSTED = ['Exec/RunSampler.v runner', 'stand-in for torch.rand feeding chosen uniforms', 'patched torch.distributed.get_rank/get_world_size']


def f32(x):
    return struct.unpack('f', struct.pack('f', x))[0]


def rows(r, q, n, k):
    q32 = f32(q)
    out = []
    for _ in range(k):
        row = []
        for _ in range(n):
            t = r.random()
            if t < 0.1:
                row.append(q32)
            elif t < 0.2:
                row.append(f32(math.nextafter(q32, 0.0)))
            elif t < 0.25:
                row.append(f32(math.nextafter(q32, 1.0)))
            else:
                row.append(f32(r.random()))
        out.append(row)
    return out


def fl(x):
    return vlib.fhex(x)


def run(ctx, gen_status):
    vlib.check_property_file(ctx, 'C09', gen_status, GENS)
    r = ctx.rng
    uni, dist, loader = [], [], []
    for _ in range(ctx.n(150, 1500)):
        n = r.randint(1, 12)
        q = r.choice([0.0, 0.1, 0.25, 1 / 3, 0.5, 1 / 93, 0.9, 1.0, r.random()])
        k = r.randint(0, 4)
        uni.append({'N': n, 'q': q, 'steps': k, 'us': rows(r, q, n, k)})
    for _ in range(ctx.n(60, 600)):
        W = r.randint(1, 4)
        n = r.randint(W, 14)
        q = r.choice([0.1, 0.3, 0.5, 0.8, r.random()])
        k = r.randint(1, 3)
        us = []
        for rank in range(W):
            ns = n // W + (1 if rank < n % W else 0)
            us.append(rows(r, q, ns, k))
        dist.append({'N': n, 'q': q, 'steps': k, 'W': W, 'us': us})
    for L in [1, 2, 3, 7, 31, 93, 99, 105, 117][:ctx.n(6, 9)]:
        for kind in ['single', 'pair', 'scalar_label', 'triple']:
            loader.append({'N': L * r.choice([1, 2]) if L < 40 else L, 'bs': 1 if L >= 40 else r.choice([1, 2]), 'kind': kind, 'seed': r.randint(0, 999)})
    loader = [c for c in loader if c['N'] <= 240]
    # loader lengths L with fl(1/L) * (B * L) < B in binary64: the expected batch size must still be B
    loader += [{'N': 49, 'bs': 1, 'kind': 'single', 'seed': r.randint(0, 999)}, {'N': 98, 'bs': 2, 'kind': 'pair', 'seed': r.randint(0, 999)}]
    # the original loader drops its last incomplete batch: the private loader has len(original) batches, rate 1/len(original)
    for N, bs in ((50, 8), (23, 5), (10, 3), (9, 4)):
        loader.append({'N': N, 'bs': bs, 'kind': 'single', 'seed': r.randint(0, 999), 'drop_last': True})
    for c in loader:
        if r.random() < 0.4:
            c['abandon'] = r.randint(2, 4)
    # the distributed Poisson loader must take len(loader) steps per epoch too (loader lengths where int(1/(1/L)) != L included)
    for L in (93, 99, 105, 7, 12):
        for W in (2, 3):
            loader.append({'N': L, 'bs': 1, 'kind': 'single', 'seed': r.randint(0, 999), 'W': W, 'rank': r.randrange(W)})
    # element structures: the empty batch must look like a non-empty one (tuple / bare tensor / dict / nested / numpy / strings)
    struct = [{'N': r.choice([3, 4, 6]), 'bs': r.choice([1, 2]), 'kind': kind, 'seed': r.randint(0, 999)}
              for kind in ['single', 'pair', 'scalar_label', 'triple', 'bare', 'dict', 'nested', 'numpy', 'strings', 'cls', 'dc', 'lens', 'npcollate'] for _ in range(ctx.n(1, 4))]
    def rand_spec(depth):
        k = r.choice(['T', 'T', 'M', 'Q', 'Q', 'S', 'L']) if depth < 3 else r.choice(['T', 'S', 'L'])
        if k == 'T':
            return ['T', [r.randint(1, 3) for _ in range(r.randint(0, 2))], r.randrange(6)]
        if k == 'M':
            return ['M', [['k%d' % i, rand_spec(depth + 1)] for i in range(r.randint(1, 3))]]
        if k == 'Q':
            tag = r.choice([0, 1, 2])
            items = [rand_spec(depth + 1) for _ in range(r.randint(1, 3))]
            if tag != 2 and all(it[0] == 'S' for it in items):      # a plain sequence of sequences is fine, a sequence of bare strings is the S case
                items.append(['T', [], 2])
            return ['Q', tag, items]
        if k == 'S':
            return ['S', r.choice([0, 1])]
        return ['L', r.randrange(3)]
    trees = [{'spec': rand_spec(0), 'n': r.randint(1, 3)} for _ in range(ctx.n(150, 1500))]
    res = vlib.run_impl('sampler_cases.py', {'uniform': uni, 'dist': dist, 'loader': loader, 'struct': struct, 'tree': trees,
                                             'dtypes': ['float32', 'float64', 'float16', 'bfloat16']}, timeout=3600)
    # the inclusion probability is q whatever the process-wide default dtype: the uniform draws have at least binary32 resolution
    for d in res['dtypes']:
        case = {'default_dtype': d['default']}
        ctx.case(case, nontrivial=d['default'] in ('float16', 'bfloat16'), kind='draw-dtype/' + d['default'])
        coarse = [x for x in d['draws'] if x not in ('float32', 'float64')]
        if coarse or len(d['draws']) != 4:
            ctx.fail('mask-draw-resolution', 'default dtype %s: the Poisson masks are drawn in %s (%d draws): indices are included with probability q rounded up to that grid, not q'
                     % (d['default'], sorted(set(d['draws'])), len(d['draws'])), case)
    items = ['(%s, %s)' % (t['input'], t['output']) for t in res['tree']]
    hdr = 'From Coq Require Import List String Arith.\nFrom OV Require Import Model.Batch Exec.RunBatch.\nImport ListNotations.\n'
    body = 'Definition cases : list (btree * btree) := [\n ' + ';\n '.join(items) + '\n].\nEval vm_compute in (bad_batch 0 cases).\n'
    with vlib.CoqLock():
        ok, out = vlib.coq_make(['Exec/RunBatch.vo'])
        rc, out = vlib.coq_eval('cases_c09t_%d' % (ctx.seed % 100000), hdr, body) if ok else (1, out)
    lists = vlib.parse_eval_lists(out)
    ctx.traces += len(items)
    for t in trees:
        ctx.case(t, nontrivial=t['spec'][0] in ('M', 'Q'), kind='empty-like/%s' % t['spec'][0])
    if rc != 0 or len(lists) != 1:
        ctx.obligation('correspondence:empty-like-batch(model=impl)', False, 'case file failed: ' + out[-500:])
    else:
        ctx.obligation('correspondence:empty-like-batch(model=impl)', not lists[0],
                       '' if not lists[0] else 'empty_like_batch differs from Model/Batch.empty_like on %s' % [trees[i] for i in lists[0][:2]])
        for i in lists[0][:1]:
            ctx.fail('empty-like-model-vs-impl', 'empty_like_batch(%s) = %s differs from the model' % (res['tree'][i]['input'], res['tree'][i]['output']), trees[i])
    for c, rr in zip(struct, res['struct']):
        ctx.case(c, nontrivial=rr.get('empties', 0) > 0, kind='struct/%s' % c['kind'])
        if rr.get('error'):
            ctx.fail('empty-batch-structure', 'element structure %s: the loader raised: %s' % (c['kind'], rr['error']), c)
        elif rr.get('bad'):
            ctx.fail('empty-batch-structure', 'element structure %s: %s' % (c['kind'], rr['bad']), c)
        elif rr['batches'] != 3 * rr['L']:
            ctx.fail('batches-per-epoch', 'three epochs delivered %d batches, len(loader) = %d' % (rr['batches'], rr['L']), c)
    # ---- direct oracle on the implementation
    for c, rr in zip(uni, res['uniform']):
        ctx.case(c, nontrivial=any(rr['batches']) and any(len(b) < c['N'] for b in rr['batches']), kind='uniform')
        if len(rr['batches']) != c['steps'] or rr['len'] != c['steps']:
            ctx.fail('batches-per-epoch', 'sampler yielded %d batches, len() says %d, steps %d' % (len(rr['batches']), rr['len'], c['steps']), c)
        for b, us in zip(rr['batches'], c['us']):
            want = [i for i, u in enumerate(us) if u < rr['q32']]
            if b != want:
                ctx.fail('inclusion-rule', 'batch %s, but u_i < q selects %s' % (b, want), c)
                break
    for c, rr in zip(dist, res['dist']):
        ctx.case(c, nontrivial=True, kind='dist/W%d' % c['W'])
        seen = []
        for rank, rk in enumerate(rr['ranks']):
            shard = list(range(c['N']))[rank::c['W']]
            if rk['num_samples'] != len(shard):
                ctx.fail('shard-size', 'rank %d has %d samples, expected %d' % (rank, rk['num_samples'], len(shard)), c)
            if len(rk['batches']) != c['steps']:
                ctx.fail('distributed-drops-batches', 'rank %d yielded %d batches for %d steps (an empty batch was dropped?)' % (rank, len(rk['batches']), c['steps']), c)
                break
            for b, us in zip(rk['batches'], c['us'][rank]):
                want = [shard[i] for i, u in enumerate(us) if u < rr['q32']]
                if b != want:
                    ctx.fail('inclusion-rule-distributed', 'rank %d batch %s, expected %s' % (rank, b, want), c)
                    break
            seen.append(set(shard))
        if seen and (set().union(*seen) != set(range(c['N'])) or sum(len(s) for s in seen) != c['N']):
            ctx.fail('shards-not-partition', 'shards do not partition the dataset', c)
    for c, rr in zip(loader, res['loader']):
        ctx.case(c, nontrivial=True, kind='loader/%s' % c['kind'])
        if rr['len_dp'] != rr['L']:
            ctx.fail('loader-length', 'len(DP loader) = %d but the original loader has %d batches' % (rr['len_dp'], rr['L']), c)
        if rr['rate'] != 1 / rr['L']:
            ctx.fail('loader-rate', 'sampler rate %r != 1/len(loader) %r' % (rr['rate'], 1 / rr['L']), c)
        for ep in rr['epochs']:
            if ep['batches'] != rr['L']:
                ctx.fail('batches-per-epoch', 'an epoch delivered %d batches, len(loader) = %d' % (ep['batches'], rr['L']), c)
            if ep['bad']:
                ctx.fail('empty-batch-shape', ep['bad'], c)
        e = rr.get('engine')
        if e:
            if e['accounted'] and e['accounted'] != [e['sampler_rate']]:
                ctx.fail('rate-consistency', 'sampler uses %r, accountant was handed %s' % (e['sampler_rate'], e['accounted']), c)
            if e['steps'] != rr['L']:
                ctx.fail('batches-per-epoch', 'engine epoch took %d steps, loader length %d' % (e['steps'], rr['L']), c)
            if e['ebs'] != c['N'] // e['len']:
                ctx.fail('expected-batch-size', 'expected_batch_size %r is not the integer part of q * N = N / len = %r' % (e['ebs'], c['N'] // e['len']), c)
    # ---- model correspondence (exact)
    with vlib.CoqLock():
        ok, out = vlib.coq_make(['Exec/RunSampler.vo'])
    if not ok:
        ctx.obligation('correspondence:sampler-model', False, 'runner does not build: ' + vlib.first_error(out))
        return
    zl = lambda l: '[' + '; '.join('(%d)%%Z' % x for x in l) + ']'
    items = ['(%s, [%s], [%s])' % (fl(rr['q32']), '; '.join('[' + '; '.join(fl(u) for u in row) + ']' for row in c['us']), '; '.join(zl(b) for b in rr['batches']))
             for c, rr in zip(uni, res['uniform']) if len(rr['batches']) == c['steps']]
    ditems = []
    for c, rr in zip(dist, res['dist']):
        for rank, rk in enumerate(rr['ranks']):
            if len(rk['batches']) == c['steps']:
                ditems.append('(%s, %d%%nat, %d%%nat, %d%%Z, [%s], [%s])' % (fl(rr['q32']), rank, c['W'], c['N'],
                              '; '.join('[' + '; '.join(fl(u) for u in row) + ']' for row in c['us'][rank]), '; '.join(zl(b) for b in rk['batches'])))
    header = ('From Coq Require Import ZArith List Floats.PrimFloat.\nFrom OV Require Import Base.Num Base.NumF Base.Py Model.Sampler Exec.RunSampler.\n'
              'Import ListNotations.\nOpen Scope float_scope.\n')
    body = ('Definition ucases : list (float * list (list float) * list (list Z)) := [\n ' + ';\n '.join(items) + '\n].\n'
            'Definition dcases : list (float * nat * nat * Z * list (list float) * list (list Z)) := [\n ' + ';\n '.join(ditems) + '\n].\n'
            'Eval vm_compute in (bad_of uni_ok 0 ucases).\nEval vm_compute in (bad_of dist_ok 0 dcases).\n')
    rc, out = vlib.coq_eval('cases_c09_%d' % (ctx.seed % 100000), header, body)
    lists = vlib.parse_eval_lists(out)
    if rc != 0 or len(lists) != 2:
        ctx.obligation('correspondence:sampler-model', False, 'case file failed: ' + out[-600:])
        return
    ctx.traces += len(items) + len(ditems)
    ctx.obligation('correspondence:sampler-model', not lists[0] and not lists[1],
                   '' if not (lists[0] or lists[1]) else 'sampler model and implementation differ: uniform cases %s, distributed cases %s' % (lists[0][:5], lists[1][:5]))


def search(ctx):
    return


def replay_case(ctx, failure):
    return True, 'replay by re-running the check with the same seed'
