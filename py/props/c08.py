"""C08 -- calibrated noise never overshoots the requested (epsilon, delta) budget."""
from py import vlib

GENS = ['Calib', 'Engine', 'SamplerPins']
RULE = ('(a) synthetic-accountant cases: get_noise_multiplier with eps(sigma)=a/sigma^2+b/sigma vs the generated search on binary64 in Coq (bit-exact sigma); '
        '(b) direct cases: real rdp/gdp/prv accountants, steps given or derived from epochs, loader lengths incl. those with int(e/(1/L)) != e*L: epsilon at the '
        'true step count vs target and tolerance; (c) engine cases: make_private_with_epsilon + training for the declared epochs, engine.get_epsilon <= target; '
        'non-trivial = the search ran its bisection loop; distinct by canonical JSON')
ASSUMPTIONS = ['the accountant is deterministic (same history -> same epsilon)']
TRUSTED = ['Exec/RunCalib.v runner', 'synthetic accountant stand-in']
FLAGGED = [(75, 3), (77, 3), (91, 5), (93, 1), (93, 2), (99, 1), (105, 2)]


def run_direct(ctx, n):
    r = ctx.rng
    cases = []
    for (L, e) in FLAGGED[:ctx.n(4, 7)]:
        for te in ([3.0] if not ctx.thorough else [1.0, 3.0, 8.0]):
            cases.append({'L': L, 'epochs': e, 'target': te, 'delta': 1e-5, 'tol': 0.01, 'acc': 'rdp', 'by': 'epochs'})
            cases.append({'L': L, 'epochs': e, 'target': te, 'delta': 1e-5, 'tol': 0.01, 'acc': 'rdp', 'by': 'steps'})
    for _ in range(n):
        cases.append({'L': r.randint(2, 300), 'epochs': r.choice([1, 2, 3, 5, 10]), 'target': r.choice([0.3, 1.0, 2.0, 5.0, 10.0]),
                      'delta': r.choice([1e-5, 1e-6, 1e-3]), 'tol': r.choice([0.01, 0.05]), 'acc': r.choice(['rdp', 'rdp', 'gdp', 'prv']), 'by': r.choice(['steps', 'epochs'])})
    # non-default accountant options passed through the calibration
    for _ in range(max(3, n // 10)):
        acc = r.choice(['rdp', 'gdp'])
        opts = {'alphas': [2, 3, 4, 6, 8, 16, 32, 64]} if acc == 'rdp' else {'poisson': False}
        cases.append({'L': r.randint(5, 100), 'epochs': r.choice([1, 2, 4]), 'target': r.choice([1.0, 3.0, 8.0]), 'delta': 1e-5, 'tol': 0.01, 'acc': acc, 'by': 'steps', 'opts': opts})
    for c in cases:
        if c['by'] == 'steps' and r.random() < 0.4:
            c['prewarm'] = r.choice([0.5, 1.0])
    res = vlib.run_impl('calib_cases.py', {'direct': cases}, timeout=7200)['direct']
    for c, rr in zip(cases, res):
        ctx.case(c, nontrivial=True, kind='direct/%s/%s' % (c['acc'], c['by']))
        if rr['error']:
            if 'budget is too low' in rr['error'] or rr['error'].startswith('ValueError') or rr['error'].startswith('AssertionError'):
                ctx.dist['direct/raised'] = ctx.dist.get('direct/raised', 0) + 1     # the search / accountant raised: the error outcome
                continue
            ctx.fail('calib-harness-error', rr['error'], c)
            continue
        slack = 0.02 if c['acc'] == 'prv' else 1e-9      # the PRV accountant's own eps_error
        if rr['eps'] > c['target'] + slack:
            key = 'calibration-steps-float' if (c['by'] == 'epochs' and rr['assumed_steps'] != rr['true_steps']) else 'epsilon-overshoot'
            ctx.fail(key, 'sigma=%r gives epsilon %.6f > target %.3f at the %d steps training takes (calibrated for %d)'
                     % (rr['sigma'], rr['eps'], c['target'], rr['true_steps'], rr['assumed_steps'] if c['by'] == 'epochs' else rr['true_steps']), c)
        elif c['by'] == 'steps' and c['target'] - rr['eps'] > c['tol'] + slack + 1e-9:
            ctx.fail('epsilon-too-far-below', 'epsilon %.6f is more than the tolerance %.3f below the target %.3f' % (rr['eps'], c['tol'], c['target']), c)


def run_engine(ctx, n):
    r = ctx.rng
    cases = [{'L': L, 'bs': 2, 'epochs': e, 'target': 3.0, 'delta': 1e-5, 'acc': 'rdp', 'poisson': True} for (L, e) in FLAGGED[:n]]
    cases += [{'L': r.randint(2, 40), 'bs': 2, 'epochs': r.choice([1, 2, 3]), 'target': r.choice([1.0, 4.0]), 'delta': 1e-5, 'acc': r.choice(['rdp', 'gdp']),
               'poisson': r.random() < 0.6} for _ in range(n)]
    res = vlib.run_impl('calib_cases.py', {'engine': cases}, timeout=7200)['engine']
    for c, rr in zip(cases, res):
        ctx.case(c, nontrivial=True, kind='engine/%s' % c['acc'])
        if rr['error']:
            if 'budget is too low' in rr['error'] or rr['error'].startswith('ValueError'):
                # the search or the accountant raised (e.g. the GDP root finder has no bracket for the small sigmas the bisection probes):
                # nothing was calibrated, nothing can overshoot -- the error outcome, as in the direct cases
                ctx.dist['engine/raised'] = ctx.dist.get('engine/raised', 0) + 1
                continue
            ctx.fail('calib-harness-error', rr['error'], c)
        elif rr['eps'] > c['target'] + 1e-9:
            ctx.fail('engine-epsilon-overshoot', 'after %d epochs (%d steps, loader length %d) epsilon = %.6f > target %.3f' % (c['epochs'], rr['steps'], rr['len'], rr['eps'], c['target']), c)
        elif rr['steps'] != c['epochs'] * c['L']:
            ctx.fail('engine-step-count', 'training took %d steps, calibration assumed %d' % (rr['steps'], c['epochs'] * c['L']), c)


def run(ctx, gen_status):
    vlib.check_property_file(ctx, 'C08', gen_status, GENS)
    r = ctx.rng
    syn = [{'a': r.choice([0.5, 2.0, 10.0, 100.0]), 'b': r.choice([0.0, 0.3, 5.0]), 'target': r.choice([0.01, 0.1, 1.0, 3.0, 8.0]), 'tol': r.choice([0.01, 0.001, 0.1])}
           for _ in range(ctx.n(200, 2000))]
    sres = vlib.run_impl('calib_cases.py', {'synthetic': syn})['synthetic']
    with vlib.CoqLock():
        ok, out = vlib.coq_make(['Exec/RunCalib.vo'])
    if not ok:
        ctx.obligation('correspondence:calibration-search', False, 'runner does not build: ' + vlib.first_error(out))
    else:
        items = []
        for c, rr in zip(syn, sres):
            ctx.case(c, kind='synthetic')
            want = float.fromhex(rr['sigma']) if rr.get('sigma') else -1.0
            items.append('(%s, %s, %s, %s, %s)' % (vlib.fhex(c['a']), vlib.fhex(c['b']), vlib.fhex(c['target']), vlib.fhex(c['tol']), vlib.fhex(want)))
        header = 'From Coq Require Import ZArith List Floats.PrimFloat.\nFrom OV Require Import Base.Num Base.NumF Base.Py Gen.Calib Exec.RunCalib.\nImport ListNotations.\nOpen Scope float_scope.\n'
        body = 'Definition cases : list (float * float * float * float * float) := [\n ' + ';\n '.join(items) + '\n].\nEval vm_compute in (bad_calib 0 cases).\n'
        rc, out = vlib.coq_eval('cases_c08_%d' % (ctx.seed % 100000), header, body)
        lists = vlib.parse_eval_lists(out)
        good = rc == 0 and len(lists) == 1 and not lists[0]
        ctx.traces += len(items)
        ctx.obligation('correspondence:calibration-search', good, '' if good else 'generated search and get_noise_multiplier differ: %s %s' % (lists[:1], out[-300:]))
    run_direct(ctx, ctx.n(12, 200))
    run_engine(ctx, ctx.n(3, 7))


def search(ctx):
    if any(f['key'] != 'calibration-steps-float' for f in ctx.failures):
        return
    run_direct(ctx, 60)


def replay_case(ctx, failure):
    c = failure['case']
    n0 = len(ctx.failures)
    if 'by' in c:
        rr = vlib.run_impl('calib_cases.py', {'direct': [c]})['direct'][0]
        if not rr['error'] and rr['eps'] > c['target'] + 1e-9:
            ctx.fail('epsilon-overshoot', 'epsilon %.6f > target' % rr['eps'], c)
    return len(ctx.failures) == n0, ctx.failures[n0:] or 'holds'
