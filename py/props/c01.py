"""C01 -- per-sample gradients equal the gradient of each sample taken alone."""
from py import vlib

GENS = ['GradSample']
RULE = ('(a) architectures from templates (mlp rank 2-4, batch-second mlp, conv1d/2d/3d with stride / padding incl. "same" / dilation / groups + GroupNorm / InstanceNorm, '
        'Embedding(padding_idx)+LayerNorm, EmbeddingBag (sum / mean / max, repeated indices, padding index), DPLSTM / DPGRU / DPRNN padded and packed (sorted / unsorted), DPMultiheadAttention both layouts, '
        'a custom layer, tied + frozen parameters) x {hooks, functorch, ew} x {mean, sum} x batch sizes 0-4, generic random cotangent: p.grad_sample[i] vs autograd on sample i alone '
        'through an unwrapped copy (1e-8), sum over samples vs batch gradient, nothing on frozen parameters; a mode that raises on a model is counted as not accepting it; '
        '(b) the registered Linear / RNNLinear / Embedding samplers called on small-integer tensors vs the model formulas evaluated on Z in Coq (exact); '
        'non-trivial = batch size >= 2 and the mode accepts the model; distinct by canonical JSON')
ASSUMPTIONS = ['autograd delivers dLoss/doutput to backward hooks and is linear (chain rule)', 'torch.func vmap(grad) and ExpandedWeights are torch code',
               'conv samplers = Linear formula over torch.unfold patches (unfold is a torch kernel)', 'normalised activations F.*_norm do not depend on the affine parameters']
TRUSTED = ['architecture templates and the single-sample reference in py/harness/gs_runs.py']


def gen(ctx, n):
    r = ctx.rng
    cases = []

    def add(tpl, a, **kw):
        mode = kw.pop('mode', None) or r.choice(['hooks', 'hooks', 'functorch', 'ew'])
        cases.append(dict({'seed': r.randint(0, 10**6), 'tpl': tpl, 'a': a, 'mode': mode, 'red': r.choice(['mean', 'sum']), 'B': r.choice([0, 1, 2, 3, 4])}, **kw))
    for _ in range(n):
        k = r.randrange(12)
        if k == 0:
            add('mlp', {'d': r.randint(1, 4), 'h': r.randint(1, 4), 'o': r.randint(1, 3), 'bias': r.random() < 0.7, 'mid': [r.randint(1, 3) for _ in range(r.randint(0, 2))]},
                scale=r.choice([1.0, 10.0]))
        elif k == 1:
            add('mlp_bs', {'d': r.randint(1, 4), 'h': r.randint(1, 4), 'o': r.randint(1, 3), 'T': r.randint(1, 4)}, mode=r.choice(['hooks', 'functorch']))
        elif k in (2, 3, 4):
            nd = k - 1
            groups = r.choice([1, 1, 2])
            cin, cout = groups * r.randint(1, 2), groups * r.randint(1, 2)
            if nd > 1 and r.random() < 0.6:        # anisotropic kernels / dilations
                ksz = [r.randint(1, 3) for _ in range(nd)]
                dil = [r.randint(1, 2) for _ in range(nd)]
                size = max((k_ - 1) * d_ + 1 for k_, d_ in zip(ksz, dil)) + r.randint(0, 3)
            else:
                ksz, dil = r.randint(1, 3), r.randint(1, 2)
                size = (ksz - 1) * dil + 1 + r.randint(0, 3)
            pad = r.choice([0, 1, 2, 'same', 'same', 'valid'])
            stride = 1 if pad == 'same' else r.randint(1, 3)
            add('conv%d' % nd, {'cin': cin, 'cout': cout, 'k': ksz, 'stride': stride, 'pad': pad, 'dil': dil, 'groups': groups, 'bias': r.random() < 0.7,
                               'norm': r.choice(['gn', 'in', 'none']), 'gn_groups': r.choice([1, cout]), 'size': size, 'o': 2, 'eps': r.choice([1e-5, 1e-5, 1e-2, 0.5])})
            # the same convolution on an input stored in another memory layout
            add('conv%d' % nd, {'cin': cin, 'cout': cout, 'k': ksz, 'stride': stride, 'pad': pad, 'dil': dil, 'groups': groups, 'bias': r.random() < 0.7,
                               'norm': r.choice(['gn', 'none']), 'gn_groups': 1, 'size': size + 1, 'o': 2, 'layout': r.choice(['channels_last', 'transposed'])})
            # non-zero padding modes: the layer pads its own input (reflect needs pad < size)
            pm = r.choice(['circular', 'reflect', 'replicate'])
            ipad = r.choice([1, 2, 'same']) if (isinstance(ksz, int) and (ksz - 1) * dil >= 1) else 1
            if pm == 'reflect' and (ipad == 'same' or ipad >= size):
                ipad = 1 if size > 1 else 0
            add('conv%d' % nd, {'cin': cin, 'cout': cout, 'k': ksz, 'stride': 1 if ipad == 'same' else stride, 'pad': ipad, 'dil': dil, 'groups': groups, 'bias': r.random() < 0.7,
                               'norm': 'none', 'gn_groups': 1, 'size': size + 1, 'o': 2, 'pmode': pm})
        elif k == 5:
            V = r.randint(3, 7)
            add('emb', {'V': V, 'd': r.randint(1, 3), 'pad': r.choice([None, 0, V - 1, 1]), 'o': 2, 'n': r.randint(2, 4)})
            add('emb', {'V': V, 'd': r.randint(1, 3), 'pad': r.choice([None, 0]), 'o': 2, 'n': r.randint(2, 4), 'freq': r.random() < 0.6, 'ln_bias': r.random() < 0.5, 'eps': r.choice([1e-5, 1e-2, 0.5])})
        elif k == 6:
            add('bag', {'V': r.randint(3, 6), 'd': r.randint(1, 3), 'o': 2, 'n': r.randint(2, 4), 'mode': r.choice(['sum', 'mean']), 'dup': r.random() < 0.6}, mode='hooks')
            Vb = r.randint(3, 6)
            add('bag', {'V': Vb, 'd': r.randint(1, 3), 'o': 2, 'n': r.randint(1, 4), 'mode': r.choice(['sum', 'mean', 'max']), 'dup': r.random() < 0.5,
                        'pad': r.choice([None, 0, Vb - 1])}, mode='hooks')
        elif k == 7:
            add('rnn', {'kind': r.choice(['lstm', 'gru', 'rnn']), 'D': r.randint(1, 3), 'H': r.randint(1, 3), 'layers': r.randint(1, 2), 'bidir': r.random() < 0.4,
                        'bf': r.random() < 0.5, 'o': 2, 'packed': r.random() < 0.5, 'T': r.randint(1, 4)}, mode=r.choice(['hooks', 'functorch']))
        elif k == 8:
            H = r.choice([1, 2])
            bf = r.random() < 0.5
            add('mha', {'E': H * r.randint(1, 2), 'H': H, 'bf': bf, 'o': 2, 'bkv': (not bf) and r.random() < 0.4, 'T': r.randint(1, 3)}, mode=r.choice(['hooks', 'functorch']))
        elif k == 9:
            add('custom', {'d': r.randint(1, 3), 'h': r.randint(1, 3), 'o': 2}, mode=r.choice(['hooks', 'functorch']))
        elif k == 10:
            add('tied', {'d': r.randint(1, 3), 'o': 2}, frozen=r.choice([[], ['lin.bias'], ['out.weight']]))
        else:
            add('tied_emb', {'V': r.randint(3, 7), 'd': r.randint(1, 3), 'n': r.randint(1, 3)}, mode=r.choice(['hooks', 'functorch']))
        if r.random() < 0.35 and cases[-1]['B'] > 0:
            cases[-1]['pre_B'] = cases[-1]['B'] + r.randint(1, 3)
        if r.random() < 0.3 and cases[-1]['B'] > 0:
            # an evaluation pass (eval mode, no_grad, no backward) on ANOTHER batch size before the training step; recurrent layers see it packed
            cases[-1]['pre_eval_B'] = cases[-1]['B'] + r.randint(1, 3)
    # a recurrent model evaluated on packed sequences, then trained on a padded batch of another size
    for kind in ('lstm', 'gru'):
        for red in ('mean', 'sum'):
            cases.append({'tpl': 'rnn', 'a': {'kind': kind, 'D': 2, 'H': 3, 'layers': 1, 'bidir': False, 'bf': True, 'o': 2, 'packed': False, 'T': 3}, 'B': 3, 'mode': 'hooks',
                          'red': red, 'seed': 4242, 'frozen': [], 'pre_eval_B': 5})
    return cases


def classify(c, fails, rr):
    """key of a per-sample mismatch"""
    a = c['a']
    if c['tpl'] == 'emb' and c['mode'] == 'ew' and a.get('pad') is not None and all('emb.weight' in f[1] for f in fails):
        return 'ew-embedding-padding-row'
    if c['tpl'] == 'emb' and c['mode'] == 'ew' and a.get('freq') and a.get('pad') is None and all('emb.weight' in f[1] for f in fails):
        return 'ew-embedding-scale-grad-by-freq'
    if c['tpl'] == 'rnn' and a.get('packed') and all('rnn.' in f[1] for f in fails if f[0] in ('per-sample',)) and not any(f[0] in ('sum', 'missing', 'shape', 'frozen') for f in fails):
        return 'rnn-packed-unsorted-row-order'
    return 'per-sample-gradient:' + fails[0][0]


def zl(l):
    return '[' + '; '.join('(%d)%%Z' % v for v in l) + ']'


def zll(ll):
    return '[' + '; '.join(zl(l) for l in ll) + ']'


def sampler_correspondence(ctx, n):
    r = ctx.rng
    lin = [{'seed': r.randint(0, 10**6), 'mid': [r.randint(1, 3) for _ in range(r.randint(0, 2))], 'din': r.randint(1, 4), 'dout': r.randint(1, 4), 'rnn': r.random() < 0.3} for _ in range(n)]
    emb = []
    for _ in range(n):
        V = r.randint(2, 6)
        emb.append({'seed': r.randint(0, 10**6), 'V': V, 'D': r.randint(1, 3), 'mid': [r.randint(1, 3) for _ in range(r.randint(1, 2))], 'pad': r.choice([None, 0, V - 1])})
    conv = []
    for _ in range(n):
        K_, dil = r.randint(1, 3), r.randint(1, 2)
        pad = r.choice([0, 1, 2, 'same', 'valid'])
        Lc = (K_ - 1) * dil + 1 + r.randint(0, 4)
        pm = r.choice(['zeros', 'zeros', 'circular', 'replicate', 'reflect'])
        if pm != 'zeros' and (pad == 'valid' or pad == 0):
            pad = 1
        if pm == 'reflect' and (pad == 'same' or pad >= Lc):
            pm = 'replicate'
        if pm == 'circular' and pad != 'same' and pad > Lc:
            pad = 1
        conv.append({'seed': r.randint(0, 10**6), 'G': r.choice([1, 1, 2]), 'cg': r.randint(1, 2), 'og': r.randint(1, 2), 'K': K_, 'stride': 1 if pad == 'same' else r.randint(1, 3),
                     'dil': dil, 'pad': pad, 'L': Lc, 'pmode': pm})
    bag = []
    for _ in range(n):
        V = r.randint(2, 6)
        bag.append({'seed': r.randint(0, 10**6), 'V': V, 'D': r.randint(1, 3), 'mode': r.choice(['sum', 'mean']), 'pad': r.choice([None, None, 0, V - 1]),
                    'sizes': [r.randint(0 if i else 1, 4) for i in range(r.randint(1, 3))]})
    conv2 = []
    for _ in range(max(10, n // 3)):
        Kh, Kw, dh, dw = r.randint(1, 3), r.randint(1, 3), r.randint(1, 2), r.randint(1, 2)
        pad = r.choice([(0, 0), (1, 0), (1, 2), 'same', 'valid'])
        pm = r.choice(['zeros', 'zeros', 'circular', 'replicate'])
        Hh, Ww = (Kh - 1) * dh + 1 + r.randint(0, 3), (Kw - 1) * dw + 1 + r.randint(0, 3)
        if pm != 'zeros':
            if pad in ('valid', (0, 0)):
                pad = (1, 1)
            if pad != 'same' and (pad[0] > Hh or pad[1] > Ww):
                pad = (1, 1)
        conv2.append({'seed': r.randint(0, 10**6), 'G': r.choice([1, 1, 2]), 'cg': r.randint(1, 2), 'og': r.randint(1, 2), 'K': [Kh, Kw],
                      'stride': [1, 1] if pad == 'same' else [r.randint(1, 2), r.randint(1, 3)], 'dil': [dh, dw], 'pad': pad if isinstance(pad, str) else list(pad),
                      'HW': [Hh, Ww], 'pmode': pm, 'layout': r.choice(['contiguous', 'contiguous', 'channels_last', 'transposed'])})
    res = vlib.run_impl('gs_samplers.py', {'lin': lin, 'emb': emb, 'conv': conv, 'bag': bag, 'conv2': conv2})
    c2i = ['(%d%%nat, %d%%nat, %d%%nat, %d%%nat, %d%%nat, %d%%nat, %d%%nat, (%d%%nat, %d%%nat), (%d%%nat, %d%%nat), %d%%nat, %s, %s, %s, %s)' % (
           x['Ph'], x['Pw'], c['G'] * c['og'], c['cg'], c['K'][0], c['K'][1], c['og'], c['stride'][0], c['stride'][1], c['dil'][0], c['dil'][1], x['Wp'],
           zll(x['xp']), zll(x['g']), zll(x['gw']), zl(x['gb'])) for c, x in zip(conv2, res['conv2'])]
    bi, bown = [], []
    for c, xs in zip(bag, res['bag']):
        for x in xs:
            bi.append('((%d)%%Z, %d%%nat, %d%%nat, %d%%nat, %s, %s, %s)' % (-1 if c['pad'] is None else c['pad'], x['T'], c['V'], c['D'], zl(x['idx']), zl(x['gb']), zll(x['gs'])))
            bown.append(c)
            if x['resid'] > 1e-4:
                ctx.fail('sampler-vs-model:embeddingbag', 'EmbeddingBag(mean) grad sample times the non-padding count is not an integer (%g)' % x['resid'], c)
    ci = ['(%d%%nat, %d%%nat, %d%%nat, %d%%nat, %d%%nat, %d%%nat, %d%%nat, %s, %s, %s, %s)' % (x['P'], c['G'] * c['og'], c['cg'], c['K'], c['og'], c['stride'], c['dil'],
          zll(x['xp']), zll(x['g']), zll(x['gw']), zl(x['gb'])) for c, x in zip(conv, res['conv'])]
    li = ['(%d%%nat, %d%%nat, %d%%nat, %s, %s, %s, %s)' % (x['T'], c['din'], c['dout'], zll(x['x']), zll(x['g']), zll(x['gw']), zl(x['gb'])) for c, x in zip(lin, res['lin'])]
    ei = ['((%d)%%Z, %d%%nat, %d%%nat, %d%%nat, %s, %s, %s)' % (-1 if c['pad'] is None else c['pad'], x['T'], c['V'], c['D'], zl(x['idx']), zll(x['g']), zll(x['gs'])) for c, x in zip(emb, res['emb'])]
    hdr = 'From Coq Require Import ZArith List Bool.\nFrom OV Require Import Model.Layers Exec.RunGs.\nImport ListNotations.\n'
    body = ('Definition lcases : list (nat * nat * nat * list (list Z) * list (list Z) * list (list Z) * list Z) := [\n ' + ';\n '.join(li) + '\n].\n'
            'Definition ecases : list (Z * nat * nat * nat * list Z * list (list Z) * list (list Z)) := [\n ' + ';\n '.join(ei) + '\n].\n'
            'Definition ccases : list (nat * nat * nat * nat * nat * nat * nat * list (list Z) * list (list Z) * list (list Z) * list Z) := [\n ' + ';\n '.join(ci) + '\n].\n'
            'Definition bcases : list (Z * nat * nat * nat * list Z * list Z * list (list Z)) := [\n ' + ';\n '.join(bi) + '\n].\n'
            'Eval vm_compute in (bad_idx lin_case_ok 0 lcases).\nEval vm_compute in (bad_idx emb_case_ok 0 ecases).\nEval vm_compute in (bad_idx conv_case_ok 0 ccases).\n'
            'Definition c2cases : list (nat * nat * nat * nat * nat * nat * nat * (nat * nat) * (nat * nat) * nat * list (list Z) * list (list Z) * list (list Z) * list Z) := [\n ' + ';\n '.join(c2i) + '\n].\n'
            'Eval vm_compute in (bad_idx bag_case_ok 0 bcases).\nEval vm_compute in (bad_idx conv2_case_ok 0 c2cases).\n')
    with vlib.CoqLock():
        vlib.coq_make(['Exec/RunGs.vo'])
        rc, out = vlib.coq_eval('cases_c01', hdr, body)
    lists = vlib.parse_eval_lists(out)
    if rc != 0 or len(lists) != 5:
        ctx.obligation('correspondence:grad-sampler-formulas(model=impl, exact)', False, 'case file failed: ' + out[-600:])
        return
    bad = [('linear', lin[i]) for i in lists[0]] + [('embedding', emb[i]) for i in lists[1]] + [('conv1d', conv[i]) for i in lists[2]] + [('embeddingbag', bown[i]) for i in lists[3]] + [('conv2d', conv2[i]) for i in lists[4]]
    ctx.traces += len(lin) + len(emb) + len(conv) + len(bi) + len(conv2)
    for c in lin + emb + conv + bag + conv2:
        ctx.case(c, kind='sampler-direct')
    ctx.obligation('correspondence:grad-sampler-formulas(model=impl, exact)', not bad, '' if not bad else 'sampler output differs from the model formula on %s' % bad[:2])
    for kind, c in bad[:1]:
        ctx.fail('sampler-vs-model:' + kind, 'the %s grad sampler does not compute the model formula (integer tensors, exact)' % kind, c)


def run_cases(ctx, n):
    cases = gen(ctx, n)
    res = vlib.run_impl('gs_runs.py', {'cases': cases}, timeout=7200)['results']
    rejected = {}
    for c, rr in zip(cases, res):
        acc = rr.get('accepted', False) and not rr.get('error')
        ctx.case(c, nontrivial=acc and c['B'] >= 2, kind='%s/%s%s' % (c['tpl'], c['mode'], '' if acc else '/not-accepted'))
        if rr.get('error'):
            ctx.fail('gs-harness-error', rr['error'], c)
            continue
        if not rr['accepted']:
            rejected[(c['tpl'], c['mode'])] = rejected.get((c['tpl'], c['mode']), 0) + 1
            continue
        if rr['fails']:
            ctx.fail(classify(c, rr['fails'], rr), '%s / %s / %s / B=%d: %s' % (c['tpl'], c['mode'], c['red'], c['B'], rr['fails'][0][1]), c)
    ctx.traces += len(cases)
    ctx.note('modes not accepting a template (counted, not judged): %s' % sorted((k[0] + '/' + k[1], v) for k, v in rejected.items()))


def run(ctx, gen_status):
    vlib.check_property_file(ctx, 'C01', gen_status, GENS)
    sampler_correspondence(ctx, ctx.n(60, 400))
    run_cases(ctx, ctx.n(220, 6000))


def search(ctx):
    known = {'ew-embedding-padding-row', 'ew-embedding-scale-grad-by-freq', 'rnn-packed-unsorted-row-order'}
    if all(f['key'] in known for f in ctx.failures) and not ctx.broken:
        return
    run_cases(ctx, 300)


def replay_case(ctx, failure):
    c = failure['case']
    if 'tpl' not in c:
        return False, c
    rr = vlib.run_impl('gs_runs.py', {'cases': [c]})['results'][0]
    bad = rr.get('error') or (rr.get('fails') if rr.get('accepted') else None)
    if bad and not rr.get('error') and classify(c, rr['fails'], rr) in ('ew-embedding-padding-row', 'ew-embedding-scale-grad-by-freq', 'rnn-packed-unsorted-row-order'):
        return True, 'known finding: ' + str(bad)[:300]
    return not bad, bad or 'holds'
