"""C19 -- wrapping is transparent and reversible."""
import os, re
from py import vlib

GENS = ['Wrap']
RULE = ('real make_private -> k DP steps -> to_standard_module runs: a case = (model kind incl. frozen parameter / custom layer / norm layers, grad sample mode, inner optimizer, '
        'reduction, k, pending forward or forward+backward at unwrap time); compared: forward of the wrapped module vs an untouched copy (train and eval), identity of parameter '
        'objects, state_dict load-back, param_groups / state / defaults identity and an lr scheduler acting through the DP optimizer, hooks and attributes on every module and '
        'parameter after unwrapping vs a snapshot taken before wrapping, ordinary training after unwrapping vs a never-wrapped twin (bitwise); attributes seen while wrapped '
        'are compared with the generated ledger lists; non-trivial = k >= 1; distinct by canonical JSON')
ASSUMPTIONS = ['torch.nn.Module.__call__ / hook dictionaries behave as documented', 'p.summed_grad (attached by the DP optimizer, an aggregate, not per-sample) is not required to be removed by to_standard_module; it is reported in the notes']
TRUSTED = ['snapshot/diff of __dict__ keys and hook dictionaries in py/harness/wrap_runs.py']
OPTIMIZER_ATTRS = {'summed_grad'}


def gen_lists():
    txt = open(os.path.join(vlib.COQ, 'Gen', 'Wrap.v')).read()
    out = {}
    for name in ('param_attrs_written', 'module_attrs_written', 'param_attrs_removed', 'module_attrs_removed'):
        m = re.search(r'Definition %s : list pystr := \[(.*?)\]\.' % name, txt)
        out[name] = re.findall(r'"([^"]+)"', m.group(1)) if m else None
    return out


def gen(ctx, n):
    r = ctx.rng
    cases = []
    models = ['mlp', 'conv', 'emb', 'frozen', 'custom', 'norm', 'mixed']
    for model in models:
        for mode in ['hooks', 'functorch', 'ew', 'ghost']:
            if model == 'custom' and mode == 'ew':
                continue
            cases.append({'model': model, 'mode': mode, 'seed': r.randint(0, 10**5), 'inner': r.choice(['sgd', 'adam']), 'sigma': r.choice([0.0, 0.5]),
                          'reduction': r.choice(['mean', 'sum']), 'k': r.randint(0, 2), 'pending': r.choice([None, None, 'f', 'fb']) if mode != 'ew' else None,
                          'disable_first': r.random() < 0.3})
    for _ in range(n):
        model = r.choice(models)
        mode = r.choice(['hooks', 'functorch', 'ew', 'ghost'])
        if model == 'custom' and mode == 'ew':
            mode = 'hooks'
        cases.append({'model': model, 'mode': mode, 'seed': r.randint(0, 10**5), 'inner': r.choice(['sgd', 'adam']), 'sigma': r.choice([0.0, 0.5, 1.0]),
                      'reduction': r.choice(['mean', 'sum']), 'k': r.randint(0, 3), 'pending': r.choice([None, 'f', 'fb']) if mode != 'ew' else None,
                      'disable_first': r.random() < 0.3})
    return cases


def judge(ctx, c, rr, lists):
    if rr.get('error'):
        ctx.fail('wrap-harness-error', rr['error'], c)
        return
    for key, what in rr['fails']:
        ctx.fail(key, what, c)
    res = []
    for r in rr['residue']:
        if r[0] == 'param-attrs':
            extra = [a for a in r[2] if a not in OPTIMIZER_ATTRS]
            if extra:
                res.append(['param-attrs', r[1], extra])
        else:
            res.append(r)
    if res:
        kinds = sorted({r[0] for r in res})
        ctx.fail('unwrap-residue:' + '+'.join(kinds), 'after to_standard_module: %s' % res[:4], c)
    if lists and lists['param_attrs_written'] is not None:
        unknown = [a for a in rr.get('live_param_attrs', []) if a not in lists['param_attrs_written'] and a not in OPTIMIZER_ATTRS] + \
                  [a for a in rr.get('live_module_attrs', []) if a not in lists['module_attrs_written']]
        if unknown:
            ctx.extra.setdefault('unknown_live_attrs', []).append(unknown)


def run_cases(ctx, n):
    lists = gen_lists()
    cases = gen(ctx, n)
    res = vlib.run_impl('wrap_runs.py', {'cases': cases}, timeout=3600)['results']
    for c, rr in zip(cases, res):
        ctx.case(c, nontrivial=c['k'] >= 1, kind='%s/%s' % (c['model'], c['mode']))
        judge(ctx, c, rr, lists)
    ctx.traces += len(cases)
    unk = ctx.extra.pop('unknown_live_attrs', [])
    ctx.obligation('correspondence:attributes-seen-while-wrapped-are-in-the-generated-ledger', not unk,
                   '' if not unk else 'attributes on user objects that the generated written-lists do not contain: %s' % unk[:3])
    hooks_ok = all((rr.get('live_hooks', 0) % 2 == 0) for rr in res if not rr.get('error'))
    ctx.obligation('correspondence:two-hooks-per-hooked-module', hooks_ok, '' if hooks_ok else 'odd number of module hooks while wrapped')
    if any('summed_grad' in str(rr.get('residue')) for rr in res):
        ctx.note('p.summed_grad (set by the DP optimizer) stays on the parameters after to_standard_module; not judged (aggregate, optimizer-owned)')


def run(ctx, gen_status):
    vlib.check_property_file(ctx, 'C19', gen_status, GENS)
    run_cases(ctx, ctx.n(10, 400))


def search(ctx):
    run_cases(ctx, 60)


def replay_case(ctx, failure):
    c = failure['case']
    n0 = len(ctx.failures)
    rr = vlib.run_impl('wrap_runs.py', {'cases': [c]})['results'][0]
    judge(ctx, c, rr, None)
    return len(ctx.failures) == n0, ctx.failures[n0:] or 'holds'
