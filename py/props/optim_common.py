"""shared by C05 / C10 / C11 / C04: op-sequence cases on the real optimizers (one-hot probe) vs the
generated state machine evaluated inside Coq."""
import itertools
from py import vlib

VAR = {'flat': 'Flat', 'perlayer': 'PerLayer', 'ghost': 'Ghost', 'adaclip': 'AdaClip'}
ACC = {'rdp': 'AccRDP', 'prv': 'AccPRV', 'gdp': 'AccGDP'}


def zl(l):
    return '[' + '; '.join('(%d)%%Z' % x for x in l) + ']'


def coq_op(name, arg):
    if name == 'FB':
        return 'FB ' + zl(arg)
    return {'ST': 'Step', 'OZ': 'OptZero', 'MZ': 'ModZero'}.get(name) or \
        {'SK': 'Skip %s' % ('true' if arg else 'false'), 'NM': 'SetNm %d%%Z' % arg, 'CC': 'SetC %d%%Z' % arg}[name]


def coq_case(c, obs):
    return '(%s, %s, %s, %s, %d%%Z, [%s], [%s])' % (
        VAR[c['variant']], ACC[c['acc']], 'true' if c['accum'] else 'false', 'true' if c.get('secure') else 'false', c['nm'],
        '; '.join(coq_op(n, a) for n, a in c['ops']), '; '.join(zl(o) for o in obs))


def number_fb(ops):
    """give every FB op fresh sample ids (2 samples per backward unless given)"""
    out, nxt = [], 0
    for name, arg in ops:
        if name == 'FB' and arg is None:
            out.append(['FB', [nxt, nxt + 1]])
            nxt += 2
        elif name == 'FB':
            out.append(['FB', list(arg)])
            nxt = max([nxt] + [a + 1 for a in arg])
        else:
            out.append([name, arg])
    return out


def model_vs_impl(ctx, cases, results, tag, shard=400):
    """returns indices of cases on which the Coq state machine and the implementation disagree"""
    with vlib.CoqLock():
        ok, out = vlib.coq_make(['Exec/RunOptim.vo'])
    if not ok:
        ctx.obligation('correspondence:optimizer-state-machine', False, 'runner does not build: ' + vlib.first_error(out))
        return None
    header = ('From Coq Require Import ZArith List Bool.\nFrom OV Require Import Base.Num Base.NumZ Base.Py Model.OptimState '
              'Gen.Optim Proofs.OptimSM Exec.RunOptim.\nImport ListNotations.\n')
    bad = []
    import concurrent.futures as cf
    jobs = []
    for k in range(0, len(cases), shard):
        items = [coq_case(c, r['obs']) for c, r in zip(cases[k:k + shard], results[k:k + shard])]
        body = 'Definition cases : list (variant * acckind * bool * bool * Z * list (@op Z) * list (list Z)) := [\n ' + ';\n '.join(items) + '\n].\nEval vm_compute in (bad_idx_c 0 cases).\n'
        jobs.append((k, 'cases_%s_%d_%d' % (tag, ctx.seed % 100000, k), body))
    with cf.ThreadPoolExecutor(max_workers=12) as ex:
        futs = {ex.submit(vlib.coq_eval, name, header, body): k for k, name, body in jobs}
        for f in cf.as_completed(futs):
            k = futs[f]
            rc, out = f.result()
            lists = vlib.parse_eval_lists(out)
            if rc != 0 or len(lists) != 1:
                ctx.obligation('correspondence:optimizer-state-machine', False, 'case file failed: ' + out[-600:])
                return None
            bad += [k + i for i in lists[0]]
    ctx.traces += len(cases)
    return sorted(bad)


def exhaustive(depth, alphabet):
    for seq in itertools.product(alphabet, repeat=depth):
        yield number_fb([list(x) for x in seq])


ALPHA = [('FB', None), ('ST', 0), ('OZ', 0), ('MZ', 0), ('SK', 1), ('SK', 0)]


def gen_cases(ctx, depth_exh, n_random, variants=('flat', 'perlayer', 'ghost'), accs=('rdp',), rnd_len=(6, 14), secure=False):
    cases = []
    for v in variants:
        for accum in (True, False):
            for d in range(1, depth_exh + 1):
                for ops in exhaustive(d, ALPHA):
                    cases.append({'variant': v, 'acc': accs[0], 'accum': accum, 'nm': 1, 'ops': ops, 'secure': secure and d % 2 == 0})
    r = ctx.rng
    for _ in range(n_random):
        n = r.randint(*rnd_len)
        ops = []
        for _ in range(n):
            name = r.choices(['FB', 'ST', 'OZ', 'MZ', 'SK', 'NM', 'CC'], weights=[6, 6, 4, 1, 3, 1, 1])[0]
            arg = {'FB': None, 'ST': 0, 'OZ': 0, 'MZ': 0, 'SK': r.randint(0, 1), 'NM': r.choice([1, 2, 3]), 'CC': r.choice([10, 20])}[name]
            if name == 'FB':
                k = r.choice([0, 1, 2, 2, 3])
                arg = 'n%d' % k
            ops.append([name, arg])
        # give fresh ids
        out, nxt = [], 0
        for name, arg in ops:
            if name == 'FB':
                k = int(arg[1:])
                out.append(['FB', list(range(nxt, nxt + k))])
                nxt += k
            else:
                out.append([name, arg])
        if nxt > 22:
            continue
        cases.append({'variant': r.choice(list(variants)), 'acc': r.choice(list(accs)), 'accum': r.random() < 0.7,
                      'nm': r.choice([1, 2]), 'ops': out, 'secure': secure and r.random() < 0.5})
    return cases


def register(ctx, cases):
    for c in cases:
        names = [o[0] for o in c['ops']]
        ctx.case({'v': c['variant'], 'a': c['acc'], 'm': c['accum'], 's': bool(c.get('secure')), 'ops': c['ops']},
                 nontrivial=('FB' in names and 'ST' in names), kind='%s/%s/len%d' % (c['variant'], c['acc'], min(len(names), 9)))


def oracle_release(ctx, c, r):
    """C11 directly on the implementation: no sample id is released twice; misuse raises"""
    if not r['decodable']:
        ctx.fail('undecodable-release', 'a release is not a multiset of per-sample gradients (unclipped or fractional contribution)', c)
        return
    tot = {}
    for o in r['obs'][:-1]:
        for sid in o[4:]:
            tot[sid] = tot.get(sid, 0) + 1
    dbl = sorted(k for k, v in tot.items() if v > 1)
    if dbl:
        ctx.fail('double-release', 'sample id(s) %s released more than once' % dbl[:5], c)


def oracle_accounting(ctx, c, r):
    """C05 directly on the implementation: records == inner steps, record immediately before the inner step,
    carrying the noise multiplier in force"""
    n_inner = sum(o[1] for o in r['obs'][:-1])
    n_rec = sum(h[2] for h in r['hist_raw'])
    gdp_err = c['acc'] == 'gdp' and any(o[0] == 1 and o[2] > 0 for o in r['obs'][:-1])
    if n_inner != n_rec and not gdp_err:
        ctx.fail('records-vs-steps', '%d inner optimizer steps but %d recorded steps' % (n_inner, n_rec), c)
        return
    for (name, arg), o, ex in zip(c['ops'], r['obs'][:-1], r['extra']):
        order = ex['order']
        for i, ev in enumerate(order):
            if ev == 'I' and (i == 0 or not order[i - 1].startswith('A:')):
                ctx.fail('unaccounted-step', 'inner optimizer stepped without an immediately preceding accountant record', c)
                return
            if ev.startswith('A:'):
                if i + 1 >= len(order) or order[i + 1] != 'I':
                    ctx.fail('record-without-step', 'accountant record not followed by the inner step', c)
                    return
                sig = float(ev.split(':')[1])
                if sig != ex['nm']:
                    ctx.fail('accounted-sigma', 'recorded sigma %r, in force %r' % (sig, ex['nm']), c)
                    return
        if o[1] > 0:
            for sd in ex['stds']:
                if sd != ex['nm'] * ex['C']:
                    ctx.fail('noise-std', 'noise std %r != sigma*C = %r' % (sd, ex['nm'] * ex['C']), c)
                    return


def run_impl_cases(cases, timeout=7200):
    """run the sequences on the implementation; sequences are cut after a backward pass that raised"""
    res = vlib.run_impl('optim_ops.py', {'cases': cases}, timeout=timeout)['results']
    for c, r in zip(cases, res):
        if r.get('truncated_at') is not None:
            c['ops'] = c['ops'][:r['truncated_at']]
    return res
