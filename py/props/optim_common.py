"""shared by C05 / C10 / C11 / C04: op-sequence cases on the real optimizers (one-hot probe) vs the
generated state machine evaluated inside Coq."""
import itertools
from py import vlib

VAR = {'flat': 'Flat', 'perlayer': 'PerLayer', 'ghost': 'Ghost', 'adaclip': 'AdaClip'}
ACC = {'rdp': 'AccRDP', 'prv': 'AccPRV', 'gdp': 'AccGDP'}


def zl(l):
    return '[' + '; '.join('%d%%Z' % x for x in l) + ']'


def coq_op(name, arg):
    if name == 'FB':
        return 'FB ' + zl(arg)
    return {'ST': 'Step', 'OZ': 'OptZero', 'MZ': 'ModZero'}.get(name) or \
        {'SK': 'Skip %s' % ('true' if arg else 'false'), 'NM': 'SetNm %d%%Z' % arg, 'CC': 'SetC %d%%Z' % arg}[name]


def coq_case(c, obs):
    return '(%s, %s, %s, %d%%Z, [%s], [%s])' % (
        VAR[c['variant']], ACC[c['acc']], 'true' if c['accum'] else 'false', c['nm'],
        '; '.join(coq_op(n, a) for n, a in c['ops']), '; '.join(zl(o) for o in obs))


def number_fb(ops):
    """give every FB op fresh sample ids (2 samples per backward unless given)"""
    out, nxt = [], 0
    for name, arg in ops:
        if name == 'FB' and arg is None:
            out.append(['FB', [nxt, nxt + 1]])
            nxt += 2
        elif name == 'FB':
            out.append(['FB', list(arg)])
            nxt = max([nxt] + [a + 1 for a in arg])
        else:
            out.append([name, arg])
    return out


def model_vs_impl(ctx, cases, results, tag, shard=400):
    """returns indices of cases on which the Coq state machine and the implementation disagree"""
    with vlib.CoqLock():
        ok, out = vlib.coq_make(['Exec/RunOptim.vo'])
    if not ok:
        ctx.obligation('correspondence:optimizer-state-machine', False, 'runner does not build: ' + vlib.first_error(out))
        return None
    header = ('From Coq Require Import ZArith List Bool.\nFrom OV Require Import Base.Num Base.NumZ Base.Py Model.OptimState '
              'Gen.Optim Proofs.OptimSM Exec.RunOptim.\nImport ListNotations.\n')
    bad = []
    import concurrent.futures as cf
    jobs = []
    for k in range(0, len(cases), shard):
        items = [coq_case(c, r['obs']) for c, r in zip(cases[k:k + shard], results[k:k + shard])]
        body = 'Definition cases : list (variant * acckind * bool * Z * list (@op Z) * list (list Z)) := [\n ' + ';\n '.join(items) + '\n].\nEval vm_compute in (bad_idx_c 0 cases).\n'
        jobs.append((k, 'cases_%s_%d_%d' % (tag, ctx.seed % 100000, k), body))
    with cf.ThreadPoolExecutor(max_workers=12) as ex:
        futs = {ex.submit(vlib.coq_eval, name, header, body): k for k, name, body in jobs}
        for f in cf.as_completed(futs):
            k = futs[f]
            rc, out = f.result()
            lists = vlib.parse_eval_lists(out)
            if rc != 0 or len(lists) != 1:
                ctx.obligation('correspondence:optimizer-state-machine', False, 'case file failed: ' + out[-600:])
                return None
            bad += [k + i for i in lists[0]]
    ctx.traces += len(cases)
    return sorted(bad)


def exhaustive(depth, alphabet):
    for seq in itertools.product(alphabet, repeat=depth):
        yield number_fb([list(x) for x in seq])
