"""C07 -- PRV accountant's reported epsilon brackets the true epsilon within its error (proof of the index logic; partial)."""
from py import vlib

GENS = ['Prv']
RULE = ('(a) one-hot spike cases on the real _compose_fourier / compose_heterogeneous: grid half-size M <= 12, self-composition count n in 1..24 (both parities), '
        'spike index, shifts -- the composed spike must sit at index n*i0 - (n-1)*M (no wrap-around cases) and the shifts must add up; compared with the generated roll amount; '
        '(b) bracketing cases: homogeneous / heterogeneous histories, delta in [1e-9, 1e-3], eps_error in [1e-3, 1e-1]: triple ordered, reported = upper, '
        'q = 1: |reported - true| <= 2*eps_error + tol with the true epsilon from the Gaussian closed form, q < 1: reported <= RDP epsilon + 2*eps_error; '
        'non-trivial = n >= 2; distinct by canonical JSON')
ASSUMPTIONS = ['Gopi-Lee-Wutschitz error analysis (cited)', 'scipy rfft/irfft/convolve/quad (not modelled)', 'the RDP accountant is a sound upper bound (C06)']
TRUSTED = ['closed form of delta(eps) for the Gaussian mechanism evaluated with scipy in the harness (not certified)']


def run(ctx, gen_status):
    vlib.check_property_file(ctx, 'C07', gen_status, GENS)
    r = ctx.rng
    spikes = []
    for M in range(1, ctx.n(8, 12) + 1):
        for n in range(1, ctx.n(12, 24) + 1):
            for i0 in range(0, 2 * M + 2):
                j = n * i0 - (n - 1) * M
                if 0 <= j < 2 * M + 2:
                    spikes.append({'M': M, 'n': n, 'i0': i0, 'shift': r.choice([0.0, 0.25, -0.1])})
    if not ctx.thorough:
        r.shuffle(spikes)
        spikes = spikes[:400]
    het = []
    for _ in range(ctx.n(60, 600)):
        M = r.randint(3, 24)
        k = r.randint(1, 13)            # every tree shape: odd / even levels at several depths
        ns = [r.randint(1, 4) for _ in range(k)]
        i0s = [r.choice([M, M, M + 1, M - 1 if M > 0 else M]) for _ in range(k)]
        het.append({'M': M, 'ns': ns, 'i0s': i0s, 'shifts': [r.choice([0.0, 0.1, -0.2]) for _ in range(k)]})
    br = []
    for _ in range(ctx.n(10, 120)):
        q1 = r.random() < 0.4
        k = 1 if q1 else r.randint(1, 3)
        hist = [[r.choice([1.0, 1.5, 3.0]) if not q1 else r.choice([4.0, 8.0, 12.0]), 1.0 if q1 else r.choice([0.01, 0.05]), r.randint(1, 20 if q1 else 400)] for _ in range(k)]
        br.append({'hist': hist, 'delta': r.choice([1e-3, 1e-5, 1e-6, 1e-9]), 'eps_error': r.choice([0.1, 0.01] + ([0.001] if ctx.thorough else []))})
    # a heavy run followed by a light tail (a scheduler raising sigma for the last steps): the truncation domain must cover the whole history
    for _ in range(ctx.n(3, 12)):
        br.append({'hist': [[r.choice([1.5, 2.0]), r.choice([0.05, 0.1]), r.choice([300, 500])], [r.choice([4.0, 6.0]), 0.1, r.randint(5, 30)]], 'delta': 1e-5, 'eps_error': 0.01})
    res = vlib.run_impl('prv_cases.py', {'spike': spikes, 'hetero': het, 'bracket': br}, timeout=7200)
    items = []
    for c, rr in zip(spikes, res['spike']):
        ctx.case(c, nontrivial=c['n'] >= 2, kind='spike/n%s' % ('even' if c['n'] % 2 == 0 else 'odd'))
        if rr['error']:
            ctx.fail('prv-harness-error', rr['error'], c)
            continue
        want = c['n'] * c['i0'] - (c['n'] - 1) * c['M']
        if rr['j'] != want or abs(rr['peak'] - 1.0) > 1e-9:
            ctx.fail('fft-composition-misaligned', '%d-fold self-composition of a spike at %d lands at index %d (peak %.3g), expected %d' % (c['n'], c['i0'], rr['j'], rr['peak'], want), c)
        if abs(rr['shifts'] - c['n'] * c['shift']) > 1e-12:
            ctx.fail('shift-bookkeeping', 'composed shifts %r, expected n*shift = %r' % (rr['shifts'], c['n'] * c['shift']), c)
        N = 2 * c['M'] + 2
        # raw circular convolution puts the spike at (n*i0) mod N; the roll must move it to `j`
        items.append('(%d%%Z, %d%%Z, %d%%Z, %d%%Z)' % (c['n'], N, (c['n'] * c['i0']) % N, rr['j']))
    for c, rr in zip(het, res['hetero']):
        ctx.case(c, nontrivial=len(c['ns']) > 1, kind='hetero/%d' % len(c['ns']))
        if rr['error']:
            ctx.fail('prv-harness-error', rr['error'], c)
            continue
        M = c['M']
        want_off = sum(n * (i0 - M) for n, i0 in zip(c['ns'], c['i0s']))          # offsets from the grid point carrying value 0 add up
        in_range = sum(n * abs(i0 - M) for n, i0 in zip(c['ns'], c['i0s'])) <= M      # no intermediate result leaves the grid
        if in_range and (rr['j'] != M + want_off or abs(rr['peak'] - 1.0) > 1e-9):
            ctx.fail('heterogeneous-composition-misaligned', 'composed spike at %d (peak %.3g), expected %d' % (rr['j'], rr['peak'], M + want_off), c)
        if abs(rr['shifts'] - sum(n * s for n, s in zip(c['ns'], c['shifts']))) > 1e-9:
            ctx.fail('shift-bookkeeping', 'composed shifts %r, expected %r' % (rr['shifts'], sum(n * s for n, s in zip(c['ns'], c['shifts']))), c)
    for c, rr in zip(br, res['bracket']):
        ctx.case(c, nontrivial=True, kind='bracket/%s' % ('q1' if 'true' in rr else 'sub'))
        if rr['error']:
            if 'RuntimeError' in rr['error'] or 'ValueError' in rr['error']:
                continue          # outside the accountant's working range: it refuses
            ctx.fail('prv-harness-error', rr['error'], c)
            continue
        ee = c['eps_error']
        if not (rr['lo'] <= rr['est'] + 1e-12 and rr['est'] <= rr['up'] + 1e-12):
            ctx.fail('triple-not-ordered', 'triple (%r, %r, %r)' % (rr['lo'], rr['est'], rr['up']), c)
        if rr['reported'] != rr['up']:
            ctx.fail('reported-not-upper', 'reported %r, upper %r' % (rr['reported'], rr['up']), c)
        if 'prefix_lo' in rr and rr['up'] < rr['prefix_lo'] - 1e-9:
            ctx.fail('prv-below-prefix-lower-bound', 'upper bound %r for the whole history is below the lower bound %r of the history without its last entry' % (rr['up'], rr['prefix_lo']), c)
        if 'true' in rr:
            if rr['reported'] < rr['true'] - 1e-6 or rr['reported'] > rr['true'] + 2 * ee + 1e-3:
                ctx.fail('prv-does-not-bracket-truth', 'reported %r, true epsilon (Gaussian closed form) %r, eps_error %r' % (rr['reported'], rr['true'], ee), c)
        elif rr['reported'] > rr['rdp'] + 2 * ee + 1e-6:
            ctx.fail('prv-above-rdp-bound', 'reported %r exceeds the RDP upper bound %r by more than 2*eps_error' % (rr['reported'], rr['rdp']), c)
    # generated roll amount vs the implementation's placement
    header = 'From Coq Require Import ZArith List.\nFrom OV Require Import Base.Num Base.NumZ Base.Py Gen.Prv.\nImport ListNotations.\n'
    body = ('Definition cases : list (Z * Z * Z * Z) := [\n ' + ';\n '.join(items) + '\n].\n'
            'Eval vm_compute in (map (fun c => fst (fst (fst c))) (filter (fun c => let \'(n, N, raw, j) := c in negb (Z.eqb ((raw + roll_amount n N) mod N) j)) cases)).\n')
    rc, out = vlib.coq_eval('cases_c07_%d' % (ctx.seed % 100000), header, body)
    lists = vlib.parse_eval_lists(out)
    ok = rc == 0 and len(lists) == 1 and not lists[0]
    ctx.traces += len(items)
    ctx.obligation('correspondence:roll-amount', ok, '' if ok else 'generated roll amount does not reproduce the placement of _compose_fourier: %s %s' % (lists[:1], out[-300:]))
    reuse_cases(ctx, ctx.n(2, 20))


def reuse_cases(ctx, n):
    """the bracket must not depend on what the accountant OBJECT computed before (re-used object vs fresh object, same history)"""
    r = ctx.rng
    cases = []
    for n1 in (100, 300, 500):
        for s_late in (0.8, 0.9):
            cases.append({'kind': 'reuse', 'acc': 'prv', 'h1': [[1.1, 0.02, n1], [3.0, 0.02, 1500]], 'h2': [[1.1, 0.02, n1], [s_late, 0.02, 1500]],
                          'd1': 1e-5, 'via': 'assign' if n1 != 300 else 'load', 'more': 0})
    for _ in range(n):
        q = r.choice([0.01, 0.02])
        n1, n2 = r.choice([100, 300]), r.choice([600, 1500])
        shared = [1.1, q, n1]
        cases.append({'kind': 'reuse', 'acc': 'prv', 'h1': [shared, [r.choice([2.5, 3.0]), q, n2]], 'h2': [shared, [r.choice([0.8, 0.9]), q, n2]],
                      'd1': 1e-5, 'via': r.choice(['load', 'assign']), 'more': 0})
    res = vlib.run_impl('acc_meta.py', {'cases': cases}, timeout=3600)['results']
    for c, rr in zip(cases, res):
        ctx.case(c, kind='reused-accountant')
        if rr.get('error'):
            ctx.fail('prv-harness-error', rr['error'], c)
        elif abs(rr['a'] - rr['b']) > 0.03 * (1 + abs(rr['a'])):
            ctx.fail('prv-depends-on-object-history', 'a re-used PRVAccountant reports %r for a history whose epsilon (fresh accountant) is %r' % (rr['b'], rr['a']), c)


def search(ctx):
    return


def replay_case(ctx, failure):
    return True, 'replay by re-running the check with the same seed'
