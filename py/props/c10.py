"""C10 -- splitting logical batches with BatchMemoryManager changes nothing but memory."""
from py import vlib

GENS = ['Bmm', 'Optim']
RULE = ('(a) sampler cases: random logical batch lists (sizes 0..25, incl. empty, < = and multiples of the physical size) x max physical size 1..9 on '
        'the real BatchSplittingSampler vs the generated Coq function (exact event sequences); (b) equivalence cases on the real engine: same '
        'logical batches and noise generator with / without the manager, hooks / functorch / ghost, mean / sum, rdp / prv, 1-2 epochs; '
        'non-trivial = some logical batch is larger than the physical size; distinct by canonical JSON')
ASSUMPTIONS = ['math.ceil(len/max) is exact for the batch sizes that occur (float rounding of huge quotients not modelled)',
               'DataLoader iterates the batch sampler in order']
TRUSTED = ['Exec/RunBmm.v runner', 'stand-in optimizer recording skip signals for the sampler cases']


def zl(l):
    return '[' + '; '.join('(%d)%%Z' % x for x in l) + ']'


def gen_batches(r, thorough):
    nb = r.randint(1, 6)
    out, nxt = [], 0
    for _ in range(nb):
        k = r.choice([0, 1, 2, 3, 4, 5, 6, 7, 8, 9, 12, 16, 25]) if thorough else r.choice([0, 1, 2, 3, 4, 6, 7, 9])
        out.append(list(range(nxt, nxt + k)))
        nxt += k
    return out


def run(ctx, gen_status):
    vlib.check_property_file(ctx, 'C10', gen_status, GENS)
    r = ctx.rng
    samp = [{'maxphys': r.randint(1, 9), 'batches': gen_batches(r, ctx.thorough)} for _ in range(ctx.n(300, 3000))]
    eqv = []
    for _ in range(ctx.n(10, 120)):
        bs = gen_batches(r, False)
        N = max([x for b in bs for x in b] + [5]) + 1
        eqv.append({'seed': r.randint(0, 10**6), 'N': N, 'batches': bs, 'maxphys': r.randint(1, 5), 'mode': r.choice(['hooks', 'hooks', 'ghost', 'functorch']),
                    'red': r.choice(['mean', 'sum']), 'acc': r.choice(['rdp', 'prv']), 'nm': r.choice([0.0, 1.3]), 'epochs': r.choice([1, 2]), 'prefetch': r.random() < 0.5})
    # a training loop that stops each epoch after a fixed number of logical steps ("max_steps reached": break) while the sampler has run ahead
    for mode in ('hooks', 'ghost'):
        eqv.append({'seed': 5, 'N': 14, 'batches': [[0, 1, 2, 3, 4], [5, 6, 7], [8, 9], [13, 1, 2, 10, 11, 12]], 'maxphys': 2, 'mode': mode, 'red': 'mean', 'acc': 'rdp',
                    'nm': 1.3, 'epochs': 3, 'prefetch': True, 'stop_after': 2})
    # corner: an empty logical batch followed by a batch that is split, with the sampler running ahead of training
    eqv.append({'seed': 4, 'N': 12, 'batches': [[0, 1], [], [2, 3, 4, 5, 6], [7]], 'maxphys': 2, 'mode': 'hooks', 'red': 'mean', 'acc': 'rdp', 'nm': 1.3, 'epochs': 1, 'prefetch': True})
    res = vlib.run_impl('bmm_equiv.py', {'equiv': eqv, 'sampler': samp}, timeout=7200)
    for c, rr in zip(eqv, res['equiv']):
        big = any(len(b) > c['maxphys'] for b in c['batches'])
        ctx.case(c, nontrivial=big, kind='equiv/%s/%s' % (c['mode'], c['red']))
        if rr['error']:
            ctx.fail('bmm-harness-error', rr['error'], c)
        for b in rr['bad'][:1]:
            ctx.fail('bmm-' + b.split(':')[0].split(' differ')[0][:40].replace(' ', '-'), b, c)
    # sampler correspondence
    with vlib.CoqLock():
        ok, out = vlib.coq_make(['Exec/RunBmm.vo'])
    if not ok:
        ctx.obligation('correspondence:batch-splitting-sampler', False, 'runner does not build: ' + vlib.first_error(out))
        return
    items = []
    for c, rr in zip(samp, res['sampler']):
        enc = []
        for ev in rr['events']:
            enc += [0, 1 if ev[1] else 0] if ev[0] == 'S' else [1, len(ev[1])] + ev[1]
        items.append('(%d%%Z, [%s], %s)' % (c['maxphys'], '; '.join(zl(b) for b in c['batches']), zl(enc)))
        ctx.case(c, nontrivial=any(len(b) > c['maxphys'] for b in c['batches']), kind='sampler')
        # direct oracle: sizes and partition
        ys = [ev[1] for ev in rr['events'] if ev[0] == 'Y']
        if any(len(y) > c['maxphys'] for y in ys):
            ctx.fail('bmm-physical-size', 'sampler yielded a physical batch larger than %d' % c['maxphys'], c)
        if [x for y in ys for x in y] != [x for b in c['batches'] for x in b]:
            ctx.fail('bmm-partition', 'physical batches do not partition the logical batches', c)
    header = 'From Coq Require Import ZArith List.\nFrom OV Require Import Base.Py Model.BmmState Gen.Bmm Exec.RunBmm.\nImport ListNotations.\n'
    bad = []
    for k in range(0, len(items), 500):
        body = 'Definition cases : list (Z * list (list Z) * list Z) := [\n ' + ';\n '.join(items[k:k + 500]) + '\n].\nEval vm_compute in (bad_bmm 0 cases).\n'
        rc, out = vlib.coq_eval('cases_c10_%d_%d' % (ctx.seed % 100000, k), header, body)
        lists = vlib.parse_eval_lists(out)
        if rc != 0 or len(lists) != 1:
            ctx.obligation('correspondence:batch-splitting-sampler', False, 'case file failed: ' + out[-600:])
            return
        bad += [k + i for i in lists[0]]
    ctx.traces += len(items)
    ctx.obligation('correspondence:batch-splitting-sampler', not bad,
                   '' if not bad else 'generated sampler and BatchSplittingSampler differ on %d case(s), e.g. %s -> impl %s' % (len(bad), samp[bad[0]], res['sampler'][bad[0]]['events']))


def search(ctx):
    if ctx.failures:
        return
    r = ctx.rng
    eqv = []
    for mode in ['hooks', 'ghost']:
        for red in ['mean', 'sum']:
            for mp in [1, 2, 3, 4]:
                eqv.append({'seed': 5, 'N': 30, 'batches': [[0, 1, 2, 3, 4, 5, 6], [7, 8, 9], [], [10, 11, 12, 13, 14, 15, 16, 17, 18], [19, 20, 21, 22]],
                            'maxphys': mp, 'mode': mode, 'red': red, 'acc': 'rdp', 'nm': 1.3, 'epochs': 2, 'prefetch': mp % 2 == 0})
    res = vlib.run_impl('bmm_equiv.py', {'equiv': eqv, 'sampler': []}, timeout=7200)
    for c, rr in zip(eqv, res['equiv']):
        ctx.case(c, kind='search')
        for b in rr['bad'][:1]:
            ctx.fail('bmm-' + b.split(':')[0].split(' differ')[0][:40].replace(' ', '-'), b, c)


def replay_case(ctx, failure):
    c = failure['case']
    n0 = len(ctx.failures)
    if 'mode' in c:
        rr = vlib.run_impl('bmm_equiv.py', {'equiv': [c], 'sampler': []})['equiv'][0]
        for b in rr['bad'][:1]:
            ctx.fail('bmm', b, c)
    return len(ctx.failures) == n0, ctx.failures[n0:] or 'holds'
