"""C15 -- validation accepts only sample-independent models; fix() is safe and faithful."""
import os, re
from py import vlib

GENS = ['Validators']
RULE = ('generated torch.nn module trees (nested Sequential containers over Linear / Conv1d / Embedding / GroupNorm / LayerNorm / BatchNorm1d-3d / InstanceNorm1d-3d / LSTM / '
        'MultiheadAttention with affine / track_running_stats / frozen / eval flags, incl. a replaceable root) x fixer keyword options: ModuleValidator.validate / is_valid / fix, '
        'GradSampleModule.validate and PrivacyEngine.make_private (also in eval mode and with a foreign optimizer parameter) are run for real; every leaf layer of an accepted tree is run '
        'on a batch and on the same batch with the other rows changed (row 0 must not move) and its buffers are compared before / after; fix is checked for argument mutation, object '
        'sharing, parameter preservation, replacement set, validity and numerical equivalence of LSTM / MHA replacements; outcomes are compared with the generated tree model; '
        'non-trivial = the tree contains a registered layer type; distinct by canonical JSON')
ASSUMPTIONS = ['row-independence of a composition follows from row-independence of every layer in it (layers are probed one by one)',
               'numerical equivalence of the DPLSTM / DPMultiheadAttention replacements is C13 / C14']
TRUSTED = ['leaf probe inputs per layer type in py/harness/validator_runs.py']
REGISTERED = ('bn1', 'bn2', 'bn3', 'syncbn', 'in1', 'in2', 'in3', 'lstm', 'mha')
PLAIN = ('lin', 'conv1', 'emb', 'gn', 'ln')


def leaf(r, depth_left):
    t = r.choice(REGISTERED[:3] + REGISTERED[4:] + PLAIN + PLAIN)
    a = {}
    if t.startswith('bn'):
        a = {'affine': r.random() < 0.7, 'track': r.random() < 0.8}
    elif t.startswith('in'):
        a = {'affine': r.random() < 0.5, 'track': r.random() < 0.5}
    elif t == 'lstm':
        a = {'layers': r.choice([1, 2]), 'bidir': r.random() < 0.4, 'bias': r.random() < 0.8, 'bf': r.random() < 0.5}
    elif t == 'mha':
        a = {'heads': r.choice([1, 2, 4]), 'bias': r.random() < 0.8, 'bkv': r.random() < 0.3, 'zattn': r.random() < 0.3}
        if r.random() < 0.25:
            a.update(kdim=3, vdim=5)
    elif t in ('gn', 'ln'):
        a = {'affine': r.random() < 0.8}
    node = {'t': t, 'a': a}
    if r.random() < 0.2:
        node['frozen'] = True
    if r.random() < 0.1:
        node['eval'] = True
    return node


def tree(r, depth):
    if depth == 0 or r.random() < 0.25:
        return leaf(r, depth)
    return {'t': 'seq', 'ch': [tree(r, depth - 1) for _ in range(r.randint(1, 3))]}


def has_registered(t):
    return t['t'] in REGISTERED or any(has_registered(c) for c in t.get('ch', []))


def gen(ctx, n):
    r = ctx.rng
    L = lambda t, **a: {'t': t, 'a': a}
    cases = [  # corner cases always present
        {'seed': 1, 'tree': {'t': 'seq', 'ch': [L('lin'), L('bn1', affine=False)]}, 'kw': {}},
        {'seed': 1, 'tree': {'t': 'seq', 'ch': [L('lin'), L('bn2', affine=False, track=False)]}, 'kw': {}},
        {'seed': 1, 'tree': {'t': 'seq', 'ch': [L('lin'), dict(L('bn3'), frozen=True)]}, 'kw': {}},
        {'seed': 1, 'tree': {'t': 'seq', 'ch': [L('lin'), L('in1', affine=False, track=True)]}, 'kw': {}},
        {'seed': 1, 'tree': {'t': 'seq', 'ch': [L('lin'), L('in2', affine=True, track=True)]}, 'kw': {'num_groups': 2}},
        {'seed': 1, 'tree': {'t': 'seq', 'ch': [L('lin'), L('in3', affine=True, track=True), L('bn1')]}, 'kw': {'replace_bn_with_in': True}},
        {'seed': 1, 'tree': L('lstm', layers=2, bidir=True), 'kw': {}},
        {'seed': 1, 'tree': L('mha', bkv=True, zattn=True), 'kw': {'num_groups': 2}},
        {'seed': 1, 'tree': L('bn1'), 'kw': {}},
        {'seed': 2, 'tree': {'t': 'seq', 'ch': [L('lin'), L('lstm', layers=2)]}, 'kw': {}, 'f32default': True},
        {'seed': 2, 'tree': {'t': 'seq', 'ch': [L('lin'), L('mha')]}, 'kw': {}, 'root_eval': True},
        {'seed': 3, 'tree': {'t': 'seq', 'ch': [L('lin'), L('lstm', layers=2)]}, 'kw': {}, 'freeze_first': True},
        {'seed': 1, 'tree': {'t': 'seq', 'ch': [L('lin'), dict(L('lstm'), frozen=True)]}, 'kw': {}},
    ]
    for _ in range(n):
        kw = r.choice([{}, {}, {'num_groups': 2}, {'num_groups': 1}, {'replace_bn_with_in': True}])
        c = {'seed': r.randint(0, 10**5), 'tree': tree(r, r.randint(1, 3)), 'kw': kw}
        if r.random() < 0.1:
            c['root_eval'] = True
        if r.random() < 0.3:
            c['f32default'] = True
        if r.random() < 0.25:
            c['freeze_first'] = True
        cases.append(c)
    return cases


def coupling_class(l):
    ty = l['type']
    if ty.startswith('BatchNorm') or ty == 'SyncBatchNorm':
        return 'bn-' + ('frozen' if l.get('affine') else 'affine-false')
    if ty.startswith('InstanceNorm'):
        return 'in-' + ('frozen' if l.get('affine') else 'affine-false') + '-running-stats'
    return ty


def judge(ctx, c, rr):
    if rr.get('error'):
        ctx.fail('validator-harness-error', rr['error'], c)
        return
    accepted = rr['validate'] == []
    if isinstance(rr['validate'], str):
        ctx.fail('validate-raises', 'ModuleValidator.validate(strict=False) raised %s' % rr['validate'], c)
    if rr['is_valid'] != accepted:
        ctx.fail('is-valid-inconsistent', 'is_valid %r but validate returned %s' % (rr['is_valid'], rr['validate']), c)
    # A. accepted => every layer in training mode is row-independent and keeps no data-dependent statistics
    for who, acc, leaves in (('validate', accepted, rr['leaves']), ('make_private', rr['mp'] == 'ok', rr['leaves']),
                             ('fix+validate', rr.get('fixed_validate') == [], rr.get('fixed_leaves') or []),
                             ('fix+make_private', rr.get('fixed_mp') == 'ok', rr.get('fixed_leaves') or [])):
        if not acc:
            continue
        for l in leaves:
            if l['couples'] or l['stat_update']:
                own = l['own_trainable']
                key = 'accepts-coupling:' + coupling_class(l) if not own else 'accepts-coupling-trainable:' + l['type']
                ctx.fail(key, '%s accepts a model whose %s (affine=%s, track_running_stats=%s, trainable=%s, training=%s) %s' % (
                    who, l['type'], l.get('affine'), l.get('track'), own, l['training'],
                    'mixes the rows of a batch' if l['couples'] else 'updates running statistics from the data'), c)
    # B. make_private guards
    if rr['mp_eval'] == 'ok':
        ctx.fail('make-private-accepts-eval', 'make_private accepted a model in eval mode', c)
    if rr['mp_foreign'] == 'ok':
        ctx.fail('make-private-accepts-foreign-optimizer', 'make_private accepted an optimizer holding a parameter that is not the model\'s', c)
    if rr.get('mp_prewrapped_eval') == 'ok':
        ctx.fail('make-private-accepts-eval', 'make_private accepted an already wrapped module in eval mode', c)
    if rr.get('mp_prewrapped') == 'ok' and rr['mp'] != 'ok':
        ctx.fail('make-private-accepts-invalid-prewrapped', 'make_private accepted an already wrapped GradSampleModule whose module it refuses when passed unwrapped (%s)' % rr['mp'], c)
    if rr['mp'] == 'ok' and not (accepted and rr['gsm_errors'] == 0):
        ctx.fail('make-private-accepts-invalid', 'make_private accepted a model that validate / GradSampleModule.validate reject (%s, %s)' % (rr['validate'], rr['gsm_errors']), c)
    # C. fix
    kw = c.get('kw', {})
    if rr['fix'] != 'ok':
        legal = not (kw.get('replace_bn_with_in') and kw.get('num_groups') is not None)
        if legal:
            ctx.fail('fix-raises:' + rr['fix'], 'ModuleValidator.fix(module, **%s) raised %s: %s' % (kw, rr['fix'], rr['fix_msg']), c)
        return
    if not rr['arg_untouched']:
        ctx.fail('fix-mutates-argument', 'the module passed to fix() changed', c)
    if rr['shares_objects']:
        ctx.fail('fix-shares-objects', 'fix() returned a module sharing %d module / parameter objects with its argument' % rr['shares_objects'], c)
    if rr['changed_params']:
        ctx.fail('fix-changes-parameters', 'parameters of modules that were not replaced differ after fix(): %s' % rr['changed_params'][:3], c)
    if rr['root_training'] and rr['fixed_validate'] != []:
        ctx.fail('fix-not-valid', 'validate(fix(module)) = %s' % rr['fixed_validate'], c)
    if rr['root_training'] and rr['fixed_validate'] == [] and rr.get('fixed_n_trainable', 0) > 0 and rr['fixed_mp'] != 'ok':
        ctx.fail('fixed-module-rejected', 'make_private refuses the module returned by fix(): %s (GradSampleModule errors: %s)' % (rr['fixed_mp'], rr['fixed_gsm_errors']), c)
    if rr.get('fixed_mode_diff'):
        ctx.fail('fix-changes-mode', 'fix() returned a module whose sub-modules %s are in another train / eval mode than in the argument (an eval-mode model gets training-mode replacements: dropout active)' % rr['fixed_mode_diff'], c)
    if rr.get('fixed_unfrozen'):
        ctx.fail('fix-unfreezes-parameters', 'frozen parameters of a replaced LSTM are trainable in the module returned by fix(): %s' % rr['fixed_unfrozen'], c)
    if rr.get('fixed_dtype_diff'):
        ctx.fail('fix-changes-dtype', 'fix() returned a module whose parameters %s have another dtype than the argument\'s' % rr['fixed_dtype_diff'], c)
    if rr['equiv_bad']:
        ctx.fail('fix-replacement-not-equivalent', 'replacement computes a different function: %s' % rr['equiv_bad'][:2], c)
    # replaced set = registered types met on the trainable walk
    want = {l['name'] for l in rr['leaves'] if l['own_trainable'] and l['type'] in
            ('BatchNorm1d', 'BatchNorm2d', 'BatchNorm3d', 'SyncBatchNorm', 'LSTM', 'MultiheadAttention')}
    got = {n for n, a, b in rr['replaced'] if a != 'NonDynamicallyQuantizableLinear'}
    if got != want:
        ctx.fail('fix-replacement-set', 'replaced %s, expected exactly the trainable BatchNorm / LSTM / MultiheadAttention modules %s' % (sorted(got), sorted(want)), c)


def model_check(ctx, cases, res):
    """Tie B for the tree model: validate / fix outcomes of the generated Gallina walk vs the real ones"""
    def node(t):
        k = t['t']
        if k == 'seq':
            return '(Node KSeq false false false %s [%s])' % ('false' if t.get('eval') else 'true', '; '.join(node(c) for c in t['ch']))
        a = t.get('a', {})
        kind = {'lin': 'KLinear', 'conv1': 'KConv', 'emb': 'KEmbedding', 'gn': 'KGroupNorm', 'ln': 'KLayerNorm', 'bn1': 'KBatchNorm', 'bn2': 'KBatchNorm', 'bn3': 'KBatchNorm',
                'syncbn': 'KBatchNorm', 'in1': 'KInstanceNorm', 'in2': 'KInstanceNorm', 'in3': 'KInstanceNorm', 'lstm': 'KLSTM', 'mha': 'KMHA'}[k]
        if k in ('lin', 'conv1', 'emb', 'lstm', 'mha'):
            has = True
        elif k.startswith('bn'):
            has = a.get('affine', True)
        elif k.startswith('in'):
            has = a.get('affine', False)
        else:
            has = a.get('affine', True)
        trainable = has and not t.get('frozen')
        track = a.get('track', True if k.startswith('bn') else False) if (k.startswith('bn') or k.startswith('in')) else False
        b = lambda x: 'true' if x else 'false'
        return '(Node %s %s %s %s %s [])' % (kind, b(trainable), b(has), b(track), b(not t.get('eval')))
    items, idx = [], []
    for i, (c, rr) in enumerate(zip(cases, res)):
        if rr.get('error') or isinstance(rr.get('validate'), str) or rr.get('fix') != 'ok':
            continue
        kw = c.get('kw', {})
        nerr = len(rr['validate'])
        nfix = len(rr['fixed_validate']) if isinstance(rr['fixed_validate'], list) else -1
        items.append('(%s, %s, %s, %d%%nat, %d%%nat, %d%%nat)' % (node(c['tree']), 'true' if not c.get('root_eval') else 'false',
                                                               'true' if kw.get('replace_bn_with_in') else 'false', nerr, nfix, len([x for x in rr['replaced'] if x[1] != 'NonDynamicallyQuantizableLinear'])))
        idx.append(i)
    if not items:
        return
    hdr = 'From Coq Require Import ZArith List Bool String.\nFrom OV Require Import Base.Py Model.ModTree Gen.Validators Exec.RunValid.\nImport ListNotations.\n'
    body = 'Definition cases : list (tree * bool * bool * nat * nat * nat) := [\n ' + ';\n '.join(items) + '\n].\nEval vm_compute in (bad_valid 0 cases).\n'
    with vlib.CoqLock():
        vlib.coq_make(['Exec/RunValid.vo'])
        rc, out = vlib.coq_eval('cases_c15', hdr, body)
    lists = vlib.parse_eval_lists(out)
    if rc != 0 or len(lists) != 1:
        ctx.obligation('correspondence:validate-fix-tree-model', False, 'case file failed: ' + out[-600:])
        return
    bad = [idx[i] for i in lists[0]]
    ctx.obligation('correspondence:validate-fix-tree-model', not bad,
                   '' if not bad else 'number of validation errors / replaced modules of the generated tree model differs from the real ModuleValidator on %s' % [cases[i] for i in bad[:2]])
    for i in bad[:1]:
        ctx.fail('validator-model-vs-impl', 'generated tree model and real ModuleValidator disagree (errors %s, after fix %s, replaced %s)' % (
            res[i]['validate'], res[i]['fixed_validate'], res[i]['replaced']), cases[i])


def run_cases(ctx, n, with_model=True):
    cases = gen(ctx, n)
    res = vlib.run_impl('validator_runs.py', {'cases': cases}, timeout=3600)['results']
    for c, rr in zip(cases, res):
        ctx.case(c, nontrivial=has_registered(c['tree']), kind='root=' + c['tree']['t'] + ('/kw' if c.get('kw') else ''))
        judge(ctx, c, rr)
    ctx.traces += len(cases)
    if with_model:
        model_check(ctx, cases, res)


def run_trainable(ctx):
    """what make_private accepts must be trainable; what Opacus cannot train must be refused up front"""
    r = ctx.rng
    cases = [{'layer': k, 'seed': r.randint(0, 10**5), 'trainable_probe': True} for k in ('gru', 'rnn', 'bigru', 'lstm', 'linear', 'conv_seq')]
    res = vlib.run_impl('validator_runs.py', {'trainable': cases}, timeout=1800)['trainable']
    for c, rr in zip(cases, res):
        ctx.case(c, nontrivial=True, kind='accepted-is-trainable/' + c['layer'])
        judge_trainable(ctx, c, rr)
    ctx.traces += len(cases)


def judge_trainable(ctx, c, rr):
    if rr.get('error'):
        ctx.fail('validator-harness-error', rr['error'], c)
    elif rr.get('mp') == 'ok' and rr.get('step') != 'ok':
        ctx.fail('accepts-untrainable:' + {'bigru': 'gru'}.get(c['layer'], c['layer']),
                 'make_private (hooks mode) accepted a model with nn.%s (validate: %s) but the first DP step raises: %s' % (
                     {'gru': 'GRU', 'bigru': 'GRU', 'rnn': 'RNN', 'lstm': 'LSTM'}.get(c['layer'], c['layer']), rr.get('validate'), rr.get('step')), c)
    elif rr.get('mp') == 'ok' and not rr.get('moved'):
        ctx.fail('accepted-layer-not-trained', 'make_private accepted the model but a DP step left some parameters unchanged', c)
    elif c['layer'] == 'lstm' and rr.get('mp') == 'ok':
        ctx.fail('accepts-unsupported:lstm', 'make_private accepted nn.LSTM', c)


def run(ctx, gen_status):
    vlib.check_property_file(ctx, 'C15', gen_status, GENS)
    run_cases(ctx, ctx.n(60, 1500))
    run_trainable(ctx)


def search(ctx):
    if all(f['key'].startswith('accepts-coupling:') or f['key'].startswith('accepts-untrainable:') for f in ctx.failures) and not ctx.broken:
        return
    run_cases(ctx, 200, with_model=False)


def replay_case(ctx, failure):
    c = failure['case']
    n0 = len(ctx.failures)
    if c.get('trainable_probe'):
        judge_trainable(ctx, c, vlib.run_impl('validator_runs.py', {'trainable': [c]})['trainable'][0])
    else:
        rr = vlib.run_impl('validator_runs.py', {'cases': [c]})['results'][0]
        judge(ctx, c, rr)
    known = {k['key'] for k in vlib.load_known() if k['property'] == 'C15'}
    new = [f for f in ctx.failures[n0:] if f['key'] not in known]
    return not new, new or 'holds'
