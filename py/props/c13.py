"""C13 -- DPLSTM / DPGRU / DPRNN are drop-in equivalents of the torch.nn recurrent layers."""
from py import vlib

GENS = ['Rnn']
RULE = ('(a) a DP recurrent layer loaded from the torch layer\'s state_dict vs the torch layer in float64: outputs, final hidden / cell states, parameter gradients (1e-9), '
        'state_dict keys / shapes / round trip, over (kind in rnn-tanh / rnn-relu / gru / lstm, layers 1-3, bidirectional, bias, batch_first, padded / packed sorted / packed unsorted, '
        'given / default initial state, B 1-4, T 1-6, length patterns, and dropout = 1 in train mode (deterministic)); (a2) train mode with 0 < dropout < 1: no exact zero in the final outputs / final states, train output differs from eval output for >= 2 layers; (b) the real DPRNNBase.forward_layer with an integer stub cell on generated ragged batches, both directions, '
        'compared exactly with the per-sequence recurrence evaluated in Coq; non-trivial = T >= 2 and (packed with unequal lengths or B >= 2); distinct by canonical JSON')
ASSUMPTIONS = ['torch.nn.RNN / GRU / LSTM are the reference semantics', 'gate equations of the cells are compared numerically, not proved']
TRUSTED = ['integer stub cell h\' = x + 2 h[:batch] used to observe the index plumbing of the real time loop']


def gen_equiv(ctx, n):
    r = ctx.rng
    cases = []
    for _ in range(n):
        kind = r.choice(['rnn', 'gru', 'lstm', 'lstm'])
        B, T = r.randint(1, 4), r.randint(1, 6)
        inp = r.choice(['padded', 'packed_sorted', 'packed_unsorted'])
        lens = [r.randint(1, T) for _ in range(B)]
        lens[r.randrange(B)] = T
        if inp == 'packed_sorted':
            lens = sorted(lens, reverse=True)
        cases.append({'seed': r.randint(0, 10**6), 'kind': kind, 'nl': r.choice(['tanh', 'relu']), 'D': r.randint(1, 3), 'H': r.randint(1, 3), 'layers': r.randint(1, 3),
                      'bias': r.random() < 0.7, 'bf': r.random() < 0.5, 'bidir': r.random() < 0.5, 'B': B, 'T': T, 'lens': lens, 'input': inp, 'init': r.random() < 0.5})
        if r.random() < 0.25:
            cases[-1]['wide'] = True        # a float64 layer in a process whose default dtype is float32
        if cases[-1]['layers'] > 1 and r.random() < 0.5:
            # dropout configured, layers in eval mode: inactive in both implementations, on padded and on packed inputs
            cases[-1].update(dropout=r.choice([0.3, 0.7]), eval=True)
    # dropout = 1 in train mode is deterministic in both implementations: every inter-layer output is dropped, the recurrent state never is
    for _ in range(max(3, n // 8)):
        kind = r.choice(['rnn', 'gru', 'lstm'])
        B, T = r.randint(1, 3), r.randint(2, 5)
        inp = r.choice(['padded', 'packed_sorted'])
        lens = sorted([r.randint(1, T) for _ in range(B - 1)] + [T], reverse=True)
        cases.append({'seed': r.randint(0, 10**6), 'kind': kind, 'nl': 'tanh', 'D': r.randint(1, 3), 'H': r.randint(1, 3), 'layers': r.randint(2, 3), 'bias': True, 'bf': r.random() < 0.5,
                      'bidir': r.random() < 0.5, 'B': B, 'T': T, 'lens': lens, 'input': inp, 'init': r.random() < 0.5, 'dropout': 1.0, 'warm': False, 'badcall': False})
    for kind in ('rnn', 'gru', 'lstm'):
        cases.append({'seed': 6, 'kind': kind, 'nl': 'tanh', 'D': 2, 'H': 3, 'layers': 2, 'bias': True, 'bf': False, 'bidir': True, 'B': 3, 'T': 4,
                      'lens': [2, 4, 1], 'input': 'packed_unsorted', 'init': False, 'wide': True})
    # corners named by the property: packed + bidirectional + multi-layer + given initial state + bias=False
    for kind in ('rnn', 'gru', 'lstm'):
        for inp in ('packed_unsorted', 'packed_sorted'):
            cases.append({'seed': 5, 'kind': kind, 'nl': 'relu', 'D': 2, 'H': 3, 'layers': 2, 'bias': False, 'bf': inp == 'packed_sorted', 'bidir': True, 'B': 3, 'T': 4,
                          'lens': [4, 2, 1] if inp == 'packed_sorted' else [2, 4, 1], 'input': inp, 'init': True})
    return cases


def gen_dropout(ctx, n):
    r = ctx.rng
    return [{'seed': r.randint(0, 10**6), 'kind': r.choice(['rnn', 'gru', 'lstm']), 'nl': 'tanh', 'D': r.randint(1, 3), 'H': r.randint(2, 4), 'layers': r.randint(1, 3), 'bias': True,
             'bf': r.random() < 0.5, 'bidir': r.random() < 0.5, 'B': r.randint(2, 4), 'T': r.randint(2, 5), 'dropout': r.choice([0.3, 0.5, 0.8])} for _ in range(n)]


def gen_plumb(ctx, n):
    r = ctx.rng
    cases = []
    for _ in range(n):
        B = r.randint(1, 5)
        T = r.randint(1, 6)
        lens = sorted([r.randint(1, T) for _ in range(B)], reverse=True)
        lens[0] = T
        cases.append({'rows': [[r.randint(-3, 3) for _ in range(l)] for l in lens], 'h0': [r.randint(-2, 2) for _ in range(B)]})
    return cases


def zl(l):
    return '[' + '; '.join('(%d)%%Z' % v for v in l) + ']'


def zll(ll):
    return '[' + '; '.join(zl(l) for l in ll) + ']'


def run_all(ctx, ne, npl):
    ec, pc = gen_equiv(ctx, ne), gen_plumb(ctx, npl)
    dc = gen_dropout(ctx, max(6, ne // 6))
    res = vlib.run_impl('rnn_runs.py', {'equiv': ec, 'plumb': pc, 'dropout': dc}, timeout=7200)
    for c, rr in zip(dc, res['dropout']):
        ctx.case(c, nontrivial=c['layers'] > 1, kind='dropout/%s/L%d' % (c['kind'], c['layers']))
        if rr.get('error'):
            ctx.fail('rnn-harness-error', rr['error'], c)
        for k, w in rr.get('fails', []):
            ctx.fail('rnn-' + k, '%s (%s)' % (w, c['kind']), c)
    for c, rr in zip(ec, res['equiv']):
        nt = c['T'] >= 2 and (c['B'] >= 2 or (c['input'] != 'padded' and len(set(c['lens'])) > 1))
        ctx.case(c, nontrivial=nt, kind='%s/%s/L%d%s' % (c['kind'], c['input'], c['layers'], 'b' if c['bidir'] else ''))
        if rr.get('error'):
            ctx.fail('rnn-harness-error', rr['error'], c)
        for k, w in rr.get('fails', []):
            ctx.fail('rnn-' + k, '%s (%s, %s)' % (w, c['kind'], c['input']), c)
    items, owners = [], []
    for c, rr in zip(pc, res['plumb']):
        ctx.case(c, nontrivial=len(c['rows']) >= 2 and len(c['rows'][0]) >= 2, kind='plumbing/B%d' % len(c['rows']))
        if rr.get('error'):
            ctx.fail('rnn-harness-error', rr['error'], c)
            continue
        items.append('(%s, %s, %s, %s, %s, %s)' % (zll(c['rows']), zl(c['h0']), zll(rr['fwd_out']), zl(rr['fwd_last']), zll(rr['rev_out']), zl(rr['rev_last'])))
        owners.append((c, rr))
    ctx.traces += len(ec) + len(pc)
    if items:
        hdr = 'From Coq Require Import ZArith List Bool.\nFrom OV Require Import Gen.Rnn Proofs.RnnP Exec.RunRnn.\nImport ListNotations.\n'
        bad = []
        for k in range(0, len(items), 400):
            body = 'Definition cases : list (list (list Z) * list Z * list (list Z) * list Z * list (list Z) * list Z) := [\n ' + ';\n '.join(items[k:k + 400]) + '\n].\nEval vm_compute in (bad_rnn 0 cases).\n'
            with vlib.CoqLock():
                vlib.coq_make(['Exec/RunRnn.vo'])
                rc, out = vlib.coq_eval('cases_c13_%d' % k, hdr, body)
            lists = vlib.parse_eval_lists(out)
            if rc != 0 or len(lists) != 1:
                ctx.obligation('correspondence:packed-time-loop(model=impl)', False, 'case file failed: ' + out[-600:])
                return
            bad += [k + i for i in lists[0]]
        ctx.obligation('correspondence:packed-time-loop(model=impl)', not bad,
                       '' if not bad else 'forward_layer with the integer cell differs from the per-sequence recurrence on %s -> %s' % (owners[bad[0]][0], {k: v for k, v in owners[bad[0]][1].items() if k != 'error'}))
        for i in bad[:1]:
            ctx.fail('rnn-time-loop', 'the packed time loop (integer cell) does not compute the per-sequence recurrence: got %s' % {k: v for k, v in owners[i][1].items() if k != 'error'}, owners[i][0])


def run(ctx, gen_status):
    vlib.check_property_file(ctx, 'C13', gen_status, GENS)
    run_all(ctx, ctx.n(120, 3000), ctx.n(150, 2000))


def search(ctx):
    run_all(ctx, 200, 200)


def replay_case(ctx, failure):
    c = failure['case']
    n0 = len(ctx.failures)
    if 'rows' in c:
        ctx.rng.seed(0)
        rr = vlib.run_impl('rnn_runs.py', {'plumb': [c]})['plumb'][0]
        return False, rr
    rr = vlib.run_impl('rnn_runs.py', {'equiv': [c]})['equiv'][0]
    bad = rr.get('fails') or rr.get('error')
    return not bad, bad or 'holds'
