"""C18 -- distributed DP training equals single-process DP training on the union batch."""
from py import vlib

GENS = ['Dist', 'Engine']
RULE = ('real gloo process groups (file store, CPU) of W ranks running make_private + DPDDP / torch DDP with the distributed optimizer selected by the engine, '
        'vs a single-process DP optimizer on the union of the shards with the total expected batch size; torch.normal replaced by a deterministic function of (shape, std); '
        'a case = (world size, clipping/mode, loss reduction, shard sizes per step incl. empty shards for flat/ghost, model, seed); compared: parameters on every rank '
        '(pairwise, and with the reference, 1e-9), start parameters (broadcast from rank 0), per-rank expected batch size; probe cases (zero-weight linear layer, huge C) '
        'are additionally compared with the generated release evaluated on binary64 in Coq; the ghost adaptive engine under DDP with per-rank RNG streams: clipping norm, noise multiplier and parameters equal on all ranks after every step; non-trivial = at least two ranks with data; distinct by canonical JSON')
ASSUMPTIONS = ['per-sample clipping of a shard does not depend on the other shards (C02)', 'gloo all_reduce(SUM) / broadcast are exact collectives',
               'torch DDP + tensor-hook interplay of DistributedPerLayerOptimizer is modelled from observation (accumulate twice, average)']
TRUSTED = ['torch.normal stand-in (deterministic in shape and std) used on all ranks and in the reference', 'gloo transport, process scheduling: not modelled; hangs are reported as errors']
KINDS = [('flat', 'hooks'), ('per_layer', 'ew'), ('ghost', 'ghost'), ('per_layer', 'hooks')]


def shards(r, W, steps, allow_empty):
    out = []
    for _ in range(steps):
        sz = [r.randint(0 if allow_empty else 1, 4) for _ in range(W)]
        if sum(1 for x in sz if x > 0) < min(2, W):
            sz[0] = max(sz[0], 2)
            sz[-1] = max(sz[-1], 1)
        out.append(sz)
    return out


def gen(ctx, W, n_per_kind, probes):
    r = ctx.rng
    cases = []
    for clip, mode in KINDS:
        for i in range(n_per_kind):
            for red in ('mean', 'sum'):
                cases.append({'seed': r.randint(0, 10**5), 'model': r.choice(['lin', 'lin', 'emb']) if clip != 'ghost' else 'lin', 'B': r.choice([4, 6, 12]),
                              'sigma': r.choice([0.0, 0.7, 1.3]), 'C': r.choice([0.05, 0.4, 100.0]), 'clipping': clip, 'mode': mode, 'reduction': red,
                              'scale': r.choice([0.1, 1.0, 10.0]),
                              'shards': shards(r, W, r.randint(1, 3), allow_empty=(clip in ('flat', 'ghost') and i > 0))})
    for clip, mode in (('flat', 'hooks'), ('ghost', 'ghost')):
        # parameters added to the optimizer after it was built (add_param_group), several steps
        cases.append({'seed': r.randint(0, 10**5), 'model': 'lin', 'B': 6, 'sigma': 0.7, 'C': 0.4, 'clipping': clip, 'mode': mode, 'reduction': r.choice(['mean', 'sum']),
                      'scale': 1.0, 'shards': shards(r, W, 3, allow_empty=False), 'late_group': True})
    # the distributed module handed to make_private already wrapped in a GradSampleModule
    cases.append({'seed': r.randint(0, 10**5), 'model': 'lin', 'B': 6, 'sigma': 0.7, 'C': 0.4, 'clipping': 'flat', 'mode': 'hooks', 'reduction': r.choice(['mean', 'sum']),
                  'scale': 1.0, 'shards': shards(r, W, 2, allow_empty=False), 'prewrapped': True})
    # a second make_private on the same engine with the objects the first one returned: the replaced optimizer is without effect
    for clip, mode in KINDS:
        cases.append({'seed': r.randint(0, 10**5), 'model': 'lin', 'B': 6, 'sigma': 0.7, 'C': 0.4, 'clipping': clip, 'mode': mode, 'reduction': r.choice(['mean', 'sum']),
                      'scale': 1.0, 'shards': shards(r, W, 2, allow_empty=False), 'remake': True})
    # a frozen first layer whose values differ between the ranks before wrapping: DPDDP must still broadcast rank 0's copy
    cases.append({'seed': r.randint(0, 10**5), 'model': 'lin', 'B': 6, 'sigma': 0.7, 'C': 0.4, 'clipping': 'flat', 'mode': 'hooks', 'reduction': r.choice(['mean', 'sum']),
                  'scale': 1.0, 'shards': shards(r, W, 2, allow_empty=False), 'freeze': True})
    for i in range(probes):
        for clip, mode in KINDS:
            if clip == 'ghost':
                continue
            cases.append({'seed': r.randint(0, 10**5), 'model': 'probe', 'B': r.choice([4, 6, 12]), 'sigma': 1e-6, 'C': 1e6, 'clipping': clip, 'mode': mode,
                          'reduction': r.choice(['mean', 'sum']), 'shards': shards(r, W, 1, allow_empty=(clip == 'flat'))})
    return cases


def maxdiff(a, b):
    return max((abs(x - y) for x, y in zip(a, b)), default=0.0) if len(a) == len(b) else float('inf')


def judge(ctx, W, c, rr):
    errs = [x.get('error') for x in rr['ranks']] + [rr['ref'].get('error')]
    if any(errs):
        ctx.fail('dist-error', 'rank / reference raised or hung: %s' % [e for e in errs if e][:2], dict(c, W=W))
        return None
    ranks, ref = rr['ranks'], rr['ref']
    cw = dict(c, W=W)
    for i, x in enumerate(ranks):
        if maxdiff(x['start'], ranks[0]['start']) != 0.0 or maxdiff(x['start'], ref['start']) != 0.0:
            ctx.fail('broadcast', 'rank %d does not start from rank 0\'s parameters' % i, cw)
            return None
        if abs(x['ebs'] * W - ref['ebs']) > 1e-9:
            ctx.fail('expected-batch-size', 'rank %d expected_batch_size %r, single-process %r, W=%d' % (i, x['ebs'], ref['ebs'], W), cw)
    dis = max(maxdiff(x['final'], ranks[0]['final']) for x in ranks)
    if dis > 1e-12:
        ctx.fail('ranks-disagree', 'parameters differ between ranks by %.3g' % dis, cw)
    d = maxdiff(ranks[0]['final'], ref['final'])
    scale = max(1.0, max(abs(v) for v in ref['final']))
    if d > 1e-9 * scale:
        what = '%s on %d ranks: parameters differ from the single-process run on the union batch by %.3g' % (ranks[0]['opt_class'], W, d)
        if c['clipping'] == 'per_layer' and c['mode'] == 'hooks' and W != 2:
            ok_ratio = True
            if len(c['shards']) == 1:      # first step: the update is exactly 2/W of the reference update
                for s0, f0, rs, rf in zip(ranks[0]['start'], ranks[0]['final'], ref['start'], ref['final']):
                    if abs((f0 - s0) - (2.0 / W) * (rf - rs)) > 1e-9 * (1 + abs(rf - rs)):
                        ok_ratio = False
            ctx.fail('perlayer-hooks-world-size' if ok_ratio else 'dist-differs', what + (' (update = 2/W x reference)' if ok_ratio else ''), cw)
        else:
            ctx.fail('dist-differs', what, cw)
    return ranks


def probe_items(W, c, ranks):
    """Coq case lines for a probe case: per component, per-rank sums, noise, observed gradient (= -final weight, lr 1, zero start)"""
    kind = 2 if (c['clipping'] == 'per_layer' and c['mode'] == 'hooks') else 0
    z = ranks[0]['noise'][0] if ranks[0]['noise'] else [0.0] * 4
    items = []
    for d in range(4):
        Ss = [ranks[w]['S'][0][d] for w in range(W)]
        want = -ranks[0]['final'][d]
        items.append('(%d%%Z, %s, %s, [%s], %s, %s)' % (kind, 'true' if c['reduction'] == 'mean' else 'false', vlib.fhex(float(c['B'])),
                                                       '; '.join(vlib.fhex(s) for s in Ss), vlib.fhex(z[d]), vlib.fhex(want)))
    return items


def run_group(ctx, W, n_per_kind, probes):
    cases = gen(ctx, W, n_per_kind, probes)
    items, owners = [], []
    # one process group per optimizer kind keeps a failure in one kind from starving the others
    for clip, mode in KINDS:
        sub = [c for c in cases if (c['clipping'], c['mode']) == (clip, mode)]
        if not sub:
            continue
        res = vlib.run_impl('dist_runs.py', {'W': W, 'cases': sub}, timeout=1800)['results']
        for c, rr in zip(sub, res):
            nt = sum(1 for x in c['shards'][0] if x > 0) >= min(2, W)
            ctx.case(dict(c, W=W), nontrivial=nt, kind='W%d/%s-%s/%s' % (W, clip, mode, c['model']))
            ranks = judge(ctx, W, c, rr)
            if ranks and c['model'] == 'probe':
                it = probe_items(W, c, ranks)
                items += it
                owners += [dict(c, W=W)] * len(it)
        ctx.traces += len(sub)
    if items:
        hdr = 'From Coq Require Import ZArith List Bool Floats.PrimFloat.\nFrom OV Require Import Base.Num Base.NumF Base.Py Gen.Dist Exec.RunDist.\nImport ListNotations.\n'
        body = 'Definition cases : list (Z * bool * float * list float * float * float) := [\n ' + ';\n '.join(items) + '\n].\nEval vm_compute in (bad_dist 0 cases).\n'
        with vlib.CoqLock():
            vlib.coq_make(['Exec/RunDist.vo'])
            rc, out = vlib.coq_eval('cases_c18_%d' % W, hdr, body)
        lists = vlib.parse_eval_lists(out)
        if rc != 0 or len(lists) != 1:
            ctx.obligation('correspondence:dist-release-binary64(W=%d)' % W, False, 'case file failed: ' + out[-600:])
        else:
            bad = lists[0]
            ctx.obligation('correspondence:dist-release-binary64(W=%d)' % W, not bad,
                           '' if not bad else 'generated release differs from the gradient observed on the ranks for %s' % [owners[i] for i in bad[:2]])
            for i in bad[:1]:
                ctx.fail('dist-model-vs-impl', 'gradient on the ranks differs from the generated release (component case %d)' % i, owners[i])


def run_adaptive(ctx, W, n):
    """ghost-clipping adaptive engine under DDP: one clipping norm, one noise multiplier, one model on all ranks after every step"""
    r = ctx.rng
    cases = [{'seed': r.randint(0, 10**5), 'per_rank': r.choice([16, 24, 32]), 'B': r.choice([8, 16]), 'scale': r.choice([0.3, 1.0, 3.0]), 'sigma': r.choice([0.7, 1.0]),
              'C': r.choice([0.3, 1.0]), 'q': r.choice([0.3, 0.5, 0.8]), 'lr': r.choice([0.2, 0.5])} for _ in range(n)]
    res = vlib.run_impl('dist_ada.py', {'W': W, 'cases': cases, 'timeout': 240 + 30 * n}, timeout=600 + 60 * n)
    ranks = res['ranks']
    for i, c in enumerate(cases):
        cw = dict(c, W=W, adaptive=True)
        ctx.case(cw, nontrivial=True, kind='W%d/ghost-adaptive' % W)
        rs = [rk[i] if rk else None for rk in ranks]
        if any(x is None or x.get('error') for x in rs):
            ctx.fail('dist-error', 'adaptive ghost engine under DDP raised or hung: %s' % [x.get('error') if x else 'no result' for x in rs][:2], cw)
            continue
        for k, name in (('C', 'clipping norm'), ('nm', 'noise multiplier')):
            dis = max(maxdiff(x[k], rs[0][k]) for x in rs)
            if dis > 1e-12:
                step = next(j for j in range(len(rs[0][k])) if max(abs(x[k][j] - rs[0][k][j]) for x in rs) > 1e-12)
                ctx.fail('dist-adaptive-%s-diverges' % k, 'ghost adaptive engine on %d ranks: %s differs between ranks after step %d: %s' % (W, name, step + 1, [x[k][step] for x in rs]), cw)
        if max(maxdiff(x['w'], rs[0]['w']) for x in rs) > 1e-12:
            ctx.fail('ranks-disagree', 'ghost adaptive engine: parameters differ between ranks', cw)
    ctx.traces += len(cases)


def run(ctx, gen_status):
    vlib.check_property_file(ctx, 'C18', gen_status, GENS)
    if ctx.thorough:
        for W in (1, 2, 3, 4):
            run_group(ctx, W, 4, 4)
        for W in (2, 3):
            run_adaptive(ctx, W, 6)
    else:
        run_group(ctx, 2, 1, 1)
        run_group(ctx, 3, 1, 1)
        run_adaptive(ctx, 2, 2)


def search(ctx):
    if all(f['key'] == 'perlayer-hooks-world-size' for f in ctx.failures) and not ctx.broken:
        return
    run_group(ctx, 3, 2, 2)


def replay_case(ctx, failure):
    c = dict(failure['case'])
    W = c.pop('W')
    n0 = len(ctx.failures)
    if c.pop('adaptive', False):
        ctx2 = ctx
        res = vlib.run_impl('dist_ada.py', {'W': W, 'cases': [c]}, timeout=600)
        rs = [rk[0] if rk else None for rk in res['ranks']]
        bad = [x for x in rs if x is None or x.get('error')] or [k for k in ('C', 'nm', 'w') if max(maxdiff(x[k], rs[0][k]) for x in rs) > 1e-12]
        return not bad, bad or 'holds'
    rr = vlib.run_impl('dist_runs.py', {'W': W, 'cases': [c]}, timeout=600)['results'][0]
    judge(ctx, W, c, rr)
    new = [f for f in ctx.failures[n0:] if f['key'] != 'perlayer-hooks-world-size']
    return not new, new or 'holds'
