"""C20 -- adaptive clipping follows its update rule and its cost is fully accounted (proof of the rule; accounting is a recorded finding)."""
import math
from py import vlib

GENS = ['AdaClip', 'Optim']
RULE = ('real AdaClipDPOptimizer steps on crafted batches (per-sample gradient norms chosen around the clipping norm) with every torch.normal call recorded: '
        'the norm after the step vs clamp(C exp(-lr ((count + noise)/n - gamma))), count = #{norm_i + 1e-6 <= C}, no update on skipped steps, std of the count noise, '
        'gradient noise multiplier vs (sigma^-2 - (2 sigma_b)^-2)^(-1/2), multiplier handed to the accountant vs the nominal sigma; '
        'non-trivial = some but not all samples are clipped; distinct by canonical JSON')
ASSUMPTIONS = ['Andrew et al. 2021 Thm 1: a release at sigma_g plus a count release at sigma_b is one Gaussian mechanism of multiplier sigma (cited)']
TRUSTED = ['wrapper around torch.normal recording the count noise value']


def gen(ctx, n):
    r = ctx.rng
    cases = []
    for _ in range(n):
        steps = r.randint(1, 3)
        nn_ = r.randint(2, 8)
        C = r.choice([0.5, 1.0, 2.0])
        cases.append({'seed': r.randint(0, 10**6), 'sigma': r.choice([0.8, 1.0, 1.5]), 'sigma_b': r.choice([2.0, 5.0, 20.0]), 'C': C, 'n': nn_,
                      'gamma': r.choice([0.3, 0.5, 0.8]), 'lr': r.choice([0.1, 0.2, 0.5]), 'maxc': r.choice([1e3, 2.5]), 'minc': r.choice([1e-3, 0.4]),
                      'steps': steps, 'skip': r.random() < 0.2,
                      'norms': [[round(C * r.choice([0.2, 0.6, 0.999, 1.0, 1.001, 1.5, 3.0]), 6) for _ in range(nn_)] for _ in range(steps)]})
    return cases


def judge(ctx, c, rr):
    if rr.get('error'):
        ctx.fail('adaclip-harness-error', rr['error'], c)
        return
    sg = (c['sigma'] ** -2 - (2 * c['sigma_b']) ** -2) ** -0.5
    if abs(rr['sigma_used'] - sg) > 1e-12 * sg:
        ctx.fail('gradient-noise-multiplier', 'gradient noise multiplier %r, expected (sigma^-2-(2 sigma_b)^-2)^(-1/2) = %r' % (rr['sigma_used'], sg), c)
    pend_count, pend_n = 0, 0
    for st in rr['steps']:
        C0 = st['C0']
        pend_count += sum(1 for x in st['norms'] if min(1.0, C0 / (x + 1e-6)) >= 1.0)
        pend_n += len(st['norms'])
        if st['skipped']:
            if st['C1'] != C0:
                ctx.fail('update-on-skipped-step', 'clipping norm changed on a skipped step: %r -> %r' % (C0, st['C1']), c)
            if st['rec']:
                ctx.fail('noise-on-skipped-step', 'noise drawn on a skipped step', c)
            continue
        rec = st['rec']
        if not rec or abs(rec[-1][0] - c['sigma_b']) > 0 or len(rec) != 2:
            ctx.fail('count-noise', 'expected one gradient draw and one count draw of std sigma_b; recorded %s' % [(a, b) for a, b, _ in rec], c)
            return
        if abs(rec[0][0] - sg * C0) > 1e-12 * (1 + sg * C0):
            ctx.fail('gradient-noise-std', 'gradient noise std %r, expected sigma_g*C = %r' % (rec[0][0], sg * C0), c)
        z = rec[-1][2]
        want = C0 * math.exp(-c['lr'] * ((pend_count + z) / pend_n - c['gamma']))
        want = min(max(want, c['minc']), c['maxc'])
        if abs(st['C1'] - want) > 1e-6 * (1 + abs(want)):
            ctx.fail('update-rule', 'norm after the step %r, rule gives %r (count %d of %d, noise %r)' % (st['C1'], want, pend_count, pend_n, z), c)
        pend_count, pend_n = 0, 0
        if st['hist']:
            rec_sigma = st['hist'][-1][0]
            if rec_sigma > c['sigma'] * (1 + 1e-12):
                ctx.fail('accounted-sigma-inflated', 'the accountant was charged with noise multiplier %r > nominal %r (count release unaccounted)' % (rec_sigma, c['sigma']), c)


def run_cases(ctx, n):
    cases = gen(ctx, n)
    res = vlib.run_impl('adaclip_cases.py', {'cases': cases}, timeout=3600)['results']
    for c, rr in zip(cases, res):
        nt = any(0 < sum(1 for x in ns if x <= c['C']) < len(ns) for ns in c['norms'])
        ctx.case(c, nontrivial=nt, kind='adaclip/steps%d' % c['steps'])
        judge(ctx, c, rr)
    ctx.traces += len(cases)


def run(ctx, gen_status):
    vlib.check_property_file(ctx, 'C20', gen_status, GENS)
    run_cases(ctx, ctx.n(60, 1500))


def search(ctx):
    if all(f['key'] == 'accounted-sigma-inflated' for f in ctx.failures):
        return
    run_cases(ctx, 200)


def replay_case(ctx, failure):
    c = failure['case']
    n0 = len(ctx.failures)
    rr = vlib.run_impl('adaclip_cases.py', {'cases': [c]})['results'][0]
    judge(ctx, c, rr)
    return len(ctx.failures) == n0, ctx.failures[n0:] or 'holds'
