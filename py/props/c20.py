"""C20 -- adaptive clipping follows its update rule and its cost is fully accounted (proof of the rule; accounting is a recorded finding)."""
import math
from py import vlib

GENS = ['AdaClip', 'Optim']
RULE = ('real AdaClipDPOptimizer steps on crafted batches (per-sample gradient norms chosen around the clipping norm) with every torch.normal call recorded: '
        'the norm after the step vs clamp(C exp(-lr ((count + noise)/n - gamma))), count = #{norm_i + 1e-6 <= C}, no update on skipped steps, std of the count noise, '
        'gradient noise multiplier vs (sigma^-2 - (2 sigma_b)^-2)^(-1/2), multiplier handed to the accountant vs the nominal sigma; '
        'and the ghost-clipping adaptive engine (PrivacyEngineAdaptiveClipping, uniform loader with a ragged last batch): count noise std = realised batch/20, '
        'gradient noise multiplier for THAT sigma_b, gradient noise std = multiplier x the updated norm, update rule with the noisy count, accounted multiplier; '
        'non-trivial = some but not all samples are clipped; distinct by canonical JSON')
ASSUMPTIONS = ['Andrew et al. 2021 Thm 1: a release at sigma_g plus a count release at sigma_b is one Gaussian mechanism of multiplier sigma (cited)']
TRUSTED = ['wrapper around torch.normal recording the count noise value']


def gen(ctx, n):
    r = ctx.rng
    cases = []
    for _ in range(n):
        steps = r.randint(1, 3)
        nn_ = r.randint(2, 8)
        C = r.choice([0.5, 1.0, 2.0])
        cases.append({'seed': r.randint(0, 10**6), 'sigma': r.choice([0.8, 1.0, 1.5]), 'sigma_b': r.choice([2.0, 5.0, 20.0]), 'C': C, 'n': nn_,
                      'gamma': r.choice([0.3, 0.5, 0.8]), 'lr': r.choice([0.1, 0.2, 0.5]), 'maxc': r.choice([1e3, 2.5]), 'minc': r.choice([1e-3, 0.4]),
                      'steps': steps, 'skip': r.random() < 0.2,
                      'norms': [[round(C * r.choice([0.2, 0.6, 0.999, 1.0, 1.001, 1.5, 3.0]), 6) for _ in range(nn_)] for _ in range(steps)]})
        if r.random() < 0.25:            # an empty Poisson batch somewhere in the run
            cases[-1]['norms'][r.randrange(steps)] = []
    return cases


def judge(ctx, c, rr):
    if rr.get('error'):
        ctx.fail('adaclip-harness-error', rr['error'], c)
        return
    sg = (c['sigma'] ** -2 - (2 * c['sigma_b']) ** -2) ** -0.5
    if abs(rr['sigma_used'] - sg) > 1e-12 * sg:
        ctx.fail('gradient-noise-multiplier', 'gradient noise multiplier %r, expected (sigma^-2-(2 sigma_b)^-2)^(-1/2) = %r' % (rr['sigma_used'], sg), c)
    pend_count, pend_n = 0, 0
    for st in rr['steps']:
        C0 = st['C0']
        pend_count += sum(1 for x in st['norms'] if min(1.0, C0 / (x + 1e-6)) >= 1.0)
        pend_n += len(st['norms'])
        if st['skipped']:
            if st['C1'] != C0:
                ctx.fail('update-on-skipped-step', 'clipping norm changed on a skipped step: %r -> %r' % (C0, st['C1']), c)
            if st['rec']:
                ctx.fail('noise-on-skipped-step', 'noise drawn on a skipped step', c)
            continue
        rec = st['rec']
        if not rec or abs(rec[-1][0] - c['sigma_b']) > 0 or len(rec) != 2:
            ctx.fail('count-noise', 'expected one gradient draw and one count draw of std sigma_b; recorded %s' % [(a, b) for a, b, _ in rec], c)
            return
        if abs(rec[0][0] - sg * C0) > 1e-12 * (1 + sg * C0):
            ctx.fail('gradient-noise-std', 'gradient noise std %r, expected sigma_g*C = %r' % (rec[0][0], sg * C0), c)
        z = rec[-1][2]
        if pend_n == 0:                  # nothing but empty batches since the last update: the norm stays (and is a number)
            want = C0
        else:
            want = C0 * math.exp(-c['lr'] * ((pend_count + z) / pend_n - c['gamma']))
            want = min(max(want, c['minc']), c['maxc'])
        if not abs(st['C1'] - want) <= 1e-6 * (1 + abs(want)):
            ctx.fail('update-rule', 'norm after the step %r, rule gives %r (count %d of %d, noise %r)' % (st['C1'], want, pend_count, pend_n, z), c)
        pend_count, pend_n = 0, 0
        if st['hist']:
            rec_sigma = st['hist'][-1][0]
            if rec_sigma > c['sigma'] * (1 + 1e-12):
                ctx.fail('accounted-sigma-inflated', 'the accountant was charged with noise multiplier %r > nominal %r (count release unaccounted)' % (rec_sigma, c['sigma']), c)


def gen_ghost(ctx, n):
    r = ctx.rng
    cases = []
    for _ in range(n):
        B = r.choice([16, 24, 32])
        # a uniform loader whose last batch is smaller than the expected batch size whenever B does not divide N
        N = B * r.randint(1, 2) + r.choice([0, 12, 14])
        cases.append({'ghost': True, 'seed': r.randint(0, 10**6), 'N': N, 'B': B, 'scale': r.choice([0.3, 1.0, 3.0]), 'sigma': r.choice([0.6, 1.0]),
                      'C': r.choice([0.3, 1.0, 3.0]), 'q': r.choice([0.3, 0.5, 0.8]), 'lr': r.choice([0.1, 0.2, 0.5]),
                      'minc': r.choice([1e-3, 0.5]), 'maxc': r.choice([1e3, 2.0])})
    return cases


def judge_ghost(ctx, c, rr):
    if rr.get('error'):
        ctx.fail('adaclip-harness-error', rr['error'], c)
        return
    for st in rr['steps']:
        rec, n, C0, C1 = st['rec'], st['n'], st['C0'], st['C1']
        if len(rec) < 2 or rec[0][1] != [1]:
            ctx.fail('count-noise', 'ghost engine: expected the count draw first; recorded %s' % [(a, b) for a, b, _ in rec], c)
            return
        sb = rec[0][0]
        if abs(sb - n / 20.0) > 1e-12:
            ctx.fail('count-noise', 'ghost engine: count noise std %r, configured batch/20 = %r' % (sb, n / 20.0), c)
        sg = (c['sigma'] ** -2 - (2 * sb) ** -2) ** -0.5
        if abs(st['nm'] - sg) > 1e-12 * sg:
            ctx.fail('gradient-noise-multiplier', 'ghost engine: gradient noise multiplier %r, but (sigma^-2-(2 sigma_b)^-2)^(-1/2) = %r for the sigma_b = %r '
                     'actually used on the count (batch of %d, expected batch size %r)' % (st['nm'], sg, sb, n, st['ebs']), c)
        for std, size, _ in rec[1:]:
            if abs(std - sg * C1) > 1e-12 * (1 + sg * C1):
                ctx.fail('gradient-noise-std', 'ghost engine: gradient noise std %r, expected sigma_g * clipping norm = %r' % (std, sg * C1), c)
                break
        z = rec[0][2]
        cnt = sum(1 for x in st['norms'] if x <= C0)
        want = min(max(C0 * math.exp(-c['lr'] * ((cnt + z) / n - c['q'])), c['minc']), c['maxc'])
        if abs(C1 - want) > 1e-6 * (1 + abs(want)):
            ctx.fail('update-rule', 'ghost engine: norm after the step %r, rule gives %r (count %d of %d, noise %r)' % (C1, want, cnt, n, z), c)
    if rr['steps'] and rr['steps'][-1]['hist']:
        worst = max(h[0] for h in rr['steps'][-1]['hist'])
        if worst > c['sigma'] * (1 + 1e-12):
            ctx.fail('ghost-accounted-sigma-inflated', 'ghost adaptive engine: the accountant was charged with noise multiplier %r > nominal %r (count release unaccounted)'
                     % (worst, c['sigma']), c)


def run_ghost(ctx, n):
    cases = gen_ghost(ctx, n)
    res = vlib.run_impl('adaptive_ghost.py', {'cases': cases}, timeout=3600)['results']
    for c, rr in zip(cases, res):
        nt = (not rr.get('error')) and any(0 < sum(1 for x in st['norms'] if x <= st['C0']) < st['n'] for st in rr['steps'])
        ctx.case(c, nontrivial=nt, kind='ghost-adaptive/%s' % ('ragged' if c['N'] % c['B'] else 'even'))
        judge_ghost(ctx, c, rr)
    ctx.traces += len(cases)


def run_cases(ctx, n):
    cases = gen(ctx, n)
    res = vlib.run_impl('adaclip_cases.py', {'cases': cases}, timeout=3600)['results']
    for c, rr in zip(cases, res):
        nt = any(0 < sum(1 for x in ns if x <= c['C']) < len(ns) for ns in c['norms'])
        ctx.case(c, nontrivial=nt, kind='adaclip/steps%d' % c['steps'])
        judge(ctx, c, rr)
    ctx.traces += len(cases)


def run(ctx, gen_status):
    vlib.check_property_file(ctx, 'C20', gen_status, GENS)
    run_cases(ctx, ctx.n(60, 1500))
    run_ghost(ctx, ctx.n(12, 200))


def search(ctx):
    if all(f['key'] in ('accounted-sigma-inflated', 'ghost-accounted-sigma-inflated') for f in ctx.failures):
        return
    run_cases(ctx, 200)
    run_ghost(ctx, 40)


def replay_case(ctx, failure):
    c = failure['case']
    n0 = len(ctx.failures)
    if c.get('ghost'):
        judge_ghost(ctx, c, vlib.run_impl('adaptive_ghost.py', {'cases': [c]})['results'][0])
    else:
        judge(ctx, c, vlib.run_impl('adaclip_cases.py', {'cases': [c]})['results'][0])
    return len(ctx.failures) == n0, ctx.failures[n0:] or 'holds'
