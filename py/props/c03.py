"""C03 -- a DP step hands the inner optimizer clip-sum-noise-scale of true gradients."""
from py import vlib
from py.props import clip_common as cc

GENS = ['Optim', 'Engine', 'Ghost']
RULE = ('one logical step of DPOptimizer / DPPerLayerOptimizer / AdaClipDPOptimizer / DPOptimizerFastGradientClipping on small models '
        '(mlp, 3-D input, conv, embedding, norms) vs the closed form with per-sample gradients obtained by autograd on each sample alone '
        'and the recorded noise; cross-mode agreement; optimizer class table; expected batch size on binary64; '
        'non-trivial = some sample is clipped or noise is non-zero; distinct by canonical JSON')
ASSUMPTIONS = ['autograd on one sample alone defines the true per-sample gradient', 'IEEE binary64 arithmetic of CPython = PrimFloat']
TRUSTED = ['Exec/RunClip.v runner']


def run_steps(ctx, n):
    steps = cc.gen_step(ctx, n)
    res = vlib.run_impl('clip_numeric.py', {'sens': [], 'step': steps}, timeout=7200)['step']
    for c, r in zip(steps, res):
        ctx.case(c, nontrivial=c['nm'] > 0 or c['C'] < 1e5, kind='step/%s/%s' % (c['clipping'], c['model']))
        if r['error']:
            ctx.fail('step-harness-error', r['error'], c)
        for b in r['bad'][:1]:
            # recorded finding: ghost clipping with column-shaped per-sample losses releases sum_chunks (sum_j c_j)(sum_i g_i) (checked by the harness)
            col = c['clipping'] == 'ghost' and c.get('lcol') and r.get('defect_form') is True
            ctx.fail('ghost-column-loss-unclipped' if col else 'release-not-closed-form', b, c)
    return steps, res


def engine_numbers(ctx):
    """expected_batch_size of the real make_private and the optimizer class table vs the generated definitions"""
    r = ctx.rng
    cases = [(r.randint(1, 5000), r.randint(1, 400)) for _ in range(ctx.n(300, 3000))]          # (dataset size, batch size)
    cases += [(l * b, b) for l in (49, 98, 103, 107, 161, 187, 196) for b in (1, 3, 64)]
    real = [[[r.choice([12, 32, 64, 50]), r.choice([4, 8, 5]), r.random() < 0.5, r.choice(['hooks', 'ghost', 'functorch'])] for _ in range(r.randint(1, 3))] for _ in range(ctx.n(6, 40))]
    # loader lengths for which fl(1/L) * N rounds below the integer N/L (49, 98, 103, 107, 161, 187, ...)
    real += [[[3136, 64, True, 'hooks'], [49, 1, False, 'hooks']], [[206, 2, True, 'ghost']], [[107 * 3, 3, False, 'hooks'], [161 * 5, 5, True, 'hooks']]]
    py = vlib.run_impl('engine_numbers.py', {'ebs': cases, 'classes': True, 'real': real})
    for seq, got in zip(real, py['real']):
        ctx.case({'engine_calls': seq}, nontrivial=len(seq) > 1, kind='engine-ebs/%d-calls' % len(seq))
        for k, ((n, bs, poisson, mode), (ebs, L)) in enumerate(zip(seq, got)):
            want = n // L           # the integer part of q * N for q = 1/L (exact: B when the batch size divides N)
            if ebs != want:
                ctx.fail('engine-expected-batch-size', 'make_private call #%d on one engine (dataset of %d, loader of %d batches, %s): expected_batch_size %r, integer part of N/L = %d'
                         % (k + 1, n, L, mode, ebs, want), {'engine_calls': seq})
                break
    header = ('From Coq Require Import ZArith List String Floats.PrimFloat.\nFrom OV Require Import Base.Num Base.NumF Base.Py Gen.Engine.\n'
              'Import ListNotations.\n')
    items = ['(%d%%Z, %d%%Z, %d%%Z)' % (n, l, e) for (n, l, e) in py['ebs']]
    body = ('Definition cases : list (Z * Z * Z) := [\n ' + ';\n '.join(items) + '\n].\n'
            'Definition bad := filter (fun c => let \'(n, l, e) := c in negb (Z.eqb (engine_expected_batch_size n l (engine_sample_rate l)) e)) cases.\n'
            'Eval vm_compute in (map (fun c => fst (fst c)) bad).\n')
    rc, out = vlib.coq_eval('cases_c03e_%d' % (ctx.seed % 100000), header, body)
    lists = vlib.parse_eval_lists(out)
    ok = rc == 0 and len(lists) == 1 and not lists[0]
    ctx.traces += len(items)
    ctx.obligation('correspondence:expected-batch-size(model=real make_private)', ok, '' if ok else 'generated expected_batch_size differs from the real make_private: ' + out[-300:])
    # class table
    want = {('flat', False, 'hooks'): 'DPOptimizer', ('flat', True, 'hooks'): 'DistributedDPOptimizer', ('per_layer', False, 'hooks'): 'DPPerLayerOptimizer',
            ('per_layer', True, 'hooks'): 'DistributedPerLayerOptimizer', ('per_layer', True, 'ew'): 'SimpleDistributedPerLayerOptimizer',
            ('adaptive', False, 'hooks'): 'AdaClipDPOptimizer', ('flat', False, 'ghost'): 'DPOptimizerFastGradientClipping',
            ('flat', True, 'ghost'): 'DistributedDPOptimizerFastGradientClipping'}
    for k, v in want.items():
        got = py['classes'].get('%s|%s|%s' % k)
        ctx.case({'class': k}, kind='class-table')
        if got != v:
            ctx.fail('optimizer-class', 'get_optimizer_class%s = %s, documented %s' % (k, got, v), {'class': list(k)})


def run(ctx, gen_status):
    vlib.check_property_file(ctx, 'C03', gen_status, GENS)
    steps, res = run_steps(ctx, ctx.n(60, 1200))
    cc.clip_factor_correspondence(ctx, steps, res, 'c03')
    engine_numbers(ctx)


def search(ctx):
    if any(f['key'] != 'ghost-column-loss-unclipped' for f in ctx.failures):
        return
    run_steps(ctx, 400)


def replay_case(ctx, failure):
    c = failure['case']
    n0 = len(ctx.failures)
    if 'clipping' in c:
        r = vlib.run_impl('clip_numeric.py', {'sens': [], 'step': [c]})['step'][0]
        for b in r['bad'][:1]:
            # recorded finding: ghost clipping with column-shaped per-sample losses releases sum_chunks (sum_j c_j)(sum_i g_i) (checked by the harness)
            col = c['clipping'] == 'ghost' and c.get('lcol') and r.get('defect_form') is True
            ctx.fail('ghost-column-loss-unclipped' if col else 'release-not-closed-form', b, c)
    elif 'engine_calls' in c:
        got = vlib.run_impl('engine_numbers.py', {'real': [c['engine_calls']]})['real'][0]
        bad = [(k, ebs) for k, ((n, bs, _, _), (ebs, L)) in enumerate(zip(c['engine_calls'], got)) if ebs != n // L]
        return not bad, bad or 'holds'
    return len(ctx.failures) == n0, ctx.failures[n0:] or 'holds'
