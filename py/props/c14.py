"""C14 -- DPMultiheadAttention computes the same function as nn.MultiheadAttention."""
import os, re
from py import vlib

GENS = ['Mha']
RULE = ('a DPMultiheadAttention loaded from an nn.MultiheadAttention state_dict vs the torch layer in float64: attention output, averaged weights (1e-9), parameter gradients, '
        'state_dict keys and round trip, over (embed_dim, heads, bias, add_bias_kv, add_zero_attn, kdim/vdim, batch_first) x target/source lengths x batch sizes x masks '
        '(none, 2-D bool/float, 3-D bool/float, key padding); inputs torch rejects are skipped; the generated reshape sequences are applied by torch to index-coded tensors and '
        'the statements of the Coq theorems are checked entry by entry; non-trivial = heads >= 2 or a mask present; distinct by canonical JSON')
ASSUMPTIONS = ['nn.MultiheadAttention is the reference semantics', 'softmax / bmm / linear kernels are torch\'s (compared, not modelled)']
TRUSTED = ['row-major semantics of contiguous / view / transpose (Model/ViewOps.v), validated against torch by the index-coded probe']


def gen(ctx, n):
    r = ctx.rng
    cases = []
    for _ in range(n):
        H = r.choice([1, 2, 2, 3, 4])
        E = H * r.choice([1, 2, 3])
        sep = r.random() < 0.25
        mask = r.choice(['none', 'none', '2dbool', '2dfloat', '3dbool', '3dfloat'])
        cases.append({'seed': r.randint(0, 10**6), 'E': E, 'H': H, 'bias': r.random() < 0.75, 'bkv': r.random() < 0.3, 'zattn': r.random() < 0.3,
                      'kdim': r.choice([2, 5]) if sep else None, 'vdim': r.choice([3, 5]) if sep else None, 'bf': r.random() < 0.5,
                      'B': r.randint(1, 4), 'L': r.randint(1, 5), 'S': r.randint(1, 5), 'mask': mask, 'kpm': r.choice([False, False, False, True, True, 'float']) if not mask.endswith('bool') else (r.random() < 0.4), 'self_attn': (not sep) and r.random() < 0.2,
                      'dropout': r.choice([0.0, 0.0, 0.0, 0.3])})
    # corners the property names: batch_first with several heads and masks
    for mask, kpm in (('none', 'float'), ('2dfloat', 'float'), ('3dfloat', 'float')):
        cases.append({'seed': 3, 'E': 4, 'H': 2, 'bias': True, 'bkv': mask == '3dfloat', 'zattn': mask == '2dfloat', 'kdim': None, 'vdim': None, 'bf': mask == 'none', 'B': 2, 'L': 3, 'S': 4, 'mask': mask, 'kpm': kpm})
    for mask in ('none', '2dbool', '2dfloat', '3dbool'):
        for kpm in (False, True):
            cases.append({'seed': 2, 'E': 4, 'H': 2, 'bias': True, 'bkv': False, 'zattn': False, 'kdim': None, 'vdim': None, 'bf': True, 'B': 3, 'L': 2, 'S': 5, 'mask': mask, 'kpm': kpm})
    return cases


def gen_ops():
    txt = open(os.path.join(vlib.COQ, 'Gen', 'Mha.v')).read()
    out = {}
    for coq, key in (('split_q_ops', 'split_q'), ('merge_ops_seq_first', 'merge_seq_first'), ('merge_ops_batch_first', 'merge_batch_first')):
        m = re.search(r'Definition %s \([^)]*\) : list vop := \[(.*?)\]\.' % coq, txt)
        if not m:
            return None
        ops = []
        for o in m.group(1).split(';'):
            o = o.strip()
            if o.startswith('VView'):
                args = re.findall(r'\(([^()]*)\)|(\w+)', o[len('VView'):])
                ops.append(['VView'] + [a or b for a, b in args])
            else:
                ops.append([o])
        out[key] = ops
    return out


def run_cases(ctx, n):
    cases = gen(ctx, n)
    ops = gen_ops()
    r = ctx.rng
    view = None
    if ops:
        view = dict(ops, extents=[[r.randint(1, 4), r.randint(1, 4), r.randint(1, 4), r.randint(1, 3)] for _ in range(ctx.n(20, 200))] + [[2, 3, 2, 2], [1, 1, 1, 1], [3, 1, 4, 1]])
    res = vlib.run_impl('mha_runs.py', {'cases': cases, 'view': view}, timeout=7200)
    for c, rr in zip(cases, res['results']):
        ctx.case(c, nontrivial=(c['H'] >= 2 or c['mask'] != 'none' or c['kpm']) and not rr.get('torch_rejects'), kind='H%d/%s/%s%s' % (c['H'], 'bf' if c['bf'] else 'sf', c['mask'], '+kpm' if c['kpm'] else ''))
        if rr.get('error'):
            ctx.fail('mha-harness-error', rr['error'], c)
        for k, w in rr.get('fails', []):
            ctx.fail('mha-' + k, w, c)
    ctx.traces += len(cases)
    if view is not None:
        bad = res.get('view_bad')
        ctx.obligation('correspondence:generated-reshape-sequences-on-torch(index-coded)', not bad, '' if not bad else 'torch applied to the generated reshape sequence violates the theorem statement: %s' % bad[:3])
        if bad:
            ctx.fail('mha-head-plumbing', 'head split / merge reshapes do not realise the intended index map: %s' % bad[:3], {'view': bad[0]})
    else:
        ctx.obligation('correspondence:generated-reshape-sequences-on-torch(index-coded)', False, 'cannot read the generated op lists')


def run(ctx, gen_status):
    vlib.check_property_file(ctx, 'C14', gen_status, GENS)
    run_cases(ctx, ctx.n(150, 4000))


def search(ctx):
    run_cases(ctx, 300)


def replay_case(ctx, failure):
    c = failure['case']
    if 'view' in c:
        return False, c
    rr = vlib.run_impl('mha_runs.py', {'cases': [c]})['results'][0]
    bad = rr.get('fails') or rr.get('error')
    return not bad, bad or 'holds'
