"""C10 implementation side.
(a) 'equiv' cases: same logical batches and noise generator, with vs without BatchMemoryManager, on the real engine:
    parameters after every logical step, torch.normal call log, accountant history, physical batch sizes / partition.
(b) 'sampler' cases: the real BatchSplittingSampler on given logical batches, with a recording optimizer stand-in:
    the exact sequence of (signal, physical batch) events (compared with the generated Coq function by the driver)."""
from py.harness.common import *
import torch.nn as nn
from torch.utils.data import TensorDataset, DataLoader, Sampler
from opacus import PrivacyEngine
from opacus.utils.batch_memory_manager import BatchMemoryManager, BatchSplittingSampler


class FixedBatches(Sampler):
    def __init__(s, b):
        s.b = b

    def __iter__(s):
        return iter(s.b)

    def __len__(s):
        return len(s.b)


def run(case, maxphys):
    torch.manual_seed(case['seed'])
    N = case['N']
    X = torch.randn(N, 5)
    Y = torch.randint(0, 3, (N,))
    ds = TensorDataset(X, Y)
    model = nn.Sequential(nn.Linear(5, 4), nn.ReLU(), nn.Linear(4, 3))
    opt = torch.optim.SGD(model.parameters(), lr=0.5, momentum=0.9)
    dl = DataLoader(ds, batch_size=6)
    pe = PrivacyEngine(accountant=case['acc'])
    g = torch.Generator()
    g.manual_seed(7)
    red = case['red']
    crit = nn.CrossEntropyLoss(reduction=red)
    out = pe.make_private(module=model, optimizer=opt, data_loader=dl, noise_multiplier=case['nm'], max_grad_norm=0.7,
                          noise_generator=g, grad_sample_mode=case['mode'], loss_reduction=red, criterion=crit, poisson_sampling=True)
    if case['mode'] == 'ghost':
        m, o, crit, l = out
    else:
        m, o, l = out
    traj, sizes, phys = [], [], []
    normal_log = []
    orig = torch.normal

    def wn(*a, **k):
        normal_log.append((float(k.get('std')), list(k.get('size'))))
        return orig(*a, **k)
    torch.normal = wn
    try:
        for ep in range(case['epochs']):
            l2 = DataLoader(ds, batch_sampler=FixedBatches(case['batches']), collate_fn=l.collate_fn)

            def loop(loader):
                released = 0
                for xb, yb in loader:
                    if case.get('stop_after') is not None and released >= case['stop_after']:
                        break       # the training loop leaves the epoch early, at a logical-step boundary
                    sizes.append(len(xb))
                    phys.append(xb[:, 0].tolist())
                    o.zero_grad()
                    loss = crit(m(xb), yb)
                    loss.backward()
                    o.step()
                    if not o._is_last_step_skipped:
                        released += 1
                        traj.append(torch.cat([p.detach().flatten().clone() for p in model.parameters()]))
            if maxphys is None:
                loop(l2)
            else:
                with BatchMemoryManager(data_loader=l2, max_physical_batch_size=maxphys, optimizer=o) as l3:
                    # 'prefetch': the sampler has run ahead of training (what DataLoader workers do): every skip signal of the
                    # epoch is already queued when the first physical batch is stepped
                    loop(list(l3) if case.get('prefetch') else l3)
    finally:
        torch.normal = orig
    return {'traj': traj, 'hist': [[float(a), float(b), int(n)] for a, b, n in pe.accountant.history], 'sizes': sizes,
            'normal': normal_log, 'phys': phys, 'X0': X[:, 0].tolist()}


def equiv_case(case):
    bad = []
    try:
        r0 = run(case, None)
        r1 = run(case, case['maxphys'])
    except Exception as e:
        import traceback
        return {'bad': [], 'error': errname(e) + ' ' + traceback.format_exc()[-400:]}
    if len(r0['traj']) != len(r1['traj']):
        bad.append('number of logical updates differs: %d without, %d with the manager' % (len(r0['traj']), len(r1['traj'])))
    else:
        d = max([(a - b).abs().max().item() for a, b in zip(r0['traj'], r1['traj'])] + [0.0])
        if d > 1e-9:
            bad.append('parameter trajectories differ by %.3g' % d)
    if r0['hist'] != r1['hist']:
        bad.append('accountant history differs: %s vs %s' % (r0['hist'][:3], r1['hist'][:3]))
    if r0['normal'] != r1['normal']:
        bad.append('torch.normal call log differs: %d vs %d calls' % (len(r0['normal']), len(r1['normal'])))
    if r1['sizes'] and max(r1['sizes']) > case['maxphys']:
        bad.append('physical batch of size %d > max %d' % (max(r1['sizes']), case['maxphys']))
    # the physical batches partition the logical ones (first feature column identifies a sample)
    flat0 = [x for b in r0['phys'] for x in b]
    flat1 = [x for b in r1['phys'] for x in b]
    if flat0 != flat1:
        bad.append('physical batches do not concatenate to the logical batches')
    return {'bad': bad, 'error': None, 'n_updates': len(r0['traj'])}


class RecOpt:
    def __init__(self):
        self.ev = []
        self._step_skip_queue = []
        self._is_last_step_skipped = False

    def zero_grad(self, set_to_none=False):
        pass

    def signal_skip_step(self, do_skip=True):
        self.ev.append(['S', bool(do_skip)])


def sampler_case(case):
    ro = RecOpt()
    sp = BatchSplittingSampler(sampler=FixedBatches(case['batches']), max_batch_size=case['maxphys'], optimizer=ro)
    out = []
    for b in sp:
        out.append(list(ro.ev) + [['Y', [int(x) for x in b]]])
        ro.ev = []
    # flatten in order
    flat = []
    for grp in out:
        flat += grp
    return {'events': flat}


if __name__ == '__main__':
    p = read_payload()
    emit({'equiv': [equiv_case(c) for c in p.get('equiv', [])], 'sampler': [sampler_case(c) for c in p.get('sampler', [])]})
