"""C18 / C20: the ghost-clipping adaptive engine under DDP (gloo, CPU, file store).  Every rank must hold the same clipping norm after every
step (one noisy count, shared), the same noise multiplier, and the same parameters.  The ranks' global RNG streams are seeded differently
(as data-loading seeds usually are): a per-rank draw of the count noise then shows up as diverging norms.  torch.normal is NOT replaced."""
from py.harness.common import *
import os, sys, json, tempfile, shutil
import torch.nn as nn
import torch.distributed as dist
import torch.multiprocessing as mp
from torch.utils.data import DataLoader, TensorDataset
from torch.nn.parallel import DistributedDataParallel as DDP


def worker(rank, W, cases, store, outdir):
    import warnings
    warnings.filterwarnings('ignore')
    from opacus.utils.adaptive_clipping.adaptive_clipping_utils import PrivacyEngineAdaptiveClipping
    dist.init_process_group('gloo', init_method='file://' + store, rank=rank, world_size=W)
    out = []
    for c in cases:
        res = {'error': None, 'C': [], 'nm': [], 'w': None, 'cls': None}
        try:
            torch.manual_seed(c['seed'])
            model = nn.Sequential(nn.Linear(4, 5), nn.Tanh(), nn.Linear(5, 3))
            ddp = DDP(model)
            opt = torch.optim.SGD(ddp.parameters(), lr=0.1)
            g = torch.Generator().manual_seed(c['seed'] + 1)
            N = c['per_rank'] * W
            X = torch.randn(N, 4, generator=g) * c['scale']
            Y = torch.randint(0, 3, (N,), generator=g)
            dl = DataLoader(TensorDataset(X[rank::W], Y[rank::W]), batch_size=c['B'])
            eng = PrivacyEngineAdaptiveClipping(accountant='rdp')
            m, o, crit, d = eng.make_private(module=ddp, optimizer=opt, criterion=nn.CrossEntropyLoss(reduction='mean'), data_loader=dl, noise_multiplier=c['sigma'],
                                             max_grad_norm=c['C'], grad_sample_mode='ghost', poisson_sampling=False, target_unclipped_quantile=c['q'],
                                             clipbound_learning_rate=c['lr'], min_clipbound=1e-3, max_clipbound=1e3)
            res['cls'] = type(o).__name__
            torch.manual_seed(1000 * (rank + 1) + c['seed'])      # per-rank RNG streams from here on
            for xb, yb in d:
                o.zero_grad()
                crit(m(xb), yb).backward()
                o.step()
                res['C'].append(float(o.max_grad_norm))
                res['nm'].append(float(o.noise_multiplier))
            res['w'] = [float(v) for p in model.parameters() for v in p.detach().flatten().tolist()]
        except Exception as e:
            import traceback
            res['error'] = errname(e) + ': ' + str(e)[:200] + ' @ ' + traceback.format_exc()[-500:]
        out.append(res)
    json.dump(out, open(os.path.join(outdir, 'r%d.json' % rank), 'w'))
    dist.destroy_process_group()


if __name__ == '__main__':
    p = read_payload()
    W = p['W']
    tmp = tempfile.mkdtemp(prefix='ovdada')
    try:
        ctx = mp.get_context('spawn')
        procs = [ctx.Process(target=worker, args=(r, W, p['cases'], os.path.join(tmp, 'store'), tmp)) for r in range(W)]
        for q in procs:
            q.start()
        import time
        t0 = time.time()
        while any(q.is_alive() for q in procs) and time.time() - t0 < p.get('timeout', 240):
            time.sleep(0.2)
        hung = [q for q in procs if q.is_alive()]
        for q in hung:
            q.kill()
        ranks = []
        for r in range(W):
            f = os.path.join(tmp, 'r%d.json' % r)
            ranks.append(json.load(open(f)) if os.path.exists(f) else None)
        emit({'ranks': ranks, 'hung': len(hung)})
    finally:
        shutil.rmtree(tmp, ignore_errors=True)
