"""C08 implementation side.
'synthetic': get_noise_multiplier with create_accountant patched to a synthetic accountant eps(sigma) = a/sigma^2 + b/sigma (bit-exact vs Coq).
'direct':    get_noise_multiplier(steps=..) / (epochs=..) with the real accountants: epsilon at the true number of steps vs target.
'engine':    make_private_with_epsilon + training for the declared epochs: engine.get_epsilon(delta) <= target."""
from py.harness.common import *
import torch.nn as nn
from torch.utils.data import DataLoader, TensorDataset
import opacus.accountants.utils as au
from opacus.accountants import create_accountant
from opacus import PrivacyEngine


class Syn:
    def __init__(self, a, b):
        self.a, self.b, self.history = a, b, []

    def get_epsilon(self, delta, **kw):
        s = self.history[0][0]
        return self.a / (s * s) + self.b / s


def synthetic(c):
    orig = au.create_accountant
    au.create_accountant = lambda mechanism: Syn(c['a'], c['b'])
    try:
        s = au.get_noise_multiplier(target_epsilon=c['target'], target_delta=1e-5, sample_rate=0.01, steps=10, epsilon_tolerance=c['tol'])
        return {'sigma': float(s).hex()}
    except ValueError:
        return {'sigma': None}
    finally:
        au.create_accountant = orig


def direct(c):
    kw = dict(target_epsilon=c['target'], target_delta=c['delta'], sample_rate=1 / c['L'], accountant=c['acc'], epsilon_tolerance=c['tol'])
    true_steps = c['epochs'] * c['L']
    if c.get('prewarm'):
        # an earlier calibration of the SAME budget in this process with a coarse tolerance (a dry run): the real call must not inherit it
        try:
            au.get_noise_multiplier(steps=true_steps, **dict(kw, epsilon_tolerance=c['prewarm']))
        except Exception:
            pass
    opts = dict(c.get('opts') or {})           # accountant options handed through get_noise_multiplier(**kwargs): the calibrated sigma must meet
    kw.update(opts)                            # the budget under the SAME options
    if c['by'] == 'steps':
        s = au.get_noise_multiplier(steps=true_steps, **kw)
    else:
        s = au.get_noise_multiplier(epochs=c['epochs'], **kw)
    a = create_accountant(c['acc'])
    a.history = [(s, 1 / c['L'], true_steps)]
    eps = a.get_epsilon(delta=c['delta'], **opts)
    return {'sigma': s, 'eps': float(eps), 'assumed_steps': int(c['epochs'] / (1 / c['L'])), 'true_steps': true_steps}


def engine(c):
    torch.manual_seed(0)
    L, N = c['L'], c['L'] * c['bs']
    ds = TensorDataset(torch.randn(N, 3), torch.randint(0, 2, (N,)))
    dl = DataLoader(ds, batch_size=c['bs'])
    model = nn.Linear(3, 2)
    opt = torch.optim.SGD(model.parameters(), lr=0.1)
    pe = PrivacyEngine(accountant=c['acc'])
    m, o, d = pe.make_private_with_epsilon(module=model, optimizer=opt, data_loader=dl, target_epsilon=c['target'], target_delta=c['delta'],
                                          epochs=c['epochs'], max_grad_norm=1.0, poisson_sampling=c['poisson'])
    crit = nn.CrossEntropyLoss()
    steps = 0
    for ep in range(c['epochs']):
        for xb, yb in d:
            o.zero_grad()
            (crit(m(xb), yb) if len(xb) else m(xb).sum()).backward()
            o.step()
            steps += 1
    return {'eps': float(pe.get_epsilon(c['delta'])), 'steps': steps, 'sigma': float(o.noise_multiplier), 'len': len(d)}


if __name__ == '__main__':
    p = read_payload()
    out = {}
    for k, f in (('synthetic', synthetic), ('direct', direct), ('engine', engine)):
        res = []
        for c in p.get(k, []):
            try:
                res.append(dict(f(c), error=None))
            except Exception as e:
                import traceback
                res.append({'error': errname(e) + ' ' + traceback.format_exc()[-400:]})
        out[k] = res
    emit(out)
