"""C01 Tie B: the registered grad samplers called directly on small-integer float64 tensors (exact arithmetic)."""
from py.harness.common import *
import torch.nn as nn
from opacus.grad_sample.linear import compute_linear_grad_sample
from opacus.grad_sample.dp_rnn import compute_rnn_linear_grad_sample
from opacus.grad_sample.embedding import compute_embedding_grad_sample, compute_embeddingbag_gradsampler
from opacus.layers.dp_rnn import RNNLinear


def ints(t):
    return [[int(round(v)) for v in row] for row in t.tolist()]


def run_lin(c):
    g = torch.Generator().manual_seed(c['seed'])
    mid, din, dout = c['mid'], c['din'], c['dout']
    layer = (RNNLinear if c.get('rnn') else nn.Linear)(din, dout, bias=True)
    x = torch.randint(-3, 4, (1, *mid, din), generator=g).double()
    bp = torch.randint(-3, 4, (1, *mid, dout), generator=g).double()
    fn = compute_rnn_linear_grad_sample if c.get('rnn') else compute_linear_grad_sample
    r = fn(layer, [x], bp)
    T = 1
    for m in mid:
        T *= m
    return {'T': T, 'x': ints(x.reshape(T, din)), 'g': ints(bp.reshape(T, dout)), 'gw': ints(r[layer.weight][0]), 'gb': [int(round(v)) for v in r[layer.bias][0].tolist()]}


def run_emb(c):
    g = torch.Generator().manual_seed(c['seed'])
    V, D, mid = c['V'], c['D'], c['mid']
    layer = nn.Embedding(V, D, padding_idx=c['pad'])
    idx = torch.randint(0, V, (1, *mid), generator=g)
    if c['pad'] is not None:
        idx.reshape(-1)[0] = c['pad']
    bp = torch.randint(-3, 4, (1, *mid, D), generator=g).double()
    r = compute_embedding_grad_sample(layer, [idx], bp)
    T = idx.numel()
    return {'T': T, 'idx': [int(v) for v in idx.reshape(-1).tolist()], 'g': ints(bp.reshape(T, D)), 'gs': ints(r[layer.weight][0])}


def run_bag(c):
    """several bags in one call (offsets); one result per bag; mean mode is returned multiplied by the number of non-padding entries"""
    g = torch.Generator().manual_seed(c['seed'])
    V, D = c['V'], c['D']
    layer = nn.EmbeddingBag(V, D, mode=c['mode'], padding_idx=c['pad']).double()
    sizes = c['sizes']
    idx = torch.randint(0, V, (sum(sizes),), generator=g)
    if c['pad'] is not None and idx.numel():
        idx[::2] = c['pad']
    off = torch.tensor([sum(sizes[:i]) for i in range(len(sizes))], dtype=torch.long)
    bp = torch.randint(-3, 4, (len(sizes), D), generator=g).double()
    # the sampler allocates its result in the default dtype (float64 in these harnesses)
    r = compute_embeddingbag_gradsampler(layer, [idx, off], bp)[layer.weight]
    out = []
    for i, n in enumerate(sizes):
        b = idx[int(off[i]):int(off[i]) + n]
        k = int((b != c['pad']).sum()) if c['pad'] is not None else n
        mult = k if (c['mode'] == 'mean' and k > 0) else 1
        out.append({'T': n, 'idx': [int(v) for v in b.tolist()], 'gb': [int(round(v)) for v in bp[i].tolist()], 'gs': ints(r[i].double() * mult),
                    'resid': float(((r[i].double() * mult) - (r[i].double() * mult).round()).abs().max())})
    return out


def run_conv(c):
    import torch.nn.functional as F
    from opacus.grad_sample.conv import compute_conv_grad_sample
    g = torch.Generator().manual_seed(c['seed'])
    G, cg, og, Kk, stride, dil, pad, L = c['G'], c['cg'], c['og'], c['K'], c['stride'], c['dil'], c['pad'], c['L']
    layer = nn.Conv1d(G * cg, G * og, Kk, stride=stride, padding=pad, dilation=dil, groups=G, bias=True, padding_mode=c.get('pmode', 'zeros'))
    x = torch.randint(-3, 4, (1, G * cg, L), generator=g).double()
    if pad == 'same':
        tot = dil * (Kk - 1)
        lp, rp = tot // 2, tot - tot // 2
    elif pad == 'valid':
        lp = rp = 0
    else:
        lp = rp = pad
    xp = F.pad(x, (lp, rp)) if c.get('pmode', 'zeros') == 'zeros' else F.pad(x, (lp, rp), mode=c['pmode'])
    P = (xp.shape[-1] - dil * (Kk - 1) - 1) // stride + 1
    bp = torch.randint(-3, 4, (1, G * og, P), generator=g).double()
    r = compute_conv_grad_sample(layer, [x], bp)
    gw = r[layer.weight][0].reshape(G * og, cg * Kk)
    return {'P': P, 'xp': ints(xp[0]), 'g': ints(bp[0].t()), 'gw': ints(gw), 'gb': [int(round(v)) for v in r[layer.bias][0].tolist()]}


def run_conv2(c):
    """nn.Conv2d with anisotropic kernel / stride / dilation / padding (incl. 'same' and non-zero padding modes): the real grad sampler (unfold2d inside)
    on small integers; the padded input is computed here with F.pad and handed to the model, which only knows tap locations"""
    import torch.nn.functional as F
    from opacus.grad_sample.conv import compute_conv_grad_sample
    g = torch.Generator().manual_seed(c['seed'])
    G, cg, og, (Kh, Kw), (sh, sw), (dh, dw), pad, (H, W) = c['G'], c['cg'], c['og'], c['K'], c['stride'], c['dil'], c['pad'], c['HW']
    layer = nn.Conv2d(G * cg, G * og, (Kh, Kw), stride=(sh, sw), padding=pad if isinstance(pad, str) else tuple(pad), dilation=(dh, dw), groups=G, bias=True,
                      padding_mode=c.get('pmode', 'zeros'))
    x = torch.randint(-3, 4, (1, G * cg, H, W), generator=g).double()
    if c.get('layout') == 'channels_last':
        x = x.to(memory_format=torch.channels_last)
    elif c.get('layout') == 'transposed':
        x = x.transpose(-1, -2).contiguous().transpose(-1, -2)
    rp = layer._reversed_padding_repeated_twice           # (w_left, w_right, h_top, h_bottom), also for 'same'
    xp = F.pad(x, rp) if c.get('pmode', 'zeros') == 'zeros' else F.pad(x, rp, mode=c['pmode'])
    Hp, Wp = xp.shape[-2:]
    Ph = (Hp - dh * (Kh - 1) - 1) // sh + 1
    Pw = (Wp - dw * (Kw - 1) - 1) // sw + 1
    bp = torch.randint(-3, 4, (1, G * og, Ph, Pw), generator=g).double()
    r = compute_conv_grad_sample(layer, [x], bp)
    gw = r[layer.weight][0].reshape(G * og, cg * Kh * Kw)
    return {'Ph': Ph, 'Pw': Pw, 'Wp': Wp, 'xp': ints(xp[0].contiguous().reshape(G * cg, Hp * Wp)), 'g': ints(bp[0].reshape(G * og, Ph * Pw).t()), 'gw': ints(gw),
            'gb': [int(round(v)) for v in r[layer.bias][0].tolist()]}


if __name__ == '__main__':
    p = read_payload()
    emit({'lin': [run_lin(c) for c in p.get('lin', [])], 'emb': [run_emb(c) for c in p.get('emb', [])], 'conv': [run_conv(c) for c in p.get('conv', [])],
          'bag': [run_bag(c) for c in p.get('bag', [])], 'conv2': [run_conv2(c) for c in p.get('conv2', [])]})
