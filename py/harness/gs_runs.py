"""C01: per-sample gradients attached by Opacus vs the gradient of each sample taken alone through the UNWRAPPED model.
A case names an architecture template with hyper-parameters, a grad-sample mode, a loss reduction and a batch size.  The loss is a generic
linear functional <output_i, W_i> with a fixed random cotangent per sample (mean reduction divides by the batch size)."""
from py.harness.common import *
import copy
import torch.nn as nn
import torch.nn.functional as F
from torch.nn.utils.rnn import pack_padded_sequence
from opacus.grad_sample import GradSampleModule, wrap_model
from opacus.layers import DPLSTM, DPGRU, DPRNN, DPMultiheadAttention


class Scale(nn.Module):
    def __init__(self, d):
        super().__init__()
        self.w = nn.Parameter(torch.ones(d))
        self.b = nn.Parameter(torch.zeros(d))

    def forward(self, x):
        return x * self.w + self.b


class Tied(nn.Module):
    """one Linear used twice in a forward (tied weights) + a second layer"""

    def __init__(self, d, o):
        super().__init__()
        self.lin = nn.Linear(d, d)
        self.out = nn.Linear(d, o)

    def forward(self, x):
        return self.out(torch.tanh(self.lin(torch.tanh(self.lin(x)))))


class TiedEmb(nn.Module):
    """classic weight tying: the decoder owns no parameter of its own, its weight IS the embedding matrix"""

    def __init__(self, V, d):
        super().__init__()
        self.emb = nn.Embedding(V, d)
        self.dec = nn.Linear(d, V, bias=False)
        self.dec.weight = self.emb.weight

    def forward(self, x):
        return self.dec(self.emb(x).mean(dim=1))


class EmbNet(nn.Module):
    def __init__(self, V, d, pad, o, freq=False, ln_bias=True, ln_eps=1e-5):
        super().__init__()
        self.emb = nn.Embedding(V, d, padding_idx=pad, scale_grad_by_freq=freq)
        self.ln = nn.LayerNorm(d, bias=ln_bias, eps=ln_eps)
        self.out = nn.Linear(d, o)

    def forward(self, x):
        return self.out(self.ln(self.emb(x)).mean(dim=1))


class BagNet(nn.Module):
    def __init__(self, V, d, o, mode, pad=None):
        super().__init__()
        self.bag = nn.EmbeddingBag(V, d, mode=mode, padding_idx=pad)
        self.out = nn.Linear(d, o)

    def forward(self, x):           # x : [B, n] indices, one bag per row
        B, n = x.shape
        return self.out(self.bag(x.reshape(-1), torch.arange(0, B * n, n) if B else torch.zeros(0, dtype=torch.long)))


class RnnNet(nn.Module):
    def __init__(self, kind, D, H, layers, bidir, bf, o, packed):
        super().__init__()
        cls = {'lstm': DPLSTM, 'gru': DPGRU, 'rnn': DPRNN}[kind]
        self.rnn = cls(D, H, num_layers=layers, bidirectional=bidir, batch_first=bf)
        self.out = nn.Linear(H * (2 if bidir else 1), o)
        self.bf, self.packed = bf, packed

    def forward(self, x, lens=None):
        from torch.nn.utils.rnn import pad_packed_sequence
        if self.packed:
            xin = pack_padded_sequence(x, lens, batch_first=self.bf, enforce_sorted=False)
            o, _ = self.rnn(xin)
            o, _ = pad_packed_sequence(o, batch_first=self.bf, total_length=x.shape[1 if self.bf else 0])
        else:
            o, _ = self.rnn(x)
        return self.out(o)          # every parametrised layer sees the batch on the same dimension as the input


class MhaNet(nn.Module):
    def __init__(self, E, H, bf, o, bkv):
        super().__init__()
        self.att = DPMultiheadAttention(E, H, batch_first=bf, add_bias_kv=bkv)
        self.out = nn.Linear(E, o)
        self.bf = bf

    def forward(self, x):
        y, _ = self.att(x, x, x)
        return self.out(y)


def build(c, g):
    """returns model, batch-dim of the input (0 / 1), make_inputs(B) -> tuple of forward args, slicer(args, i) -> args of sample i alone"""
    t = c['tpl']
    a = c['a']
    bd = 0
    extra = None
    if t == 'mlp':
        m = nn.Sequential(nn.Linear(a['d'], a['h'], bias=a['bias']), nn.Tanh(), nn.Linear(a['h'], a['o']))
        shape = lambda B: (B,) + tuple(a['mid']) + (a['d'],)
    elif t == 'mlp_bs':      # batch second
        m = nn.Sequential(nn.Linear(a['d'], a['h']), nn.Tanh(), nn.Linear(a['h'], a['o']))
        bd = 1
        shape = lambda B: (a['T'], B, a['d'])
    elif t in ('conv1', 'conv2', 'conv3'):
        nd = int(t[-1])
        conv = {1: nn.Conv1d, 2: nn.Conv2d, 3: nn.Conv3d}[nd](a['cin'], a['cout'], a['k'], stride=a['stride'], padding=a['pad'], dilation=a['dil'], groups=a['groups'], bias=a['bias'], padding_mode=a.get('pmode', 'zeros'))
        eps = a.get('eps', 1e-5)
        norm = {'gn': nn.GroupNorm(a['gn_groups'], a['cout'], eps=eps), 'in': {1: nn.InstanceNorm1d, 2: nn.InstanceNorm2d, 3: nn.InstanceNorm3d}[nd](a['cout'], affine=True, eps=eps), 'none': nn.Identity()}[a['norm']]
        m = nn.Sequential(conv, norm, nn.Tanh(), nn.AdaptiveAvgPool1d(1) if nd == 1 else (nn.AdaptiveAvgPool2d(1) if nd == 2 else nn.AdaptiveAvgPool3d(1)), nn.Flatten(), nn.Linear(a['cout'], a['o']))
        shape = lambda B: (B, a['cin']) + tuple([a['size']] * nd)
    elif t == 'emb':
        m = EmbNet(a['V'], a['d'], a['pad'], a['o'], a.get('freq', False), a.get('ln_bias', True), a.get('eps', 1e-5))
        shape = None
    elif t == 'bag':
        m = BagNet(a['V'], a['d'], a['o'], a['mode'], a.get('pad'))
        shape = None
    elif t == 'tied_emb':
        m = TiedEmb(a['V'], a['d'])
        shape = None
    elif t == 'rnn':
        m = RnnNet(a['kind'], a['D'], a['H'], a['layers'], a['bidir'], a['bf'], a['o'], a['packed'])
        bd = 0 if a['bf'] else 1
        shape = lambda B: (B, a['T'], a['D']) if a['bf'] else (a['T'], B, a['D'])
    elif t == 'mha':
        m = MhaNet(a['E'], a['H'], a['bf'], a['o'], a['bkv'])
        bd = 0 if a['bf'] else 1
        shape = lambda B: (B, a['T'], a['E']) if a['bf'] else (a['T'], B, a['E'])
    elif t == 'custom':
        m = nn.Sequential(nn.Linear(a['d'], a['h']), Scale(a['h']), nn.Tanh(), nn.Linear(a['h'], a['o']))
        shape = lambda B: (B, a['d'])
    elif t == 'tied':
        m = Tied(a['d'], a['o'])
        shape = lambda B: (B, a['d'])
    else:
        raise ValueError(t)
    for name in c.get('frozen', []):
        dict(m.named_parameters())[name].requires_grad_(False)

    def make(B):
        if t in ('emb', 'bag', 'tied_emb'):
            x = torch.randint(0, a['V'], (B, a['n']), generator=g)
            if t == 'emb' and a['pad'] is not None and B > 0:
                x[:, -1] = a['pad']          # the padding index really occurs
            if t == 'bag' and a.get('dup') and B > 0 and a['n'] > 1:
                x[:, 1] = x[:, 0]            # a repeated index inside one bag
            if t == 'bag' and a.get('pad') is not None and B > 0:
                x[:, -1] = a['pad']          # the padding index really occurs (a bag of one entry is then empty)
            return (x,)
        x = torch.randn(shape(B), generator=g) * c.get('scale', 1.0)
        lay = a.get('layout')
        if lay == 'channels_last' and x.dim() == 4:
            x = x.to(memory_format=torch.channels_last)        # same values, another memory layout (the usual setting for vision models)
        elif lay == 'channels_last' and x.dim() == 5:
            x = x.to(memory_format=torch.channels_last_3d)
        elif lay == 'transposed' and x.dim() >= 3:
            x = x.transpose(-1, -2).contiguous().transpose(-1, -2)   # same values, last two dimensions stored transposed
        if t == 'rnn' and a['packed']:
            lens = torch.randint(1, a['T'] + 1, (B,), generator=g)
            if B > 0:
                lens[0] = a['T']
            return (x, lens)
        return (x,)

    def slicer(args, i):
        x = args[0]
        xi = x.narrow(bd, i, 1)
        if len(args) == 2:
            L = int(args[1][i])
            return (xi.narrow(1 if bd == 0 else 0, 0, L), args[1][i:i + 1])
        return (xi,)
    return m, bd, make, slicer


def wrap(m, mode, bf, red):
    if mode == 'hooks':
        return GradSampleModule(m, batch_first=bf, loss_reduction=red)
    if mode == 'functorch':
        return GradSampleModule(m, batch_first=bf, loss_reduction=red, force_functorch=True)
    if mode == 'ew':
        return wrap_model(m, grad_sample_mode='ew', batch_first=bf, loss_reduction=red)
    raise ValueError(mode)


def run_case(c):
    out = {'error': None, 'fails': [], 'accepted': True}
    try:
        torch.manual_seed(c['seed'])
        g = torch.Generator().manual_seed(c['seed'] + 1)
        m, bd, make, slicer = build(c, g)
        B = c['B']
        args = make(B)
        ref = copy.deepcopy(m)
        ref.train()
        for i in range(B):
            try:
                with torch.no_grad():
                    ref(*slicer(args, i))
            except Exception as e:
                out['accepted'] = False          # the unwrapped model itself does not accept this sample alone
                out['reject'] = 'reference: ' + errname(e) + ': ' + str(e)[:120]
                return out
        try:
            gsm = wrap(m, c['mode'], bd == 0, c['red'])
            gsm.train()
            if c.get('pre_B'):
                # an earlier forward/backward of ANOTHER batch size on the same wrapped module, then cleared: nothing of it may survive
                pa = make(c['pre_B'])
                po = gsm(*pa)
                (po * torch.randn(po.shape, generator=g)).sum().backward()
                gsm.zero_grad()
            if c.get('pre_eval_B'):
                # an evaluation pass before the training step: eval mode, no_grad, no backward, another batch size; nothing of it may survive.
                # A recurrent model sees the evaluation batch as packed sequences.
                gsm.eval()
                with torch.no_grad():
                    pa = make(c['pre_eval_B'])
                    if c['tpl'] == 'rnn' and not c['a']['packed']:
                        pl = torch.randint(1, c['a']['T'] + 1, (c['pre_eval_B'],), generator=g)
                        pl[0] = c['a']['T']
                        m.packed = True
                        try:
                            gsm(pa[0], pl)
                        finally:
                            m.packed = False
                    else:
                        gsm(*pa)
                gsm.train()
            o = gsm(*args)
        except Exception as e:
            out['accepted'] = False
            out['reject'] = errname(e) + ': ' + str(e)[:120]
            return out
        if B == 0 and o.numel() != 0:
            out['accepted'] = False
            return out
        W = torch.randn(o.shape, generator=g)
        if len(args) == 2:          # packed sequences: padded positions carry no loss
            T = o.shape[1 if bd == 0 else 0]
            for i in range(B):
                idx = [slice(None)] * o.dim()
                idx[bd] = i
                idx[1 if bd == 0 else 0] = slice(int(args[1][i]), T)
                W[tuple(idx)] = 0
        loss = (o * W).sum() / (B if (c['red'] == 'mean' and B > 0) else 1)
        try:
            loss.backward()
        except Exception as e:
            if c['mode'] == 'ew' or B == 0:
                out['accepted'] = False
                out['reject'] = 'backward: ' + errname(e) + ': ' + str(e)[:120]
                return out
            raise
        names = [n for n, p in ref.named_parameters() if p.requires_grad]
        gp = dict(gsm._module.named_parameters()) if hasattr(gsm, '_module') else dict(gsm.named_parameters())
        # batch gradient of the (un-reduced) total loss on the reference model
        ref.train()
        tot = None
        per = {n: [] for n in names}
        for i in range(B):
            ref.zero_grad()
            try:
                oi = ref(*slicer(args, i))
            except Exception as e:
                out['accepted'] = False          # the unwrapped model itself does not accept this sample alone
                out['reject'] = 'reference: ' + errname(e) + ': ' + str(e)[:120]
                return out
            Wi = W.narrow(bd, i, 1)
            if len(args) == 2:
                Wi = Wi.narrow(1 if bd == 0 else 0, 0, oi.shape[1 if bd == 0 else 0])
            li = (oi * Wi).sum()
            grads = torch.autograd.grad(li, [dict(ref.named_parameters())[n] for n in names], allow_unused=True)
            for n, gr in zip(names, grads):
                per[n].append(torch.zeros_like(dict(ref.named_parameters())[n]) if gr is None else gr)
        for n in names:
            p = gp[n]
            gs = getattr(p, 'grad_sample', None)
            if gs is None:
                fail_ = ['missing', 'no grad_sample on trainable parameter %s' % n]
                out['fails'].append(fail_)
                continue
            if isinstance(gs, list):
                gs = torch.cat(gs, dim=0) if len(gs) > 1 else gs[0]
            if gs.shape[0] != B:
                out['fails'].append(['shape', 'grad_sample of %s has leading size %d, batch %d' % (n, gs.shape[0], B)])
                continue
            for i in range(B):
                d = float((gs[i] - per[n][i]).abs().max()) if gs[i].shape == per[n][i].shape else float('inf')
                tol = 1e-8 * (1 + float(per[n][i].abs().max()))
                if d > tol:
                    out['fails'].append(['per-sample', 'grad_sample[%d] of %s differs from the gradient of sample %d alone by %.3g' % (i, n, i, d)])
                    break
            # scale_grad_by_freq divides by the usage counts of the whole mini-batch in the unwrapped model: there the batch gradient is not
            # the sum of the per-sample gradients of the model itself, so the sum clause has no meaning for that parameter
            batch_coupled_grad = c['a'].get('freq') and n.endswith('emb.weight')
            if B > 0 and p.grad is not None and not batch_coupled_grad:
                scale = B if c['red'] == 'mean' else 1
                d = float((gs.sum(0) - p.grad * scale).abs().max())
                if d > 1e-7 * (1 + float(p.grad.abs().max()) * scale):
                    out['fails'].append(['sum', 'per-sample gradients of %s do not sum to the batch gradient (%.3g)' % (n, d)])
        for n, p in gp.items():
            if not p.requires_grad and getattr(p, 'grad_sample', None) is not None:
                out['fails'].append(['frozen', 'frozen parameter %s received a grad_sample' % n])
    except Exception as e:
        import traceback
        out['error'] = errname(e) + ': ' + str(e)[:300] + ' @ ' + traceback.format_exc()[-700:]
    return out


if __name__ == '__main__':
    p = read_payload()
    emit({'results': [run_case(c) for c in p['cases']]})
