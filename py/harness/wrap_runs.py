"""C19: wrapping is transparent and reversible -- real make_private / to_standard_module runs.
Observables per case: forward equality wrapped vs untouched copy (train and eval mode), identity of parameter objects, state_dict load-back,
optimizer pass-through (param_groups / state / defaults / state_dict / lr scheduler), and after to_standard_module: residual hooks and
attributes on modules and parameters (diff against a snapshot taken before wrapping), ordinary training vs a never-wrapped twin."""
from py.harness.common import *
import copy, inspect
import torch.nn as nn
from torch.utils.data import DataLoader, TensorDataset
from opacus import PrivacyEngine
from opacus.grad_sample import GradSampleModule


class Scale(nn.Module):
    """a custom layer without a registered grad sampler (served by the functorch fallback)"""

    def __init__(self, d):
        super().__init__()
        self.w = nn.Parameter(torch.ones(d))

    def forward(self, x):
        return x * self.w


def build(kind, seed):
    torch.manual_seed(seed)
    if kind == 'mlp':
        return nn.Sequential(nn.Linear(4, 6), nn.ReLU(), nn.Linear(6, 3)), lambda g, n: torch.randn(n, 4, generator=g)
    if kind == 'conv':
        return nn.Sequential(nn.Conv1d(2, 3, 3, padding=1), nn.ReLU(), nn.Flatten(), nn.Linear(15, 3)), lambda g, n: torch.randn(n, 2, 5, generator=g)
    if kind == 'emb':
        return nn.Sequential(nn.Embedding(9, 4), nn.Flatten(), nn.Linear(12, 3)), lambda g, n: torch.randint(0, 9, (n, 3), generator=g)
    if kind == 'frozen':
        m = nn.Sequential(nn.Linear(4, 6), nn.Tanh(), nn.Linear(6, 3))
        m[0].bias.requires_grad_(False)
        return m, lambda g, n: torch.randn(n, 4, generator=g)
    if kind == 'custom':
        return nn.Sequential(nn.Linear(4, 5), Scale(5), nn.Tanh(), nn.Linear(5, 3)), lambda g, n: torch.randn(n, 4, generator=g)
    if kind == 'norm':
        return nn.Sequential(nn.Linear(4, 6), nn.LayerNorm(6), nn.GroupNorm(2, 6), nn.Linear(6, 3)), lambda g, n: torch.randn(n, 4, generator=g)
    if kind == 'mixed':
        # a backbone the user put in eval mode (its dropout is inactive) under a root in train mode
        backbone = nn.Sequential(nn.Linear(4, 6), nn.Dropout(0.5), nn.Tanh())
        m = nn.Sequential(backbone, nn.Linear(6, 3))
        backbone.eval()
        return m, lambda g, n: torch.randn(n, 4, generator=g)
    raise ValueError(kind)


HOOK_DICTS = ['_forward_hooks', '_forward_pre_hooks', '_backward_hooks', '_backward_pre_hooks', '_state_dict_hooks', '_load_state_dict_pre_hooks']


def snapshot(model):
    s = {'mods': {}, 'params': {}}
    for name, m in model.named_modules():
        s['mods'][name] = {'attrs': sorted(k for k in m.__dict__.keys()), 'hooks': {h: len(getattr(m, h, {}) or {}) for h in HOOK_DICTS}}
    for name, p in model.named_parameters():
        s['params'][name] = {'attrs': sorted(p.__dict__.keys()), 'id': id(p), 'hooks': len(p._backward_hooks or {}) if p._backward_hooks is not None else 0}
    return s


def diff_snap(a, b):
    out = []
    for name in a['mods']:
        x, y = a['mods'][name], b['mods'].get(name)
        if y is None:
            out.append(['module-missing', name])
            continue
        extra = sorted(set(y['attrs']) - set(x['attrs']))
        if extra:
            out.append(['module-attrs', name, extra])
        for h in HOOK_DICTS:
            if y['hooks'][h] != x['hooks'][h]:
                out.append(['module-hooks', name, h, y['hooks'][h] - x['hooks'][h]])
    for name in a['params']:
        x, y = a['params'][name], b['params'].get(name)
        if y is None:
            out.append(['param-missing', name])
            continue
        if x['id'] != y['id']:
            out.append(['param-identity', name])
        extra = sorted(set(y['attrs']) - set(x['attrs']))
        if extra:
            out.append(['param-attrs', name, extra])
        if y['hooks'] != x['hooks']:
            out.append(['param-hooks', name, y['hooks'] - x['hooks']])
    return out


def plain_train(model, batches, crit):
    opt = torch.optim.SGD(model.parameters(), lr=0.1, momentum=0.3)
    for x, y in batches:
        opt.zero_grad()
        crit(model(x), y).backward()
        opt.step()
    return torch.cat([p.detach().reshape(-1) for p in model.parameters()])


def reset_probe(model):
    """drop what a probing forward (no backward) captured, so that the next forward starts clean"""
    for m_ in model.modules():
        if hasattr(m_, 'activations'):
            m_.activations = []
    for p in model.parameters():
        if hasattr(p, '_forward_counter'):
            p._forward_counter = 0


def run_case(c):
    out = {'error': None, 'fails': [], 'residue': []}

    def fail(k, w):
        out['fails'].append([k, w])
    try:
        model, mk = build(c['model'], c['seed'])
        g = torch.Generator().manual_seed(c['seed'] + 1)
        twin = copy.deepcopy(model)                  # never wrapped
        snap0 = snapshot(model)
        ids0 = [id(p) for p in model.parameters()]
        inner = torch.optim.SGD(model.parameters(), lr=0.1, momentum=0.5) if c['inner'] == 'sgd' else torch.optim.Adam(model.parameters(), lr=0.01)
        B = 4
        dl = DataLoader(TensorDataset(torch.zeros(16, 1), torch.zeros(16, dtype=torch.long)), batch_size=B)
        eng = PrivacyEngine()
        crit0 = nn.CrossEntropyLoss(reduction=c['reduction'])
        default_crit = inspect.signature(PrivacyEngine.make_private).parameters['criterion'].default
        use_default = c['mode'] == 'ghost' and c['reduction'] == 'mean' and c['seed'] % 2 == 0     # the engine's own default criterion
        crit_snap = (dict(vars(crit0)), dict(vars(default_crit)))
        kw = dict(module=model, optimizer=inner, data_loader=dl, noise_multiplier=c['sigma'], max_grad_norm=1.0, poisson_sampling=False,
                  grad_sample_mode=c['mode'], loss_reduction=c['reduction'], noise_generator=torch.Generator().manual_seed(5))
        if c['mode'] == 'ghost':
            wrapped, dpo, crit, _ = eng.make_private(**kw) if use_default else eng.make_private(criterion=crit0, **kw)
        else:
            wrapped, dpo, _ = eng.make_private(**kw)
            crit = crit0
        # 0. wrapping leaves the train / eval flag of every sub-module as the user set it, and computes the same function in those modes
        flags0 = {n: m_.training for n, m_ in twin.named_modules()}
        flags1 = {n: m_.training for n, m_ in model.named_modules()}
        if flags1 != flags0:
            fail('mode-flags', 'make_private changed the train / eval flag of %s' % sorted(n for n in flags0 if flags1.get(n) != flags0[n])[:4])
        else:
            x = mk(g, 3)
            a, b = wrapped(x), twin(x)
            reset_probe(model)
            wrapped.zero_grad()
            if float((a - b).abs().max()) > 1e-12:
                fail('forward-differs', 'wrapped forward differs from the original module in the modes the user set: %.3g' % float((a - b).abs().max()))
        # 1. forward transparency (same parameters: nothing trained yet), train and eval mode
        for mode_train in (True, False):
            wrapped.train(mode_train)
            twin.train(mode_train)
            for n in (1, 3, 5):
                x = mk(g, n)
                torch.manual_seed(c['seed'] + n)          # layers that draw random numbers (dropout) draw the same ones in both
                a = wrapped(x)
                torch.manual_seed(c['seed'] + n)
                b = twin(x)
                reset_probe(model)
                if a.shape != b.shape or float((a - b).abs().max()) > 1e-12:
                    fail('forward-differs', 'wrapped forward differs from the original module (train=%s, n=%d): %.3g' % (mode_train, n, float((a - b).abs().max())))
            wrapped.zero_grad()
        wrapped.train(True)
        twin.train(True)
        if c['model'] == 'mixed':       # back to the user's mixed setting on both
            model[0].eval()
            twin[0].eval()
        # 2. the very same parameter objects
        if [id(p) for p in wrapped.parameters()] != ids0:
            fail('param-identity', 'wrapped.parameters() are not the original parameter objects')
        if wrapped._module is not model and c['mode'] != 'ew':
            fail('module-identity', 'wrapped._module is not the original module')
        # 3. state_dict loads back
        sd = wrapped.state_dict()
        try:
            wrapped.load_state_dict(copy.deepcopy(sd))
            fresh, _ = build(c['model'], c['seed'] + 99)
            fresh.load_state_dict(copy.deepcopy(wrapped._module.state_dict()))
            for (n1, p1), (n2, p2) in zip(fresh.state_dict().items(), twin.state_dict().items()):
                if n1 != n2 or not torch.equal(p1, p2):
                    fail('state-dict-roundtrip', 'state_dict of the wrapped module does not reproduce the original parameters (%s)' % n1)
                    break
        except Exception as e:
            fail('state-dict-roundtrip', 'state_dict does not load back: ' + errname(e) + ' ' + str(e)[:200])
        # 4. optimizer pass-through
        if dpo.param_groups is not inner.param_groups:
            fail('opt-passthrough', 'param_groups is not the inner optimizer\'s list')
        if dpo.state is not inner.state:
            fail('opt-passthrough', 'state is not the inner optimizer\'s dict')
        if dpo.defaults is not inner.defaults:
            fail('opt-passthrough', 'defaults is not the inner optimizer\'s dict')
        sched = torch.optim.lr_scheduler.StepLR(dpo, step_size=1, gamma=0.5)
        # k DP training steps
        batches = [(mk(g, B), torch.randint(0, 3, (B,), generator=g)) for _ in range(c['k'])]
        lr_seen = []
        for x, y in batches:
            dpo.zero_grad()
            loss = crit(wrapped(x), y)
            loss.backward()
            dpo.step()
            sched.step()
            lr_seen.append(inner.param_groups[0]['lr'])
        lr0 = 0.1 if c['inner'] == 'sgd' else 0.01
        want = [lr0 * 0.5 ** (i + 1) for i in range(c['k'])]
        if any(abs(a - b) > 1e-15 for a, b in zip(lr_seen, want)):
            fail('opt-passthrough', 'an lr scheduler stepping through the DP optimizer did not drive the inner optimizer: %s vs %s' % (lr_seen, want))
        if c['k'] > 0:
            s1, s2 = dpo.state_dict(), inner.state_dict()
            if s1.keys() != s2.keys() or str(s1['param_groups']) != str(s2['param_groups']) or len(s1['state']) != len(s2['state']):
                fail('opt-passthrough', 'state_dict of the DP optimizer is not the inner optimizer\'s')
            newg = [dict(gp) for gp in inner.param_groups]
            dpo.param_groups = inner.param_groups          # setter must reach the inner optimizer
            if dpo.param_groups is not inner.param_groups:
                fail('opt-passthrough', 'param_groups setter does not reach the inner optimizer')
        # attributes present while wrapped (after training): must all be known to the generated ledger lists
        live = diff_snap(snap0, snapshot(model))
        out['live_param_attrs'] = sorted({a for r in live if r[0] == 'param-attrs' for a in r[2]})
        out['live_module_attrs'] = sorted({a for r in live if r[0] == 'module-attrs' for a in r[2]})
        out['live_hooks'] = sum(r[3] for r in live if r[0] == 'module-hooks')
        # 5. unwrap
        pending_loss = None
        if c.get('pending'):       # leave a forward (and maybe backward) pending before unwrapping
            x, y = mk(g, B), torch.randint(0, 3, (B,), generator=g)
            loss = crit(wrapped(x), y)
            if c['pending'] == 'fb':
                loss.backward()
            elif c['mode'] != 'ghost':
                pending_loss, pend_xy = loss, (x, y)
        if c.get('disable_first') and hasattr(wrapped, 'disable_hooks'):
            wrapped.disable_hooks()        # public API; unwrapping must still remove everything
        std = wrapped.to_standard_module()
        if pending_loss is not None:
            # the graph built before unwrapping is an ordinary autograd graph now: its backward must behave as on a never-wrapped module
            for p in model.parameters():
                p.grad = None
            twin.load_state_dict(copy.deepcopy(model.state_dict()))
            twin.zero_grad()
            try:
                pending_loss.backward()
                crit0(twin(pend_xy[0]), pend_xy[1]).backward()
                for (n1, p1), (n2, p2) in zip(model.named_parameters(), twin.named_parameters()):
                    if p1.requires_grad and (p1.grad is None or float((p1.grad - p2.grad).abs().max()) > 1e-12):
                        fail('post-unwrap-pending-backward', 'backward of a forward pass made before unwrapping gives a different gradient for %s' % n1)
                        break
            except Exception as e:
                fail('post-unwrap-pending-backward', 'backward of a forward pass made before unwrapping raised %s: %s' % (errname(e), str(e)[:150]))
        if std is not model:
            fail('unwrap-identity', 'to_standard_module did not return the original module object')
        res = diff_snap(snap0, snapshot(model))
        out['residue'] = res
        # 6. ordinary training afterwards == never wrapped (same parameters, same data)
        twin.load_state_dict(copy.deepcopy(model.state_dict()))
        for p in model.parameters():
            p.grad = None
        pb = [(mk(g, 5), torch.randint(0, 3, (5,), generator=g)) for _ in range(2)]
        # the user's own criterion object (and the engine's default one) is what ordinary training goes on with
        for nm, obj, snap in (('criterion passed to make_private', crit0, crit_snap[0]), ('default criterion of make_private', default_crit, crit_snap[1])):
            now = dict(vars(obj))
            ch = sorted(k for k in set(now) | set(snap) if k not in now or k not in snap or now[k] is not snap[k] and now[k] != snap[k])
            if ch:
                fail('user-criterion-mutated', 'the %s is changed by wrapping and not restored by to_standard_module: %s' % (nm, [(k, snap.get(k), now.get(k)) for k in ch][:3]))
        try:
            a = plain_train(model, pb, crit0)
        except Exception as e:
            fail('post-unwrap-training', 'ordinary training with the criterion that was passed to make_private raised %s: %s' % (errname(e), str(e)[:120]))
            a = plain_train(model, pb, nn.CrossEntropyLoss(reduction=c['reduction']))
        b = plain_train(twin, pb, nn.CrossEntropyLoss(reduction=c['reduction']))
        if not torch.equal(a, b):
            fail('post-unwrap-training', 'ordinary training after unwrapping differs from a never-wrapped twin by %.3g' % float((a - b).abs().max()))
        res2 = diff_snap(snap0, snapshot(model))
        new = [r for r in res2 if r not in res]
        if new:
            fail('post-unwrap-attrs', 'ordinary training after unwrapping still attaches Opacus state: %s' % new[:3])
    except Exception as e:
        import traceback
        out['error'] = errname(e) + ': ' + str(e)[:300] + ' @ ' + traceback.format_exc()[-600:]
    return out


if __name__ == '__main__':
    p = read_payload()
    emit({'results': [run_case(c) for c in p['cases']]})
