"""C16: real save_checkpoint / load_checkpoint runs.  For each case: an uninterrupted run of n steps on fixed batches, and a run cut
after c steps, check-pointed through an in-memory buffer, loaded into freshly constructed engine / model / optimizer / schedulers and
continued.  Also: rejection of foreign / empty accountant states, isolation of a taken state_dict, keys of the checkpoint."""
from py.harness.common import *
import copy, io, math
import torch.nn as nn
from torch.utils.data import DataLoader, TensorDataset
from opacus import PrivacyEngine
from opacus.schedulers import ExponentialNoise, StepNoise, LambdaNoise, ExponentialGradClip, StepGradClip, LambdaGradClip

DELTA = 1e-5


def lam(k):
    return 1.0 / (1.0 + 0.25 * k)


def construct(case, init_seed):
    torch.manual_seed(init_seed)
    model = nn.Sequential(nn.Linear(4, 5), nn.Tanh(), nn.Linear(5, 3))
    if case['inner'] == 'adam':
        opt = torch.optim.Adam(model.parameters(), lr=0.05)
    elif case['inner'] == 'sgd_mom':
        opt = torch.optim.SGD(model.parameters(), lr=0.1, momentum=0.7)
    else:
        opt = torch.optim.SGD(model.parameters(), lr=0.1)
    ds = TensorDataset(torch.zeros(40, 4), torch.zeros(40, dtype=torch.long))
    dl = DataLoader(ds, batch_size=4)
    eng = PrivacyEngine(accountant=case['acc'])
    gen = torch.Generator().manual_seed(1234 + case['seed'])
    kw = dict(module=model, optimizer=opt, data_loader=dl, noise_multiplier=case['sigma'], max_grad_norm=case['C'],
              poisson_sampling=False, noise_generator=gen, grad_sample_mode=case['mode'])
    crit = nn.CrossEntropyLoss()
    if case['mode'] == 'ghost':
        m, o, crit, _ = eng.make_private(criterion=crit, **kw)
    else:
        m, o, _ = eng.make_private(**kw)
    ns = {'none': None, 'exp': lambda: ExponentialNoise(o, gamma=0.9), 'step': lambda: StepNoise(o, step_size=2, gamma=0.8),
          'lambda': lambda: LambdaNoise(o, noise_lambda=lambda k: lam(k))}[case['sched_n']]      # a real lambda, as users write them (not picklable)
    cs = {'none': None, 'exp': lambda: ExponentialGradClip(o, gamma=0.9),
          'step': lambda: StepGradClip(o, step_size=2, gamma=0.8), 'lambda': lambda: LambdaGradClip(o, scheduler_function=lambda k: lam(k))}[case['sched_c']]
    return dict(model=m, opt=o, eng=eng, gen=gen, crit=crit, ns=ns() if ns else None, cs=cs() if cs else None)


def batches(case):
    g = torch.Generator().manual_seed(77 + case['seed'])
    return [(torch.randn(4, 4, generator=g), torch.randint(0, 3, (4,), generator=g)) for _ in range(case['n'])]


def one_step(S, b):
    S['opt'].zero_grad()
    loss = S['crit'](S['model'](b[0]), b[1])
    loss.backward()
    S['opt'].step()
    if S['ns'] is not None:
        S['ns'].step()
    if S['cs'] is not None:
        S['cs'].step()


def eps_of(S):
    try:
        return float(S['eng'].get_epsilon(DELTA))
    except Exception as e:
        return 'ERR:' + errname(e)


def flat(S):
    return torch.cat([p.detach().reshape(-1) for p in S['model'].parameters()])


def hist(S):
    return [[float(a), float(b), int(c)] for a, b, c in S['eng'].accountant.history]


def tree_equal(a, b):
    if torch.is_tensor(a) or torch.is_tensor(b):
        return torch.is_tensor(a) and torch.is_tensor(b) and a.shape == b.shape and bool(torch.equal(a, b))
    if isinstance(a, dict):
        return isinstance(b, dict) and set(a.keys()) == set(b.keys()) and all(tree_equal(a[k], b[k]) for k in a)
    if isinstance(a, (list, tuple)):
        return isinstance(b, (list, tuple)) and len(a) == len(b) and all(tree_equal(x, y) for x, y in zip(a, b))
    if callable(a) and callable(b):
        return True
    return a == b


def run_case(case):
    out = {'error': None, 'fails': []}

    def fail(key, what):
        out['fails'].append([key, what])
    try:
        bs = batches(case)
        # uninterrupted
        U = construct(case, case['seed'])
        snap = None
        for t, b in enumerate(bs):
            if case.get('early_save') is not None and t == case['early_save'] and t < case['cut']:
                early = take_snapshot(U, case)    # an earlier checkpoint of the same engine (discarded): later saves must not be stale
                if case.get('carry'):
                    # the user keeps the dict of the earlier checkpoint (what load_checkpoint hands back) and passes it as checkpoint_dict later:
                    # its reserved entries are stale and must be overwritten by the save
                    early['buf'].seek(0)
                    U['carried'] = torch.load(early['buf'], weights_only=False)
                    U['carried']['user_entry'] = 7
            if t == case['cut']:
                snap = take_snapshot(U, case)
            one_step(U, b)
        if case['cut'] == case['n']:
            snap = take_snapshot(U, case)
        u_hist, u_eps, u_par = hist(U), eps_of(U), flat(U)
        out['u_hist'] = u_hist
        out['keys'] = snap['keys']
        out['nontrivial'] = len(u_hist) > 0
        for patched in (False, True):
            R = construct(case, case['seed'] + 100)
            snap['buf'].seek(0)
            R['eng'].load_checkpoint(path=snap['buf'], module=R['model'], optimizer=R['opt'] if case['pass_opt'] else None,
                                     noise_scheduler=R['ns'], grad_clip_scheduler=R['cs'])
            R['gen'].set_state(snap['gen_state'])
            if not patched:
                if hist(R) != snap['hist']:
                    fail('load-history', 'history after load %s, at save %s' % (hist(R), snap['hist']))
                if eps_of(R) != snap['eps']:
                    fail('load-epsilon', 'epsilon after load %r, at save %r' % (eps_of(R), snap['eps']))
                if not tree_equal(dict(R['model'].state_dict()), snap['module']):
                    fail('load-module', 'module state_dict differs after load')
                if case['pass_opt'] and not tree_equal(R['opt'].state_dict()['state'], snap['opt']['state']):
                    fail('load-optimizer', 'inner optimizer state differs after load')
                for nm in ('ns', 'cs'):
                    if R[nm] is not None and not tree_equal(R[nm].state_dict(), snap[nm]):
                        fail('load-scheduler', '%s scheduler state differs after load: %s vs %s' % (nm, R[nm].state_dict(), snap[nm]))
                # the loaded history must not alias the checkpoint: a second load of the same buffer gives the same history
            else:
                R['opt'].noise_multiplier = snap['live'][0]
                R['opt'].max_grad_norm = snap['live'][1]
            if not case['pass_opt']:
                continue
            for b in bs[case['cut']:]:
                one_step(R, b)
            same_hist = hist(R) == u_hist
            same_eps = eps_of(R) == u_eps
            dpar = float((flat(R) - u_par).abs().max())
            ok = same_hist and same_eps and dpar <= 1e-12
            if not patched:
                unpatched_ok = ok
                detail = 'resumed history %s vs uninterrupted %s; eps %r vs %r; max |param diff| %.3g' % (hist(R)[-3:], u_hist[-3:], eps_of(R), u_eps, dpar)
                live_moved = (snap['live'][0] != case['sigma']) or (snap['live'][1] != case['C'])
                if ok:
                    break
                if not live_moved:
                    fail('resume-diverges', detail)
                    break
            else:
                if ok:
                    fail('resume-live-value', 'live noise_multiplier / max_grad_norm (%r, %r at the cut) are not restored: %s' % (snap['live'][0], snap['live'][1], detail))
                else:
                    fail('resume-diverges', 'even with the live values restored by hand: ' + detail)
    except Exception as e:
        import traceback
        out['error'] = errname(e) + ': ' + str(e)[:300] + ' @ ' + traceback.format_exc()[-600:]
    return out


def take_snapshot(S, case):
    buf = io.BytesIO()
    S['eng'].save_checkpoint(path=buf, module=S['model'], optimizer=S['opt'] if case['save_opt'] else None,
                             noise_scheduler=S['ns'], grad_clip_scheduler=S['cs'], checkpoint_dict=S.get('carried'))
    buf.seek(0)
    keys = sorted(torch.load(buf, weights_only=False).keys())
    buf.seek(0)
    return dict(buf=buf, keys=keys, hist=hist(S), eps=eps_of(S), module=copy.deepcopy(dict(S['model'].state_dict())),
                opt=copy.deepcopy(S['opt'].state_dict()), ns=copy.deepcopy(S['ns'].state_dict()) if S['ns'] else None,
                cs=copy.deepcopy(S['cs'].state_dict()) if S['cs'] else None, gen_state=S['gen'].get_state().clone(),
                live=(float(S['opt'].noise_multiplier), float(S['opt'].max_grad_norm)))


def accountant_cases(p):
    """guards of load_state_dict and isolation of state_dict on the real accountants"""
    from opacus.accountants import create_accountant
    res = []
    for mech in ('rdp', 'gdp', 'prv'):
        a = create_accountant(mech)
        for _ in range(3):
            a.step(noise_multiplier=1.1, sample_rate=0.01)
        sd = a.state_dict()
        h0 = copy.deepcopy(a.history)
        a.step(noise_multiplier=1.1, sample_rate=0.01)
        a.step(noise_multiplier=0.7, sample_rate=0.02) if mech != 'gdp' else None
        iso = list(sd['history']) == list(h0)
        variants = {}
        other = {'rdp': 'gdp', 'gdp': 'prv', 'prv': 'rdp'}[mech]
        mv = type(a).mechanism            # the value state_dict() stores: the bound classmethod itself
        ov = type(create_accountant(other)).mechanism
        for name, d in [('none', None), ('empty', {}), ('no_history', {'mechanism': mv}), ('no_mechanism', {'history': list(h0)}),
                        ('other_mechanism', {'history': list(h0), 'mechanism': ov}), ('good', {'history': list(h0), 'mechanism': mv}),
                        ('from_other', create_accountant(other).state_dict())]:
            b = create_accountant(mech)
            try:
                b.load_state_dict(d)
                variants[name] = 'Ok' if list(b.history) == list(d['history']) else 'Ok-wrong-history'
            except Exception as e:
                variants[name] = errname(e)
        # a taken state loaded into a fresh accountant gives the same epsilon
        b = create_accountant(mech)
        b.load_state_dict(sd)
        c = create_accountant(mech)
        c.history = copy.deepcopy(h0)
        try:
            same_eps = b.get_epsilon(DELTA) == c.get_epsilon(DELTA)
        except Exception:
            same_eps = True
        # a loaded state is a COPY: stepping the accountant that loaded it must not change the dict it was loaded from (nor a sibling that loaded it too)
        snap = a.state_dict()
        frozen = copy.deepcopy(snap['history'])
        b1, b2 = create_accountant(mech), create_accountant(mech)
        b1.load_state_dict(snap)
        b2.load_state_dict(snap)
        try:
            for _ in range(2):
                b1.step(noise_multiplier=frozen[-1][0], sample_rate=frozen[-1][1])
        except Exception:
            pass
        load_isolated = list(snap['history']) == list(frozen) and list(b2.history) == list(frozen)
        # a refused step (GDP: another sigma) leaves the ledger as it was
        refusal_keeps = True
        if mech == 'gdp':
            g = create_accountant('gdp')
            for _ in range(4):
                g.step(noise_multiplier=1.1, sample_rate=0.01)
            before = copy.deepcopy(g.history)
            try:
                g.step(noise_multiplier=0.5, sample_rate=0.01)
                refusal_keeps = False           # GDP is documented to refuse a second (sigma, q)
            except ValueError:
                refusal_keeps = list(g.history) == list(before)
        res.append({'mech': mech, 'isolated': iso, 'variants': variants, 'same_eps': bool(same_eps), 'load_isolated': bool(load_isolated), 'refusal_keeps': bool(refusal_keeps)})
    return res


if __name__ == '__main__':
    p = read_payload()
    emit({'results': [run_case(c) for c in p.get('cases', [])], 'accountant': accountant_cases(p) if p.get('accountant') else None})
