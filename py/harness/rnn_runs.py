"""C13: DPRNN / DPGRU / DPLSTM vs torch.nn.RNN / GRU / LSTM.
(a) equivalence cases: a DP layer loaded from the torch layer's state_dict must return the same outputs, final states and parameter
    gradients on padded / packed (sorted, unsorted) inputs with / without initial states; state_dict keys and shapes must coincide and load
    in both directions.
(b) plumbing cases: the real DPRNNBase.forward_layer is run on a PackedSequence with an INTEGER stub cell  cell(x, h) = x + 2 h[:batch]
    in both directions; outputs per time step and last states are returned for comparison with the Coq model (exact)."""
from py.harness.common import *
import torch.nn as nn
from torch.nn.utils.rnn import pack_padded_sequence, pad_packed_sequence, PackedSequence
from opacus.layers import DPRNN, DPGRU, DPLSTM


def make_pair(c):
    torch.manual_seed(c['seed'])
    kw = dict(input_size=c['D'], hidden_size=c['H'], num_layers=c['layers'], bias=c['bias'], batch_first=c['bf'], bidirectional=c['bidir'],
              dropout=(c.get('dropout', 0.0) if c['layers'] > 1 else 0.0))
    if c['kind'] == 'rnn':
        t, d = nn.RNN(nonlinearity=c['nl'], **kw), DPRNN(nonlinearity=c['nl'], **kw)
    elif c['kind'] == 'gru':
        t, d = nn.GRU(**kw), DPGRU(**kw)
    else:
        t, d = nn.LSTM(**kw), DPLSTM(**kw)
    return t, d


def flat_out(o):
    if isinstance(o, PackedSequence):
        return o.data
    return o


def run_equiv(c):
    if not c.get('wide'):
        return run_equiv_(c)
    # a float64 layer in a process whose default dtype is float32 (the usual default): nothing may pass through the default dtype
    keep = torch.get_default_dtype()
    torch.set_default_dtype(torch.float32)
    try:
        return run_equiv_(c)
    finally:
        torch.set_default_dtype(keep)


def run_equiv_(c):
    out = {'error': None, 'fails': []}

    def fail(k, w):
        out['fails'].append([k, w])
    try:
        t, d = make_pair(c)
        sd = t.state_dict()
        dsd0 = d.state_dict()
        if sorted(sd.keys()) != sorted(dsd0.keys()):
            fail('state-dict-keys', 'keys differ: torch-only %s, dp-only %s' % (sorted(set(sd) - set(dsd0))[:4], sorted(set(dsd0) - set(sd))[:4]))
        elif any(tuple(sd[k].shape) != tuple(dsd0[k].shape) for k in sd):
            fail('state-dict-shapes', 'shapes differ for %s' % [k for k in sd if tuple(sd[k].shape) != tuple(dsd0[k].shape)][:3])
        d.load_state_dict(sd)
        if c.get('wide'):
            t.double()
            d.double()
            sd = t.state_dict()
        if c.get('eval'):       # dropout configured but inactive: the layers must agree exactly
            t.eval()
            d.eval()
        # and back into a fresh torch layer
        t2, _ = make_pair(dict(c, seed=c['seed'] + 1))
        if c.get('wide'):
            t2.double()
        t2.load_state_dict(d.state_dict())
        if any(not torch.equal(t2.state_dict()[k], sd[k]) for k in sd):
            fail('state-dict-roundtrip', 'torch -> DP -> torch state_dict changed values')
        # the same as a sub-module of a model (the usual place of a recurrent layer): keys, and checkpoints in both directions with strict loading
        class Holder(nn.Module):
            def __init__(s2, layer):
                super().__init__()
                s2.rnn = layer
                s2.out = nn.Linear(2, 2)
        tp, dp_ = make_pair(dict(c, seed=c['seed'] + 2))
        if c.get('wide'):
            tp.double()
            dp_.double()
        ht, hd = Holder(tp), Holder(dp_)
        kt, kd = sorted(ht.state_dict().keys()), sorted(hd.state_dict().keys())
        if kt != kd:
            fail('state-dict-keys', 'as a sub-module: keys differ: torch-only %s, dp-only %s' % (sorted(set(kt) - set(kd))[:3], sorted(set(kd) - set(kt))[:3]))
        for src, dst, nm in ((ht, hd, 'torch -> DP'), (hd, ht, 'DP -> torch')):
            try:
                dst.load_state_dict(src.state_dict())
            except Exception as e:
                fail('state-dict-roundtrip', 'as a sub-module, %s: load_state_dict raises %s' % (nm, str(e).replace('\n', ' ')[:160]))
        if any(not torch.equal(v, hd.state_dict()[k]) for k, v in ht.state_dict().items() if k in hd.state_dict()):
            fail('state-dict-roundtrip', 'as a sub-module: values differ after loading')
        g = torch.Generator().manual_seed(c['seed'] + 7)
        B, T = c['B'], c['T']
        lens = c['lens']
        x = torch.randn(B, T, c['D'], generator=g, dtype=torch.float64) if c['bf'] else torch.randn(T, B, c['D'], generator=g, dtype=torch.float64)
        nd = 2 if c['bidir'] else 1
        h0 = torch.randn(c['layers'] * nd, B, c['H'], generator=g, dtype=torch.float64)
        c0 = torch.randn(c['layers'] * nd, B, c['H'], generator=g, dtype=torch.float64)
        state = None
        if c['init']:
            state = (h0, c0) if c['kind'] == 'lstm' else h0
        if c['input'] == 'padded':
            xin = x
        else:
            xin = pack_padded_sequence(x, torch.tensor(lens), batch_first=c['bf'], enforce_sorted=(c['input'] == 'packed_sorted'))
        if c.get('badcall', True) and c['layers'] > 1:
            # a call that both layers must reject (initial state with too few layers), caught: no state may survive the exception
            bad_state = h0[:1] if c['kind'] != 'lstm' else (h0[:1], c0[:1])
            xin_b = x if c['input'] == 'padded' else pack_padded_sequence(x, torch.tensor(sorted(lens, reverse=True) if c['input'] == 'packed_sorted' else lens), batch_first=c['bf'], enforce_sorted=(c['input'] == 'packed_sorted'))
            for m in (t, d):
                try:
                    with torch.no_grad():
                        m(xin_b, bad_state)
                except Exception:
                    pass
        if c['input'] != 'padded' and c.get('warm', True) and B > 1:
            # the same layer instances first see another packed batch with the same B and max length but other lengths
            lens0 = list(reversed(lens)) if c['input'] == 'packed_unsorted' else sorted([T] + [max(1, T - 1 - (i % T)) for i in range(B - 1)], reverse=True)
            x0 = torch.randn(x.shape, generator=g, dtype=torch.float64)
            xin0 = pack_padded_sequence(x0, torch.tensor(lens0), batch_first=c['bf'], enforce_sorted=(c['input'] == 'packed_sorted'))
            with torch.no_grad():
                for m in (t, d):
                    m(xin0, state) if state is not None else m(xin0)
        res = []
        for m in (t, d):
            for p in m.parameters():
                p.grad = None
            o, hn = m(xin, state) if state is not None else m(xin)
            od = flat_out(o)
            w = torch.linspace(0.5, 1.5, od.numel()).reshape(od.shape)
            hs = hn if isinstance(hn, tuple) else (hn,)
            loss = (od * w).sum() + sum((h * 0.3).sum() for h in hs)
            loss.backward()
            grads = {n: p.grad.clone() for n, p in m.named_parameters()}
            res.append((od.detach(), [h.detach() for h in hs], grads, o))
        (o1, h1, g1, r1), (o2, h2, g2, r2) = res
        tol = 1e-9
        if o1.shape != o2.shape or float((o1 - o2).abs().max()) > tol:
            fail('output', 'outputs differ: %s' % (float((o1 - o2).abs().max()) if o1.shape == o2.shape else (tuple(o1.shape), tuple(o2.shape))))
        if isinstance(r1, PackedSequence):
            for f in ('batch_sizes', 'sorted_indices', 'unsorted_indices'):
                a, b = getattr(r1, f), getattr(r2, f)
                if (a is None) != (b is None) or (a is not None and not torch.equal(a, b)):
                    fail('packed-meta', 'PackedSequence.%s differs' % f)
        for i, (a, b) in enumerate(zip(h1, h2)):
            if a.dtype != b.dtype:
                fail('final-state', 'final %s state has dtype %s, torch.nn returns %s' % ('hidden' if i == 0 else 'cell', b.dtype, a.dtype))
                continue
            if a.shape != b.shape or float((a - b).abs().max()) > tol:
                fail('final-state', 'final %s state differs: %s' % ('hidden' if i == 0 else 'cell', float((a - b).abs().max()) if a.shape == b.shape else (tuple(a.shape), tuple(b.shape))))
        # DP parameter names: torch names map 1:1 through the state_dict names
        dn = dict(d.named_parameters())
        tn = dict(t.named_parameters())
        dsd = d.state_dict(keep_vars=True)
        for k, p in tn.items():
            q = dsd.get(k)
            if q is None or q.grad is None:
                fail('gradient', 'no gradient for %s on the DP layer' % k)
                continue
            if float((p.grad - q.grad).abs().max()) > 1e-8 * (1 + float(p.grad.abs().max())):
                fail('gradient', 'gradient of %s differs by %.3g' % (k, float((p.grad - q.grad).abs().max())))
    except Exception as e:
        import traceback
        out['error'] = errname(e) + ': ' + str(e)[:300] + ' @ ' + traceback.format_exc()[-700:]
    return out


class StubCell:
    """integer cell: h' = x + 2 * h[:batch]"""

    def __call__(self, x, h, batch_size_t=None):
        hp = h if batch_size_t is None else h[:batch_size_t, :]
        return x + 2 * hp


def run_dropout(c):
    """train mode, 0 < dropout < 1, padded input, tanh / gated cells: torch.nn applies dropout to the outputs of every layer but the last and never to
    the recurrent state.  Observable without knowing the mask: the final outputs and ALL final hidden states contain no exact zero (a dropped
    entry is exactly 0.0), and the train-mode output differs from the eval-mode output when there are >= 2 layers."""
    out = {'error': None, 'fails': []}
    try:
        t, d = make_pair(c)
        d.load_state_dict(t.state_dict())
        g = torch.Generator().manual_seed(c['seed'] + 3)
        x = torch.randn(c['B'], c['T'], c['D'], generator=g) if c['bf'] else torch.randn(c['T'], c['B'], c['D'], generator=g)
        torch.manual_seed(c['seed'])
        d.train()
        o, hn = d(x)
        hs = hn if isinstance(hn, tuple) else (hn,)
        if int((o == 0).sum()) > 0:
            out['fails'].append(['dropout-placement', 'train mode, dropout=%s: %d entries of the LAST layer\'s output are exactly zero (dropout applied to the final output)' % (c['dropout'], int((o == 0).sum()))])
        for i, h in enumerate(hs):
            if int((h == 0).sum()) > 0:
                out['fails'].append(['dropout-placement', 'train mode, dropout=%s: %d entries of the final %s state are exactly zero (dropout applied to the recurrent state)' % (c['dropout'], int((h == 0).sum()), 'hidden' if i == 0 else 'cell')])
        d.eval()
        o2, _ = d(x)
        if c['layers'] > 1 and float((o - o2).abs().max()) == 0.0:
            out['fails'].append(['dropout-placement', 'train mode, dropout=%s, %d layers: output equals the eval-mode output (no dropout between layers)' % (c['dropout'], c['layers'])])
    except Exception as e:
        import traceback
        out['error'] = errname(e) + ': ' + str(e)[:300] + ' @ ' + traceback.format_exc()[-700:]
    return out


def run_plumb(c):
    """rows: length-sorted integer sequences; h0: one integer per row"""
    out = {'error': None}
    try:
        rows, h0 = c['rows'], c['h0']
        B = len(rows)
        T = max(len(r) for r in rows)
        lens = [len(r) for r in rows]
        x = torch.zeros(T, B, 1)
        for i, r in enumerate(rows):
            for t_, v in enumerate(r):
                x[t_, i, 0] = v
        ps = pack_padded_sequence(x, torch.tensor(lens), enforce_sorted=True)
        layer = DPRNN(1, 1, num_layers=1, bias=False)
        layer.dropout = 0
        h_0 = torch.tensor(h0, dtype=x.dtype).reshape(B, 1)
        res = {}
        for rev in (False, True):
            xs = ps.data.split(tuple(ps.batch_sizes))
            h_temp, h_last, _ = layer.forward_layer(xs, h_0, None, ps.batch_sizes, StubCell(), B, T, True, rev)
            res['rev' if rev else 'fwd'] = ([[int(v) for v in ht.reshape(-1).tolist()] for ht in h_temp], [int(v) for v in h_last.reshape(-1).tolist()])
        out['fwd_out'], out['fwd_last'] = res['fwd']
        out['rev_out'], out['rev_last'] = res['rev']
    except Exception as e:
        import traceback
        out['error'] = errname(e) + ': ' + str(e)[:300] + ' @ ' + traceback.format_exc()[-700:]
    return out


if __name__ == '__main__':
    p = read_payload()
    emit({'equiv': [run_equiv(c) for c in p.get('equiv', [])], 'plumb': [run_plumb(c) for c in p.get('plumb', [])],
          'dropout': [run_dropout(c) for c in p.get('dropout', [])]})
