"""C02 / C03 implementation side.
mode 'sens': neighbouring-batch sensitivity of the pre-noise sum on real GradSampleModules + DP optimizers.
mode 'step': one logical DP step vs the closed form (sum_i min(1, C/(|g_i|+1e-6)) g_i + z)/B with independently
             computed per-sample gradients (autograd on each sample alone) and the recorded noise; also returns
             per-sample gradients + clip factors for the Coq (binary64) evaluation of the generated clip factor."""
from py.harness.common import *
import torch.nn as nn
import copy
from opacus import GradSampleModule
from opacus.grad_sample import GradSampleModuleFastGradientClipping
from opacus.optimizers import DPOptimizer, DPPerLayerOptimizer, AdaClipDPOptimizer, DPOptimizerFastGradientClipping
from opacus.utils.fast_gradient_clipping_utils import DPLossFastGradientClipping


class ScaledLinear(nn.Linear):
    """a user layer DERIVED from nn.Linear that computes something else: no registered sampler applies to it"""

    def forward(self, x):
        return nn.functional.linear(x, self.weight * 3.0, self.bias)


class PackedLSTM(nn.Module):
    """a DPLSTM fed with a PackedSequence built with enforce_sorted=False; the length of a sequence is a function of that sample alone"""

    def __init__(self):
        super().__init__()
        from opacus.layers import DPLSTM
        self.rnn = DPLSTM(3, 4, batch_first=True)
        self.out = nn.Linear(4, 2)

    @staticmethod
    def lengths(x):
        return 1 + (x[:, 1:, 0] > 0).sum(dim=1)

    def forward(self, x):
        from torch.nn.utils.rnn import pack_padded_sequence
        p = pack_padded_sequence(x, self.lengths(x).cpu(), batch_first=True, enforce_sorted=False)
        _, (h, _) = self.rnn(p)
        return self.out(h[-1])


class SharedWeightLayer(nn.Module):
    """a custom layer (no registered sampler) that uses the weight of a Linear defined elsewhere"""

    def __init__(self, weight):
        super().__init__()
        self.weight = weight

    def forward(self, x):
        return torch.tanh(x) @ self.weight.t()


class TiedCustom(nn.Module):
    """nn.Linear first, then a custom layer sharing its weight: ghost clipping must refuse the model or clip with the norm of the TOTAL gradient"""

    def __init__(self):
        super().__init__()
        self.lin = nn.Linear(4, 4, bias=False)
        self.cus = SharedWeightLayer(self.lin.weight)
        self.out = nn.Linear(4, 2)

    def forward(self, x):
        return self.out(self.cus(self.lin(x)))


def make_model(kind, rank):
    if kind == 'tied_custom':
        return TiedCustom(), (4,), 'float'
    if kind == 'rnnpack':
        return PackedLSTM(), (4, 3), 'float'
    if kind == 'sublinear':
        return nn.Sequential(ScaledLinear(4, 5), nn.Tanh(), nn.Linear(5, 3)), (4,), 'float'
    if kind == 'mlp':
        return nn.Sequential(nn.Linear(4, 5), nn.Tanh(), nn.Linear(5, 3)), (4,), 'float'
    if kind == 'linear_nobias':
        return nn.Sequential(nn.Linear(4, 3, bias=False)), (4,), 'float'
    if kind == 'seq':      # Linear on [B, T, d] input
        return nn.Sequential(nn.Linear(4, 5), nn.Tanh(), nn.Linear(5, 2)), (3, 4), 'float'
    if kind == 'conv':
        return nn.Sequential(nn.Conv1d(2, 3, 2), nn.ReLU(), nn.Flatten(), nn.Linear(9, 2)), (2, 4), 'float'
    if kind == 'emb':
        return nn.Sequential(nn.Embedding(7, 4), nn.Flatten(), nn.Linear(12, 2)), (3,), 'int'
    if kind == 'embpad':   # index 0 is the padding index: its row never receives gradient
        return nn.Sequential(nn.Embedding(7, 4, padding_idx=0), nn.Flatten(), nn.Linear(12, 2)), (3,), 'intpad'
    if kind == 'norm':
        return nn.Sequential(nn.Linear(4, 6), nn.LayerNorm(6), nn.Linear(6, 2)), (4,), 'float'
    if kind == 'gn':
        return nn.Sequential(nn.Conv1d(2, 4, 2), nn.GroupNorm(2, 4), nn.Flatten(), nn.Linear(12, 2)), (2, 4), 'float'
    raise ValueError(kind)


def inputs(shape, dtype, n, scale, g):
    if dtype == 'int':
        return torch.randint(0, 7, (n,) + shape, generator=g)
    if dtype == 'intpad':  # about half of the positions are padding
        x = torch.randint(0, 7, (n,) + shape, generator=g)
        return x * (torch.rand(x.shape, generator=g) < 0.5)
    return torch.randn((n,) + shape, generator=g) * scale


def loss_per_sample(out, tgt):
    return ((out.reshape(out.shape[0], -1) - tgt) ** 2).sum(dim=1)


class Crit:
    def __init__(self, red, col=False):
        self.reduction = red
        self.col = col

    def __call__(self, out, tgt):
        per = loss_per_sample(out, tgt)
        if self.reduction == 'none':
            return per.unsqueeze(1) if self.col else per
        return per.mean() if self.reduction == 'mean' else per.sum()


def build(case, model):
    clip, red = case['clipping'], case['red']
    params = [p for p in model.parameters() if p.requires_grad]
    inner = torch.optim.SGD(model.parameters(), lr=0.0)
    kw = dict(noise_multiplier=case.get('nm', 0.0), expected_batch_size=case.get('B', 4), loss_reduction=red,
              generator=torch.Generator().manual_seed(99))
    if clip == 'ghost':
        gsm = GradSampleModuleFastGradientClipping(model, loss_reduction=red, max_grad_norm=case['C'])
        opt = DPOptimizerFastGradientClipping(inner, max_grad_norm=case['C'], **kw)
        crit = DPLossFastGradientClipping(gsm, opt, Crit(red, bool(case.get('lcol'))), red)
    else:
        gsm = GradSampleModule(model, loss_reduction=red)
        crit = Crit(red)
        if clip == 'per_layer':
            opt = DPPerLayerOptimizer(inner, max_grad_norm=[case['C']] * len(params), **kw)
        elif clip == 'adaptive':
            opt = AdaClipDPOptimizer(inner, max_grad_norm=case['C'], target_unclipped_quantile=0.5, clipbound_learning_rate=0.2,
                                     max_clipbound=1e6, min_clipbound=1e-6, unclipped_num_std=1e9, **kw)
        else:
            opt = DPOptimizer(inner, max_grad_norm=case['C'], **kw)
    return gsm, opt, crit, params


def summed(case, model0, X, T):
    model = copy.deepcopy(model0)
    gsm, opt, crit, params = build(case, model)
    n = X.shape[0]
    k = max(1, min(case.get('split', 1), n))
    bounds = [round(i * n / k) for i in range(k + 1)]
    chunks = [(bounds[i], bounds[i + 1]) for i in range(k) if bounds[i + 1] > bounds[i]] or [(0, n)]
    for ci, (a, b) in enumerate(chunks):        # physical batches of the logical batch; all but the last are skipped steps
        last = ci == len(chunks) - 1
        if len(chunks) > 1:
            opt.signal_skip_step(do_skip=not last)
            opt.zero_grad()
        crit(gsm(X[a:b]), T[a:b]).backward()
        if not last:
            opt.step()
    if case['clipping'] == 'ghost':
        # p.grad = sum_i c_i g_i * (1/n for mean): the optimizer's accumulate() takes it as is
        opt.accumulate()
    else:
        opt.clip_and_accumulate()
    return [p.summed_grad.detach().clone().flatten() for p in params]


def sens_case(case):
    g = torch.Generator().manual_seed(case['seed'])
    torch.manual_seed(case['seed'])
    model, shape, dt = make_model(case['model'], None)
    for p in model.parameters():
        p.data.mul_(case['wscale'])
    n = case['n']
    X = inputs(shape, dt, n, case['xscale'], g)
    nout = model(X[:1]).reshape(1, -1).shape[1]
    T = torch.randn(n, nout, generator=g) * case['tscale']
    i = case['drop']
    keep = [j for j in range(n) if j != i]
    s_full = summed(case, model, X, T)
    s_drop = summed(case, model, X[keep], T[keep])
    if case['red'] == 'mean' and case['clipping'] == 'ghost':
        pass
    per = [float((a - b).norm()) for a, b in zip(s_full, s_drop)]
    tot = float(torch.cat([a - b for a, b in zip(s_full, s_drop)]).norm())
    np_ = len(per)
    bound = case['C'] * (np_ ** 0.5) if case['clipping'] == 'per_layer' else case['C']
    bad = []
    if tot > bound * (1 + 1e-9) + 1e-12:
        bad.append('removing example %d moves the pre-noise sum by %.6g > bound %.6g' % (i, tot, bound))
    if case['clipping'] == 'per_layer' and any(x > case['C'] * (1 + 1e-9) + 1e-12 for x in per):
        bad.append('per-layer: a tensor moved by %.6g > its bound %.6g' % (max(per), case['C']))
    extra = {}
    if bad and case['clipping'] == 'ghost' and case.get('lcol'):
        # recorded finding (column-shaped per-sample losses): is the pre-noise sum the broadcast form sum_chunks (sum_j c_j)(sum_i g_i)?
        tg = true_grads(model, X, T)
        k = max(1, min(case.get('split', 1), n))
        bounds = [round(j * n / k) for j in range(k + 1)]
        chunks = [(bounds[j], bounds[j + 1]) for j in range(k) if bounds[j + 1] > bounds[j]] or [(0, n)]
        cs = [min(1.0, case['C'] / (float(torch.cat(g_).norm()) + 1e-6)) for g_ in tg]
        dexp = [torch.zeros_like(x) for x in s_full]
        for a, b in chunks:
            for kk in range(len(dexp)):
                dexp[kk] += sum(cs[a:b]) * sum(tg[j][kk] for j in range(a, b))
        if case['red'] == 'mean':
            pass        # p.grad of the second pass is a SUM over the batch for both reductions
        derr = max(float((a - b).abs().max()) / (1.0 + float(b.abs().max())) for a, b in zip(s_full, dexp))
        extra['defect_form'] = derr <= 1e-7
    if case['model'] == 'rnnpack':
        lens = [int(v) for v in PackedLSTM.lengths(X)]
        extra['lens_sorted'] = all(lens[j] >= lens[j + 1] for j in range(len(lens) - 1)) and \
            all(a >= b for a, b in zip([lens[j] for j in keep], [lens[j] for j in keep][1:]))
    return dict({'bad': bad, 'delta': tot, 'bound': bound}, **extra)


def true_grads(model, X, T):
    """per-sample gradients by running each sample alone through the plain model"""
    params = [p for p in model.parameters() if p.requires_grad]
    out = []
    for j in range(X.shape[0]):
        model.zero_grad()
        l = loss_per_sample(model(X[j:j + 1]), T[j:j + 1]).sum()
        gs = torch.autograd.grad(l, params)
        out.append([x.detach().flatten() for x in gs])
    return out


def step_case(case):
    g = torch.Generator().manual_seed(case['seed'])
    torch.manual_seed(case['seed'])
    model0, shape, dt = make_model(case['model'], None)
    for p in model0.parameters():
        p.data.mul_(case['wscale'])
    n = case['n']
    X = inputs(shape, dt, n, case['xscale'], g)
    nout = model0(X[:1]).reshape(1, -1).shape[1]
    T = torch.randn(n, nout, generator=g) * case['tscale']
    tg = true_grads(copy.deepcopy(model0), X, T)
    model = copy.deepcopy(model0)
    gsm, opt, crit, params = build(case, model)
    rec = []
    orig = torch.normal

    def wn(*a, **k):
        r = orig(*a, **k)
        rec.append(r.detach().clone().flatten())
        return r
    torch.normal = wn
    try:
        acc = case.get('accum', 1) if case['clipping'] != 'ghost' else 1
        k = max(1, min(case.get('split', 1) if acc <= 1 else acc, n))
        bounds = [round(i * n / k) for i in range(k + 1)]
        chunks = [(bounds[i], bounds[i + 1]) for i in range(k) if bounds[i + 1] > bounds[i]]
        if acc > 1:
            # manual gradient accumulation: several backward passes, no zero_grad / step in between, then ONE step
            opt.zero_grad()
            for a, b in chunks:
                crit(gsm(X[a:b]), T[a:b]).backward()
            opt.step()
            n_acc = len(chunks)
            chunks = []
        else:
            n_acc = 1
        for ci, (a, b) in enumerate(chunks):       # physical batches of one logical batch (what BatchMemoryManager does)
            if len(chunks) > 1:
                opt.signal_skip_step(do_skip=(ci < len(chunks) - 1))
            opt.zero_grad()
            if case.get('zg2'):
                opt.zero_grad()             # clearing twice must be as harmless as clearing once
            crit(gsm(X[a:b]), T[a:b]).backward()
            opt.step()
            if case.get('zg2') and ci < len(chunks) - 1:
                opt.zero_grad()
    finally:
        torch.normal = orig
    C = case['C']
    clipping = case['clipping']
    released = [p.grad.detach().flatten() for p in params]
    # closed form
    factors = []
    exp = [torch.zeros_like(r) for r in released]
    for gs in tg:
        if clipping == 'per_layer':
            fs = [min(1.0, C / (float(x.norm()) + 1e-6)) for x in gs]
        else:
            nrm = float(torch.cat(gs).norm())
            fs = [min(1.0, C / (nrm + 1e-6))] * len(gs)
        factors.append(fs)
        for k, x in enumerate(gs):
            exp[k] += fs[k] * x
    bad = []
    if case['nm'] != 0:
        if clipping == 'adaptive' and len(rec) == len(params) + 1:
            rec = rec[:len(params)]      # the last draw is the noise on the unclipped count (C20)
        if len(rec) != len(params):
            bad.append('%d noise tensors for %d parameters' % (len(rec), len(params)))
        else:
            exp = [e + z for e, z in zip(exp, rec)]
    denom = case['B'] * n_acc if case['red'] == 'mean' else 1      # expected batch size x accumulated batches; no division for sum
    exp = [e / denom for e in exp]
    err = max(float((a - b).abs().max()) / (1.0 + float(b.abs().max())) for a, b in zip(released, exp))
    defect_form = False
    if err > 1e-8 and clipping == 'ghost' and case.get('lcol'):
        # recorded finding: coeff [B] * loss [B, 1] broadcasts to [B, B]; every physical batch contributes (sum_j c_j) * (sum_i g_i)
        dexp = [torch.zeros_like(r) for r in released]
        for a, b in (chunks or [(0, n)]):
            csum = sum(factors[j][0] for j in range(a, b))
            for k in range(len(dexp)):
                dexp[k] += csum * sum(tg[j][k] for j in range(a, b))
        if case['nm'] != 0 and len(rec) == len(params):
            dexp = [e + z for e, z in zip(dexp, rec)]
        dexp = [e / denom for e in dexp]
        derr = max(float((a - b).abs().max()) / (1.0 + float(b.abs().max())) for a, b in zip(released, dexp))
        defect_form = derr <= 1e-8
    if err > 1e-8:
        bad.append('released gradient differs from (sum_i min(1,C/(|g_i|+1e-6)) g_i + z)/B%s by rel. %.3g' % (' (B x %d accumulated batches; none for sum)' % n_acc if n_acc > 1 else '', err))
    return {'bad': bad, 'err': err, 'defect_form': defect_form,
            'grads': [[[float(v) for v in x] for x in gs] for gs in tg], 'factors': factors, 'C': C}


if __name__ == '__main__':
    p = read_payload()
    out = {'sens': [], 'step': []}
    for mode, fn in (('sens', sens_case), ('step', step_case)):
        for c in p.get(mode, []):
            try:
                out[mode].append(dict(fn(c), error=None))
            except Exception as e:
                import traceback
                out[mode].append({'bad': [], 'error': errname(e) + ' ' + traceback.format_exc()[-600:]})
    emit(out)
