"""C20, ghost-clipping adaptive engine (PrivacyEngineAdaptiveClipping): per step, the recorded noise draws.
The count noise has std sigma_b = (realised batch size)/20; the gradient noise multiplier must be (sigma^-2 - (2 sigma_b)^-2)^(-1/2) for THAT
sigma_b, its std that multiplier times the clipping norm in force; the new norm follows the update rule with the noisy count."""
from py.harness.common import *
import math
import torch.nn as nn
from torch.utils.data import DataLoader, TensorDataset
from opacus.utils.adaptive_clipping.adaptive_clipping_utils import PrivacyEngineAdaptiveClipping


def run_case(c):
    out = {'error': None, 'steps': []}
    try:
        torch.manual_seed(c['seed'])
        N, B = c['N'], c['B']
        X = torch.randn(N, 4) * c['scale']
        Y = torch.randint(0, 3, (N,))
        dl = DataLoader(TensorDataset(X, Y), batch_size=B)
        model = nn.Sequential(nn.Linear(4, 5), nn.Tanh(), nn.Linear(5, 3))
        opt = torch.optim.SGD(model.parameters(), lr=0.05)
        eng = PrivacyEngineAdaptiveClipping(accountant='rdp')
        m, o, crit, d = eng.make_private(module=model, optimizer=opt, criterion=nn.CrossEntropyLoss(reduction='mean'), data_loader=dl,
                                         noise_multiplier=c['sigma'], max_grad_norm=c['C'], grad_sample_mode='ghost', poisson_sampling=False,
                                         target_unclipped_quantile=c['q'], clipbound_learning_rate=c['lr'], min_clipbound=c['minc'], max_clipbound=c['maxc'])
        sched = None
        if c.get('gamma') is not None:
            from opacus.schedulers import ExponentialNoise
            sched = ExponentialNoise(o, gamma=c['gamma'])
        rec = []
        orig = torch.normal

        def wn(*a, **k):
            r = orig(*a, **k)
            rec.append((float(k.get('std')), list(k.get('size')), float(r.flatten()[0]) if r.numel() == 1 else None))
            return r
        torch.normal = wn
        try:
            for xb, yb in d:
                del rec[:]
                C0 = float(o.max_grad_norm)
                o.zero_grad()
                loss = crit(m(xb), yb)
                loss.backward()
                norms = [float(v) for v in m.per_sample_gradient_norms.flatten().tolist()] if hasattr(m, 'per_sample_gradient_norms') else None
                o.step()
                if sched is not None:
                    sched.step()
                out['steps'].append({'n': len(xb), 'C0': C0, 'C1': float(o.max_grad_norm), 'nm': float(o.noise_multiplier), 'rec': list(rec), 'norms': norms,
                                     'ebs': float(o.expected_batch_size), 'hist': [list(h) for h in eng.accountant.history]})
        finally:
            torch.normal = orig
    except Exception as e:
        import traceback
        out['error'] = errname(e) + ': ' + str(e)[:300] + ' @ ' + traceback.format_exc()[-600:]
    return out


if __name__ == '__main__':
    p = read_payload()
    emit({'results': [run_case(c) for c in p['cases']]})
