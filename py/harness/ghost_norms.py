"""C02: the real norm samplers / grad samplers of nn.Linear on small-integer tensors (exact in float64)."""
from py.harness.common import *
import torch.nn as nn
from opacus.grad_sample.linear import compute_linear_norm_sample, compute_linear_grad_sample
from opacus.grad_sample.embedding import compute_embedding_norm_sample, compute_embedding_grad_sample


def case(c):
    L, p, q = c['L'], c['p'], c['q']
    g = torch.tensor(c['g'], dtype=torch.float64).reshape(1, L, p)
    a = torch.tensor(c['a'], dtype=torch.float64).reshape(1, L, q)
    lin = nn.Linear(q, p).double()
    if c['dim'] == 2:
        g2, a2 = g.reshape(L, p), a.reshape(L, q)          # L samples, 2-D input
        ns = compute_linear_norm_sample(lin, [a2], g2)
        gs = compute_linear_grad_sample(lin, [a2], g2)
    else:
        ns = compute_linear_norm_sample(lin, [a], g)
        gs = compute_linear_grad_sample(lin, [a], g)
    w2 = [int(round(float(x) ** 2)) for x in ns[lin.weight]]
    b2 = [int(round(float(x) ** 2)) for x in ns[lin.bias]]
    tw = [int(round(float((x ** 2).sum()))) for x in gs[lin.weight]]
    tb = [int(round(float((x ** 2).sum()))) for x in gs[lin.bias]]
    return {'w2': w2, 'b2': b2, 'tw': tw, 'tb': tb}


def emb_case(c):
    """rows: a batch of id rows [n][L]; g: [n][L][D] integers.  Returns per row the squared ghost norm and the squared norm of the grad sample"""
    emb = nn.Embedding(c['V'], c['D'], padding_idx=c['pad'], scale_grad_by_freq=c.get('freq', False)).double()
    ids = torch.tensor(c['ids'], dtype=torch.long)
    g = torch.tensor(c['g'], dtype=torch.float64)
    ns = compute_embedding_norm_sample(emb, [ids], g)[emb.weight]
    gs = compute_embedding_grad_sample(emb, [ids], g)[emb.weight]
    if c.get('freq'):      # divisions by the usage counts: compared as floats
        return {'n2f': [float(x) ** 2 for x in ns], 't2f': [float((x ** 2).sum()) for x in gs]}
    return {'n2': [int(round(float(x) ** 2)) for x in ns], 't2': [int(round(float((x ** 2).sum()))) for x in gs],
            'resid': max(abs(float(x) ** 2 - round(float(x) ** 2)) for x in ns)}


if __name__ == '__main__':
    p = read_payload()
    emit({'results': [case(c) for c in p.get('cases', [])], 'emb': [emb_case(c) for c in p.get('emb', [])]})
