"""Implementation side of the optimizer state-machine correspondence (C05 C10 C11 C04):
the one-hot probe.  Linear(D,1,bias=False), zero weights, lr=1, sum reduction, sample j = e_j,
huge clipping norm, noise zeroed (but counted): every inner step moves the weights by exactly the
multiset of released sample ids.
case: {variant: flat|perlayer|ghost, acc: rdp|prv|gdp, accum: bool, nm: int, ops: [[name, arg]...]}
ops:  FB [sids] | ST | OZ | MZ | SK b | NM v | CC v
observation per op: [errcode, #inner steps, #param-shaped noise draws, #accountant steps] + sorted released ids"""
from py.harness.common import *
import torch.nn as nn
from opacus import GradSampleModule
from opacus.grad_sample import GradSampleModuleFastGradientClipping
from opacus.optimizers import DPOptimizer, DPPerLayerOptimizer, DPOptimizerFastGradientClipping
from opacus.utils.fast_gradient_clipping_utils import DPLossFastGradientClipping
from opacus.accountants import RDPAccountant, PRVAccountant, GaussianAccountant

ERR = {'ValueError': 1, 'NotImplementedError': 2, 'IndexError': 3, 'AssertionError': 4, 'TypeError': 5,
       'RuntimeError': 6, 'KeyError': 7, 'AttributeError': 9}
D = 24


class Crit:
    reduction = 'sum'

    def __call__(self, inp, tgt):
        per = inp.reshape(-1)
        return per if self.reduction == 'none' else per.sum()


class Probe:
    def __init__(self, case):
        v = case['variant']
        self.v = v
        self.lin = nn.Linear(D, 1, bias=False)
        nn.init.zeros_(self.lin.weight)
        self.inner = torch.optim.SGD(self.lin.parameters(), lr=1.0)
        self.n_inner = 0
        self.order = []
        orig = self.inner.step

        def counted(*a, **k):
            self.n_inner += 1
            self.order.append('I')
            return orig(*a, **k)
        self.inner.step = counted
        kw = dict(noise_multiplier=float(case['nm']), expected_batch_size=1, loss_reduction='sum', secure_mode=bool(case.get('secure', False)))
        if v == 'ghost':
            self.gsm = GradSampleModuleFastGradientClipping(self.lin, loss_reduction='sum', max_grad_norm=10.0)
            self.opt = DPOptimizerFastGradientClipping(self.inner, max_grad_norm=10.0, **kw)
            self.loss = DPLossFastGradientClipping(self.gsm, self.opt, Crit(), 'sum')
        elif v == 'perlayer':
            self.gsm = GradSampleModule(self.lin, loss_reduction='sum')
            self.opt = DPPerLayerOptimizer(self.inner, max_grad_norm=[10.0], **kw)
        else:
            self.gsm = GradSampleModule(self.lin, loss_reduction='sum')
            self.opt = DPOptimizer(self.inner, max_grad_norm=10.0, **kw)
        if not case['accum']:
            self.gsm.forbid_grad_accumulation()
        self.acc = {'rdp': RDPAccountant, 'prv': PRVAccountant, 'gdp': GaussianAccountant}[case['acc']]()
        self.n_acc = 0
        astep = self.acc.step

        def acounted(**k):
            r = astep(**k)
            self.n_acc += 1
            self.order.append('A:%r:%r' % (k['noise_multiplier'], k['sample_rate']))
            return r
        self.acc.step = acounted
        self.opt.attach_step_hook(self.acc.get_optimizer_hook_fn(sample_rate=1.0))

    def fb(self, sids):
        x = torch.zeros(len(sids), D)
        for r, i in enumerate(sids):
            x[r, i] = 1.0
        if self.v == 'ghost':
            self.loss(self.gsm(x), torch.zeros(len(sids))).backward()
        else:
            self.gsm(x).sum().backward()

    def do(self, name, arg):
        w0 = self.lin.weight.detach().clone()
        i0, a0 = self.n_inner, self.n_acc
        self.order = []
        self.nm_before = float(self.opt.noise_multiplier)
        self.c_before = float(self.opt.max_grad_norm)
        code = 0
        with NormalLog(zero=True) as nl:
            try:
                if name == 'FB':
                    self.fb(arg)
                elif name == 'ST':
                    self.opt.step()
                elif name == 'OZ':
                    self.opt.zero_grad()
                elif name == 'MZ':
                    self.gsm.zero_grad()
                elif name == 'SK':
                    self.opt.signal_skip_step(bool(arg))
                elif name == 'NM':
                    self.opt.noise_multiplier = float(arg)
                elif name == 'CC':
                    self.opt.max_grad_norm = float(arg)
            except Exception as e:
                code = ERR.get(type(e).__name__, 99)
        d = (w0 - self.lin.weight.detach()).flatten().tolist()
        ids = []
        exact = True
        for i, val in enumerate(d):
            k = round(val)
            if abs(val - k) > 1e-9 or k < 0:
                exact = False
            ids += [i] * max(k, 0)
        nparam = sum(1 for c in nl.calls if c['shape'] == [1, D])
        self.last_extra = {'order': list(self.order), 'stds': [c['std'] for c in nl.calls], 'nm': self.nm_before, 'C': self.c_before}
        return [code, self.n_inner - i0, nparam, self.n_acc - a0] + sorted(ids), exact


def run_case(case):
    p = Probe(case)
    obs, ok, extra = [], True, []
    trunc = None
    for i, (name, arg) in enumerate(case['ops']):
        o, ex = p.do(name, arg)
        obs.append(o)
        extra.append(p.last_extra)
        ok = ok and ex
        if name == 'FB' and o[0] != 0:
            # an exception escaped a backward hook: the module's activation stack / forward counters are now
            # inconsistent (not part of the ledger model) -- the history is compared up to and including this op
            trunc = i + 1
            break
    hist = []
    for (a, b, n) in p.acc.history:
        hist += [int(round(a)), int(round(b)), int(n)]
    return {'obs': obs + [hist], 'decodable': ok, 'extra': extra, 'hist_raw': [[float(a), float(b), int(n)] for (a, b, n) in p.acc.history], 'truncated_at': trunc}


if __name__ == '__main__':
    pl = read_payload()
    emit({'results': [run_case(c) for c in pl['cases']]})
