"""C14: DPMultiheadAttention vs torch.nn.MultiheadAttention (float64): outputs, averaged attention weights, parameter gradients,
state_dict round trip, over configurations x mask kinds.  Also returns, for integer head tensors, the result of the module's own
head split / merge reshapes (exact plumbing probe)."""
from py.harness.common import *
import torch.nn as nn
from opacus.layers import DPMultiheadAttention


def run_case(c):
    out = {'error': None, 'fails': []}

    def fail(k, w):
        out['fails'].append([k, w])
    try:
        torch.manual_seed(c['seed'])
        E, H = c['E'], c['H']
        kw = dict(embed_dim=E, num_heads=H, bias=c['bias'], add_bias_kv=c['bkv'], add_zero_attn=c['zattn'], kdim=c['kdim'], vdim=c['vdim'], batch_first=c['bf'])
        t = nn.MultiheadAttention(dropout=c.get('dropout', 0.0), **kw)
        d = DPMultiheadAttention(dropout=c.get('dropout', 0.0), **kw)
        if c.get('dropout', 0.0) > 0:
            t.eval()
            d.eval()          # attention dropout must be off in eval mode, as in torch
        with torch.no_grad():
            for p in t.parameters():
                p.copy_(torch.randn(p.shape) * 0.5)
        sd = t.state_dict()
        d.load_state_dict(dict(sd))
        dsd = d.state_dict()
        if sorted(dsd.keys()) != sorted(sd.keys()):
            fail('state-dict-keys', 'torch-only %s dp-only %s' % (sorted(set(sd) - set(dsd)), sorted(set(dsd) - set(sd))))
        else:
            t2 = nn.MultiheadAttention(dropout=0.0, **kw)
            try:
                t2.load_state_dict(dsd)
                bad = [k for k in sd if sd[k].shape != t2.state_dict()[k].shape or not torch.equal(sd[k], t2.state_dict()[k])]
                if bad:
                    fail('state-dict-roundtrip', 'torch -> DP -> torch changed %s' % bad[:3])
            except Exception as e:
                fail('state-dict-roundtrip', 'DP state_dict does not load into torch: %s %s' % (errname(e), str(e)[:150]))
        g = torch.Generator().manual_seed(c['seed'] + 3)
        B, L, S = c['B'], c['L'], c['S']
        kd = c['kdim'] or E
        vd = c['vdim'] or E

        def mk(n, dim):
            return torch.randn(B, n, dim, generator=g) if c['bf'] else torch.randn(n, B, dim, generator=g)
        if c.get('self_attn'):
            S = L
            q = mk(L, E)
            k = v = q
        else:
            q, k, v = mk(L, E), mk(S, kd), mk(S, vd)
        am = None
        mk_ = c['mask']
        if mk_ != 'none':
            three = mk_.startswith('3d')
            shape = (B * H, L, S) if three else (L, S)
            if mk_.endswith('bool'):
                am = torch.rand(shape, generator=g) < 0.4
                am[..., 0] = False
            else:
                am = torch.randn(shape, generator=g)
        kpm = None
        if c['kpm']:
            kpm = torch.rand(B, S, generator=g) < 0.4
            kpm[:, 0] = False
            if c['kpm'] == 'float':       # an additive key padding mask (torch accepts it when the attention mask is absent or float as well)
                kpm = torch.where(kpm, torch.full((B, S), -1.5), torch.zeros(B, S)) + 0.25 * torch.randn(B, S, generator=g)
        res = []
        for m in (t, d):
            for p in m.parameters():
                p.grad = None
            try:
                o, w = m(q, k, v, attn_mask=am, key_padding_mask=kpm, need_weights=True)
            except Exception as e:
                res.append(('EXC', errname(e), str(e)[:200]))
                continue
            ww = torch.linspace(0.5, 1.5, o.numel()).reshape(o.shape)
            ((o * ww).sum() + (w * 0.7).sum()).backward()
            res.append(('ok', o.detach(), w.detach(), m))
        if res[0][0] == 'EXC':
            out['torch_rejects'] = res[0][1]
            return out          # not an input the torch layer accepts
        if res[1][0] == 'EXC':
            fail('rejects-accepted-input', 'DPMultiheadAttention raised %s (%s) on an input nn.MultiheadAttention accepts' % (res[1][1], res[1][2]))
            return out
        (_, o1, w1, _), (_, o2, w2, _) = res
        if o1.shape != o2.shape or float((o1 - o2).abs().max()) > 1e-9:
            fail('output', 'attention output differs: %s' % (float((o1 - o2).abs().max()) if o1.shape == o2.shape else (tuple(o1.shape), tuple(o2.shape))))
        if w1.shape != w2.shape or float((w1 - w2).abs().max()) > 1e-9:
            fail('weights', 'averaged attention weights differ: %s' % (float((w1 - w2).abs().max()) if w1.shape == w2.shape else (tuple(w1.shape), tuple(w2.shape))))
        # gradients
        gt = {n: p.grad for n, p in t.named_parameters()}
        dp = dict(d.named_parameters())

        def gd(n):
            p = dp.get(n)
            return None if p is None else p.grad
        pairs = []
        if 'in_proj_weight' in gt:
            pairs.append(('in_proj_weight', gt['in_proj_weight'], torch.cat([gd('qlinear.weight'), gd('klinear.weight'), gd('vlinear.weight')])))
        else:
            for a, b in (('q_proj_weight', 'qlinear.weight'), ('k_proj_weight', 'klinear.weight'), ('v_proj_weight', 'vlinear.weight')):
                pairs.append((a, gt[a], gd(b)))
        if 'in_proj_bias' in gt:
            pairs.append(('in_proj_bias', gt['in_proj_bias'], torch.cat([gd('qlinear.bias'), gd('klinear.bias'), gd('vlinear.bias')])))
        pairs.append(('out_proj.weight', gt['out_proj.weight'], gd('out_proj.weight')))
        if 'out_proj.bias' in gt:
            pairs.append(('out_proj.bias', gt['out_proj.bias'], gd('out_proj.bias')))
        if 'bias_k' in gt:
            pairs.append(('bias_k', gt['bias_k'].reshape(-1), gd('seq_bias_k.bias').reshape(-1)))
            pairs.append(('bias_v', gt['bias_v'].reshape(-1), gd('seq_bias_v.bias').reshape(-1)))
        for n, a, b in pairs:
            if b is None or a is None:
                fail('gradient', 'no gradient for %s' % n)
            elif a.shape != b.shape or float((a - b).abs().max()) > 1e-8 * (1 + float(a.abs().max())):
                fail('gradient', 'gradient of %s differs by %s' % (n, float((a - b).abs().max()) if a.shape == b.shape else 'shape'))
    except Exception as e:
        import traceback
        out['error'] = errname(e) + ': ' + str(e)[:300] + ' @ ' + traceback.format_exc()[-700:]
    return out


def apply_ops(x, ops):
    for o in ops:
        if o[0] == 'VContig':
            x = x.contiguous()
        elif o[0] == 'VTranspose01':
            x = x.transpose(0, 1)
        else:
            x = x.view(*o[1:])
    return x


def view_probe(p):
    """torch's own contiguous / view / transpose applied in the generated order to tensors whose entries code their index:
    the statements of the Coq theorems are checked entry by entry"""
    bad = []
    for (L, B, H, hd) in p['extents']:
        E = H * hd
        def inst(ops):
            env = {'L': L, 'B': B, 'H': H, 'hd': hd, 'S': L}
            return [[o[0]] + [eval(str(a), {}, env) for a in o[1:]] for o in ops]
        proj = torch.arange(L * B * E).reshape(L, B, E)
        heads = apply_ops(proj, inst(p['split_q']))
        if tuple(heads.shape) != (B * H, L, hd):
            bad.append(['split-shape', [L, B, H, hd], list(heads.shape)])
            continue
        ok = all(int(heads[b * H + h, l, d]) == int(proj[l, b, h * hd + d]) for l in range(L) for b in range(B) for h in range(H) for d in range(hd))
        if not ok:
            bad.append(['split', [L, B, H, hd]])
        hres = torch.arange(B * H * L * hd).reshape(B * H, L, hd)
        for name, shape_ok, get in (('merge_seq_first', (L, B, E), lambda o, l, b, e: o[l, b, e]), ('merge_batch_first', (B, L, E), lambda o, l, b, e: o[b, l, e])):
            o = apply_ops(hres, inst(p[name]))
            if tuple(o.shape) != shape_ok:
                bad.append([name + '-shape', [L, B, H, hd], list(o.shape)])
                continue
            if not all(int(get(o, l, b, h * hd + d)) == int(hres[b * H + h, l, d]) for l in range(L) for b in range(B) for h in range(H) for d in range(hd)):
                bad.append([name, [L, B, H, hd]])
    return bad


if __name__ == '__main__':
    p = read_payload()
    emit({'results': [run_case(c) for c in p.get('cases', [])], 'view_bad': view_probe(p['view']) if p.get('view') else None})
