"""C03/C08/C09: scalar expressions of the engine evaluated by CPython"""
from py.harness.common import *
from opacus.optimizers import get_optimizer_class

if __name__ == '__main__':
    p = read_payload()
    out = {}
    out['ebs'] = [int(n * (1 / l)) for n, l in p.get('ebs', [])]
    if p.get('classes'):
        d = {}
        for c in ['flat', 'per_layer', 'adaptive']:
            for dist in [False, True]:
                for m in ['hooks', 'functorch', 'ew', 'ghost']:
                    try:
                        d['%s|%s|%s' % (c, dist, m)] = get_optimizer_class(c, dist, m).__name__
                    except ValueError:
                        d['%s|%s|%s' % (c, dist, m)] = None
        out['classes'] = d
    out['steps'] = [int(1 / (1 / l)) for l in p.get('lens', [])]
    out['calib'] = [int(e / (1 / l)) for e, l in p.get('calib', [])]
    emit(out)
