"""C03/C08/C09: scalar expressions of the engine evaluated by CPython"""
from py.harness.common import *
from opacus.optimizers import get_optimizer_class

if __name__ == '__main__':
    p = read_payload()
    out = {}
    # (dataset size, batch size) -> [N, len(loader), expected_batch_size] from the REAL make_private
    ebs = []
    if p.get('ebs'):
        import warnings
        import torch.nn as nn
        from torch.utils.data import DataLoader, Dataset
        from opacus import PrivacyEngine
        warnings.filterwarnings('ignore')

        class DS(Dataset):
            def __init__(s, n):
                s.n = n

            def __len__(s):
                return s.n

            def __getitem__(s, i):
                return torch.zeros(3), 0
        for n, bs in p['ebs']:
            model = nn.Linear(3, 2)
            opt = torch.optim.SGD(model.parameters(), lr=0.1)
            dl = DataLoader(DS(n), batch_size=bs)
            r_ = PrivacyEngine(accountant='rdp').make_private(module=model, optimizer=opt, data_loader=dl, noise_multiplier=1.0, max_grad_norm=1.0, poisson_sampling=False)
            ebs.append([n, len(r_[2]), int(r_[1].expected_batch_size)])
    out['ebs'] = ebs
    if p.get('classes'):
        d = {}
        for c in ['flat', 'per_layer', 'adaptive']:
            for dist in [False, True]:
                for m in ['hooks', 'functorch', 'ew', 'ghost']:
                    try:
                        d['%s|%s|%s' % (c, dist, m)] = get_optimizer_class(c, dist, m).__name__
                    except ValueError:
                        d['%s|%s|%s' % (c, dist, m)] = None
        out['classes'] = d
    # the REAL engine: expected batch size of the optimizer returned by each make_private call on one engine object (several datasets in turn)
    real = []
    for seq in p.get('real', []):
        import warnings
        import torch.nn as nn
        from torch.utils.data import DataLoader, TensorDataset
        from opacus import PrivacyEngine
        warnings.filterwarnings('ignore')
        eng = PrivacyEngine(accountant='rdp')
        got = []
        for (n, bs, poisson, mode) in seq:
            model = nn.Linear(3, 2)
            opt = torch.optim.SGD(model.parameters(), lr=0.1)
            dl = DataLoader(TensorDataset(torch.zeros(n, 3), torch.zeros(n, dtype=torch.long)), batch_size=bs)
            kw = dict(module=model, optimizer=opt, data_loader=dl, noise_multiplier=1.0, max_grad_norm=1.0, poisson_sampling=poisson, grad_sample_mode=mode)
            if mode == 'ghost':
                kw['criterion'] = nn.CrossEntropyLoss()
            r_ = eng.make_private(**kw)
            got.append([float(r_[1].expected_batch_size), len(dl)])
        real.append(got)
    out['real'] = real
    out['steps'] = [int(1 / (1 / l)) for l in p.get('lens', [])]
    out['calib'] = [int(e / (1 / l)) for e, l in p.get('calib', [])]
    emit(out)
