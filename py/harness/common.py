"""implementation-side helpers (run under /venv/bin/python with PYTHONPATH=/repo)"""
import json, sys, warnings, io, contextlib
warnings.filterwarnings('ignore')
import torch
torch.set_default_dtype(torch.float64)
torch.set_num_threads(1)


def read_payload():
    return json.loads(sys.stdin.read())


def emit(obj):
    sys.stdout.write('\n' + json.dumps(obj) + '\n')


def errname(e):
    return type(e).__name__


class NormalLog:
    """wraps torch.normal: logs (std, shape, has_generator) per call; optionally zeroes the noise"""

    def __init__(self, zero=False):
        self.calls = []
        self.zero = zero
        self._orig = torch.normal

    def __enter__(self):
        orig = self._orig
        log = self

        def wrapped(*a, **k):
            std = k.get('std', a[1] if len(a) > 1 else None)
            size = k.get('size', a[2] if len(a) > 2 else None)
            log.calls.append({'std': float(std) if not torch.is_tensor(std) else float(std.flatten()[0]) if std.numel() else 0.0,
                              'shape': list(size) if size is not None else None,
                              'gen': k.get('generator') is not None})
            r = orig(*a, **k)
            return torch.zeros_like(r) if log.zero else r
        torch.normal = wrapped
        return self

    def __exit__(self, *a):
        torch.normal = self._orig
