"""C15: ModuleValidator.validate / is_valid / fix, GradSampleModule.validate and PrivacyEngine.make_private on generated module trees,
plus the behavioural oracle: every leaf layer of a tree is run in its training/eval mode on a batch and on the same batch with the other
rows changed (row 0 must not move) and its buffers are compared before/after (no data-dependent statistics)."""
from py.harness.common import *
import copy, hashlib
import torch.nn as nn
from torch.utils.data import DataLoader, TensorDataset
from opacus import PrivacyEngine
from opacus.validators import ModuleValidator
from opacus.grad_sample import GradSampleModule


def build(spec):
    t = spec['t']
    a = spec.get('a', {})
    if t == 'seq':
        m = nn.Sequential()
        for i, ch in enumerate(spec['ch']):
            m.add_module('c%d' % i, build(ch))
    elif t == 'lin':
        m = nn.Linear(4, 4, bias=a.get('bias', True))
    elif t == 'conv1':
        m = nn.Conv1d(4, 4, 3, padding=1)
    elif t == 'emb':
        m = nn.Embedding(7, 4)
    elif t in ('bn1', 'bn2', 'bn3', 'syncbn'):
        cls = {'bn1': nn.BatchNorm1d, 'bn2': nn.BatchNorm2d, 'bn3': nn.BatchNorm3d, 'syncbn': nn.SyncBatchNorm}[t]
        m = cls(4, affine=a.get('affine', True), track_running_stats=a.get('track', True))
    elif t in ('in1', 'in2', 'in3'):
        cls = {'in1': nn.InstanceNorm1d, 'in2': nn.InstanceNorm2d, 'in3': nn.InstanceNorm3d}[t]
        m = cls(4, affine=a.get('affine', False), track_running_stats=a.get('track', False))
    elif t == 'gn':
        m = nn.GroupNorm(2, 4, affine=a.get('affine', True))
    elif t == 'ln':
        m = nn.LayerNorm(4, elementwise_affine=a.get('affine', True))
    elif t == 'lstm':
        m = nn.LSTM(4, 3, num_layers=a.get('layers', 1), bidirectional=a.get('bidir', False), bias=a.get('bias', True), batch_first=a.get('bf', False))
    elif t == 'mha':
        m = nn.MultiheadAttention(4, a.get('heads', 2), bias=a.get('bias', True), add_bias_kv=a.get('bkv', False), add_zero_attn=a.get('zattn', False),
                                  kdim=a.get('kdim'), vdim=a.get('vdim'))
    else:
        raise ValueError(t)
    if spec.get('frozen'):
        for p in m.parameters(recurse=False):
            p.requires_grad_(False)
        if t in ('lstm', 'mha'):
            for p in m.parameters():
                p.requires_grad_(False)
    if spec.get('eval'):
        m.eval()
    return m


def sample_input(m, g, B=4):
    """(args, batch_dim) for one leaf layer"""
    if isinstance(m, nn.Linear):
        return (torch.randn(B, 4, generator=g),), 0
    if isinstance(m, nn.Embedding):
        return (torch.randint(0, 7, (B, 3), generator=g),), 0
    if isinstance(m, (nn.Conv1d, nn.BatchNorm1d, nn.InstanceNorm1d, nn.GroupNorm)):
        return (torch.randn(B, 4, 5, generator=g),), 0
    if isinstance(m, (nn.BatchNorm2d, nn.InstanceNorm2d)):
        return (torch.randn(B, 4, 3, 3, generator=g),), 0
    if isinstance(m, (nn.BatchNorm3d, nn.InstanceNorm3d)):
        return (torch.randn(B, 4, 2, 3, 3, generator=g),), 0
    if isinstance(m, nn.SyncBatchNorm):
        return None, 0
    if isinstance(m, nn.LayerNorm):
        return (torch.randn(B, 3, 4, generator=g),), 0
    name = type(m).__name__
    if name in ('LSTM', 'DPLSTM'):
        bf = m.batch_first
        x = torch.randn(B, 5, 4, generator=g) if bf else torch.randn(5, B, 4, generator=g)
        return (x,), (0 if bf else 1)
    if name in ('MultiheadAttention', 'DPMultiheadAttention'):
        q = torch.randn(5, B, 4, generator=g)
        kd = m.kdim if m.kdim is not None else 4
        vd = m.vdim if m.vdim is not None else 4
        k = torch.randn(6, B, kd, generator=g) if kd != 4 else torch.randn(6, B, 4, generator=g)
        v = torch.randn(6, B, vd, generator=g)
        return (q, k, v), 1
    return None, 0


def first(out):
    return out[0] if isinstance(out, (tuple, list)) else out


def leaf_report(model, seed):
    """behavioural oracle per leaf layer"""
    rep = []
    for name, m in model.named_modules():
        if len(list(m.children())) > 0 and type(m).__name__ not in ('LSTM', 'DPLSTM', 'MultiheadAttention', 'DPMultiheadAttention'):
            continue
        if any((r['name'] == '' and name != '') or name.startswith(r['name'] + '.') for r in rep if r['composite']):
            continue
        composite = type(m).__name__ in ('DPLSTM', 'DPMultiheadAttention')
        g = torch.Generator().manual_seed(seed)
        args, bd = sample_input(m, g)
        entry = {'name': name, 'type': type(m).__name__, 'training': m.training, 'composite': composite,
                 'own_trainable': any(p.requires_grad for p in m.parameters(recurse=False)) or (composite and any(p.requires_grad for p in m.parameters())),
                 'n_buffers': len(list(m.buffers())), 'couples': None, 'stat_update': None,
                 'affine': getattr(m, 'affine', None), 'track': getattr(m, 'track_running_stats', None)}
        if args is not None:
            mm = copy.deepcopy(m)
            bufs0 = [b.clone() for b in mm.buffers()]
            with torch.no_grad():
                o1 = first(mm(*args))
                bufs1 = [b.clone() for b in mm.buffers()]
                args2 = []
                for a in args:
                    a2 = a.clone()
                    idx = [slice(None)] * a.dim()
                    idx[bd] = slice(1, None)
                    if a2.dtype.is_floating_point:
                        a2[tuple(idx)] = a2[tuple(idx)] * -1.7 + 0.3
                    else:
                        a2[tuple(idx)] = (a2[tuple(idx)] + 3) % 7
                    args2.append(a2)
                mm2 = copy.deepcopy(m)
                o2 = first(mm2(*args2))
            sel = [slice(None)] * o1.dim()
            sel[bd] = 0
            entry['couples'] = bool((o1[tuple(sel)] - o2[tuple(sel)]).abs().max() > 1e-10)
            entry['stat_update'] = any((x.shape != y.shape) or bool((x.double() - y.double()).abs().max() > 0) for x, y in zip(bufs0, bufs1))
        rep.append(entry)
    return rep


def fingerprint(model):
    h = hashlib.sha1()
    h.update(repr(model).encode())
    for n, p in list(model.named_parameters()) + list(model.named_buffers()):
        h.update(n.encode())
        h.update(p.detach().cpu().numpy().tobytes())
        h.update(str(p.requires_grad).encode())
    for n, m in model.named_modules():
        h.update(('%s:%s' % (n, m.training)).encode())
    return h.hexdigest()


def try_(f):
    try:
        return 'ok', f()
    except Exception as e:
        return errname(e), str(e)[:160]


def private(model, eval_mode=False, foreign=False):
    params = [p for p in model.parameters() if p.requires_grad]
    if foreign:
        params = [nn.Parameter(torch.zeros(3))] + params
    if not params:
        params = [nn.Parameter(torch.zeros(1))]
        foreign = True
    opt = torch.optim.SGD(params, lr=0.1)
    dl = DataLoader(TensorDataset(torch.zeros(8, 4), torch.zeros(8, dtype=torch.long)), batch_size=4)
    if eval_mode:
        model.eval()
    eng = PrivacyEngine()
    return eng.make_private(module=model, optimizer=opt, data_loader=dl, noise_multiplier=1.0, max_grad_norm=1.0, poisson_sampling=False)


def equivalence(orig, fixed, seed):
    """fixed LSTM / MultiheadAttention replacements compute the same function as the layers they replace"""
    bad = []
    fm = dict(fixed.named_modules())
    for name, m in orig.named_modules():
        if type(m).__name__ in ('LSTM', 'MultiheadAttention') and name in fm and type(fm[name]).__name__ in ('DPLSTM', 'DPMultiheadAttention'):
            g = torch.Generator().manual_seed(seed)
            args, _ = sample_input(m, g)
            a, b = copy.deepcopy(m).eval(), copy.deepcopy(fm[name]).eval()
            with torch.no_grad():
                o1, o2 = a(*args), b(*args)
            d = float((first(o1) - first(o2)).abs().max())
            if d > 1e-9:
                bad.append([name, type(m).__name__, d])
    return bad


def run_case(c):
    out = {'error': None}
    try:
        torch.manual_seed(c['seed'])
        model = build(c['tree'])
        if c.get('root_eval'):
            model.eval()
        if c.get('freeze_first'):
            # a partly frozen recurrent layer (still trainable, so it is replaced): its frozen parameters stay frozen
            for m_ in model.modules():
                if type(m_).__name__ == 'LSTM' and sum(1 for _ in m_.parameters()) > 1:
                    next(m_.parameters()).requires_grad_(False)
        fp0 = fingerprint(model)
        ids0 = {id(p) for p in model.parameters()} | {id(m) for m in model.modules()}
        st, v = try_(lambda: [type(e).__name__ for e in ModuleValidator.validate(model, strict=False)])
        out['validate'] = v if st == 'ok' else 'EXC:' + st
        out['is_valid'] = try_(lambda: ModuleValidator.is_valid(model))[1]
        out['gsm_errors'] = try_(lambda: len(GradSampleModule.validate(model, strict=False)))[1]
        out['leaves'] = leaf_report(model, c['seed'])
        out['root_training'] = model.training
        out['n_trainable'] = sum(1 for p in model.parameters() if p.requires_grad)
        # make_private on clones (wrapping mutates)
        out['mp'] = try_(lambda: private(copy.deepcopy(model)))[0]
        out['mp_eval'] = try_(lambda: private(copy.deepcopy(model), eval_mode=True))[0]
        out['mp_foreign'] = try_(lambda: private(copy.deepcopy(model), foreign=True))[0]
        # an ALREADY WRAPPED module handed to make_private is validated like any other
        def prewrapped(eval_mode):
            mm = copy.deepcopy(model)
            g = GradSampleModule(mm, strict=False)
            if eval_mode:
                g.eval()
            return private(g)
        out['mp_prewrapped'] = try_(lambda: prewrapped(False))[0]
        out['mp_prewrapped_eval'] = try_(lambda: prewrapped(True))[0]
        # fix
        kw = c.get('kw', {})
        if c.get('f32default'):
            # the (float64) model is fixed in a process whose default dtype is float32, the usual default: replacements keep the model's dtype
            torch.set_default_dtype(torch.float32)
        try:
            st, fixed = try_(lambda: ModuleValidator.fix(model, **kw))
        finally:
            torch.set_default_dtype(torch.float64)
        out['fix'] = st if st != 'ok' else 'ok'
        out['fix_msg'] = fixed if st != 'ok' else ''
        out['arg_untouched'] = fingerprint(model) == fp0
        if st == 'ok':
            d0 = {str(p.dtype) for p in model.parameters()}
            out['fixed_dtype_diff'] = [n for n, p in fixed.named_parameters() if str(p.dtype) not in d0][:3]
            if out['fixed_dtype_diff']:
                fixed = fixed.double()          # reported as fix-changes-dtype; the remaining oracles run on the converted module
            out['fixed_validate'] = try_(lambda: [type(e).__name__ for e in ModuleValidator.validate(fixed, strict=False)])[1]
            out['fixed_gsm_errors'] = try_(lambda: len(GradSampleModule.validate(fixed, strict=False)))[1]
            out['fixed_mp'] = try_(lambda: private(copy.deepcopy(fixed)))[0]
            out['fixed_n_trainable'] = sum(1 for p in fixed.parameters() if p.requires_grad)
            shared = ids0 & ({id(p) for p in fixed.parameters()} | {id(m) for m in fixed.modules()})
            out['shares_objects'] = len(shared)
            om, fm = dict(model.named_modules()), dict(fixed.named_modules())
            replaced = sorted(n for n in om if n in fm and type(om[n]) is not type(fm[n]))
            out['replaced'] = [[n, type(om[n]).__name__, type(fm[n]).__name__] for n in replaced]
            # parameters of every module that was not replaced (and does not live under a replaced one): same names, bit-identical
            op, fpm = dict(model.named_parameters()), dict(fixed.named_parameters())
            changed = []
            for n, p in op.items():
                owner = n.rsplit('.', 1)[0] if '.' in n else ''
                if any(owner == r or owner.startswith(r + '.') for r in replaced):
                    continue
                if n not in fpm or not torch.equal(p, fpm[n]) or p.requires_grad != fpm[n].requires_grad:
                    changed.append(n)
            out['changed_params'] = changed
            out['fixed_leaves'] = leaf_report(fixed, c['seed'])
            out['equiv_bad'] = equivalence(model, fixed, c['seed'])
            out['fixed_modes_kept'] = all(fm[n].training == om[n].training for n in om if n in fm)
            out['fixed_unfrozen'] = [n + '.' + k for n in om if n in fm and type(om[n]).__name__ == 'LSTM' and type(fm[n]).__name__ == 'DPLSTM'
                                     for k, p in om[n].named_parameters() if not p.requires_grad and dict(fm[n].named_parameters())[k].requires_grad][:3]
            out['fixed_mode_diff'] = [n for n in om if n in fm and fm[n].training != om[n].training][:3]
    except Exception as e:
        import traceback
        out['error'] = errname(e) + ': ' + str(e)[:300] + ' @ ' + traceback.format_exc()[-600:]
    return out


class SeqHead(nn.Module):
    """a recurrent / sequence layer followed by a linear head on the last time step"""

    def __init__(self, layer, width):
        super().__init__()
        self.layer = layer
        self.out = nn.Linear(width, 2)

    def forward(self, x):
        y = self.layer(x)
        y = y[0] if isinstance(y, tuple) else y
        return self.out(y[:, -1])


def trainable_case(c):
    """a model that make_private accepts must be trainable: one DP step (hooks mode) succeeds and moves the parameters of every layer.
    Layers Opacus cannot handle must be refused by validation / make_private, not fail at the first optimizer step."""
    from opacus import PrivacyEngine
    from torch.utils.data import DataLoader, TensorDataset
    out = {'error': None}
    try:
        torch.manual_seed(c['seed'])
        k = c['layer']
        layer, width = {'gru': (nn.GRU(3, 4, batch_first=True), 4), 'rnn': (nn.RNN(3, 4, batch_first=True), 4), 'lstm': (nn.LSTM(3, 4, batch_first=True), 4),
                        'bigru': (nn.GRU(3, 4, batch_first=True, bidirectional=True), 8), 'linear': (nn.Linear(3, 4), 4),
                        'conv_seq': (nn.Sequential(nn.Linear(3, 4), nn.Tanh()), 4)}[k]
        model = SeqHead(layer, width)
        out['validate'] = [type(e).__name__ for e in ModuleValidator.validate(model, strict=False)]
        opt = torch.optim.SGD(model.parameters(), lr=0.1)
        dl = DataLoader(TensorDataset(torch.randn(8, 5, 3), torch.randint(0, 2, (8,))), batch_size=4)
        try:
            m, o, d = PrivacyEngine(accountant='rdp').make_private(module=model, optimizer=opt, data_loader=dl, noise_multiplier=0.5, max_grad_norm=1.0,
                                                                   poisson_sampling=False, grad_sample_mode=c.get('mode', 'hooks'))
            out['mp'] = 'ok'
        except Exception as e:
            out['mp'] = errname(e)
            return out
        before = [p.detach().clone() for p in model.parameters()]
        try:
            for xb, yb in d:
                o.zero_grad()
                nn.CrossEntropyLoss()(m(xb), yb).backward()
                o.step()
                break
            out['step'] = 'ok'
            out['moved'] = all(float((a - b).abs().max()) > 0 for a, b in zip(before, model.parameters()))
        except Exception as e:
            out['step'] = errname(e) + ': ' + str(e)[:120]
    except Exception as e:
        import traceback
        out['error'] = errname(e) + ': ' + str(e)[:300] + ' @ ' + traceback.format_exc()[-400:]
    return out


if __name__ == '__main__':
    p = read_payload()
    emit({'results': [run_case(c) for c in p.get('cases', [])], 'trainable': [trainable_case(c) for c in p.get('trainable', [])]})
