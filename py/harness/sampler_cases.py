"""C09 implementation side: the real samplers / DPDataLoader with torch.rand fed from a supplied stream.
cases 'uniform': {N, q, steps, us: [[float32 values as floats]...]} -> yielded index lists
cases 'dist':    {N, q, steps, W, us per rank} with patched get_rank/get_world_size (shuffle off) -> per rank index lists
cases 'loader':  DPDataLoader.from_data_loader on datasets of various element structures: len(), batches per epoch, empty-batch shapes/dtypes,
                 engine sample rate / expected batch size via make_private"""
from py.harness.common import *
import numpy as np
import torch.nn as nn
from torch.utils.data import DataLoader, TensorDataset, Dataset
from opacus.utils.uniform_sampler import UniformWithReplacementSampler, DistributedUniformWithReplacementSampler
from opacus.data_loader import DPDataLoader
from opacus import PrivacyEngine


class FeedRand:
    def __init__(self, rows):
        self.rows = list(rows)
        self.k = 0
        self._orig = torch.rand

    def __enter__(self):
        def fake(n, generator=None, **kw):
            row = self.rows[self.k]
            self.k += 1
            assert len(row) == n, (len(row), n)
            return torch.tensor(row, dtype=torch.float32)
        torch.rand = fake
        return self

    def __exit__(self, *a):
        torch.rand = self._orig


def uniform_case(c):
    s = UniformWithReplacementSampler(num_samples=c['N'], sample_rate=c['q'], steps=c['steps'])
    with FeedRand(c['us']):
        out = [list(map(int, b)) for b in s]
    return {'batches': out, 'len': len(s), 'q32': float(np.float32(c['q']))}


def dist_case(c):
    import torch.distributed as dist
    og, ow = dist.get_rank, dist.get_world_size
    res = []
    try:
        dist.get_world_size = lambda: c['W']
        for r in range(c['W']):
            dist.get_rank = lambda r=r: r
            s = DistributedUniformWithReplacementSampler(total_size=c['N'], sample_rate=c['q'], shuffle=False, steps=c['steps'])
            with FeedRand(c['us'][r]):
                res.append({'batches': [[int(x) for x in b] for b in s], 'num_samples': s.num_samples, 'len': len(s)})
    finally:
        dist.get_rank, dist.get_world_size = og, ow
    return {'ranks': res, 'q32': float(np.float32(c['q']))}


class StructDS(Dataset):
    def __init__(self, n, kind):
        self.n, self.kind = n, kind

    def __len__(self):
        return self.n

    def __getitem__(self, i):
        if self.kind == 'pair':
            return torch.full((3, 2), float(i)), torch.tensor(i % 3)
        if self.kind == 'scalar_label':
            return torch.full((4,), float(i), dtype=torch.float64), i % 2
        if self.kind == 'triple':
            return torch.zeros(2, dtype=torch.int64), torch.ones(1, 1, dtype=torch.float32), float(i)
        if self.kind == 'bare':            # the element is one tensor, not a tuple
            return torch.full((2, 3), float(i))
        if self.kind == 'dict':
            return {'x': torch.full((2, 3), float(i)), 'y': i % 3}
        if self.kind == 'nested':
            return torch.full((2,), float(i)), (torch.tensor([i]), float(i))
        if self.kind == 'numpy':
            import numpy as np
            return np.full((2, 2), float(i), dtype=np.float32), i
        if self.kind == 'strings':
            return torch.full((2,), float(i)), 'sample-%d' % i
        if self.kind in ('cls', 'dc', 'lens', 'npcollate'):
            return torch.full((3,), float(i)), i % 2
        return (torch.full((5,), float(i)),)


class CustomBatch:
    """the SimpleCustomBatch pattern of the torch DataLoader documentation"""

    def __init__(self, data):
        tr = list(zip(*data))
        self.inp = torch.stack(tr[0], 0)
        self.tgt = torch.tensor(tr[1])


def custom_collate(kind):
    import dataclasses
    import numpy as np

    @dataclasses.dataclass
    class DCBatch:
        inp: torch.Tensor
        tgt: torch.Tensor
    if kind == 'cls':
        return lambda b: CustomBatch(b)
    if kind == 'dc':
        return lambda b: DCBatch(torch.stack([x for x, _ in b]), torch.tensor([y for _, y in b]))
    if kind == 'lens':
        return lambda b: (torch.stack([x for x, _ in b]), [int(y) + 1 for _, y in b])
    if kind == 'npcollate':
        return lambda b: (np.stack([x.numpy() for x, _ in b]), np.array([y for _, y in b]))
    return None


def describe(b, batch_dim=True):
    """structure of a collated batch with the batch extent removed"""
    if torch.is_tensor(b):
        return ['T', list(b.shape[1:]), str(b.dtype)]
    if type(b).__module__ == 'numpy':
        return ['N', list(b.shape[1:]), str(b.dtype)]
    if hasattr(b, '__dict__') and not isinstance(b, (dict, list, tuple)):
        return [type(b).__name__, {k: describe(v) for k, v in sorted(vars(b).items())}]
    if isinstance(b, (list, tuple)) and len(b) > 0 and all(isinstance(v, (int, float)) and not isinstance(v, bool) for v in b):
        return ['PerSampleValues']
    if isinstance(b, (list, tuple)) and len(b) == 0:
        return ['PerSampleValues']
    if isinstance(b, dict):
        return {k: describe(v) for k, v in sorted(b.items())}
    if isinstance(b, (list, tuple)):
        if all(isinstance(v, (str, bytes)) for v in b):
            return ['PerSampleValues']
        return [describe(v) for v in b]
    return type(b).__name__


def batch_len(b):
    if torch.is_tensor(b) or type(b).__module__ == 'numpy':
        return b.shape[0]
    if hasattr(b, '__dict__') and not isinstance(b, (dict, list, tuple)):
        return batch_len(next(iter(vars(b).values())))
    if isinstance(b, dict):
        return batch_len(next(iter(b.values())))
    if isinstance(b, (list, tuple)):
        if all(isinstance(v, (str, bytes)) for v in b):
            return len(b)
        return batch_len(b[0])
    return None


def struct_case(c):
    """the empty batch must have the structure, trailing shapes and dtypes of a non-empty batch (compared through the loader's own collate function
    and through iteration)"""
    ds = StructDS(c['N'], c['kind'])
    dl = DataLoader(ds, batch_size=c['bs'], collate_fn=custom_collate(c['kind']))
    out = {'error': None, 'bad': None, 'empties': 0}
    try:
        dpl = DPDataLoader.from_data_loader(dl, generator=torch.Generator().manual_seed(c['seed']))
        want = describe(dpl.collate_fn([ds[0], ds[1]]))
        got = describe(dpl.collate_fn([]))
        if got != want:
            out['bad'] = 'collate of an empty batch has structure %s, a non-empty batch %s' % (got, want)
        elif batch_len(dpl.collate_fn([])) != 0:
            out['bad'] = 'collate of an empty batch has length %s' % batch_len(dpl.collate_fn([]))
        nb = 0
        for _ in range(3):
            for batch in dpl:
                nb += 1
                if batch_len(batch) == 0:
                    out['empties'] += 1
                    if describe(batch) != want and not out['bad']:
                        out['bad'] = 'an empty batch delivered by the loader has structure %s, a non-empty batch %s' % (describe(batch), want)
        out['batches'] = nb
        out['L'] = len(dl)
    except Exception as e:
        import traceback
        out['error'] = errname(e) + ': ' + str(e)[:200] + ' @ ' + traceback.format_exc()[-400:]
    return out


DTYPES = [torch.float32, torch.float64, torch.int64, torch.int32, torch.bool, torch.float16]


def build_tree(spec, n):
    """python batch object from a JSON spec; n = batch extent"""
    import collections
    k = spec[0]
    if k == 'T':
        return torch.zeros([n] + spec[1], dtype=DTYPES[spec[2]])
    if k == 'M':
        return {key: build_tree(v, n) for key, v in spec[1]}
    if k == 'Q':
        items = [build_tree(v, n) for v in spec[2]]
        if spec[1] == 0:
            return items
        if spec[1] == 1:
            return tuple(items)
        NT = collections.namedtuple('NT', ['f%d' % i for i in range(len(items))])
        return NT(*items)
    if k == 'S':
        vals = ['s%d' % i for i in range(n)]
        return vals if spec[1] == 0 else tuple(vals)
    return {0: 7, 1: 2.5, 2: None}[spec[1]]


def encode_tree(b):
    """Coq term (Model/Batch.btree) of a python batch object"""
    if torch.is_tensor(b):
        return '(BTensor %d%%nat [%s] %d%%nat)' % (b.shape[0], '; '.join('%d%%nat' % d for d in b.shape[1:]), DTYPES.index(b.dtype))
    if isinstance(b, dict):
        return '(BMap [%s])' % '; '.join('("%s"%%string, %s)' % (k, encode_tree(v)) for k, v in b.items())
    if isinstance(b, (list, tuple)):
        tag = 0 if isinstance(b, list) else (2 if hasattr(b, '_fields') else 1)
        # an empty plain list / tuple is the empty sequence of strings for the implementation (all() of nothing) -- same encoding on both sides
        if all(isinstance(v, (str, bytes, int, float, bool, complex)) for v in b) and tag != 2:      # one python value per sample
            return '(BStrs %d%%nat %d%%nat)' % (tag, len(b))
        return '(BSeq %d%%nat [%s])' % (tag, '; '.join(encode_tree(v) for v in b))
    return '(BLeaf %d%%nat)' % {int: 0, float: 1, type(None): 2}[type(b)]


def tree_case(c):
    from opacus.data_loader import empty_like_batch
    b = build_tree(c['spec'], c['n'])
    return {'input': encode_tree(b), 'output': encode_tree(empty_like_batch(b))}


def loader_case(c):
    ds = StructDS(c['N'], c['kind'])
    bs = c['bs']
    dl = DataLoader(ds, batch_size=bs, drop_last=bool(c.get('drop_last')))
    L = len(dl)
    if c.get('W'):
        import torch.distributed as dist
        og, ow = dist.get_rank, dist.get_world_size
        dist.get_rank = lambda: c['rank']
        dist.get_world_size = lambda: c['W']
        try:
            dpl = DPDataLoader.from_data_loader(dl, distributed=True, generator=torch.Generator().manual_seed(c['seed']))
        finally:
            dist.get_rank, dist.get_world_size = og, ow
    else:
        dpl = DPDataLoader.from_data_loader(dl, generator=torch.Generator().manual_seed(c['seed']))
    out = {'L': L, 'len_dp': len(dpl), 'rate': dpl.sample_rate, 'epochs': []}
    first = ds[0]
    if c.get('abandon'):
        # an epoch abandoned after a few batches (early stopping, max_steps, an exception): the next epoch must be a full one
        it = iter(dpl)
        for _ in range(min(c['abandon'], L)):
            next(it)
        del it
    for ep in range(2):
        nb, empties, bad = 0, 0, None
        for batch in dpl:
            nb += 1
            n0 = batch[0].shape[0]
            if n0 == 0:
                empties += 1
                for comp, x in zip(batch, first):
                    shp = tuple(getattr(x, 'shape', ()))
                    dt = getattr(x, 'dtype', type(x))
                    if tuple(comp.shape) != (0,) + shp:
                        bad = 'empty batch component has shape %s, expected %s' % (tuple(comp.shape), (0,) + shp)
                    want_dt = dt if isinstance(dt, torch.dtype) else {int: torch.int64, float: torch.float32, bool: torch.bool}.get(dt)
                    if want_dt is not None and comp.dtype != want_dt and not (dt is float and comp.dtype in (torch.float32, torch.float64)):
                        bad = 'empty batch component has dtype %s, expected %s' % (comp.dtype, want_dt)
        out['epochs'].append({'batches': nb, 'empties': empties, 'bad': bad})
    # the engine's view
    model = nn.Linear(5, 2)
    if c['kind'] == 'single' and not c.get('W'):
        pe = PrivacyEngine(accountant='rdp')
        m, o, d = pe.make_private(module=model, optimizer=torch.optim.SGD(model.parameters(), lr=0.1), data_loader=dl,
                                  noise_multiplier=1.0, max_grad_norm=1.0)
        out['engine'] = {'len': len(d), 'ebs': o.expected_batch_size, 'sampler_rate': d.sample_rate}
        hook_rates = []
        o.step_hook_orig = o.step_hook
        acc = pe.accountant
        st = acc.step
        acc.step = lambda **k: (hook_rates.append(k['sample_rate']), st(**k))[1]
        for (xb,) in d:
            o.zero_grad()
            m(xb).sum().backward()
            o.step()
        out['engine']['accounted'] = sorted(set(hook_rates))
        out['engine']['steps'] = len(hook_rates)
    return out


def draw_dtypes(default):
    """dtype of the uniform draws behind the Poisson masks when the process-wide default dtype is `default`
    (torch.set_default_dtype(torch.bfloat16) is usual in LLM code): a draw on a 2^-8 grid includes every index with probability
    ceil(q * 256) / 256, not q"""
    import torch.distributed as dist
    seen = []
    orig = torch.rand
    keep = torch.get_default_dtype()

    def spy(*a, **k):
        t = orig(*a, **k)
        seen.append(str(t.dtype).replace('torch.', ''))
        return t
    og, ow = dist.get_rank, dist.get_world_size
    torch.set_default_dtype(getattr(torch, default))
    torch.rand = spy
    try:
        list(UniformWithReplacementSampler(num_samples=10, sample_rate=0.3, steps=2))
        dist.get_world_size = lambda: 2
        dist.get_rank = lambda: 1
        list(DistributedUniformWithReplacementSampler(total_size=10, sample_rate=0.3, shuffle=False, steps=2))
    finally:
        torch.rand = orig
        torch.set_default_dtype(keep)
        dist.get_rank, dist.get_world_size = og, ow
    return {'default': default, 'draws': seen}


if __name__ == '__main__':
    p = read_payload()
    emit({'dtypes': [draw_dtypes(d) for d in p.get('dtypes', [])],'uniform': [uniform_case(c) for c in p.get('uniform', [])], 'dist': [dist_case(c) for c in p.get('dist', [])],
          'loader': [loader_case(c) for c in p.get('loader', [])], 'struct': [struct_case(c) for c in p.get('struct', [])],
          'tree': [tree_case(c) for c in p.get('tree', [])]})
