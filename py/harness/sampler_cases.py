"""C09 implementation side: the real samplers / DPDataLoader with torch.rand fed from a supplied stream.
cases 'uniform': {N, q, steps, us: [[float32 values as floats]...]} -> yielded index lists
cases 'dist':    {N, q, steps, W, us per rank} with patched get_rank/get_world_size (shuffle off) -> per rank index lists
cases 'loader':  DPDataLoader.from_data_loader on datasets of various element structures: len(), batches per epoch, empty-batch shapes/dtypes,
                 engine sample rate / expected batch size via make_private"""
from py.harness.common import *
import numpy as np
import torch.nn as nn
from torch.utils.data import DataLoader, TensorDataset, Dataset
from opacus.utils.uniform_sampler import UniformWithReplacementSampler, DistributedUniformWithReplacementSampler
from opacus.data_loader import DPDataLoader
from opacus import PrivacyEngine


class FeedRand:
    def __init__(self, rows):
        self.rows = list(rows)
        self.k = 0
        self._orig = torch.rand

    def __enter__(self):
        def fake(n, generator=None, **kw):
            row = self.rows[self.k]
            self.k += 1
            assert len(row) == n, (len(row), n)
            return torch.tensor(row, dtype=torch.float32)
        torch.rand = fake
        return self

    def __exit__(self, *a):
        torch.rand = self._orig


def uniform_case(c):
    s = UniformWithReplacementSampler(num_samples=c['N'], sample_rate=c['q'], steps=c['steps'])
    with FeedRand(c['us']):
        out = [list(map(int, b)) for b in s]
    return {'batches': out, 'len': len(s), 'q32': float(np.float32(c['q']))}


def dist_case(c):
    import torch.distributed as dist
    og, ow = dist.get_rank, dist.get_world_size
    res = []
    try:
        dist.get_world_size = lambda: c['W']
        for r in range(c['W']):
            dist.get_rank = lambda r=r: r
            s = DistributedUniformWithReplacementSampler(total_size=c['N'], sample_rate=c['q'], shuffle=False, steps=c['steps'])
            with FeedRand(c['us'][r]):
                res.append({'batches': [[int(x) for x in b] for b in s], 'num_samples': s.num_samples, 'len': len(s)})
    finally:
        dist.get_rank, dist.get_world_size = og, ow
    return {'ranks': res, 'q32': float(np.float32(c['q']))}


class StructDS(Dataset):
    def __init__(self, n, kind):
        self.n, self.kind = n, kind

    def __len__(self):
        return self.n

    def __getitem__(self, i):
        if self.kind == 'pair':
            return torch.full((3, 2), float(i)), torch.tensor(i % 3)
        if self.kind == 'scalar_label':
            return torch.full((4,), float(i), dtype=torch.float64), i % 2
        if self.kind == 'triple':
            return torch.zeros(2, dtype=torch.int64), torch.ones(1, 1, dtype=torch.float32), float(i)
        return (torch.full((5,), float(i)),)


def loader_case(c):
    ds = StructDS(c['N'], c['kind'])
    bs = c['bs']
    dl = DataLoader(ds, batch_size=bs)
    L = len(dl)
    if c.get('W'):
        import torch.distributed as dist
        og, ow = dist.get_rank, dist.get_world_size
        dist.get_rank = lambda: c['rank']
        dist.get_world_size = lambda: c['W']
        try:
            dpl = DPDataLoader.from_data_loader(dl, distributed=True, generator=torch.Generator().manual_seed(c['seed']))
        finally:
            dist.get_rank, dist.get_world_size = og, ow
    else:
        dpl = DPDataLoader.from_data_loader(dl, generator=torch.Generator().manual_seed(c['seed']))
    out = {'L': L, 'len_dp': len(dpl), 'rate': dpl.sample_rate, 'epochs': []}
    first = ds[0]
    if c.get('abandon'):
        # an epoch abandoned after a few batches (early stopping, max_steps, an exception): the next epoch must be a full one
        it = iter(dpl)
        for _ in range(min(c['abandon'], L)):
            next(it)
        del it
    for ep in range(2):
        nb, empties, bad = 0, 0, None
        for batch in dpl:
            nb += 1
            n0 = batch[0].shape[0]
            if n0 == 0:
                empties += 1
                for comp, x in zip(batch, first):
                    shp = tuple(getattr(x, 'shape', ()))
                    dt = getattr(x, 'dtype', type(x))
                    if tuple(comp.shape) != (0,) + shp:
                        bad = 'empty batch component has shape %s, expected %s' % (tuple(comp.shape), (0,) + shp)
                    want_dt = dt if isinstance(dt, torch.dtype) else {int: torch.int64, float: torch.float32, bool: torch.bool}.get(dt)
                    if want_dt is not None and comp.dtype != want_dt and not (dt is float and comp.dtype in (torch.float32, torch.float64)):
                        bad = 'empty batch component has dtype %s, expected %s' % (comp.dtype, want_dt)
        out['epochs'].append({'batches': nb, 'empties': empties, 'bad': bad})
    # the engine's view
    model = nn.Linear(5, 2)
    if c['kind'] == 'single' and not c.get('W'):
        pe = PrivacyEngine(accountant='rdp')
        m, o, d = pe.make_private(module=model, optimizer=torch.optim.SGD(model.parameters(), lr=0.1), data_loader=dl,
                                  noise_multiplier=1.0, max_grad_norm=1.0)
        out['engine'] = {'len': len(d), 'ebs': o.expected_batch_size, 'sampler_rate': d.sample_rate}
        hook_rates = []
        o.step_hook_orig = o.step_hook
        acc = pe.accountant
        st = acc.step
        acc.step = lambda **k: (hook_rates.append(k['sample_rate']), st(**k))[1]
        for (xb,) in d:
            o.zero_grad()
            m(xb).sum().backward()
            o.step()
        out['engine']['accounted'] = sorted(set(hook_rates))
        out['engine']['steps'] = len(hook_rates)
    return out


if __name__ == '__main__':
    p = read_payload()
    emit({'uniform': [uniform_case(c) for c in p.get('uniform', [])], 'dist': [dist_case(c) for c in p.get('dist', [])],
          'loader': [loader_case(c) for c in p.get('loader', [])]})
