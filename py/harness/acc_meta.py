"""C12 implementation side: metamorphic pairs on the real accountants and the CLI script."""
from py.harness.common import *
import math
from opacus.accountants import RDPAccountant, GaussianAccountant, PRVAccountant
from opacus.scripts.compute_dp_sgd_privacy import compute_dp_sgd_privacy, _apply_dp_sgd_analysis

CLS = {'rdp': RDPAccountant, 'gdp': GaussianAccountant, 'prv': PRVAccountant}


def eps_hist(acc, hist, delta):
    a = CLS[acc]()
    a.history = [tuple(h) for h in hist]
    return float(a.get_epsilon(delta=delta))


def eps_steps(acc, seq, delta):
    """record the steps one at a time through accountant.step"""
    a = CLS[acc]()
    for s, q in seq:
        a.step(noise_multiplier=s, sample_rate=q)
    return float(a.get_epsilon(delta=delta)), [list(h) for h in a.history]


if __name__ == '__main__':
    p = read_payload()
    out = []
    for c in p['cases']:
        try:
            k = c['kind']
            if k == 'pair':       # two histories whose epsilons are compared
                out.append({'a': eps_hist(c['acc'], c['h1'], c['d1']), 'b': eps_hist(c['acc'], c['h2'], c['d2']), 'error': None})
            elif k == 'onebyone':
                seq = [(s, q) for s, q, n in c['h1'] for _ in range(n)]
                e, h = eps_steps(c['acc'], seq, c['d1'])
                out.append({'a': eps_hist(c['acc'], c['h1'], c['d1']), 'b': e, 'hist': h, 'error': None})
            elif k == 'reuse':
                # epsilon is a function of the history only: an accountant OBJECT that was already queried with another history
                # (and then given h2 through load_state_dict, or by assignment, and stepped) must agree with a fresh accountant
                a = CLS[c['acc']]()
                a.history = [tuple(h) for h in c['h1']]
                a.get_epsilon(delta=c['d1'])
                src = CLS[c['acc']]()
                src.history = [tuple(h) for h in c['h2']]
                if c.get('via') == 'assign':
                    a.history = [tuple(h) for h in c['h2']]
                else:
                    a.load_state_dict(src.state_dict())
                e1 = float(a.get_epsilon(delta=c['d1']))
                for _ in range(c.get('more', 0)):
                    a.step(noise_multiplier=c['h2'][-1][0], sample_rate=c['h2'][-1][1])
                    src.step(noise_multiplier=c['h2'][-1][0], sample_rate=c['h2'][-1][1])
                e2 = float(a.get_epsilon(delta=c['d1']))
                out.append({'a': eps_hist(c['acc'], c['h2'], c['d1']), 'b': e1, 'a2': eps_hist(c['acc'], [list(h) for h in src.history], c['d1']), 'b2': e2, 'error': None})
            elif k == 'cli':
                al = RDPAccountant.DEFAULT_ALPHAS
                e, _ = _apply_dp_sgd_analysis(sample_rate=c['q'], noise_multiplier=c['s'], steps=c['n'], alphas=al, delta=c['d1'], verbose=False)
                e2, _ = compute_dp_sgd_privacy(sample_rate=c['q'], noise_multiplier=c['s'], epochs=c['epochs'], delta=c['d1'], alphas=al, verbose=False)
                out.append({'a': eps_hist('rdp', [[c['s'], c['q'], c['n']]], c['d1']), 'b': float(e),
                            'cli_epochs': float(e2), 'cli_steps': c['epochs'] * math.ceil(1 / c['q']), 'acc_epochs': eps_hist('rdp', [[c['s'], c['q'], c['epochs'] * math.ceil(1 / c['q'])]], c['d1']), 'error': None})
        except Exception as e:
            import traceback
            out.append({'error': errname(e) + ' ' + traceback.format_exc()[-300:]})
    emit({'results': out})
