"""C06 / C12 implementation side: values of the RDP / GDP / PRV accountants and of the analysis functions."""
from py.harness.common import *
import math
import numpy as np
from opacus.accountants.analysis import rdp as R
from opacus.accountants.analysis import gdp as G
from opacus.accountants import RDPAccountant, GaussianAccountant, PRVAccountant


def eps_of(acc, hist, delta, **kw):
    a = {'rdp': RDPAccountant, 'gdp': GaussianAccountant, 'prv': PRVAccountant}[acc]()
    a.history = [tuple(h) for h in hist]
    return float(a.get_epsilon(delta=delta, **kw))


if __name__ == '__main__':
    p = read_payload()
    out = {}
    out['rdp1'] = [float(R._compute_rdp(q, s, a)) for q, s, a in p.get('rdp1', [])]
    out['rdp_steps'] = [[float(x) for x in np.atleast_1d(R.compute_rdp(q=q, noise_multiplier=s, steps=n, orders=[float(a) for a in al]))] for q, s, n, al in p.get('rdp_steps', [])]
    res = []
    for orders, rdp, delta in p.get('spent', []):
        e, a = R.get_privacy_spent(orders=orders, rdp=rdp, delta=delta)
        res.append([float(e), float(a)])
    out['spent'] = res
    ev = []
    for c in p.get('eps', []):
        try:
            ev.append(eps_of(c['acc'], c['hist'], c['delta'], **c.get('kw', {})))
        except Exception as e:
            ev.append('ERR:' + errname(e))
    out['eps'] = ev
    out['mu'] = [float(G.compute_mu_poisson(steps=n, noise_multiplier=s, sample_rate=q)) for n, s, q in p.get('mu', [])]
    out['gdp_delta'] = [float(G.delta_eps_mu(eps=e, mu=m)) for e, m in p.get('gdp_delta', [])]
    emit(out)
