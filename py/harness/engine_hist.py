"""Engine-level histories for C05 / C10: real PrivacyEngine.make_private (+ Poisson loader, BatchMemoryManager,
schedulers, ghost clipping, two make_private calls on one engine); logs accountant records and inner steps."""
from py.harness.common import *
import torch.nn as nn
from torch.utils.data import DataLoader, TensorDataset
from opacus import PrivacyEngine
from opacus.utils.batch_memory_manager import BatchMemoryManager
from opacus.schedulers import ExponentialNoise


def build(case, engine, gen_seed):
    torch.manual_seed(case['seed'])
    N, L = case['N'], case['L']
    bs = max(1, N // L)
    if case.get('q_tiny'):
        bs = 1
    X = torch.randn(N, 4)
    y = torch.randint(0, 3, (N,))
    dl = DataLoader(TensorDataset(X, y), batch_size=bs)
    model = nn.Sequential(nn.Linear(4, 5), nn.ReLU(), nn.Linear(5, 3))
    opt = torch.optim.SGD(model.parameters(), lr=0.1, momentum=0.5)
    mode = case['mode']
    kw = dict(module=model, optimizer=opt, data_loader=dl, noise_multiplier=1.0, max_grad_norm=1.0,
              poisson_sampling=case['poisson'], grad_sample_mode=mode, noise_generator=torch.Generator().manual_seed(gen_seed))
    crit = nn.CrossEntropyLoss()
    if mode == 'ghost':
        m, o, c, d = engine.make_private(criterion=crit, **kw)
    else:
        m, o, d = engine.make_private(**kw)
        c = crit
    return m, o, c, d, len(dl)


def run_case(case):
    out = {'error': None, 'n_inner': 0, 'n_records': 0, 'bad_order': None, 'bad_sigma': None, 'bad_rate': None}
    try:
        engine = PrivacyEngine(accountant=case['acc'])
        log = []
        acc = engine.accountant
        astep = acc.step

        def acounted(**k):
            r = astep(**k)
            log.append(('A', float(k['noise_multiplier']), float(k['sample_rate'])))
            return r
        acc.step = acounted
        sets = [build(case, engine, 7)]
        if case.get('two'):
            # a second model / optimizer / loader on the SAME engine, with another loader length (so another sample rate)
            sets.append(build(dict(case, L=case['L'] + 2, seed=case['seed'] + 1), engine, 8))
        scheds = []
        for (m, o, c, d, Lorig) in sets:
            inner = o.original_optimizer
            istep = inner.step

            def icounted(*a, _o=o, _istep=istep, **k):
                log.append(('I', float(_o.noise_multiplier), None))
                return _istep(*a, **k)
            inner.step = icounted
            if case.get('sched') and case['acc'] != 'gdp':
                scheds.append(ExponentialNoise(o, gamma=0.9))
        n_logical = 0
        for ep in range(case['epochs']):
            for (m, o, c, d, Lorig) in sets:
                q = 1.0 / len(d)
                n_logical += len(d)
                ctxm = BatchMemoryManager(data_loader=d, max_physical_batch_size=case['bmm'], optimizer=o) if case['bmm'] else None
                loader = ctxm.__enter__() if ctxm else d
                for xb, yb in loader:
                    o.zero_grad()
                    pre = len(log)
                    nm_now = float(o.noise_multiplier)
                    if case['mode'] == 'ghost':
                        loss = c(m(xb), yb)
                    else:
                        loss = c(m(xb), yb) if len(xb) else m(xb).sum()
                    loss.backward()
                    o.step()
                    new = log[pre:]
                    if new:
                        if len(new) != 2 or new[0][0] != 'A' or new[1][0] != 'I':
                            out['bad_order'] = 'step appended %s' % [e[0] for e in new]
                        else:
                            if new[0][1] != nm_now:
                                out['bad_sigma'] = 'recorded %r, in force %r' % (new[0][1], nm_now)
                            if abs(new[0][2] - q) > 1e-15:
                                out['bad_rate'] = 'recorded rate %r, engine sample rate %r' % (new[0][2], q)
            for s in scheds:
                s.step()
        out['n_logical'] = n_logical
        out['n_inner'] = sum(1 for e in log if e[0] == 'I')
        out['n_records'] = sum(h[2] for h in acc.history)
    except Exception as e:
        import traceback
        out['error'] = errname(e) + ': ' + str(e)[:200] + ' @ ' + traceback.format_exc()[-400:]
    return out


if __name__ == '__main__':
    p = read_payload()
    emit({'results': [run_case(c) for c in p['cases']]})
