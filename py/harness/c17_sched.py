"""C17 implementation side: real schedulers on a real DPOptimizer.
cases: {family: noise|clip, kind: exp|step|lambda, init, gamma, step_size, lam, ops: [S|O|R]}
  S = scheduler.step(), O = one DP optimizer step (forward/backward/step/zero_grad),
  R = save scheduler state_dict, build FRESH optimizer+scheduler (initial value), load, continue there.
Reports after construction and after every op the live value (hex), and for every O the std of the
torch.normal call, the sigma recorded by the accountant and the clipped norm of a huge gradient."""
from py.harness.common import *
import torch.nn as nn
from opacus import GradSampleModule
from opacus.optimizers import DPOptimizer, DPPerLayerOptimizer
from opacus.accountants import RDPAccountant
from opacus.schedulers import (ExponentialNoise, LambdaNoise, StepNoise,
                               ExponentialGradClip, LambdaGradClip, StepGradClip)

LAMS = {0: lambda k: 1 / (1 + k), 1: lambda k: 0.5 * k + 1, 2: lambda k: 1 - k / 10}


def build(case, init_nm, init_c):
    lin = nn.Linear(2, 1, bias=False)
    nn.init.zeros_(lin.weight)
    gsm = GradSampleModule(lin, loss_reduction='sum') if case.get('opt') != 'ghost' else None
    inner = torch.optim.SGD(lin.parameters(), lr=0.0)
    if case.get('opt') == 'ghost':
        # ghost clipping: the clipping coefficient is computed by the wrapped module, the noise by the optimizer
        from opacus.grad_sample import GradSampleModuleFastGradientClipping
        from opacus.optimizers import DPOptimizerFastGradientClipping
        from opacus.utils.fast_gradient_clipping_utils import DPLossFastGradientClipping
        gsm = GradSampleModuleFastGradientClipping(lin, loss_reduction='sum', max_grad_norm=init_c, use_ghost_clipping=True)
        opt = DPOptimizerFastGradientClipping(inner, noise_multiplier=init_nm, max_grad_norm=init_c, expected_batch_size=1, loss_reduction='sum')
        crit = DPLossFastGradientClipping(gsm, opt, nn.MSELoss(reduction='sum'), 'sum')
        gsm._verif_fb = lambda x: crit(gsm(x).squeeze(-1), torch.ones(x.shape[0])).backward()
    elif case.get('opt') == 'per_layer':
        # per-layer clipping: the scheduled scalar max_grad_norm is the norm of the list of per-layer bounds (one tensor here)
        opt = DPPerLayerOptimizer(inner, noise_multiplier=init_nm, max_grad_norm=[init_c], expected_batch_size=1, loss_reduction='sum')
    else:
        opt = DPOptimizer(inner, noise_multiplier=init_nm, max_grad_norm=init_c, expected_batch_size=1, loss_reduction='sum')
    acc = RDPAccountant()
    opt.attach_step_hook(acc.get_optimizer_hook_fn(sample_rate=0.01))
    fam, kind = case['family'], case['kind']
    if fam == 'noise':
        if kind == 'exp':
            sch = ExponentialNoise(opt, gamma=case['gamma'])
        elif kind == 'step':
            sch = StepNoise(opt, step_size=case['step_size'], gamma=case['gamma'])
        else:
            sch = LambdaNoise(opt, noise_lambda=LAMS[case['lam']])
    else:
        if kind == 'exp':
            sch = ExponentialGradClip(opt, gamma=case['gamma'])
        elif kind == 'step':
            sch = StepGradClip(opt, step_size=case['step_size'], gamma=case['gamma'])
        else:
            sch = LambdaGradClip(opt, scheduler_function=LAMS[case['lam']])
    return lin, gsm, opt, acc, sch


def fb(gsm, x):
    f = getattr(gsm, '_verif_fb', None)
    if f is not None:
        f(x)
    else:
        gsm(x).sum().backward()


def live(opt, fam):
    return float(opt.noise_multiplier if fam == 'noise' else opt.max_grad_norm)


def run_case(case):
    fam = case['family']
    init_nm = case['init'] if fam == 'noise' else 1.5
    init_c = case['init'] if fam == 'clip' else 2.0
    lin, gsm, opt, acc, sch = build(case, init_nm, init_c)
    out = {'traj': [live(opt, fam).hex()], 'osteps': [], 'err': None}
    pend_v = None
    try:
        for op in case['ops']:
            if op == 'S':
                sch.step()
            elif op == 'V':
                # one physical batch of a logical batch (a skipped step): a single huge sample along (1, 0)
                if pend_v is None:
                    opt.signal_skip_step(do_skip=True)
                    fb(gsm, torch.tensor([[5.0e6, 0.0]]))
                    opt.step()
                    opt.zero_grad()
                    pend_v = float(opt.max_grad_norm)
            elif op == 'O':
                x = torch.tensor([[3.0e6, 4.0e6]]) if pend_v is None else torch.tensor([[0.0, 5.0e6]])
                if pend_v is not None:
                    opt.signal_skip_step(do_skip=False)
                with NormalLog(zero=True) as nl:
                    fb(gsm, x)
                    opt.step()
                g_ = lin.weight.grad.flatten().tolist()
                norm = float(lin.weight.grad.norm()) if pend_v is None else abs(g_[1])
                opt.zero_grad()
                out['osteps'].append({'std': nl.calls[0]['std'] if nl.calls else None, 'ncalls': len(nl.calls),
                                      'acc_sigma': float(acc.history[-1][0]), 'clipnorm': norm,
                                      'nm': float(opt.noise_multiplier), 'C': float(opt.max_grad_norm),
                                      'virt_clip': None if pend_v is None else abs(g_[0]), 'virt_C': pend_v})
                pend_v = None
            elif op == 'R':
                if pend_v is not None:
                    out['traj'].append(live(opt, fam).hex())
                    continue            # no restore in the middle of a logical batch
                sd = sch.state_dict()
                import copy, pickle
                sd = {k: v for k, v in sd.items()}
                lin2, gsm2, opt2, acc2, sch2 = build(case, init_nm, init_c)
                acc2.load_state_dict(acc.state_dict())
                sch2.load_state_dict(sd)
                lin, gsm, opt, acc, sch = lin2, gsm2, opt2, acc2, sch2
            out['traj'].append(live(opt, fam).hex())
    except Exception as e:
        out['err'] = errname(e)
    return out


if __name__ == '__main__':
    p = read_payload()
    emit({'results': [run_case(c) for c in p['cases']]})
