"""C20 implementation side: AdaClipDPOptimizer steps with recorded noise, and the ghost adaptive engine's update."""
from py.harness.common import *
import math
import torch.nn as nn
from opacus import GradSampleModule
from opacus.optimizers import AdaClipDPOptimizer
from opacus.accountants import RDPAccountant


def ada_case(c):
    torch.manual_seed(c['seed'])
    lin = nn.Linear(3, 1, bias=False)
    nn.init.zeros_(lin.weight)
    gsm = GradSampleModule(lin, loss_reduction='sum')
    inner = torch.optim.SGD(lin.parameters(), lr=0.0)
    opt = AdaClipDPOptimizer(inner, noise_multiplier=c['sigma'], max_grad_norm=c['C'], expected_batch_size=c['n'], loss_reduction='sum',
                             target_unclipped_quantile=c['gamma'], clipbound_learning_rate=c['lr'], max_clipbound=c['maxc'], min_clipbound=c['minc'],
                             unclipped_num_std=c['sigma_b'], generator=torch.Generator().manual_seed(5))
    acc = RDPAccountant()
    opt.attach_step_hook(acc.get_optimizer_hook_fn(sample_rate=0.01))
    out = {'sigma_used': float(opt.noise_multiplier), 'steps': []}
    for st in range(c['steps']):
        # gradients with chosen norms: sample i has gradient norm norms[i] (input = norm * e_1, loss = output)
        norms = c['norms'][st]
        X = torch.zeros(len(norms), 3)
        if norms:
            X[:, 0] = torch.tensor(norms)
        rec = []
        orig = torch.normal

        def wn(*a, **k):
            r = orig(*a, **k)
            rec.append((float(k.get('std')), list(k.get('size')) if k.get('size') is not None else None, float(r.flatten()[0]) if r.numel() else 0.0))
            return r
        C0 = float(opt.max_grad_norm)
        opt.zero_grad()
        gsm(X).sum().backward()
        if c.get('skip') and st == 0:
            opt.signal_skip_step(True)
        torch.normal = wn
        try:
            opt.step()
        finally:
            torch.normal = orig
        out['steps'].append({'C0': C0, 'C1': float(opt.max_grad_norm), 'rec': rec, 'norms': norms, 'hist': [list(map(float, h[:2])) + [h[2]] for h in acc.history],
                             'skipped': bool(opt._is_last_step_skipped)})
    return out


if __name__ == '__main__':
    p = read_payload()
    res = []
    for c in p['cases']:
        try:
            res.append(dict(ada_case(c), error=None))
        except Exception as e:
            import traceback
            res.append({'error': errname(e) + ' ' + traceback.format_exc()[-400:]})
    emit({'results': res})
