"""C18: real multi-process runs (gloo over a file store, CPU) of the distributed DP optimizers vs a single-process DP optimizer on the
union batch.  payload: {'W': world size, 'cases': [...]}.  All cases of one world size run inside one process group.
torch.normal is replaced by a deterministic function of (shape, std) so that the single noise draw of rank 0 and the reference's draw
coincide by construction; a second rank adding noise, or noise of another std, then shows up in the parameters."""
from py.harness.common import *
import os, sys, json, tempfile, shutil
import torch.nn as nn
import torch.distributed as dist
import torch.multiprocessing as mp
from torch.utils.data import DataLoader, TensorDataset


def fake_normal(mean=0.0, std=1.0, size=None, generator=None, device=None, **kw):
    if torch.is_tensor(std) or size is None:
        raise RuntimeError('unexpected torch.normal signature in harness')
    n = 1
    for d in size:
        n *= d
    g = torch.Generator().manual_seed(1000 + n)
    r = float(mean) + float(std) * torch.randn(n, generator=g, dtype=torch.float64).reshape(tuple(size))
    NOISE_LOG.append(r.reshape(-1).tolist())
    return r


NOISE_LOG = []


class ProbeCrit(nn.Module):
    def __init__(self, reduction):
        super().__init__()
        self.reduction = reduction

    def forward(self, out, y):
        return out.sum() if self.reduction == 'sum' else out.mean()


def make_model(seed, kind):
    torch.manual_seed(seed)
    if kind == 'probe':
        m = nn.Linear(4, 1, bias=False)
        with torch.no_grad():
            m.weight.zero_()
        return m
    if kind == 'emb':
        return nn.Sequential(nn.Embedding(7, 4), nn.Flatten(), nn.Linear(12, 3))
    return nn.Sequential(nn.Linear(4, 5), nn.Tanh(), nn.Linear(5, 3))


def data_for(case):
    g = torch.Generator().manual_seed(5 + case['seed'])
    steps = []
    for sizes in case['shards']:
        sh = []
        for n in sizes:
            if case['model'] == 'probe':
                x = torch.randint(-3, 4, (n, 4), generator=g).to(torch.float64)
            elif case['model'] == 'emb':
                x = torch.randint(0, 7, (n, 3), generator=g)
            else:
                x = torch.randn(n, 4, generator=g) * case.get('scale', 1.0)
            y = torch.randint(0, 3, (n,), generator=g)
            sh.append((x, y))
        steps.append(sh)
    return steps


def private(case, model, distributed_wrap):
    from opacus import PrivacyEngine
    B = case['B']
    ds = TensorDataset(torch.zeros(4 * B, 4), torch.zeros(4 * B, dtype=torch.long))
    dl = DataLoader(ds, batch_size=B)
    plist = [p_ for p_ in model.parameters() if p_.requires_grad]
    if case.get('late_group') and len(plist) > 2:
        # the optimizer first knows the last layer only; the other parameters join through add_param_group after the first step
        opt = torch.optim.SGD(plist[-2:], lr=0.1, momentum=0.5)
    else:
        opt = torch.optim.SGD(plist, lr=0.1, momentum=0.5) if case['model'] != 'probe' else torch.optim.SGD(plist, lr=1.0)
    eng = PrivacyEngine()
    red = case['reduction']
    crit = nn.CrossEntropyLoss(reduction=red) if case['model'] != 'probe' else ProbeCrit(red)
    kw = dict(module=model, optimizer=opt, data_loader=dl, noise_multiplier=case['sigma'], poisson_sampling=False, loss_reduction=red)
    if case['clipping'] == 'per_layer':
        nparams = len([p for p in model.parameters() if p.requires_grad])
        kw.update(clipping='per_layer', max_grad_norm=[case['C']] * nparams, grad_sample_mode=case['mode'])
    elif case['clipping'] == 'ghost':
        kw.update(max_grad_norm=case['C'], grad_sample_mode='ghost', criterion=crit)
    else:
        kw.update(max_grad_norm=case['C'], grad_sample_mode=case['mode'])
    r = eng.make_private(**kw)
    if case.get('remake'):
        # a second make_private on the same engine with the objects the first one returned (re-wrapping, e.g. for another noise level):
        # the optimizer it replaces must be without effect from then on
        kw.update(module=r[0], optimizer=r[1])
        if case['clipping'] == 'ghost':
            # a fresh criterion: the first call has switched the reduction of the one it was given to 'none' (audit/C19/ghost_criterion_mutated.py)
            crit = nn.CrossEntropyLoss(reduction=red) if case['model'] != 'probe' else ProbeCrit(red)
            kw.update(criterion=crit)
        r = eng.make_private(**kw)
    r[1]._verif_engine = eng          # the harness reads the accountant's history afterwards
    if case['clipping'] == 'ghost':
        m, o, crit, _ = r
    else:
        m, o, _ = r
    return m, o, crit


def train(case, m, o, crit, batches):
    for bi, (x, y) in enumerate(batches):
        if bi == 1 and case.get('late_group'):
            known = {id(p) for gp in o.param_groups for p in gp['params']}
            rest = [p for p in m.parameters() if id(p) not in known]
            if rest:
                o.add_param_group({'params': rest})
        o.zero_grad()
        out = m(x)
        loss = crit(out, y)
        loss.backward()
        o.step()
    return torch.cat([p.detach().reshape(-1) for p in m.parameters()])


def worker(rank, W, cases, store, outdir):
    import warnings
    warnings.filterwarnings('ignore')
    torch.set_default_dtype(torch.float64)
    torch.set_num_threads(1)
    dist.init_process_group('gloo', init_method='file://' + store, rank=rank, world_size=W)
    torch.normal = fake_normal
    from opacus.distributed import DifferentiallyPrivateDistributedDataParallel as DPDDP
    from torch.nn.parallel import DistributedDataParallel as DDP
    res = []
    for case in cases:
        r = {'error': None}
        try:
            model = make_model(case['seed'] + 17 * rank, case['model'])      # different initial weights on every rank
            if case.get('freeze'):
                for p_ in list(model.parameters())[:2]:      # a frozen first layer, initialised differently on every rank
                    p_.requires_grad_(False)
            before0 = torch.cat([p.detach().reshape(-1) for p in model.parameters()])
            if case['clipping'] == 'per_layer' and case['mode'] == 'hooks':
                wrapped = DDP(model)
            else:
                wrapped = DPDDP(model)
            start = torch.cat([p.detach().reshape(-1) for p in model.parameters()])
            if case.get('prewrapped'):
                # the user wraps the distributed module in a GradSampleModule before make_private (a path _prepare_model supports)
                from opacus import GradSampleModule
                wrapped = GradSampleModule(wrapped, loss_reduction=case['reduction'])
            m, o, crit = private(case, wrapped, True)
            r['opt_class'] = type(o).__name__
            r['ebs'] = float(o.expected_batch_size)
            steps = data_for(case)
            del NOISE_LOG[:]
            final = train(case, m, o, crit, [st[rank] for st in steps])
            r['noise'] = list(NOISE_LOG)
            r['hist'] = [[float(a), float(b), int(n)] for a, b, n in o._verif_engine.accountant.history]
            r['nsteps'] = len(steps)
            if case['model'] == 'probe':
                r['S'] = [st[rank][0].sum(0).tolist() for st in steps]
            r['start'] = start.tolist()
            r['final'] = final.tolist()
        except Exception as e:
            import traceback
            r['error'] = errname(e) + ': ' + str(e)[:300] + ' @ ' + traceback.format_exc()[-500:]
        with open(os.path.join(outdir, 'rank%d.jsonl' % rank), 'a') as f:
            f.write(json.dumps(r) + '\n')
        if r['error']:
            break           # the other ranks are blocked in a collective: stop here, the parent times the group out
    try:
        dist.destroy_process_group()
    except Exception:
        pass


def reference(case):
    torch.normal_orig = torch.normal
    torch.normal = fake_normal
    try:
        model = make_model(case['seed'], case['model'])      # rank 0's weights
        if case.get('freeze'):
            for p_ in list(model.parameters())[:2]:
                p_.requires_grad_(False)
        start = torch.cat([p.detach().reshape(-1) for p in model.parameters()])
        c2 = dict(case)
        if c2['clipping'] == 'per_layer':
            c2['mode'] = 'hooks'
        m, o, crit = private(c2, model, False)
        steps = data_for(case)
        union = [(torch.cat([s[0] for s in st]), torch.cat([s[1] for s in st])) for st in steps]
        final = train(c2, m, o, crit, union)
        return {'start': start.tolist(), 'final': final.tolist(), 'ebs': float(o.expected_batch_size), 'opt_class': type(o).__name__, 'error': None}
    except Exception as e:
        import traceback
        return {'error': errname(e) + ': ' + str(e)[:300] + ' @ ' + traceback.format_exc()[-500:]}
    finally:
        torch.normal = torch.normal_orig


if __name__ == '__main__':
    p = read_payload()
    W, cases = p['W'], p['cases']
    outdir = tempfile.mkdtemp(prefix='ov-dist-', dir='/var/tmp')
    store = os.path.join(outdir, 'store')
    try:
        import time
        ctx = mp.spawn(worker, args=(W, cases, store, outdir), nprocs=W, join=False)
        deadline = time.time() + p.get('deadline', 40 + 12 * len(cases))
        done = False
        try:
            while time.time() < deadline and not done:
                done = ctx.join(timeout=2)
        except Exception as e:
            sys.stderr.write('worker raised: %s\n' % str(e)[:500])
        if not done:
            for pr in ctx.processes:
                if pr.is_alive():
                    pr.kill()
        ranks = []
        for r in range(W):
            fn = os.path.join(outdir, 'rank%d.jsonl' % r)
            ranks.append([json.loads(l) for l in open(fn)] if os.path.exists(fn) else [])
        out = []
        for i, case in enumerate(cases):
            rr = [ranks[r][i] if i < len(ranks[r]) else {'error': 'HANG-OR-ABORT: no result from this rank (group timed out or an earlier case failed)'} for r in range(W)]
            out.append({'ranks': rr, 'ref': reference(case)})
        emit({'results': out})
    finally:
        shutil.rmtree(outdir, ignore_errors=True)
