"""C07 implementation side.
'spike':   _compose_fourier on a one-hot pmf at index i0 of a grid with N = 2M+2 points: index of the composed spike (exact) and total shifts;
           compose_heterogeneous on several one-hot pmfs.
'bracket': PRVAccountant.get_epsilon / compute_epsilon triple vs (a) the closed form at q = 1, (b) the RDP accountant's upper bound."""
from py.harness.common import *
import math
import numpy as np
from scipy import optimize
from scipy.stats import norm
from opacus.accountants.analysis.prv.domain import Domain
from opacus.accountants.analysis.prv.prvs import DiscretePRV
from opacus.accountants.analysis.prv.compose import _compose_fourier, compose_heterogeneous
from opacus.accountants import PRVAccountant, RDPAccountant


def spike(c):
    M, n, i0 = c['M'], c['n'], c['i0']
    N = 2 * M + 2
    pmf = np.zeros(N)
    pmf[i0] = 1.0
    dom = Domain(t_min=-M * 1.0, t_max=(M + 1) * 1.0, size=N, shifts=c.get('shift', 0.0))
    out = _compose_fourier(DiscretePRV(pmf=pmf, domain=dom), n)
    j = int(np.argmax(out.pmf))
    return {'j': j, 'peak': float(out.pmf[j]), 'shifts': float(out.domain.shifts), 'tmin': float(out.domain.t_min), 'size': int(out.domain.size)}


def hetero(c):
    M = c['M']
    N = 2 * M + 2
    ds = []
    for i0, sh in zip(c['i0s'], c['shifts']):
        pmf = np.zeros(N)
        pmf[i0] = 1.0
        ds.append(DiscretePRV(pmf=pmf, domain=Domain(t_min=-M * 1.0, t_max=(M + 1) * 1.0, size=N, shifts=sh)))
    out = compose_heterogeneous(ds, c['ns'])
    j = int(np.argmax(out.pmf))
    return {'j': j, 'peak': float(out.pmf[j]), 'shifts': float(out.domain.shifts)}


def true_eps_q1(sigma, n, delta):
    mu = math.sqrt(n) / sigma
    f = lambda e: norm.cdf(-e / mu + mu / 2) - math.exp(e) * norm.cdf(-e / mu - mu / 2) - delta
    if f(0) <= 0:
        return 0.0
    return optimize.brentq(f, 0, 500)


def bracket(c):
    a = PRVAccountant()
    a.history = [tuple(h) for h in c['hist']]
    de = c['delta'] / 1000
    dprv = a._get_dprv(eps_error=c['eps_error'], delta_error=de)
    lo, est, up = dprv.compute_epsilon(c['delta'], de, c['eps_error'])
    rep = a.get_epsilon(delta=c['delta'], eps_error=c['eps_error'])
    r = RDPAccountant()
    r.history = [tuple(h) for h in c['hist']]
    out = {'lo': float(lo), 'est': float(est), 'up': float(up), 'reported': float(rep), 'rdp': float(r.get_epsilon(delta=c['delta']))}
    if len(c['hist']) >= 2:
        # the history without its last entry: a composition with MORE steps has a larger epsilon, so the upper bound reported for the
        # whole history may not fall below the LOWER bound of the prefix
        b = PRVAccountant()
        b.history = [tuple(h) for h in c['hist'][:-1]]
        plo, _, _ = b._get_dprv(eps_error=c['eps_error'], delta_error=de).compute_epsilon(c['delta'], de, c['eps_error'])
        out['prefix_lo'] = float(plo)
    if all(h[1] == 1.0 for h in c['hist']) and len({h[0] for h in c['hist']}) == 1:
        out['true'] = true_eps_q1(c['hist'][0][0], sum(h[2] for h in c['hist']), c['delta'])
    return out


if __name__ == '__main__':
    p = read_payload()
    out = {}
    for k, f in (('spike', spike), ('hetero', hetero), ('bracket', bracket)):
        res = []
        for c in p.get(k, []):
            try:
                res.append(dict(f(c), error=None))
            except Exception as e:
                import traceback
                res.append({'error': errname(e) + ' ' + traceback.format_exc()[-300:]})
        out[k] = res
    emit(out)
