"""C04 implementation side: numeric noise properties of one DP optimizer step on a 2-parameter model.
Checks are made here (oracle) and the raw observations returned."""
from py.harness.common import *
import torch.nn as nn
from opacus import GradSampleModule
from opacus.optimizers import DPOptimizer, DPPerLayerOptimizer


class Rec:
    """wrap torch.normal, recording arguments and returned tensors"""

    def __init__(self):
        self.calls = []
        self._orig = torch.normal

    def __enter__(self):
        o = self._orig

        def w(*a, **k):
            r = o(*a, **k)
            self.calls.append({'std': float(k.get('std')), 'size': list(k.get('size')), 'gen': k.get('generator'), 'val': r.clone()})
            return r
        torch.normal = w
        return self

    def __exit__(self, *a):
        torch.normal = self._orig


def make(case, seed):
    torch.manual_seed(case['seed'])
    m = nn.Sequential(nn.Linear(3, 2), nn.Linear(2, 1, bias=False))
    gsm = GradSampleModule(m, loss_reduction=case['red'])
    inner = torch.optim.SGD(m.parameters(), lr=0.0)
    g = torch.Generator().manual_seed(seed) if case['usergen'] else None
    kw = dict(noise_multiplier=case['nm'], expected_batch_size=case['B'], loss_reduction=case['red'], generator=g, secure_mode=case['secure'])
    if case['variant'] == 'adaptive':
        from opacus.optimizers import AdaClipDPOptimizer
        opt = AdaClipDPOptimizer(inner, max_grad_norm=case['C'], target_unclipped_quantile=0.3, clipbound_learning_rate=0.5, max_clipbound=1e3, min_clipbound=1e-3,
                                 unclipped_num_std=2.0, **kw)
    elif case['variant'] == 'perlayer':
        opt = DPPerLayerOptimizer(inner, max_grad_norm=[case['C']] * 3, **kw)
    else:
        opt = DPOptimizer(inner, max_grad_norm=case['C'], **kw)
    return m, gsm, opt


def one_run(case, seed, nsteps=2):
    m, gsm, opt = make(case, seed)
    X = torch.randn(case['n'], 3)
    steps = []
    for st in range(nsteps):
        opt.zero_grad()
        loss = gsm(X).sum() if case['red'] == 'sum' else gsm(X).mean()
        loss.backward()
        c_clip = float(opt.max_grad_norm)          # the bound the gradients of THIS step are clipped with
        summed = []
        real_add_noise = opt.add_noise

        def spy():                               # read summed_grad just before it is noised, inside the REAL pre_step
            summed.extend(p.summed_grad.clone() for p in opt.params)
            real_add_noise()
        opt.add_noise = spy
        try:
            with Rec() as rec:
                opt.pre_step()
        finally:
            del opt.add_noise
        calls = rec.calls
        if case['variant'] == 'adaptive':
            # the draw on the unclipped count (C20) has the shape of a scalar counter, wherever it comes in the sequence
            calls = [c_ for c_ in calls if c_['size'] not in ([], [1])]
        grads = [p.grad.clone() for p in opt.params]
        steps.append({'calls': calls, 'summed': summed, 'grads': grads, 'shapes': [list(p.shape) for p in opt.params],
                      'std_expected': float(opt.noise_multiplier) * c_clip})
    return steps


def check(case):
    bad = []
    a = one_run(case, 11)
    b = one_run(case, 11)
    for si, st in enumerate(a):
        calls = st['calls']
        per = 5 if case['secure'] else 1
        if case['nm'] == 0:
            if calls:
                bad.append('sigma=0 but torch.normal was called %d times' % len(calls))
            for s_, g_ in zip(st['summed'], st['grads']):
                d = case['B'] if case['red'] == 'mean' else 1
                if not torch.equal(g_, (s_.view_as(g_)) / d if d != 1 else s_.view_as(g_)):
                    bad.append('sigma=0 but released gradient != clipped sum / B')
            continue
        if len(calls) != per * len(st['shapes']):
            bad.append('step %d: %d torch.normal calls for %d parameters (secure=%s)' % (si, len(calls), len(st['shapes']), case['secure']))
            continue
        for pi, shp in enumerate(st['shapes']):
            cs = calls[pi * per:(pi + 1) * per]
            main = cs[1:] if case['secure'] else cs
            if case['secure'] and cs[0]['size'] != [1, 1]:
                bad.append('secure mode: first draw is not the discarded (1,1) sample')
            for c in cs:
                if abs(c['std'] - st['std_expected']) > 0:
                    bad.append('std %r != sigma*C %r' % (c['std'], st['std_expected']))
                if case['usergen'] and c['gen'] is None:
                    bad.append('user generator not used for a draw')
            for c in main:
                if c['size'] != shp:
                    bad.append('noise shape %s != parameter shape %s' % (c['size'], shp))
            z = sum(c['val'] for c in main) / 2 if case['secure'] else main[0]['val']
            d = case['B'] if case['red'] == 'mean' else 1
            want = (st['summed'][pi] + z).view(shp) / d
            if not torch.allclose(st['grads'][pi], want, rtol=1e-12, atol=1e-14):
                bad.append('released gradient != (clipped sum + noise)/B for parameter %d' % pi)
        if case['usergen']:
            for ca, cb in zip(calls, b[si]['calls']):
                if not torch.equal(ca['val'], cb['val']):
                    bad.append('same generator seed, different noise')
                    break
    if case['nm'] != 0 and len(a) > 1 and a[0]['calls'] and a[1]['calls']:
        if torch.equal(a[0]['calls'][-1]['val'], a[1]['calls'][-1]['val']):
            bad.append('two consecutive steps drew identical noise')
        v0 = [c['val'].flatten() for c in a[0]['calls'] if c['size'] != [1, 1]]
        if len(v0) >= 2 and v0[0].numel() == v0[1].numel() and torch.equal(v0[0], v0[1]):
            bad.append('two parameters received identical noise')
    return bad


def engine_generator_case(case):
    """which generator object the engine hands to the DP optimizer and to the Poisson sampler (secure mode uses a stand-in torchcsprng)"""
    import sys, types
    from torch.utils.data import DataLoader, TensorDataset
    bad = []
    made = []
    if case['secure']:
        fake = types.ModuleType('torchcsprng')

        def create_random_device_generator(path=None):
            g = torch.Generator()
            made.append(g)
            return g
        fake.create_random_device_generator = create_random_device_generator
        sys.modules['torchcsprng'] = fake
    try:
        from opacus import PrivacyEngine
        eng = PrivacyEngine(secure_mode=case['secure'])
        m = nn.Linear(3, 2)
        opt = torch.optim.SGD(m.parameters(), lr=0.1)
        dl = DataLoader(TensorDataset(torch.zeros(8, 3), torch.zeros(8, dtype=torch.long)), batch_size=2, shuffle=True)
        user = torch.Generator().manual_seed(3) if case['user'] else None
        try:
            gm, o, d = eng.make_private(module=m, optimizer=opt, data_loader=dl, noise_multiplier=1.0, max_grad_norm=1.0, noise_generator=user,
                                        poisson_sampling=case['poisson'])
        except ValueError as e:
            if not (case['secure'] and case['user']):
                bad.append('make_private raised ValueError: %s' % str(e)[:100])
            return bad
        if case['secure'] and case['user']:
            bad.append('a user generator was accepted in secure mode')
            return bad
        want = made[0] if case['secure'] else user
        if o.generator is not want:
            bad.append('optimizer.generator is %s, expected %s' % ('None' if o.generator is None else 'another generator', 'the secure generator' if case['secure'] else ('the user generator' if user is not None else 'None')))
        if o.secure_mode != case['secure']:
            bad.append('optimizer.secure_mode = %r' % o.secure_mode)
        if case['secure'] and case['poisson'] and getattr(d.batch_sampler, 'generator', None) is not made[0]:
            bad.append('the Poisson sampler does not draw from the secure generator')
    finally:
        sys.modules.pop('torchcsprng', None)
    return bad


def stat_case(case):
    """distribution of the RELEASED noise (a test, not a proof): 20k noise values of one step vs N(0, (sigma C)^2), and independence
    across steps / parameters through sample correlations"""
    from scipy import stats
    torch.manual_seed(case['seed'])
    m = nn.Sequential(nn.Linear(100, 100, bias=False), nn.Linear(100, 100, bias=False))
    gsm = GradSampleModule(m, loss_reduction='sum')
    inner = torch.optim.SGD(m.parameters(), lr=0.0)
    opt = DPOptimizer(inner, noise_multiplier=case['nm'], max_grad_norm=case['C'], expected_batch_size=4, loss_reduction='sum',
                      generator=torch.Generator().manual_seed(case['seed'] + 1), secure_mode=case['secure'])
    X = torch.randn(4, 100)
    zs = []
    for st in range(2):
        opt.zero_grad()
        gsm(X).sum().backward()
        opt.clip_and_accumulate()
        summed = [p.summed_grad.clone() for p in opt.params]
        opt.add_noise()
        zs.append([(p.grad - s_.view_as(p.grad)).flatten() for p, s_ in zip(opt.params, summed)])
        opt.scale_grad()
    bad = []
    sd = case['nm'] * case['C']
    allz = torch.cat(zs[0]).numpy()
    ks = stats.kstest(allz / sd, 'norm')
    if ks.pvalue < 1e-5:
        bad.append('released noise is not N(0, (sigma C)^2): KS p-value %.3g (sample std %.4f, expected %.4f)' % (ks.pvalue, float(allz.std()), sd))
    if abs(float(allz.std()) / sd - 1) > 0.03:
        bad.append('sample std of the released noise %.4f, expected sigma*C = %.4f' % (float(allz.std()), sd))
    import numpy as np
    for name, a, b in (('consecutive steps', torch.cat(zs[0]), torch.cat(zs[1])), ('two parameters', zs[0][0], zs[0][1])):
        r = float(np.corrcoef(a.numpy(), b.numpy())[0, 1])
        if abs(r) > 0.05:
            bad.append('noise of %s is correlated: r = %.3f' % (name, r))
    return bad


if __name__ == '__main__':
    p = read_payload()
    out = []
    for c in p['cases']:
        try:
            out.append({'bad': engine_generator_case(c) if c.get('enggen') else (stat_case(c) if c.get('stat') else check(c)), 'error': None})
        except Exception as e:
            import traceback
            out.append({'bad': [], 'error': errname(e) + ' ' + traceback.format_exc()[-500:]})
    emit({'results': out})
