"""check driver: ./check Cxx --tier quick|thorough [--replay file]"""
import argparse, importlib, json, os, sys, traceback
from py import vlib


def main():
    ap = argparse.ArgumentParser()
    ap.add_argument('pid')
    ap.add_argument('--tier', default=os.environ.get('VERIF_TIER', 'quick'))
    ap.add_argument('--replay', default=None)
    a = ap.parse_args()
    seed = int(os.environ.get('VERIF_SEED', '20240930'))
    tier = a.tier if a.tier in ('quick', 'thorough') else 'quick'
    ctx = vlib.Ctx(a.pid, tier, seed)
    mod = importlib.import_module('py.props.' + a.pid.lower())
    if a.replay:
        rep = json.load(open(a.replay))
        ctx.replay = rep
        rc = mod.replay(ctx, rep) if hasattr(mod, 'replay') else generic_replay(ctx, mod, rep)
        sys.exit(rc)
    try:
        gen_status = vlib.translate()
        mod.run(ctx, gen_status)
        if (ctx.broken or ctx.failures) and hasattr(mod, 'search'):
            # an obligation / correspondence broke, or the quick oracle failed: look for a concrete failing input
            mod.search(ctx)
    except Exception as e:
        ctx.obligation('driver:' + a.pid, False, 'check machinery raised: ' + ''.join(traceback.format_exception(type(e), e, e.__traceback__))[-3000:])
    rc = vlib.finish(ctx, level='proof', rule=getattr(mod, 'RULE', ''), extra_trusted=getattr(mod, 'TRUSTED', ()),
                     assumptions=getattr(mod, 'ASSUMPTIONS', ()))
    sys.exit(rc)


def generic_replay(ctx, mod, rep):
    """re-run the recorded failing case on the implementation oracle"""
    if rep.get('kind') != 'failing-input' or not hasattr(mod, 'replay_case'):
        print('replay file names broken obligations only:', rep.get('no_longer_checks'))
        return 1
    ok, detail = mod.replay_case(ctx, rep['failure'])
    print(('REPLAY holds: ' if ok else 'REPLAY still fails: ') + str(detail)[:2000])
    if not ok:
        print('VIOLATION property=%s replay=%s' % (ctx.pid, ctx.replay and '(replayed)'))
    return 0 if ok else 1


if __name__ == '__main__':
    main()
