#!/bin/bash
# seed_suite.sh <name> : run the repository's pinned baseline suite with seeded/<name>/patch.diff applied (scratch worktree), record the outcome
NAME=$1; BASE=${2:-HEAD}
D=/verif/seeded/$NAME
WT=/tmp/suite-$NAME
[ -f $D/suite.json ] && exit 0
git -C /repo worktree remove --force $WT 2>/dev/null
git -C /repo worktree add -q --detach $WT $BASE || exit 2
git -C $WT apply $D/patch.diff || { echo '{"error": "patch does not apply"}' > $D/suite.json; git -C /repo worktree remove --force $WT; exit 1; }
S=$(date +%s)
OMP_NUM_THREADS=3 /venv/bin/python /verif/py/tools/baseline.py $WT /var/tmp/suite-$NAME.xml > /var/tmp/suite-$NAME.out 2>&1
RC=$?
python3 - <<PY
import json,re
out=open('/var/tmp/suite-$NAME.out').read()
m=re.search(r'stable_pass total (\d+) passing now (\d+)', out)
json.dump({'cmd': 'py/tools/baseline.py <scratch worktree of /repo at $BASE + patch.diff>', 'stable_pass_total': int(m.group(1)) if m else None, 'passing': int(m.group(2)) if m else None,
           'not_passing': re.findall(r'NOT PASSING: (\S+)', out)[:20], 'exit': $RC, 'seconds': $(date +%s) - $S}, open('$D/suite.json','w'), indent=1)
PY
git -C /repo worktree remove --force $WT
rm -f /var/tmp/suite-$NAME.xml /var/tmp/suite-$NAME.xml.log
