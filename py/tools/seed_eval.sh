#!/bin/bash
# seed_eval.sh <property-id> <worktree> <name>
#   1. the demonstration fails with the change and passes without it (run inside a fresh scratch worktree of /repo's HEAD)
#   2. the checks of <property-id> (quick tier) are run against /repo with the patch applied, then /repo is restored
# writes /verif/seeded/<name>/{patch.diff,demo.py,meta.json,check.log}
set -u
PID=$1; WT=$2; NAME=$3
OUT=/verif/seeded/$NAME
mkdir -p $OUT
cp $WT/_seed/patch.diff $WT/_seed/demo.py $OUT/ 2>/dev/null
[ -f $WT/_seed/meta.json ] && cp $WT/_seed/meta.json $OUT/agent_meta.json
SCR=/tmp/seedchk-$NAME
git -C /repo worktree remove --force $SCR 2>/dev/null
git -C /repo worktree add -q --detach $SCR HEAD || exit 2
cd $SCR
PYTHONPATH=$SCR timeout 900 /venv/bin/python $OUT/demo.py > $OUT/demo_without.log 2>&1; RC_WITHOUT=$?
if ! git apply --check $OUT/patch.diff 2>/dev/null; then echo "patch does not apply to HEAD"; APPLY=fail; else APPLY=ok; git apply $OUT/patch.diff; fi
PYTHONPATH=$SCR timeout 900 /venv/bin/python $OUT/demo.py > $OUT/demo_with.log 2>&1; RC_WITH=$?
cd /verif
git -C /repo worktree remove --force $SCR
echo "demo: without=$RC_WITHOUT with=$RC_WITH apply=$APPLY"
# checks against /repo with the patch
if [ -n "$(git -C /repo status --porcelain)" ]; then echo "/repo not clean"; exit 3; fi
cp /verif/evidence/$PID.json /var/tmp/evidence_keep_$PID.json 2>/dev/null
git -C /repo apply $OUT/patch.diff
( cd /verif && timeout 3000 ./check $PID --tier quick ) > $OUT/check.log 2>&1; RC_CHECK=$?
cp /verif/evidence/$PID.json $OUT/evidence_with_patch.json 2>/dev/null
git -C /repo checkout -- .
cp /var/tmp/evidence_keep_$PID.json /verif/evidence/$PID.json 2>/dev/null
mkdir -p $OUT/replay; cp /verif/replay/$PID/* $OUT/replay/ 2>/dev/null; rm -rf /verif/replay/$PID
( cd /verif && /venv/bin/python -m py.translate.run /repo > /dev/null 2>&1 )
VIOL=$(grep -m1 VIOLATION $OUT/check.log)
echo "check: rc=$RC_CHECK $VIOL"
python3 - <<E
import json
json.dump({"property": "$PID", "name": "$NAME", "demo_exit_without_change": $RC_WITHOUT, "demo_exit_with_change": $RC_WITH, "patch_applies": "$APPLY",
           "check_cmd": "./check $PID --tier quick", "check_exit_with_change": $RC_CHECK, "violation_line": """$VIOL""".strip(),
           "detected": $RC_CHECK == 1}, open("$OUT/result.json", "w"), indent=1)
E
