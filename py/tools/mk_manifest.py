#!/usr/bin/env python3
"""writes /verif/MANIFEST.json from the table below (kept in one place so it stays valid)"""
import json, os
ROOT = os.path.dirname(os.path.dirname(os.path.dirname(os.path.abspath(__file__))))
BASE = "cd /repo && /venv/bin/python -m pytest -ra -q -p no:cacheprovider --timeout=900 --continue-on-collection-errors"
LEVEL_NOTE = ("Trusted: Coq 8.16.1 kernel; standard-library axioms listed per theorem in evidence (Reals: sig_forall_dec, sig_not_dec, "
              "functional_extensionality_dep; none for the state-machine theorems); the ast->Gallina translator (fail-closed whitelist) and the "
              "correspondence harness; PyTorch/NumPy/SciPy kernels, autograd and the random sources are modelled, not verified.")
CLAIMS = {}
exec(open(os.path.join(ROOT, 'py', 'tools', 'claims.py')).read())
props = [json.loads(l) for l in open(os.path.join(ROOT, 'properties.jsonl'))]
checks, na = [], []
for p in props:
    pid = p['id']
    if pid in CLAIMS:
        c = CLAIMS[pid]
        checks.append({
            'property_id': pid,
            'quick_cmd': './check %s --tier quick' % pid,
            'thorough_cmd': './check %s --tier thorough' % pid,
            'evidence_file': '/verif/evidence/%s.json' % pid,
            'replay_cmd_template': './check %s --replay {path}' % pid,
            'engine': 'coq-proof',
            'level_claimed': {'category': 'proof', 'text': c['text'], 'design_ref': c.get('ref', 'DESIGN.md section 4, ' + pid)},
            'level_note': c.get('note', LEVEL_NOTE),
            'technique': c['technique'],
        })
    else:
        na.append({'property_id': pid, 'reason': NA.get(pid, 'check not built yet in this round; no claim is made')})
m = {
    'version': 1,
    'setup_cmd': './setup.sh',
    'hooks': {'guard': 'OPACUS_VERIF', 'enable': 'none needed: all instrumentation is monkey-patched from the harness process; OPACUS_VERIF=1 is exported by the harness for future hooks',
              'baseline_off_cmd': BASE, 'source_commits': [], 'add_only': True},
    'engines': [{'name': 'coq-proof', 'path': '/verif/coq', 'serves_properties': sorted(CLAIMS),
                 'kind_free_text': 'Rocq/Coq 8.16.1 theorems over models regenerated from /repo (py/translate) or hand-written and tied by a correspondence run (py/props, py/harness)'}],
    'checks': checks,
    'not_applicable': na,
    'notes': 'fix: commits in /repo and recorded findings are listed in /verif/KNOWN_FINDINGS.json; see DESIGN.md.',
}
json.dump(m, open(os.path.join(ROOT, 'MANIFEST.json'), 'w'), indent=1)
print('claimed', sorted(CLAIMS), 'not claimed', [x['property_id'] for x in na])
