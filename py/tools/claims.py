# per-property claim texts used by mk_manifest.py
NA = {}
CLAIMS = {
 'C01': {
  'technique': 'Coq proofs over an arbitrary commutative ring that every grad-sampler formula is the adjoint of its layer (affine in its parameters) for one sample alone, all extents; formulas tied to the sources by generated pins and exact integer correspondence; single-sample autograd oracle over architectures x modes',
  'text': ('PARTIAL. Proved for all extents, inputs, cotangents and perturbations, over any commutative ring: the formulas used by the registered samplers of nn.Linear / RNNLinear (weight, bias, any input rank), '
           'nn.Conv1d/2d/3d as one gather layer (arbitrary tap-location and channel maps: every stride, padding, dilation, groups, rank), nn.Embedding (with padding_idx: zero padding row), nn.EmbeddingBag in modes sum / mean (padding entries excluded) and the affine part of GroupNorm / LayerNorm / InstanceNorm satisfy <gs, delta> = <g, layer(theta+delta, x) - layer(theta, x)> '
           'for the sample alone, and this identity determines the gradient uniquely; several uses of a layer in one forward (tied weights, recurrent steps) add up; multiplying by the batch '
           'length undoes mean reduction; per-sample gradients sum to the batch gradient. Which formula each registered sampler computes is read off the einsum strings / expressions of the '
           'sources (generated table, pins of the hook arithmetic), the hook bookkeeping (forward counter, prefix-add accumulation, promotion) is a proved state machine (uses_then_promote), and the Linear / RNNLinear / Embedding / EmbeddingBag / Conv1d samplers are run on small-integer tensors against the formulas evaluated on Z in Coq '
           '(equality). The property itself is tested on composed architectures (mlp rank 2-4, batch-second, conv1d-3d with stride / padding / same / dilation / groups, norms, Embedding with '
           'padding, EmbeddingBag (sum / mean / max, repeated indices, padding index), DP recurrent layers padded / packed, DP attention, custom layer, tied + frozen) x hooks / functorch / ew x mean / sum x batch 0-4 '
           'with a generic cotangent, against autograd on each sample alone. unfold2d\'s sliding-window view (generated strides) is proved to read the tap locations of the gather-layer model for ANY memory layout of the padded input (and the strides hard-coded before fix 45a22fa are refuted). Not proved: autograd, functorch, ExpandedWeights, torch\'s own unfold (Conv1d / Conv3d), F.*_norm, EmbeddingBag mode max (piecewise linear; oracle only). Eleven repaired defects, three recorded findings '
           '(packed-unsorted recurrent row order; torch ExpandedWeights padding row).'),
 },
 'C14': {
  'technique': 'Coq proofs (all extents, both layouts) that the head split / merge reshape sequences regenerated from forward() realise the intended index maps and are mutually inverse; index-coded probe of the same sequences on torch; numeric equivalence runs vs nn.MultiheadAttention',
  'text': ('PARTIAL. The contiguous / view / transpose sequences of DPMultiheadAttention.forward (head split of q, k, v; head merge for batch_first False and True) are regenerated from the '
           'source as operation lists over symbolic extents and interpreted by a division-free row-major index semantics: proved for ALL L, B, H, head_dim that head (b*H+h, l, d) is '
           'projection entry (l, b, h*head_dim+d), that the merged output entry (l, b, h*head_dim+d) -- (b, l, .) for batch_first -- is head entry (b*H+h, l, d), that these source indices are '
           'unique, and that merge inverts split; and, composing them (C14_attention_core), that the whole attention core -- q scaled, heads split, scores = q k^T + additive masks, a row-local softmax, weighted sum of v, heads merged -- yields for entry (l, b, h*head_dim+d) exactly head h of sample b attending with its own feature slice of Q, K, V, in both layouts, for arbitrary ring operations and every additive term. The same generated sequences are applied by torch to index-coded tensors and the theorem statements checked entry by entry; scaling, score, mask '
           'guards / fill / padding and weight averaging are pinned. Outputs, averaged weights, parameter gradients and state_dict round trips are compared with nn.MultiheadAttention over '
           'heads x bias x add_bias_kv x add_zero_attn x kdim/vdim x batch_first x lengths x 2-D / 3-D bool / float masks x key padding (not proved: softmax / bmm / linear kernels). Three '
           'defects found this way were repaired (batch_first head merge, batch_first mask guard, embed_dim = 1 with bias_kv).'),
 },
 'C13': {
  'technique': 'Coq proof that the batched / packed time loop refines the per-sequence recurrence for an arbitrary cell, and of compute_seq_lengths (generated); exact integer-cell correspondence with the real forward_layer; numeric equivalence runs vs torch.nn',
  'text': ('PARTIAL. Proved: for EVERY cell function, every ragged length-sorted batch and initial states, the time loop with a shrinking batch and the previous state sliced to the current batch '
           '(the model of DPRNNBase.forward_layer, forward direction) equals the packing of the per-sequence recurrences; for the reverse direction (growing batch, rows of h_0 entering as their sequences start) row i of the loop\'s time-ordered outputs is the reversed recurrence over the reversed row i, for every cell and every column list with non-decreasing lengths; compute_seq_lengths (Gallina generated statement by statement) returns, '
           'for every non-increasing batch-size list, one entry per sequence equal to that sequence\'s length -- the index used to gather last states. The loop model is tied to the code by pins '
           '(slicing in all three cells, growing batch in the reverse direction, rename map) and by running the REAL forward_layer with an integer cell on generated ragged batches in both '
           'directions and comparing outputs and last states exactly with the recurrence evaluated in Coq. The gate equations, '
           'state_dict keys and parameter gradients are validated numerically against torch.nn.RNN / GRU / LSTM over the configuration grid (not proved). '
           'The layer loop (layers x directions, state index layer * P + direction, outputs of the directions concatenated, dropout between layers only) is proved to be torch.nn\'s stacking semantics for ANY run / concatenation / dropout functions and all L, P (C13_layer_stack), and selecting rows by sorted_indices before and unsorted_indices after a row-wise computation is the computation on the original rows for inverse permutations (C13_sort_unsort_rowwise); both are tied to the code by structural pins of forward / iterate_layers / apply_permutation. '
           'Dropout: the generator checks structurally that only the cell binds the carried state and that dropout acts on inter-layer outputs only; train-mode runs with dropout = 1 (deterministic) '
           'are compared with torch.nn, and for 0 < p < 1 the zero pattern of outputs / final states and train-vs-eval difference are checked (one repaired defect).'),
 },
 'C15': {
  'technique': 'Coq proofs by structural induction over module trees on validator predicates, walks, fixers and make_private guards regenerated from opacus/validators; real validate / fix / make_private runs on generated trees with a per-layer independence probe',
  'text': ('PARTIAL. On rose trees of torch.nn layers (flags: owns trainable parameter, owns parameters, track_running_stats, training) with the walk predicate, the registered validators, the '
           'fixers and the make_private guard order generated from the sources: validate t = 0 implies training mode and no batch-coupling / statistics-keeping layer, for every tree whose '
           'coupling layers own a trainable parameter (the full statement is FALSE of the code: Findings/C15.v, four recorded findings -- BatchNorm(affine=False), frozen BatchNorm, InstanceNorm '
           'with running stats and no trainable parameter); make_private succeeds only for valid training-mode trees and the model\'s own parameters; validate(fix t) = 0 for every training-mode '
           'tree and fixer option; fix is the identity on trees without visited fixable layers. Real ModuleValidator / GradSampleModule / PrivacyEngine are run on generated trees (nested containers, '
           'replaceable roots, frozen / eval / affine / track flags, fixer keyword options): acceptance vs a behavioural probe of every layer (row independence, buffer updates), argument '
           'mutation, object sharing, parameter preservation, replacement set, LSTM / MHA replacement equivalence; error counts and replacement counts are compared with the generated model; '
           'models with nn.GRU / nn.RNN / nn.LSTM are probed for "accepted implies trainable" (two recorded findings: GRU and RNN are accepted but the first DP step raises).'),
 },
 'C19': {
  'technique': 'Coq proof on an attribute/hook ledger whose write- and remove-lists are regenerated from the grad_sample package (written subset of removed; unwrap restores the ledger for every activity sequence); real wrap/train/unwrap runs with before/after object snapshots',
  'text': ('PARTIAL. The translator collects EVERY attribute assignment on parameters / modules in opacus/grad_sample/*.py and everything to_standard_module deletes (del_grad_sample, '
           '_clean_up_attributes, remove_hooks over all parameters / trainable modules), checks that every hook registration of add_hooks is recorded in the shared handle list that remove_hooks '
           'drains, that GradSampleModule.forward is the wrapped call and that DPOptimizer.param_groups / state / defaults / state_dict / load_state_dict are reads and writes of the inner optimizer. '
           'Proved on the generated lists: written is a subset of removed; for ANY sequence of Opacus writes/deletes on any objects between wrap and to_standard_module the attribute ledger is the '
           'user\'s own again and no handle is left. Real runs (6 model kinds incl. frozen parameter, custom layer, norms x hooks/functorch/ew/ghost x pending forward/backward) compare forward '
           'outputs, parameter identity, state_dict load-back, lr-scheduler pass-through, post-unwrap hooks/attributes against a pre-wrap snapshot, and ordinary training vs a never-wrapped twin. '
           'Object identity and torch\'s module call are runtime facts covered by the runs only; p.summed_grad (optimizer-owned aggregate) is reported, not judged.'),
 },
 'C18': {
  'technique': 'Coq proofs over R (all world sizes, shard contents, reductions) on expressions regenerated from the distributed optimizers; real gloo multi-process runs vs a single-process reference; binary64 correspondence of the generated release',
  'text': ('Proved over R for the expressions generated from DistributedDPOptimizer / DistributedDPOptimizerFastGradientClipping (add_noise rank test, reduce_gradients, scale_grad denominator, '
           'per-worker expected batch size B/W): for EVERY world size >= 1, every list of per-rank clipped sums (empty shards included), both loss reductions and every accumulation count, '
           'every rank ends with (sum_w S_w + z)/(B k) (resp. sum_w S_w + z), the single-process release on the union; noise is added by rank 0 only; SimpleDistributedPerLayerOptimizer '
           'resolves clipping to the per-layer class and noise / reduce / step to the distributed one; DPDDP broadcasts from rank 0. PARTIAL for DistributedPerLayerOptimizer (hooks + torch DDP): '
           'with torch\'s accumulate-and-average modelled from observation the release is 2/W times the reference -- equal for two workers (theorem), refuted for W = 3 (Findings/C18.v, '
           'known finding). Real gloo groups of 1-4 CPU ranks (flat / per-layer ew+hooks / ghost, mean / sum, unequal and empty shards, several steps) are compared with a single process on '
           'the union; probe runs are compared with the generated release on binary64; the ghost adaptive engine is run under DDP with per-rank RNG streams and must hold one clipping norm, one noise '
           'multiplier and one model on all ranks after every step (one repaired defect). gloo transport and scheduling are not modelled.'),
 },
 'C16': {
  'technique': 'Coq proofs of state_dict / load_state_dict round trips, deep-copy isolation on a heap model, and resumed-run = uninterrupted-run by induction over batch sequences, on code regenerated from accountant.py / privacy_engine.py; real cut-point runs',
  'text': ('PARTIAL. Proved on the Gallina generated from IAccountant.state_dict / load_state_dict and PrivacyEngine.save_checkpoint / load_checkpoint: the saved history is a deep copy '
           '(isolated from later in-place steps, explicit heap model); load(state_dict) restores history and mechanism; None / empty / key-less / other-mechanism states raise ValueError; '
           'load_checkpoint(save_checkpoint(y)) restores module parameters, history (hence epsilon), inner optimizer state and scheduler counters; for EVERY batch sequence, cut point, inner '
           'optimizer, accountant step and scheduler step function the resumed run equals the uninterrupted run provided the live noise_multiplier / max_grad_norm at the cut equal the fresh '
           'values. The full statement is FALSE of the code when a scheduler moved them (Findings/C16.v, known finding). Real engines are check-pointed at every cut of generated histories '
           '(rdp/gdp/prv x SGD/momentum/Adam x schedulers x hooks/functorch/ghost) and compared with uninterrupted runs; checkpoint keys and load guards are compared with the generated model. '
           'torch.save/load (pickle) and torch state_dicts are modelled as exact.'),
 },
 'C20': {
  'technique': 'Coq proofs over R of the update rule, count non-interference and the sigma-split identity on expressions regenerated from adaclipoptimizer.py and adaptive_clipping_utils.py; recorded-noise runs on the real optimizer and the real ghost adaptive engine',
  'text': ('PARTIAL. Proved for the expressions generated from AdaClipDPOptimizer (update_max_grad_norm, the noise-multiplier formula of __init__): the new norm is '
           'clamp(C exp(-lr (noisy_count/sample_size - gamma)), [min,max]); it depends on the raw count only through the noisy count; sigma_g^-2 + (2 sigma_b)^-2 = sigma^-2. '
           'add_noise / clip_and_accumulate counters / zero_grad and the ghost adaptive engine\'s rule are pinned or regenerated into the optimizer state machine (counters survive skipped '
           'physical steps, no update on skipped steps). Real AdaClipDPOptimizer steps with recorded torch.normal draws are compared with the rule, and so are steps of the real ghost adaptive engine (PrivacyEngineAdaptiveClipping) '
           'on loaders with a ragged last batch: count-noise std = realised batch/20, gradient multiplier for the sigma_b actually used, noise std = multiplier x updated norm. The order of the engine\'s backward (norms read, bound and multiplier updated, module and optimizer given the new bound, THEN coefficients and the second pass with hooks off) is a theorem about the statement list generated from the source (C20_ghost_adaptive_backward_order). The accounting half is FALSE of the code at both sites '
           '(theorem C20_sigma_g_exceeds_nominal, Findings/C20.v): the accountant is charged sigma_g > sigma -- recorded as a known finding. The privacy reading of the identity (Andrew et al. 2021) is cited.'),
 },
 'C07': {
  'technique': 'Coq proofs of the FFT roll / parity / shift / triple-ordering bookkeeping on generated code; one-hot spike correspondence and bracketing runs on the real PRV accountant',
  'text': ('PARTIAL. Proved for the pieces generated from compose.py / domain.py / prvs.py: roll_alignment (for every composition count n >= 1 of either parity, every grid '
           'half-size M and index k the rolled index is the one carrying n*t0 + k*dt), the aligned grid size is even, shifts of an n-fold self-composition add to n*shifts, the '
           '(lower, estimate, upper) triple is ordered for any non-increasing find_epsilon, delta(eps) of a non-negative pmf is non-increasing. The real _compose_fourier / '
           'compose_heterogeneous are run on one-hot pmfs (exact spike placement, both parities, shifts) and compared with the generated roll amount; bracketing is validated '
           'against the Gaussian closed form at q = 1 and the RDP upper bound. Not proved: the truncation / discretisation / wrap-around error analysis (Gopi et al. 2021), scipy '
           'FFT / convolution / quadrature.'),
 },
 'C06': {
  'technique': 'Coq proofs over R on the generated RDP formulas (log-add, binomial moment series, RDP->DP conversion for finite distributions); kernel-checked interval certificates of the float values',
  'text': ('PARTIAL. Proved for the code generated from analysis/rdp.py: _log_add = ln(e^a+e^b); the integer-order log-moment is ln of the binomial moment series A_alpha; A_alpha >= 1; '
           'the q=0 / sigma=0 / q=1 cases; the RDP->(eps,delta) conversion with exactly the code\'s epsilon expression is sound for every pair of finite distributions, every order > 1 '
           'and delta > 0 (Balle et al. Thm 21); min over orders; for any expectation operator that is linear on finite sums and has the Gaussian moment generating function, the alpha-th moment of the subsampled-Gaussian privacy-loss ratio IS the series A_alpha (binomial theorem + linearity + MGF); moments of products of finite distributions multiply, so RDP bounds ADD under non-adaptive composition and the sum converts soundly. Float faithfulness is validated per point by the Interval tactic: the Python value of _compute_rdp lies within 1e-9 of '
           'the real formula (kernel-checked enclosure), fractional orders are sandwiched between integer neighbours, get_epsilon is recomputed from certified values. Not proved: '
           'that A_alpha is the Renyi moment of the sampled Gaussian mechanism (cited), the fractional-order erfc series, the continuous version of the conversion.'),
 },
 'C12': {
  'technique': 'Coq proofs over R of permutation / split-merge invariance and monotonicity of the generated RDP and GDP formulas; metamorphic runs on the real accountants',
  'text': ('PARTIAL. Proved: RDP composition over the history is invariant under permutations and run splitting/merging and additive under concatenation; non-decreasing in steps '
           '(one-step RDP >= 0); epsilon is monotone in the RDP value and antitone in delta at every order; q = 1 is the Gaussian mechanism; the GDP central-limit parameter equals '
           'sqrt(e^{1/sigma^2}-1) sqrt(T) q and is monotone in T, q and antitone in sigma. Validated on the real rdp / prv / gdp accountants by metamorphic pairs (permutation, split, '
           'one-by-one vs run, +steps/+rate/+sigma/+delta, q=1 closed form, CLI script). Not proved: monotonicity of RDP in q, brentq root finding, PRV numerics (see C07).'),
 },
 'C09': {
  'technique': 'Coq proofs of the batch-index, epoch-length and shard-partition lemmas on the sampler model; exact correspondence with the real samplers under a fed uniform stream',
  'text': ('batch_indices_spec (strictly increasing, duplicate free, in range, i included iff its own uniform < q), batches_per_epoch (exactly `steps` batches, each from a fresh '
           'block of uniforms, empties included), strided_shards_partition (l[r::W] disjoint, covering, sizes N/W (+1)), and the equality of sampler / engine / calibration '
           'rates (generated expressions) are theorems for all N, q, W. The samplers are tensor/generator code: their texts are pinned and the model is compared exactly with '
           'the real samplers fed with chosen float32 uniforms (incl. values at the threshold); DPDataLoader is exercised over loader lengths incl. 93, 99, 105 and element '
           'structures (tuple, bare tensor, mapping, nested, numpy, strings). The empty batch: empty_like_batch (pinned branch by branch to a tree function) keeps structure, trailing shapes and '
           'dtypes and has batch extent zero everywhere, for every batch tree (theorem, induction over nested trees); the real function is compared with the model on generated trees '
           '(one repaired defect). Partial: independence and uniformity of torch.rand are assumed, not verified.'),
 },
 'C08': {
  'technique': 'Coq loop-invariant proof on the generated bisection with an arbitrary epsilon function; binary64 correspondence with a synthetic accountant; end-to-end calibration runs',
  'text': ('bisection_invariant: for an ARBITRARY accountant function eps_of, whenever the search generated from get_noise_multiplier returns sigma then eps(sigma) <= target '
           'and target - eps(sigma) <= tolerance (out-of-fuel and MAX_SIGMA are the error outcomes); the engine calibrates for exactly epochs x len(loader) steps at the accounted '
           'rate (generated arguments). The generated search is run on binary64 in Coq against get_noise_multiplier with a synthetic accountant (bit-exact sigma); real '
           'accountants are used for direct and engine-level runs (epsilon at the true step count vs target). Partial: termination under monotonicity is not proved; the '
           'direct-API float step count is a recorded finding.'),
 },
 'C02': {
  'technique': 'Coq proofs over R of the clipping bound, neighbouring-batch sensitivity and ghost-norm identities on the generated clip expression; neighbouring-batch runs on the real optimizers',
  'text': ('For the clip factor expression generated from the optimizers (flat, adaptive, per-layer, ghost coefficient: min(1, C/(n+1e-6))): ||clip(g)|| <= C, '
           'flat/adaptive sensitivity (removing any example from any batch changes the pre-noise sum by a vector of joint norm <= C), per-layer sensitivity (per tensor <= C_k, '
           'jointly <= root-sum-square), invariance under physical splitting, and the ghost-clipping norm identities for nn.Linear (2-D, 3-D weight, 3-D bias) and nn.Embedding (optional padding index; the unmasked formula is refuted) for ALL extents '
           'are theorems over the reals. The ghost formulas and the clip factor are tied to the code by pins + integer/binary64 correspondence runs; the property itself is '
           'tested on real GradSampleModules with gradient scales 1e-4..1e3. Partial: per-sample gradients being a function of the sample alone is C01/C15; float rounding inside '
           'tensor kernels is not modelled. One recorded finding: with a recurrent layer fed by a packed batch that is not length-sorted, one example moves the sum by more than C (row order of C01).'),
 },
 'C03': {
  'technique': 'Coq stage-by-stage theorems on the generated optimizer code plus numeric reading over R; one-step closed-form runs on the real optimizers',
  'text': ('clip stage (contributions tagged with the norm in force), noise stage (summed + z at std sigma*C), scale stage (divide by expected_batch_size x accumulated '
           'iterations for mean, nothing for sum) are theorems about the code generated from the four optimizer classes; the release evaluates to '
           '(sum_i min(1,C/(|g_i|+1e-6)) g_i + z)/B, unclipped samples pass through, zero noise + huge C gives the plain averaged gradient (over R); get_optimizer_class equals '
           'the documented table on its whole (finite) domain. One real step of each optimizer class is compared with the closed form using per-sample gradients from autograd on '
           'single samples and the recorded noise; the generated clip factor and int(N*(1/L)) are evaluated on binary64 inside Coq against torch / CPython.'),
 },
 'C10': {
  'technique': 'Coq simulation proof on generated optimizer + sampler code (array_split partition, split run refines unsplit run); engine-level differential runs',
  'text': ('array_split_partition and physical_batches_bounded (every physical batch non-empty, <= max, concatenation = logical batch) for all batch sizes and max sizes; '
           'the sampler body generated from BatchSplittingSampler.__iter__ emits skip=True before all but the last physical batch (and one empty batch with skip=False for '
           'an empty logical batch); bmm_refines_unsplit: for every split, every hyper-parameter value, every accountant and every optimizer variant (flat, per-layer, adaptive loop and ghost clipping, the latter with the two-pass backward), '
           'the split run and the unsplit run have the same noise draws, accountant records, released (sample, clipping norm) lists, history and noise-stream position. '
           'The ghost backward model is the interpretation of the statement list generated from DPTensorFastGradientClipping.backward (C10_ghost_backward_is_generated). PARTIAL: prefetch interleavings (signals queued ahead by DataLoader workers) are covered by the differential runs (real engine with vs without the manager: '
           'parameter trajectories, torch.normal log, history).'),
 },
 'C11': {
  'technique': 'Coq invariant proof by induction over operation sequences on optimizer transitions regenerated from the sources; exhaustive one-hot op-sequence correspondence',
  'text': ('no_double_release is a theorem for EVERY finite program over {forward+backward, step, optimizer/module zero_grad, skip signals, scheduler writes}, '
           'every optimizer variant (flat, per-layer, adaptive loop, ghost), accumulation allowed or forbidden: the (backward, sample) pairs over all releases to the '
           'inner optimizer are duplicate free and every released contribution is clipped; misuse sequences raise (stepping twice, ghost re-step, second backward under '
           'Poisson). The transitions are regenerated from optimizer.py & co. on every run (Tie A) and proved equal to a reference semantics; the whole state machine is '
           'additionally executed in Coq against the real optimizers on exhaustive op sequences (depth 4 quick / 6 thorough, 3 variants x accumulation flag) with a '
           'one-hot probe that decodes released sample ids exactly. Partial: parameters are abstracted to one symbolic parameter (lock-step).'),
 },
 'C05': {
  'technique': 'Coq trace/ledger invariant over operation sequences on generated optimizer + accountant code; op-sequence and engine-level correspondence',
  'text': ('accounting_exact: for every program and variant with the rdp/prv accountant, the expanded accountant history equals the list of accountant records in the '
           'trace, each record immediately precedes its inner-optimizer step, skipped or raising steps write neither, #inner steps = #recorded steps; one step appends '
           'exactly (sigma in force, sample_rate x accumulated iterations). Run-length encoding soundness and the GDP single-run behaviour are theorems about the '
           'generated <Accountant>.step. Validated by exhaustive/random op sequences on the real optimizers+accountants and by engine-level histories '
           '(make_private, Poisson loader, BatchMemoryManager, schedulers, ghost, two make_private calls).'),
 },
 'C04': {
  'technique': 'Coq proof of the noise ledger (draw count, std, fresh stream positions, rank) on generated code; distribution of torch.normal assumed',
  'text': ('PARTIAL. Proved for the generated add_noise/_generate_noise: exactly one parameter-shaped draw per noised step (one discarded + four in secure mode, '
           'none when std == 0), std = noise_multiplier x max_grad_norm read at that step, consecutive never-reused stream positions over any program, none on skipped '
           'physical steps, rank 0 only in the distributed optimizers, secure-mode variance arithmetic 4(std/2)^2 = std^2. The call log of torch.normal on the real '
           'optimizers is compared with the ledger; numeric one-step checks cover shape, (clipped sum + noise)/B, reproducibility from a user generator. The Gaussian '
           'law and independence of torch.normal draws are an assumption (modelled, not verified).'),
 },
 'C17': {
  'technique': 'Coq proof by induction over scheduler steps on Gallina regenerated from the scheduler sources; bit-exact PrimFloat correspondence run',
  'text': ('Closed forms (construction is a no-op; after k steps init*gamma^k, init*gamma^floor(k/step), init*f(k)) and exact restore from '
           'state_dict are theorems, for every k, initial value, gamma, step size and lambda, about Gallina code regenerated from '
           'noise_scheduler.py / grad_clip_scheduler.py on every run; stated over an arbitrary number instance, so for binary64 they are the '
           'bit-exact statement, and over R they give the power forms. "The value in force is what is used" (clipping, noise std, accountant '
           'record) is a theorem on the optimizer state machine generated from optimizer.py. The generated code is additionally run on binary64 '
           'inside Coq against the real schedulers (equality of trajectories) and the property is tested directly on the real optimizers (flat and per-layer; for per-layer clipping the '
           'generated bounds in force are proved to have joint norm = the scheduled max_grad_norm; one repaired defect).'),
 },
}
