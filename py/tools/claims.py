# per-property claim texts used by mk_manifest.py
NA = {}
CLAIMS = {
 'C10': {
  'technique': 'Coq simulation proof on generated optimizer + sampler code (array_split partition, split run refines unsplit run); engine-level differential runs',
  'text': ('array_split_partition and physical_batches_bounded (every physical batch non-empty, <= max, concatenation = logical batch) for all batch sizes and max sizes; '
           'the sampler body generated from BatchSplittingSampler.__iter__ emits skip=True before all but the last physical batch (and one empty batch with skip=False for '
           'an empty logical batch); bmm_refines_unsplit: for every split, every hyper-parameter value, every accountant and the flat / per-layer / adaptive-loop optimizers, '
           'the split run and the unsplit run have the same noise draws, accountant records, released (sample, clipping norm) lists, history and noise-stream position. '
           'PARTIAL: the ghost optimizer and prefetch interleavings are covered by the correspondence / differential runs only (real engine with vs without the manager: '
           'parameter trajectories, torch.normal log, history).'),
 },
 'C11': {
  'technique': 'Coq invariant proof by induction over operation sequences on optimizer transitions regenerated from the sources; exhaustive one-hot op-sequence correspondence',
  'text': ('no_double_release is a theorem for EVERY finite program over {forward+backward, step, optimizer/module zero_grad, skip signals, scheduler writes}, '
           'every optimizer variant (flat, per-layer, adaptive loop, ghost), accumulation allowed or forbidden: the (backward, sample) pairs over all releases to the '
           'inner optimizer are duplicate free and every released contribution is clipped; misuse sequences raise (stepping twice, ghost re-step, second backward under '
           'Poisson). The transitions are regenerated from optimizer.py & co. on every run (Tie A) and proved equal to a reference semantics; the whole state machine is '
           'additionally executed in Coq against the real optimizers on exhaustive op sequences (depth 4 quick / 6 thorough, 3 variants x accumulation flag) with a '
           'one-hot probe that decodes released sample ids exactly. Partial: parameters are abstracted to one symbolic parameter (lock-step).'),
 },
 'C05': {
  'technique': 'Coq trace/ledger invariant over operation sequences on generated optimizer + accountant code; op-sequence and engine-level correspondence',
  'text': ('accounting_exact: for every program and variant with the rdp/prv accountant, the expanded accountant history equals the list of accountant records in the '
           'trace, each record immediately precedes its inner-optimizer step, skipped or raising steps write neither, #inner steps = #recorded steps; one step appends '
           'exactly (sigma in force, sample_rate x accumulated iterations). Run-length encoding soundness and the GDP single-run behaviour are theorems about the '
           'generated <Accountant>.step. Validated by exhaustive/random op sequences on the real optimizers+accountants and by engine-level histories '
           '(make_private, Poisson loader, BatchMemoryManager, schedulers, ghost, two make_private calls).'),
 },
 'C04': {
  'technique': 'Coq proof of the noise ledger (draw count, std, fresh stream positions, rank) on generated code; distribution of torch.normal assumed',
  'text': ('PARTIAL. Proved for the generated add_noise/_generate_noise: exactly one parameter-shaped draw per noised step (one discarded + four in secure mode, '
           'none when std == 0), std = noise_multiplier x max_grad_norm read at that step, consecutive never-reused stream positions over any program, none on skipped '
           'physical steps, rank 0 only in the distributed optimizers, secure-mode variance arithmetic 4(std/2)^2 = std^2. The call log of torch.normal on the real '
           'optimizers is compared with the ledger; numeric one-step checks cover shape, (clipped sum + noise)/B, reproducibility from a user generator. The Gaussian '
           'law and independence of torch.normal draws are an assumption (modelled, not verified).'),
 },
 'C17': {
  'technique': 'Coq proof by induction over scheduler steps on Gallina regenerated from the scheduler sources; bit-exact PrimFloat correspondence run',
  'text': ('Closed forms (construction is a no-op; after k steps init*gamma^k, init*gamma^floor(k/step), init*f(k)) and exact restore from '
           'state_dict are theorems, for every k, initial value, gamma, step size and lambda, about Gallina code regenerated from '
           'noise_scheduler.py / grad_clip_scheduler.py on every run; stated over an arbitrary number instance, so for binary64 they are the '
           'bit-exact statement, and over R they give the power forms. "The value in force is what is used" (clipping, noise std, accountant '
           'record) is a theorem on the optimizer state machine generated from optimizer.py. The generated code is additionally run on binary64 '
           'inside Coq against the real schedulers (equality of trajectories) and the property is tested directly on the real optimizer.'),
 },
}
