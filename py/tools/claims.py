# per-property claim texts used by mk_manifest.py
NA = {}
CLAIMS = {
 'C17': {
  'technique': 'Coq proof by induction over scheduler steps on Gallina regenerated from the scheduler sources; bit-exact PrimFloat correspondence run',
  'text': ('Closed forms (construction is a no-op; after k steps init*gamma^k, init*gamma^floor(k/step), init*f(k)) and exact restore from '
           'state_dict are theorems, for every k, initial value, gamma, step size and lambda, about Gallina code regenerated from '
           'noise_scheduler.py / grad_clip_scheduler.py on every run; stated over an arbitrary number instance, so for binary64 they are the '
           'bit-exact statement, and over R they give the power forms. "The value in force is what is used" (clipping, noise std, accountant '
           'record) is a theorem on the optimizer state machine generated from optimizer.py. The generated code is additionally run on binary64 '
           'inside Coq against the real schedulers (equality of trajectories) and the property is tested directly on the real optimizer.'),
 },
}
