#!/usr/bin/env python3
"""run the repository's pinned baseline (guard off) and compare with BASELINE.json's stable_pass list.
usage: baseline.py [repo_dir] [junit_out]"""
import json, subprocess, sys, xml.etree.ElementTree as ET, os
repo = sys.argv[1] if len(sys.argv) > 1 else '/repo'
out = sys.argv[2] if len(sys.argv) > 2 else '/var/tmp/baseline.junit.xml'
env = dict(os.environ); env.pop('OPACUS_VERIF', None)
subprocess.run('cd %s && /venv/bin/python -m pytest -ra -q -p no:cacheprovider --timeout=900 --continue-on-collection-errors --junitxml=%s > %s.log 2>&1' % (repo, out, out), shell=True, env=env)
base = json.load(open('/root/.vp/BASELINE.json'))
want = set(base['stable_pass'])
got = {}
for tc in ET.parse(out).getroot().iter('testcase'):
    name = tc.get('classname') + '::' + tc.get('name')
    bad = any(ch.tag in ('failure', 'error') for ch in tc)
    skipped = any(ch.tag == 'skipped' for ch in tc)
    got[name] = 'fail' if bad else ('skip' if skipped else 'pass')
missing = sorted(t for t in want if got.get(t) != 'pass')
print('stable_pass total', len(want), 'passing now', len(want) - len(missing))
for t in missing[:40]:
    print('NOT PASSING:', t, got.get(t))
sys.exit(1 if missing else 0)
