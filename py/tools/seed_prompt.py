#!/usr/bin/env python3
"""prints the brief handed to an independent sub-agent that seeds a property-breaking change (self-test of the checks).
usage: seed_prompt.py <property-id> <scratch-worktree>      (the agent gets nothing from /verif but the property text)"""
import json, os, sys
ROOT = os.path.dirname(os.path.dirname(os.path.dirname(os.path.abspath(__file__))))
pid, wt = sys.argv[1], sys.argv[2]
prop = next(json.loads(l) for l in open(os.path.join(ROOT, 'properties.jsonl')) if json.loads(l)['id'] == pid)
prop = {k: prop[k] for k in ('id', 'title', 'statement', 'quantifier', 'anchors') if k in prop}
print('''You are helping to test a verification tool for the Python library pytorch/opacus (DP-SGD for PyTorch).
Your own private git worktree of the library is at %(wt)s (work ONLY there; never touch /repo or /verif, and do not read /verif).
Run Python as:  cd %(wt)s && PYTHONPATH=%(wt)s /venv/bin/python ...   (torch, numpy, scipy, pytest are installed; there is no network).

Below is ONE semantic property of the library.  Produce a realistic change to the library source (files under %(wt)s/opacus only, not tests)
that BREAKS this property while the library still imports and its existing test-suite still passes.  Think of a plausible maintainer mistake:
a refactoring slip, a wrong index, an off-by-one, a dropped flag, a condition inverted on a rare path, two sites that each look fine alone.
The change must need something specific to manifest -- a particular multi-step sequence of operations, an unusual (but legal) input or
configuration, a particular interleaving, a crash/restore at a particular point -- NOT something that any ordinary use or the existing tests would expose at once.
Keep it small (a few lines).

Deliverables, all inside %(wt)s/_seed/ :
  patch.diff  -- `git -C %(wt)s diff -- opacus > _seed/patch.diff` of your change (library files only)
  demo.py     -- a small self-contained program (run as above, cwd = the worktree) that exits 0 when the property holds on the scenario it
                 exercises and exits 1 (printing what it observed) when it is violated; it must FAIL with your change and PASS without it
                 (verify both: `git stash` / `git stash pop`, or `git apply -R`).
  meta.json   -- {"property": "%(pid)s", "summary": "...", "needs_to_manifest": "...", "files_changed": [...], "tests_run": "...", "demo_result_with": "...", "demo_result_without": "..."}
Check that the existing tests still pass with your change: run at least the test files related to what you touched, e.g.
  cd %(wt)s && /venv/bin/python -m pytest -q -p no:cacheprovider --timeout=900 -x opacus/tests/<relevant files>
(do NOT run the full suite -- it takes hours on this loaded machine; the relevant files are enough, the full suite will be run separately; if a relevant test fails pick another change).
Leave the change APPLIED in the worktree when you finish, and reply with a 5-line summary (what you changed, what it needs to manifest, demo results, tests run).

The property:
%(prop)s
''' % {'wt': wt, 'pid': pid, 'prop': json.dumps(prop, indent=1)})
