#!/usr/bin/env python3
"""print python sources without docstrings/comments (reading aid)"""
import ast, sys
for f in sys.argv[1:]:
    t = ast.parse(open(f).read())
    for n in ast.walk(t):
        if isinstance(n, (ast.FunctionDef, ast.ClassDef, ast.Module, ast.AsyncFunctionDef)):
            b = n.body
            if b and isinstance(b[0], ast.Expr) and isinstance(getattr(b[0], 'value', None), ast.Constant) and isinstance(b[0].value.value, str):
                n.body = b[1:] or [ast.Pass()]
    print('#### ' + f); print(ast.unparse(t))
