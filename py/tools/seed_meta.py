#!/usr/bin/env python3
"""seed_meta.py <name> <property> <needs_to_manifest> <notes>  -> /verif/seeded/<name>/meta.json (from agent_meta.json + result.json)"""
import json, os, sys, glob
name, pid, needs, notes = sys.argv[1:5]
d = '/verif/seeded/' + name
res = json.load(open(d + '/result.json')) if os.path.exists(d + '/result.json') else {}
am = json.load(open(d + '/agent_meta.json')) if os.path.exists(d + '/agent_meta.json') else {}
rep = {}
for f in glob.glob(d + '/replay/*.json'):
    r = json.load(open(f))
    rep = {'kind': r.get('kind'), 'key': (r.get('failure') or {}).get('key'), 'what': str((r.get('failure') or {}).get('what'))[:300],
           'broken_obligations': [b[:200] for b in (r.get('broken_obligations') or r.get('no_longer_checks') or [])][:4]}
meta = {'property': pid, 'summary': am.get('summary', ''), 'needs_to_manifest': needs or am.get('needs_to_manifest', ''),
        'files_changed': am.get('files_changed', []), 'origin': 'independent sub-agent given only the property text and a scratch worktree',
        'confirmed': {'demo_exit_without_change': res.get('demo_exit_without_change'), 'demo_exit_with_change': res.get('demo_exit_with_change'),
                      'tests': notes},
        'ran': res.get('check_cmd'), 'detected': res.get('detected'), 'violation_line': res.get('violation_line'), 'replay': rep}
json.dump(meta, open(d + '/meta.json', 'w'), indent=1)
print(json.dumps(meta)[:400])
