"""Regenerate coq/Gen/*.v from /repo's working tree (Tie A).  A file is rewritten only when its
text changes.  A failed translation writes a Gen file that does not compile, so every theorem
that depends on it becomes a broken obligation; the reason is kept in coq/Gen/_status.json."""
import importlib, json, os, sys, traceback
from .pyco import TErr

GENS = ['gen_sched', 'gen_optim', 'gen_bmm', 'gen_engine', 'gen_ghost', 'gen_sampler', 'gen_calib', 'gen_rdp', 'gen_prv', 'gen_adaclip', 'gen_ckpt', 'gen_dist', 'gen_wrap', 'gen_validators', 'gen_rnn', 'gen_mha', 'gen_gradsample']
ROOT = os.path.dirname(os.path.dirname(os.path.dirname(os.path.abspath(__file__))))


def write_if_changed(path, text):
    try:
        if open(path).read() == text:
            return False
    except FileNotFoundError:
        pass
    with open(path + '.tmp', 'w') as f:
        f.write(text)
    os.replace(path + '.tmp', path)
    return True


def run(repo='/repo', only=None):
    status = {}
    gdir = os.path.join(ROOT, 'coq', 'Gen')
    os.makedirs(gdir, exist_ok=True)
    for g in GENS:
        m = importlib.import_module('py.translate.' + g)
        if only and m.NAME not in only:
            continue
        try:
            text = m.generate(repo)
            status[m.NAME] = {'ok': True}
        except TErr as e:
            msg = str(e)
            status[m.NAME] = {'ok': False, 'error': msg}
            text = '(* TRANSLATION FAILED (py/translate/%s.py):\n%s\n*)\nTranslation_failed.\n' % (g, msg.replace('*)', '* )'))
        except Exception as e:  # translator bug: also fail closed
            msg = ''.join(traceback.format_exception_only(type(e), e))
            status[m.NAME] = {'ok': False, 'error': 'translator exception: ' + msg}
            text = '(* TRANSLATOR EXCEPTION: %s *)\nTranslation_failed.\n' % msg.replace('*)', '* )')
        status[m.NAME]['changed'] = write_if_changed(os.path.join(gdir, m.NAME + '.v'), text)
    return status


if __name__ == '__main__':
    st = run(sys.argv[1] if len(sys.argv) > 1 else '/repo')
    print(json.dumps(st, indent=1))
    sys.exit(0 if all(v['ok'] for v in st.values()) else 2)
