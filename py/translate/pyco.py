"""pyco -- fail-closed translator from a whitelisted Python fragment to Gallina (Tie A).

Every ast node type, builtin, attribute path and callee must be declared in the
function's Spec; anything else raises TErr, which the driver treats as a broken
proof obligation for every property depending on the generated file.

Types of the fragment:  'Z' (python int), 'T' (python float, emitted over the Num class),
'B' bool, 'S' (string enum, declared per spec), ('list', t), ('tuple', [t..]), ('opt', t),
('rec', name) opaque model records, 'unit'.

Statement translation is continuation style:  stmt; REST  becomes a Gallina term in which
REST is nested; an `if` whose branches fall through duplicates REST in both branches
(functions translated here are small).  Mode 'pure' emits plain values, mode 'res' the
result monad (raise -> Err), mode 'state' a state+result monad over a record `s`
(self.<field> reads/writes go through declared getters/setters).
"""
import ast
import copy
from decimal import Decimal


class TErr(Exception):
    pass


def tname(t):
    if isinstance(t, tuple):
        if t[0] == 'list':
            return '(list %s)' % tname(t[1])
        if t[0] == 'opt':
            return '(option %s)' % tname(t[1])
        if t[0] == 'tuple':
            return '(' + ' * '.join(tname(x) for x in t[1]) + ')'
        if t[0] == 'rec':
            return t[1]
    return {'Z': 'Z', 'T': 'T', 'B': 'bool', 'unit': 'unit', 'S': 'pystr'}.get(t, t)


class Spec:
    """What one translated function may mention."""

    def __init__(self, name, params=(), ret=None, mode='pure', attrs=None, calls=None,
                 consts=None, strings=None, state=None, self_name='self', errs=None,
                 fuel=None, binder_prefix='', pre=None, lockstep=None, inplace=None, binops=None,
                 eattrs=None, methods=None, types=None, skip=None, conv=None, presets=None, stmt_methods=None, retwrap=None):
        self.name = name              # Coq name of the definition
        self.params = list(params)    # [(pyname, type)] explicit parameters (besides self)
        self.ret = ret
        self.mode = mode              # 'pure' | 'res' | 'state'
        self.attrs = attrs or {}      # 'self.a.b' -> (type, getter_fmt, setter_fmt|None); fmt uses {s} and {v}
        self.calls = calls or {}      # dotted callee -> dict(fn=coqname, args=[types], ret=type, kind='pure'|'res'|'prim', kw=[names])
        self.consts = consts or {}    # python names with a fixed assumed value: name -> python value (None/True/False/int)
        self.strings = strings or {}  # python string literal -> coq constructor
        self.state = state            # (coq var, coq type) for mode 'state'
        self.self_name = self_name
        self.errs = errs or {}
        self.fuel = fuel
        self.pre = pre
        self.lockstep = lockstep or {}  # iterable expression text -> {target name: coq term/type}: body inlined once
        self.inplace = inplace or {}    # dotted attr -> {(op, rhs type): setter fmt with {s} {v}}
        self.binops = binops or {}      # (op, ltype, rtype) -> (fmt with {a} {b}, result type)
        self.eattrs = eattrs or {}      # dotted attribute whose evaluation is effectful -> call spec
        self.methods = methods or {}    # method name -> (fmt with {o} and {args}, arg kw names, result type or None=same)
        self.types = types or {}
        self.skip = skip or []
        self.conv = conv or {}
        self.retwrap = retwrap
        self.stmt_methods = stmt_methods or {}  # dotted callee 'X.m' -> (attr X, fmt with {g} (getter) and {a} (argument))
        self.presets = presets or {}  # free (closure) names: pyname -> (coq term, type)          # ast.unparse texts of statements that are pinned elsewhere and skipped


ERR_KINDS = ['ValueError', 'NotImplementedError', 'IndexError', 'AssertionError', 'TypeError',
             'RuntimeError', 'KeyError', 'OutOfFuel', 'AttributeError', 'UnsupportedModuleError']


def dotted(node):
    if isinstance(node, ast.Name):
        return node.id
    if isinstance(node, ast.Call) and isinstance(node.func, ast.Name) and node.func.id == 'super' \
            and not node.args and not node.keywords:
        return 'super()'
    if isinstance(node, ast.Attribute):
        b = dotted(node.value)
        return None if b is None else b + '.' + node.attr
    return None


def zlit(n):
    return '(%d)%%Z' % n


def declit(x):
    """python float literal -> (m, e) with x == m * 10^e exactly as written"""
    d = Decimal(repr(x))
    sign, digits, exp = d.as_tuple()
    m = int(''.join(map(str, digits)))
    if sign:
        m = -m
    while m % 10 == 0 and m != 0:
        m //= 10
        exp += 1
    return m, exp


class Tr:
    def __init__(self, spec, fndef, module_consts=None):
        self.spec = spec
        self.fn = fndef
        self.vars = {}
        self.module_consts = module_consts or {}
        self.uid = 0

    # ---- helpers
    def fresh(self, base):
        self.uid += 1
        return '%s_%d' % (base, self.uid)

    def coerce(self, txt, t, want):
        if t == want:
            return txt
        cv = getattr(self.spec, 'conv', None) or {}
        if (str(t), str(want)) in cv:
            return cv[(str(t), str(want))].format(v=txt)
        if t == 'Z' and want == 'T':
            return '(nofZ %s)' % txt
        if t == 'B' and want == 'B':
            return txt
        raise TErr('cannot coerce %s : %s to %s' % (txt, t, want))

    # ---- expressions
    def ex(self, n):
        sp = self.spec
        if isinstance(n, ast.Constant):
            v = n.value
            if isinstance(v, bool):
                return ('true' if v else 'false', 'B')
            if isinstance(v, int):
                return (zlit(v), 'Z')
            if isinstance(v, float):
                if v == float('inf'):
                    return ('ninf', 'T')
                m, e = declit(v)
                return ('(nofdec %s %s)' % (zlit(m), zlit(e)), 'T')
            if v is None:
                return ('None', 'none')
            if isinstance(v, str):
                if sp.strings == '*':
                    return ('"%s"%%string' % v.replace('"', '""'), 'S')
                if v in sp.strings:
                    return (sp.strings[v], 'S')
                raise TErr('string literal %r not declared' % v)
            raise TErr('constant %r' % (v,))
        if isinstance(n, ast.Name):
            if n.id in self.vars:
                return self.vars[n.id]
            if n.id in sp.consts:
                return self.ex(ast.Constant(sp.consts[n.id]))
            if n.id in self.module_consts:
                return self.ex(self.module_consts[n.id])
            raise TErr('unknown name %s' % n.id)
        if isinstance(n, ast.Attribute):
            d = dotted(n)
            if d in sp.attrs:
                t, g, _ = sp.attrs[d]
                return (g.format(s=sp.state[0] if sp.state else ''), t)
            # attribute of a local of record type:  optim.noise_multiplier
            raise TErr('attribute %s not declared' % d)
        if isinstance(n, ast.BinOp):
            a, ta = self.ex(n.left)
            b, tb = self.ex(n.right)
            op = type(n.op).__name__
            key = (op, ta if not isinstance(ta, tuple) else str(ta), tb if not isinstance(tb, tuple) else str(tb))
            if key in sp.binops:
                fmt, rt = sp.binops[key]
                return (fmt.format(a=a, b=b), rt)
            if op == 'Pow':
                if isinstance(n.right, ast.Constant) and isinstance(n.right.value, int) and n.right.value >= 0:
                    if ta == 'Z':
                        return ('(Z.pow %s %s)' % (a, b), 'Z')
                    return ('(npow %s %d)' % (a, n.right.value), 'T')
                if isinstance(n.right, ast.UnaryOp) and isinstance(n.right.op, ast.USub) and \
                        isinstance(n.right.operand, ast.Constant) and n.right.operand.value == 2:
                    return ('(ndiv n1 (nsq %s))' % self.coerce(a, ta, 'T'), 'T')
                if isinstance(n.right, ast.BinOp) and isinstance(n.right.op, ast.Div) and \
                        ast.unparse(n.right) in ('-1 / 2',):
                    return ('(ndiv n1 (nsqrt %s))' % self.coerce(a, ta, 'T'), 'T')
                return ('(nrpow %s %s)' % (self.coerce(a, ta, 'T'), self.coerce(b, tb, 'T')), 'T')
            if ta == 'Z' and tb == 'Z':
                if op == 'Div':
                    return ('(ndiv (nofZ %s) (nofZ %s))' % (a, b), 'T')
                f = {'Add': 'Z.add', 'Sub': 'Z.sub', 'Mult': 'Z.mul', 'Mod': 'Z.modulo', 'FloorDiv': 'Z.div'}.get(op)
                if not f:
                    raise TErr('int op ' + op)
                return ('(%s %s %s)' % (f, a, b), 'Z')
            if ta in ('Z', 'T') and tb in ('Z', 'T'):
                f = {'Add': 'nadd', 'Sub': 'nsub', 'Mult': 'nmul', 'Div': 'ndiv'}.get(op)
                if not f:
                    raise TErr('float op ' + op)
                return ('(%s %s %s)' % (f, self.coerce(a, ta, 'T'), self.coerce(b, tb, 'T')), 'T')
            if op == 'Add' and isinstance(ta, tuple) and ta[0] == 'list' and ta == tb:
                return ('(%s ++ %s)' % (a, b), ta)
            raise TErr('binop %s on %s,%s' % (op, ta, tb))
        if isinstance(n, ast.UnaryOp):
            a, ta = self.ex(n.operand)
            if isinstance(n.op, ast.USub):
                return (('(Z.opp %s)' if ta == 'Z' else '(nneg %s)') % a, ta)
            if isinstance(n.op, ast.Not):
                return ('(negb %s)' % self.truthy(a, ta), 'B')
            raise TErr('unaryop')
        if isinstance(n, ast.BoolOp):
            parts = [self.truthy(*self.ex(v)) for v in n.values]
            f = 'andb' if isinstance(n.op, ast.And) else 'orb'
            out = parts[-1]
            for p in reversed(parts[:-1]):
                out = '(%s %s %s)' % (f, p, out)
            return (out, 'B')
        if isinstance(n, ast.Compare):
            if len(n.ops) != 1:
                raise TErr('chained comparison')
            return self.compare(n.left, n.ops[0], n.comparators[0])
        if isinstance(n, ast.IfExp):
            c = self.truthy(*self.ex(n.test))
            a, ta = self.ex(n.body)
            b, tb = self.ex(n.orelse)
            t = ta if ta == tb else 'T'
            return ('(if %s then %s else %s)' % (c, self.coerce(a, ta, t), self.coerce(b, tb, t)), t)
        if isinstance(n, ast.Tuple):
            parts = [self.ex(e) for e in n.elts]
            return ('(' + ', '.join(p[0] for p in parts) + ')', ('tuple', [p[1] for p in parts]))
        if isinstance(n, ast.List):
            parts = [self.ex(e) for e in n.elts]
            if not parts:
                return ('[]', ('list', '?'))
            return ('[' + '; '.join(p[0] for p in parts) + ']', ('list', parts[0][1]))
        if isinstance(n, ast.Subscript):
            a, ta = self.ex(n.value)
            if isinstance(ta, tuple) and ta[0] == 'list':
                sl = n.slice
                if isinstance(sl, ast.Constant) and sl.value == 0:
                    return ('(lhd %s)' % a, ('opt', ta[1]))
                if isinstance(sl, ast.UnaryOp) and isinstance(sl.op, ast.USub) and sl.operand.value == 1:
                    return ('(llast %s)' % a, ('opt', ta[1]))
                if isinstance(sl, ast.Slice) and sl.lower is None and sl.step is None and \
                        isinstance(sl.upper, ast.UnaryOp) and sl.upper.operand.value == 1:
                    return ('(removelast %s)' % a, ta)
            raise TErr('subscript ' + ast.unparse(n))
        if isinstance(n, ast.ListComp):
            if len(n.generators) != 1 or n.generators[0].ifs or n.generators[0].is_async or \
                    not isinstance(n.generators[0].target, ast.Name):
                raise TErr('list comprehension shape')
            it, ti = self.ex(n.generators[0].iter)
            if not (isinstance(ti, tuple) and ti[0] == 'list'):
                raise TErr('comprehension over %s' % (ti,))
            v = n.generators[0].target.id
            cv = v + '_' if (self.spec.state and v == self.spec.state[0]) else v
            saved = dict(self.vars)
            self.vars[v] = (cv, ti[1])
            body, tb = self.ex(n.elt)
            self.vars = saved
            return ('(map (fun %s => %s) %s)' % (cv, body, it), ('list', tb))
        if isinstance(n, ast.Call):
            return self.call(n)
        raise TErr('expression node ' + type(n).__name__ + ': ' + ast.unparse(n))

    def truthy(self, txt, t):
        if t == 'B':
            return txt
        if isinstance(t, tuple) and t[0] == 'list':
            return '(negb (lnull %s))' % txt
        if isinstance(t, tuple) and t[0] == 'opt':
            return '(oisSome %s)' % txt
        raise TErr('truthiness of type %s' % (t,))

    def compare(self, l, op, r):
        opn = type(op).__name__
        a, ta = self.ex(l)
        b, tb = self.ex(r)
        if opn in ('Is', 'IsNot'):
            if tb == 'none':
                if ta == 'none':
                    res = 'true'
                elif isinstance(ta, tuple) and ta[0] == 'opt':
                    res = '(negb (oisSome %s))' % a
                else:
                    res = 'false'
                return (res if opn == 'Is' else '(negb %s)' % res, 'B')
            if tb == 'B' and ta == 'B':
                res = '(Bool.eqb %s %s)' % (a, b)
                return (res if opn == 'Is' else '(negb %s)' % res, 'B')
            raise TErr('is-comparison ' + ast.unparse(l))
        if ta == 'Z' and tb == 'Z':
            f = {'Eq': 'Z.eqb %s %s', 'NotEq': 'negb (Z.eqb %s %s)', 'Lt': 'Z.ltb %s %s', 'LtE': 'Z.leb %s %s',
                 'Gt': 'Z.gtb %s %s', 'GtE': 'Z.geb %s %s'}[opn]
            return ('(' + f % (a, b) + ')', 'B')
        if ta in ('Z', 'T') and tb in ('Z', 'T'):
            a = self.coerce(a, ta, 'T')
            b = self.coerce(b, tb, 'T')
            f = {'Eq': 'neqb %s %s', 'NotEq': 'negb (neqb %s %s)', 'Lt': 'nltb %s %s', 'LtE': 'nleb %s %s'}
            if opn in f:
                return ('(' + f[opn] % (a, b) + ')', 'B')
            if opn == 'Gt':
                return ('(nltb %s %s)' % (b, a), 'B')
            if opn == 'GtE':
                return ('(nleb %s %s)' % (b, a), 'B')
        if ta == 'S' and tb == 'S' and opn in ('Eq', 'NotEq'):
            res = '(pystr_eqb %s %s)' % (a, b)
            return (res if opn == 'Eq' else '(negb %s)' % res, 'B')
        if ta == 'B' and tb == 'B' and opn in ('Eq', 'NotEq'):
            res = '(Bool.eqb %s %s)' % (a, b)
            return (res if opn == 'Eq' else '(negb %s)' % res, 'B')
        raise TErr('comparison %s on %s,%s' % (opn, ta, tb))

    def call(self, n):
        sp = self.spec
        d = dotted(n.func)
        if d == 'len' and len(n.args) == 1:
            a, ta = self.ex(n.args[0])
            if isinstance(ta, tuple) and ta[0] == 'list':
                return ('(Z.of_nat (List.length %s))' % a, 'Z')
            raise TErr('len of ' + str(ta))
        if d == 'float' and len(n.args) == 1:
            if isinstance(n.args[0], ast.Constant) and n.args[0].value == 'inf':
                return ('ninf', 'T')
            a, ta = self.ex(n.args[0])
            return (self.coerce(a, ta, 'T'), 'T')
        if d == 'int' and len(n.args) == 1:
            a, ta = self.ex(n.args[0])
            if ta == 'Z':
                return (a, 'Z')
            return ('(ntrunc %s)' % a, 'Z')
        if d == 'math.ceil' and len(n.args) == 1 and isinstance(n.args[0], ast.BinOp) and isinstance(n.args[0].op, ast.Div):
            a, ta = self.ex(n.args[0].left)
            b, tb = self.ex(n.args[0].right)
            if ta == 'Z' and tb == 'Z':
                return ('(zceil_div %s %s)' % (a, b), 'Z')
            raise TErr('math.ceil of a non-integer quotient')
        if d in ('math.log', 'np.log', 'math.exp', 'np.exp', 'math.log1p', 'math.expm1', 'math.sqrt', 'np.sqrt') and len(n.args) == 1 and not n.keywords:
            a, ta = self.ex(n.args[0])
            a = self.coerce(a, ta, 'T')
            fmt = {'log': '(nln %s)', 'exp': '(nexp %s)', 'log1p': '(nln (nadd n1 %s))', 'expm1': '(nsub (nexp %s) n1)', 'sqrt': '(nsqrt %s)'}[d.split('.')[1]]
            return (fmt % a, 'T')
        if d == 'special.binom' and len(n.args) == 2:
            a, ta = self.ex(n.args[0])
            b, tb = self.ex(n.args[1])
            if ta == 'Z' and tb == 'Z':
                return ('(nbinom %s %s)' % (a, b), 'T')
            raise TErr('special.binom on non-integers')
        if d in ('min', 'max') and len(n.args) == 2:
            a, ta = self.ex(n.args[0])
            b, tb = self.ex(n.args[1])
            if ta == 'Z' and tb == 'Z':
                return ('(Z.%s %s %s)' % (d, a, b), 'Z')
            return ('(n%s %s %s)' % (d, self.coerce(a, ta, 'T'), self.coerce(b, tb, 'T')), 'T')
        if isinstance(n.func, ast.Attribute) and n.func.attr in sp.methods and d not in sp.calls:
            fmt, kwn, rt = sp.methods[n.func.attr]
            o, to = self.ex(n.func.value)
            kw = {k.arg: k.value for k in n.keywords}
            vals = []
            pos = list(n.args)
            for i, nm in enumerate(kwn):
                node = pos[i] if i < len(pos) else kw.pop(nm, None)
                if node is None:
                    raise TErr('method %s: missing %s' % (n.func.attr, nm))
                v, tv = self.ex(node)
                vals.append(self.coerce(v, tv, 'T') if tv in ('Z', 'T') and to == 'T' else v)
            if kw or len(pos) > len(kwn):
                raise TErr('method %s: unexpected arguments' % n.func.attr)
            return (fmt.format(o=o, args=' '.join(vals)), rt or to)
        if d in sp.calls:
            c = sp.calls[d]
            args = []
            given = list(n.args)
            kw = {k.arg: k.value for k in n.keywords}
            names = c.get('kw', [])
            for i, want in enumerate(c['args']):
                if i < len(given):
                    node = given[i]
                elif i < len(names) and names[i] in kw:
                    node = kw.pop(names[i])
                elif 'defaults' in c and names[i] in c['defaults']:
                    node = ast.Constant(c['defaults'][names[i]])
                else:
                    raise TErr('call %s: missing argument %d' % (d, i))
                if isinstance(want, tuple) and want[0] == 'const':
                    if not (isinstance(node, ast.Constant) and node.value == want[1]):
                        raise TErr('call %s: argument %d must be the constant %r' % (d, i, want[1]))
                    continue
                if want == 'drop':
                    continue
                a, ta = self.ex(node)
                if want == 'any':
                    args.append(a)
                elif want == 'drop':
                    pass
                elif isinstance(want, tuple) and want[0] == 'opt' and ta == 'none':
                    args.append('None')
                elif isinstance(want, tuple) and want[0] == 'opt' and ta == want[1]:
                    args.append('(Some %s)' % a)
                else:
                    args.append(self.coerce(a, ta, want))
            if kw:
                raise TErr('call %s: unexpected keyword(s) %s' % (d, sorted(kw)))
            return ('(' + ' '.join([c['fn']] + c.get('pre', []) + args) + ')', c['ret'], c.get('kind', 'pure'))[:2] \
                if c.get('kind', 'pure') == 'pure' else self._effect_call(c, args)
        raise TErr('call to %s not declared' % d)

    def _effect_call(self, c, args):
        raise TErr('effectful call %s used inside an expression' % c['fn'])

    # ---- statements
    def ret_val(self, txt):
        sp = self.spec
        if sp.mode == 'pure':
            return txt
        if sp.mode == 'res':
            return '(Ok %s)' % txt
        return '(SOk %s %s)' % (sp.state[0], txt)

    def err_val(self, kind):
        sp = self.spec
        if sp.mode == 'state':
            return '(SErr %s %s)' % (sp.state[0], kind)
        return '(Err %s)' % kind

    def block(self, stmts, k):
        """k: function () -> text of what follows when control falls off the end"""
        sp = self.spec
        if not stmts:
            return k()
        st, rest = stmts[0], stmts[1:]
        saved = dict(self.vars)

        def cont():
            return self.block(rest, k)

        if isinstance(st, ast.Expr) and isinstance(st.value, ast.Constant) and isinstance(st.value.value, str):
            return cont()
        if isinstance(st, ast.Pass):
            return cont()
        if ast.unparse(st) in sp.skip:
            return cont()
        if isinstance(st, ast.Return):
            if st.value is None:
                return self.ret_val('tt')
            return self.with_effects(st.value, lambda e: self.ret_val(self._ret_coerce(*self.ex(e))))
        if isinstance(st, ast.Raise):
            if sp.mode == 'pure':
                raise TErr('raise in a pure function')
            e = st.exc
            nm = dotted(e.func) if isinstance(e, ast.Call) else dotted(e)
            if nm not in ERR_KINDS:
                raise TErr('exception kind %s' % nm)
            return self.err_val(nm)
        if isinstance(st, ast.Assert):
            if sp.mode == 'pure':
                raise TErr('assert in a pure function')
            c = self.truthy(*self.ex(st.test))
            return '(if %s then %s else %s)' % (c, cont(), self.err_val('AssertionError'))
        if isinstance(st, ast.AugAssign):
            d = dotted(st.target)
            if d in sp.inplace:
                def inpl(e, st=st, d=d):
                    v, t = self.ex(e)
                    key = (type(st.op).__name__, t if not isinstance(t, tuple) else str(t))
                    if key not in sp.inplace[d]:
                        raise TErr('in-place %s on %s with %s' % (key[0], d, key[1]))
                    s_ = sp.state[0]
                    return '(let %s := %s in\n %s)' % (s_, sp.inplace[d][key].format(s=s_, v=v), cont())
                return self.with_effects(st.value, inpl)
            st = ast.Assign(targets=[st.target], value=ast.BinOp(left=st.target, op=st.op, right=st.value))
        if isinstance(st, ast.Assign):
            if len(st.targets) != 1:
                raise TErr('multiple assignment targets')
            tg = st.targets[0]
            return self.with_effects(st.value, lambda e: self.assign(tg, *self.ex(e), cont))
        if isinstance(st, ast.Expr) and isinstance(st.value, ast.Yield) and '__yield__' in sp.calls:
            fake = ast.Call(func=ast.Name(id='__yield__', ctx=ast.Load()), args=[st.value.value], keywords=[])
            return self.with_effects(fake, lambda e: cont())
        if isinstance(st, ast.Continue) and sp.consts.get('__continue_is_return__'):
            return self.ret_val('tt')
        if isinstance(st, ast.Expr) and isinstance(st.value, ast.Call):
            cd = dotted(st.value.func)
            if cd in sp.stmt_methods:
                ad, fmt = sp.stmt_methods[cd]
                at, getter, setter = sp.attrs[ad]
                if not st.value.args and not st.value.keywords and '{a}' not in fmt:
                    s_ = sp.state[0]        # X.m() without argument (list.clear())
                    return '(let %s := %s in\n %s)' % (s_, setter.format(s=s_, v=fmt.format(g=getter.format(s=s_))), cont())
                if len(st.value.args) != 1 or st.value.keywords:
                    raise TErr('statement method call shape ' + cd)

                def smeth(e):
                    v, t = self.ex(e)
                    s_ = sp.state[0]
                    return '(let %s := %s in\n %s)' % (s_, setter.format(s=s_, v=fmt.format(g=getter.format(s=s_), a=v)), cont())
                return self.with_effects(st.value.args[0], smeth)
            if cd in sp.calls and sp.calls[cd].get('kind') == 'noop':
                for a_ in list(st.value.args) + [k_.value for k_ in st.value.keywords]:
                    if not isinstance(a_, (ast.Constant, ast.JoinedStr)):
                        raise TErr('no-op call %s with a non-constant argument' % cd)
                return cont()
            if cd in sp.calls and sp.calls[cd].get('kind') == 'mutarg':
                # f(X) mutating the object stored in attribute X
                if len(st.value.args) != 1 or st.value.keywords:
                    raise TErr('mutarg call shape')
                ad = dotted(st.value.args[0])
                if ad not in sp.attrs or sp.attrs[ad][2] is None:
                    raise TErr('mutarg on undeclared attribute %s' % ad)
                at, getter, setter = sp.attrs[ad]
                fn = sp.calls[cd]['by_type'].get(str(at))
                if fn is None:
                    raise TErr('mutarg %s on type %s' % (cd, at))
                s_ = sp.state[0]
                return '(let %s := %s in\n %s)' % (s_, setter.format(s=s_, v='(%s %s)' % (fn, getter.format(s=s_))), cont())
            if isinstance(st.value.func, ast.Attribute) and st.value.func.attr == 'append' and len(st.value.args) == 1 \
                    and dotted(st.value.func.value) in sp.attrs and sp.attrs[dotted(st.value.func.value)][2]:
                ad = dotted(st.value.func.value)
                at, getter, setter = sp.attrs[ad]
                if not (isinstance(at, tuple) and at[0] == 'list'):
                    raise TErr('append on non-list attribute')

                def app(e):
                    v, t = self.ex(e)
                    s_ = sp.state[0]
                    return '(let %s := %s in\n %s)' % (s_, setter.format(s=s_, v='(%s ++ [%s])' % (getter.format(s=s_), self.coerce(v, t, at[1]) if at[1] in ('Z', 'T') else v)), cont())
                return self.with_effects(st.value.args[0], app)
            if self._is_effect(st.value):
                return self.with_effects(st.value, lambda e: cont())
            # pure call whose value is dropped: only allowed if declared droppable
            raise TErr('statement-level call to pure/undeclared %s' % dotted(st.value.func))
        if isinstance(st, ast.If):
            test = st.test
            # statically known tests (declared consts)
            sv = self.static_bool(test)
            if sv is True:
                return self.block(list(st.body) + rest, k)
            if sv is False:
                return self.block(list(st.orelse) + rest, k)
            def branches(e):
                c = self.truthy(*self.ex(e))
                saved2 = dict(self.vars)
                a = self.block(list(st.body) + rest, k)
                self.vars = dict(saved2)
                b = self.block(list(st.orelse) + rest, k)
                self.vars = dict(saved2)
                return '(if %s\n then %s\n else %s)' % (c, a, b)
            return self.with_effects(test, branches)
        if isinstance(st, ast.For):
            return self.for_loop(st, cont)
        if isinstance(st, ast.While):
            return self.while_loop(st, cont)
        raise TErr('statement node ' + type(st).__name__ + ': ' + ast.unparse(st)[:80])

    def _ret_coerce(self, v, t):
        rw = getattr(self.spec, 'retwrap', None)
        if rw:
            key = t if not isinstance(t, tuple) else str(t)
            if key in rw:
                return rw[key].format(v=v)
            raise TErr('return of type %s has no wrapper' % (t,))
        want = self.spec.ret
        if want is None or want == t:
            return v
        if want == 'T' and t == 'Z':
            return self.coerce(v, t, 'T')
        if isinstance(want, tuple) and want[0] == 'opt':
            if t == 'none':
                return 'None'
            if t == want[1]:
                return '(Some %s)' % v
        if t == 'none' and want == 'unit':
            return 'tt'
        if isinstance(want, tuple) and isinstance(t, tuple) and want[0] == t[0]:
            return v
        raise TErr('return type %s, expected %s' % (t, want))

    def static_bool(self, test):
        sp = self.spec
        if isinstance(test, ast.Compare) and len(test.ops) == 1 and isinstance(test.left, ast.Name) \
                and test.left.id in sp.consts and isinstance(test.comparators[0], ast.Constant):
            lv, rv = sp.consts[test.left.id], test.comparators[0].value
            o = type(test.ops[0]).__name__
            if o in ('Is', 'Eq'):
                return lv is rv or lv == rv
            if o in ('IsNot', 'NotEq'):
                return not (lv is rv or lv == rv)
        if isinstance(test, ast.Name) and test.id in sp.consts:
            return bool(sp.consts[test.id])
        return None

    def assign(self, tg, v, t, cont):
        sp = self.spec
        if isinstance(tg, ast.Name):
            nm = tg.id
            cn = nm if nm not in ('s', 'T', 'N') else nm + '_'
            self.vars[nm] = (cn, t)
            return '(let %s := %s in\n %s)' % (cn, v, cont())
        if isinstance(tg, ast.Tuple) and all(isinstance(e, ast.Name) for e in tg.elts):
            if not (isinstance(t, tuple) and t[0] == 'tuple' and len(t[1]) == len(tg.elts)):
                raise TErr('tuple unpack of %s' % (t,))
            for e, et in zip(tg.elts, t[1]):
                self.vars[e.id] = (e.id, et)
            return "(let '(%s) := %s in\n %s)" % (', '.join(e.id for e in tg.elts), v, cont())
        if isinstance(tg, ast.Attribute):
            d = dotted(tg)
            if sp.mode != 'state':
                raise TErr('attribute assignment outside state mode')
            if d not in sp.attrs or sp.attrs[d][2] is None:
                raise TErr('assignment to undeclared/readonly attribute %s' % d)
            ft, _, setter = sp.attrs[d]
            s = sp.state[0]
            if (str(t), str(ft)) in sp.conv:
                v = self.coerce(v, t, ft)
            elif isinstance(ft, tuple) and ft[0] == 'opt' and t == ft[1]:
                v = '(Some %s)' % v
            elif isinstance(ft, tuple) and ft[0] == 'opt' and t == 'none':
                v = 'None'
            elif isinstance(ft, tuple) and ft[0] == 'list' and isinstance(t, tuple) and t[0] == 'list':
                pass
            else:
                v = self.coerce(v, t, ft)
            return '(let %s := %s in\n %s)' % (s, setter.format(s=s, v=v), cont())
        raise TErr('assignment target ' + ast.unparse(tg))

    def _is_effect(self, call):
        if not isinstance(call, ast.Call):
            return False
        d = dotted(call.func)
        return d in self.spec.calls and self.spec.calls[d].get('kind', 'pure') != 'pure'

    def with_effects(self, expr, k):
        """hoist effectful sub-expressions (declared effect calls, effectful attributes) of `expr`
        in evaluation order into monadic binds, then continue with the rewritten pure expression"""
        found = []
        tr = self

        class H(ast.NodeTransformer):
            depth = 0

            def visit_BoolOp(s2, node):
                node.values[0] = s2.visit(node.values[0])
                s2.depth += 1
                node.values[1:] = [s2.visit(v) for v in node.values[1:]]
                s2.depth -= 1
                return node

            def visit_IfExp(s2, node):
                node.test = s2.visit(node.test)
                s2.depth += 1
                node.body = s2.visit(node.body)
                node.orelse = s2.visit(node.orelse)
                s2.depth -= 1
                return node

            def note(s2, node, cspec):
                if s2.depth > 0 and not cspec.get('idem'):
                    raise TErr('effectful sub-expression under short-circuit: ' + ast.unparse(node))
                nm = tr.fresh('e')
                found.append((nm, node))
                return ast.Name(id=nm, ctx=ast.Load())

            def visit_Call(s2, node):
                if isinstance(node.func, ast.Attribute) and node.func.attr == 'pop' and \
                        dotted(node.func.value) in tr.spec.attrs and tr.spec.attrs[dotted(node.func.value)][2]:
                    return s2.note(node, {})
                node = s2.generic_visit(node)
                if tr._is_effect(node):
                    return s2.note(node, tr.spec.calls[dotted(node.func)])
                return node

            def visit_Subscript(s2, node):
                d_ = dotted(node.value)
                if d_ in tr.spec.attrs and isinstance(tr.spec.attrs[d_][0], tuple) and tr.spec.attrs[d_][0][0] == 'list' \
                        and ((isinstance(node.slice, ast.Constant) and node.slice.value == 0) or
                             (isinstance(node.slice, ast.UnaryOp) and isinstance(node.slice.op, ast.USub)
                              and isinstance(node.slice.operand, ast.Constant) and node.slice.operand.value == 1)):
                    return s2.note(node, {'idem': True})
                if isinstance(node.value, ast.Name) and node.value.id in tr.vars and isinstance(tr.vars[node.value.id][1], tuple) \
                        and tr.vars[node.value.id][1][0] == 'list' and tr.spec.mode != 'pure':
                    sl = node.slice
                    if (isinstance(sl, ast.Constant) and sl.value == 0) or \
                            (isinstance(sl, ast.UnaryOp) and isinstance(sl.op, ast.USub) and isinstance(sl.operand, ast.Constant) and sl.operand.value == 1):
                        return s2.note(node, {'idem': True})
                return s2.generic_visit(node)

            def visit_Attribute(s2, node):
                d = dotted(node)
                if d in tr.spec.eattrs:
                    return s2.note(node, tr.spec.eattrs[d])
                return s2.generic_visit(node)

        new = H().visit(copy.deepcopy(expr))

        def chain(i):
            if i == len(found):
                return k(new)
            nm, node = found[i]

            def bound(v, t):
                tr.vars[nm] = (v, t)
                return chain(i + 1)
            return tr.effect(node, bound)
        return chain(0)

    def effect(self, call, k):
        """effectful call: kind 'res' : args -> result ret ;  kind 'prim': state -> args -> result (state*ret)"""
        sp = self.spec
        if isinstance(call, ast.Subscript) and isinstance(call.value, ast.Name):
            lv, lt = self.vars[call.value.id]
            fn = 'lget0' if isinstance(call.slice, ast.Constant) else 'lgetlast'
            r = self.fresh('r')
            if sp.mode == 'state':
                return '(bindr (%s %s) %s (fun %s =>\n %s))' % (fn, lv, sp.state[0], r, k(r, lt[1]))
            return '(bind (%s %s) (fun %s =>\n %s))' % (fn, lv, r, k(r, lt[1]))
        if isinstance(call, ast.Subscript):
            at, getter, _ = sp.attrs[dotted(call.value)]
            r = self.fresh('r')
            fn = 'lget0' if isinstance(call.slice, ast.Constant) else 'lgetlast'
            return '(bindr (%s %s) %s (fun %s =>\n %s))' % (fn, getter.format(s=sp.state[0]), sp.state[0], r, k(r, at[1]))
        if isinstance(call, ast.Call) and isinstance(call.func, ast.Attribute) and call.func.attr == 'pop' \
                and dotted(call.func.value) in sp.attrs and dotted(call.func) not in sp.calls:
            at, getter, setter = sp.attrs[dotted(call.func.value)]
            if len(call.args) == 1 and isinstance(call.args[0], ast.Constant) and call.args[0].value == 0:
                fn = 'lpop0'
            elif not call.args:
                fn = 'lpop'
            else:
                raise TErr('pop with argument ' + ast.unparse(call))
            r, l = self.fresh('r'), self.fresh('l')
            s_ = sp.state[0]
            return "(bindr (%s %s) %s (fun '(%s, %s) =>\n (let %s := %s in\n %s)))" % (
                fn, getter.format(s=s_), s_, l, r, s_, setter.format(s=s_, v=l), k(r, at[1]))
        if isinstance(call, ast.Attribute):
            c = sp.eattrs[dotted(call)]
            d = dotted(call)
            given, kw = [], {}
        else:
            d = dotted(call.func)
            c = sp.calls[d]
            given = list(call.args)
            kw = {x.arg: x.value for x in call.keywords}
        args = []
        names = c.get('kw', [])
        for i, want in enumerate(c['args']):
            if i < len(given):
                node = given[i]
            elif i < len(names) and names[i] in kw:
                node = kw.pop(names[i])
            elif 'defaults' in c and names[i] in c['defaults']:
                node = ast.Constant(c['defaults'][names[i]])
            else:
                raise TErr('call %s: missing argument %d' % (d, i))
            if isinstance(want, tuple) and want[0] == 'const':
                if not (isinstance(node, ast.Constant) and node.value == want[1]):
                    raise TErr('call %s: argument %d must be the constant %r' % (d, i, want[1]))
                continue
            if want == 'drop':
                continue
            a, ta = self.ex(node)
            if want == 'any':
                args.append(a)
            elif isinstance(want, tuple) and want[0] == 'opt' and ta == 'none':
                args.append('None')
            elif isinstance(want, tuple) and want[0] == 'opt' and ta == want[1]:
                args.append('(Some %s)' % a)
            else:
                args.append(self.coerce(a, ta, want))
        for kname in list(kw):
            if kname in c.get('ignore_kw', []):
                kw.pop(kname)
        if kw:
            raise TErr('call %s: unexpected keyword(s) %s' % (d, sorted(kw)))
        if sp.mode == 'pure':
            raise TErr('effectful call in pure function')
        if 'by_type' in c and c['kind'] == 'res':
            a0, t0 = self.ex(given[0])
            fnn = c['by_type'].get(str(t0))
            if fnn is None:
                raise TErr('call %s on type %s' % (d, t0))
            c = dict(c, fn=fnn)
            args = [a0]
        r = self.fresh('r')
        if c['kind'] == 'res':
            body = k(r, c['ret'])
            if sp.mode == 'state':
                return '(bindr (%s) %s (fun %s =>\n %s))' % (' '.join([c['fn']] + c.get('pre', []) + args), sp.state[0], r, body)
            return '(bind (%s) (fun %s =>\n %s))' % (' '.join([c['fn']] + c.get('pre', []) + args), r, body)
        if c['kind'] == 'prim':
            if sp.mode != 'state':
                raise TErr('primitive call outside state mode')
            s = sp.state[0]
            head = ' '.join([c['fn']] + c.get('pre', []) + [s] + args)
            body = k(r, c['ret'])
            return "(sbind (%s) (fun %s %s =>\n %s))" % (head, s, r, body)
        raise TErr('call kind')

    # loops: accumulators are the local names assigned in the body that exist before the loop
    def assigned_names(self, body):
        out = []
        for n in ast.walk(ast.Module(body=body, type_ignores=[])):
            if isinstance(n, (ast.Assign, ast.AugAssign)):
                tgs = n.targets if isinstance(n, ast.Assign) else [n.target]
                for tg in tgs:
                    for e in ([tg] if isinstance(tg, ast.Name) else (tg.elts if isinstance(tg, ast.Tuple) else [])):
                        if isinstance(e, ast.Name) and e.id not in out:
                            out.append(e.id)
        return out

    def for_loop(self, st, cont):
        sp = self.spec
        if st.orelse:
            raise TErr('for-else')
        it = st.iter
        if not isinstance(st.target, ast.Name) and ast.unparse(it) not in sp.lockstep:
            raise TErr('for target')
        if ast.unparse(it) in sp.lockstep:
            binds = sp.lockstep[ast.unparse(it)]
            tgs = [st.target] if isinstance(st.target, ast.Name) else list(st.target.elts)
            for tg in tgs:
                if not isinstance(tg, ast.Name) or tg.id not in binds:
                    raise TErr('lock-step loop target ' + ast.unparse(st.target))
                self.vars[tg.id] = binds[tg.id]
            # all optimised parameters move in lock-step: the body is executed for the one symbolic parameter
            return self.block(list(st.body), cont)
        if isinstance(it, ast.Call) and dotted(it.func) == 'range' and len(it.args) in (1, 2):
            if len(it.args) == 1:
                lo, hi = zlit(0), self.ex(it.args[0])[0]
            else:
                lo, hi = self.ex(it.args[0])[0], self.ex(it.args[1])[0]
            seq, et = '(zrange %s %s)' % (lo, hi), 'Z'
        else:
            a, ta = self.ex(it)
            if not (isinstance(ta, tuple) and ta[0] == 'list'):
                raise TErr('for over %s' % (ta,))
            seq, et = a, ta[1]
        accs = [x for x in self.assigned_names(st.body) if x in self.vars]
        if not accs and sp.mode != 'state':
            raise TErr('loop without accumulators')
        saved = dict(self.vars)
        self.vars[st.target.id] = (st.target.id, et)
        acc_pat = ', '.join(accs) if accs else 'tt'
        acc_tuple = '(%s)' % ', '.join(self.vars[x][0] for x in accs) if accs else 'tt'

        def end_body():
            return self._loop_ret('(%s)' % ', '.join(self.vars[x][0] for x in accs) if accs else 'tt')
        old_mode_ret = self.ret_val
        body = self.block(list(st.body), end_body)
        self.vars = dict(saved)
        for x in accs:
            pass
        s = sp.state[0] if sp.mode == 'state' else None
        if sp.mode == 'pure':
            loop = "(fold_left (fun '(%s) %s => %s) %s %s)" % (acc_pat, st.target.id, body, seq, acc_tuple)
            return "(let '(%s) := %s in\n %s)" % (acc_pat, loop, cont())
        if sp.mode == 'res':
            loop = "(foldM (fun '(%s) %s => %s) %s %s)" % (acc_pat, st.target.id, body, seq, acc_tuple)
            return "(bind %s (fun '(%s) =>\n %s))" % (loop, acc_pat, cont())
        loop = "(sfoldM (fun %s '(%s) %s => %s) %s %s %s)" % (s, acc_pat, st.target.id, body, seq, s, acc_tuple)
        return "(sbind %s (fun %s '(%s) =>\n %s))" % (loop, s, acc_pat, cont())

    def _loop_ret(self, accs):
        sp = self.spec
        if sp.mode == 'pure':
            return accs
        if sp.mode == 'res':
            return '(Ok %s)' % accs
        return '(SOk %s %s)' % (sp.state[0], accs)

    def while_loop(self, st, cont):
        sp = self.spec
        if sp.mode != 'res' or st.orelse:
            raise TErr('while only in res mode')
        accs = [x for x in self.assigned_names(st.body) if x in self.vars]
        saved = dict(self.vars)
        pat = ', '.join(accs)
        cond = self.truthy(*self.ex(st.test))
        body = self.block(list(st.body), lambda: '(Ok (%s))' % ', '.join(self.vars[x][0] for x in accs))
        self.vars = dict(saved)
        init = '(%s)' % ', '.join(self.vars[x][0] for x in accs)
        loop = "(whileM %s (fun '(%s) => %s) (fun '(%s) => %s) %s)" % (sp.fuel or 'fuel', pat, cond, pat, body, init)
        return "(bind %s (fun '(%s) =>\n %s))" % (loop, pat, cont())

    # ---- top level
    def translate(self):
        sp = self.spec
        a = self.fn.args
        pynames = [x.arg for x in a.posonlyargs + a.args + a.kwonlyargs]
        if pynames and pynames[0] == sp.self_name:
            pynames = pynames[1:]
        declared = [p[0] for p in sp.params]
        for nm in pynames:
            if nm not in declared and nm not in sp.consts:
                raise TErr('parameter %s of %s not declared' % (nm, sp.name))
        if a.vararg or a.kwarg:
            if not sp.consts.get('**', False):
                raise TErr('varargs')
        binders = []
        self.vars.update(sp.presets)
        for nm, t in sp.params:
            if nm not in pynames:
                raise TErr('declared parameter %s missing from python signature %s' % (nm, pynames))
            self.vars[nm] = (nm, t)
            binders.append('(%s : %s)' % (nm, tname(t)))
        if sp.state:
            binders.insert(0, '(%s : %s)' % sp.state)
        body = self.block(list(self.fn.body), lambda: self.ret_val('tt') if sp.ret in (None, 'unit') else self._fall())
        pre = (sp.pre + ' ') if sp.pre else ''
        ann = ''
        if sp.ret is not None:
            rt = tname(sp.ret)
            if sp.mode == 'res':
                rt = 'result %s' % rt
            elif sp.mode == 'state':
                rt = 'sres %s %s' % (sp.state[1], rt)
            ann = ' : ' + rt
        return 'Definition %s %s%s%s :=\n %s.\n' % (sp.name, pre, ' '.join(binders), ann, body)

    def _fall(self):
        if isinstance(self.spec.ret, tuple) and self.spec.ret[0] == 'opt':
            return self.ret_val('None')
        raise TErr('control can fall off the end of %s' % self.spec.name)


def find_def(tree, qual):
    parts = qual.split('.')
    body = tree.body
    node = None
    for p in parts:
        node = None
        for n in body:
            if isinstance(n, (ast.FunctionDef, ast.ClassDef)) and n.name == p:
                node = n
                break
        if node is None:
            raise TErr('definition %s not found' % qual)
        body = node.body
    return node


def module_constants(tree):
    out = {}
    for n in tree.body:
        if isinstance(n, ast.Assign) and len(n.targets) == 1 and isinstance(n.targets[0], ast.Name) \
                and isinstance(n.value, ast.Constant):
            out[n.targets[0].id] = n.value
    return out


def translate_function(path, qual, spec):
    src = open(path).read()
    tree = ast.parse(src)
    fn = find_def(tree, qual)
    if not isinstance(fn, ast.FunctionDef):
        raise TErr('%s is not a function' % qual)
    for d in fn.decorator_list:
        if ast.unparse(d) not in ('property', 'classmethod', 'abc.abstractmethod', 'staticmethod'):
            raise TErr('decorator %s' % ast.unparse(d))
    return Tr(spec, fn, module_constants(tree)).translate()


def strip_doc(body):
    if body and isinstance(body[0], ast.Expr) and isinstance(body[0].value, ast.Constant) \
            and isinstance(body[0].value.value, str):
        return body[1:]
    return body


def pin_function(path, qual, expected_src, coq_text):
    """A function outside the translatable fragment (dictionary idioms): its body must be
    textually (ast-normalised) equal to `expected_src`; then the fixed Coq text is emitted."""
    tree = ast.parse(open(path).read())
    fn = find_def(tree, qual)
    for sub in ast.walk(fn):
        if isinstance(sub, (ast.FunctionDef, ast.ClassDef)) and sub is not fn:
            sub.body = strip_doc(sub.body) or [ast.Pass()]
    got = ast.unparse(ast.Module(body=strip_doc(fn.body), type_ignores=[]))
    want = ast.unparse(ast.parse(expected_src))
    if got != want:
        raise TErr('pinned function %s changed:\n--- expected\n%s\n--- found\n%s' % (qual, want, got))
    return coq_text
