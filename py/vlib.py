"""vlib -- shared machinery of the /verif check driver: context, Coq build / evaluation,
evidence, violation and known-finding reporting."""
import fcntl, hashlib, json, os, random, re, subprocess, sys, time

ROOT = os.path.dirname(os.path.dirname(os.path.abspath(__file__)))
COQ = os.path.join(ROOT, 'coq')
REPO = os.environ.get('VERIF_REPO', '/repo')
PY = '/venv/bin/python'

ALLOWED_AXIOMS = {
    'ClassicalDedekindReals.sig_not_dec', 'ClassicalDedekindReals.sig_forall_dec',
    'FunctionalExtensionality.functional_extensionality_dep', 'Classical_Prop.classic',
    'ClassicalEpsilon.constructive_indefinite_description', 'Eqdep.Eq_rect_eq.eq_rect_eq',
    'JMeq.JMeq_eq', 'ProofIrrelevance.proof_irrelevance',
    'PropExtensionality.propositional_extensionality',
}
# primitive machine types / operations (reported by Print Assumptions when PrimFloat / Uint63 are used)
PRIM_PREFIXES = ('PrimFloat.', 'Uint63.', 'PrimInt63.', 'FloatOps.', 'FloatAxioms.', 'Uint63Axioms.',
                 'SpecFloat.', 'Sint63.', 'CarryType.', 'PrimString.')

TRUSTED_BASE = [
    'Coq 8.16.1 kernel (coqc); vm_compute used for finite/decidable facts and witnesses; no native_compute',
    'translator py/translate (Python ast -> Gallina, fail-closed whitelist), cross-checked by the correspondence run',
    'correspondence harness (generators, canonicalisers, tolerances) in py/props',
    'PyTorch/NumPy/SciPy kernels, autograd, torch.normal/torch.rand as i.i.d. sources: modelled, not verified',
]


class Broken(Exception):
    """a proof obligation or a correspondence no longer checks"""


class Ctx:
    def __init__(self, pid, tier, seed):
        self.pid, self.tier, self.seed = pid, tier, seed
        self.rng = random.Random(seed * 1000003 + int(pid[1:]))
        self.t0 = time.time()
        self.evaluations = 0
        self.samples = []
        self.hashes = set()
        self.dist = {}
        self.obligations = []       # (name, ok, detail)
        self.broken = []            # strings naming theorem / correspondence that no longer checks
        self.failures = []          # dict(key, what, case)
        self.known_lines = []
        self.traces = 0
        self.notes = []
        self.assumptions = {}
        self.extra = {}

    @property
    def thorough(self):
        return self.tier == 'thorough'

    def n(self, quick, thorough):
        return thorough if self.thorough else quick

    def case(self, canon, nontrivial=True, sample=None, kind=None):
        """register one explored case; canon is a JSON-able canonical form"""
        self.evaluations += 1
        if nontrivial:
            self.hashes.add(hashlib.sha1(json.dumps(canon, sort_keys=True, default=str).encode()).hexdigest())
        if kind is not None:
            self.dist[kind] = self.dist.get(kind, 0) + 1
        if sample is not None and len(self.samples) < 6:
            self.samples.append(sample)
        elif len(self.samples) < 3:
            self.samples.append(canon)

    def obligation(self, name, ok, detail=''):
        self.obligations.append((name, bool(ok), detail))
        if not ok:
            self.broken.append('%s: %s' % (name, detail[:2000]))

    def fail(self, key, what, case):
        self.failures.append({'key': key, 'what': what, 'case': case})

    def note(self, s):
        self.notes.append(s)


# ---------------------------------------------------------------- Coq
def sh(cmd, timeout=1200, cwd=None, env=None, inp=None):
    p = subprocess.run(cmd, shell=isinstance(cmd, str), cwd=cwd, env=env, input=inp,
                       stdout=subprocess.PIPE, stderr=subprocess.STDOUT, timeout=timeout, text=True)
    return p.returncode, p.stdout


class CoqLock:
    def __enter__(self):
        self.f = open(os.path.join(COQ, '.lock'), 'w')
        fcntl.flock(self.f, fcntl.LOCK_EX)

    def __exit__(self, *a):
        fcntl.flock(self.f, fcntl.LOCK_UN)
        self.f.close()


def coq_project():
    """(re)write _CoqProject and Makefile.coq from the files present"""
    files = []
    for d in ['Base', 'Model', 'Gen', 'Proofs', 'Exec', 'Properties', 'Findings']:
        dd = os.path.join(COQ, d)
        if os.path.isdir(dd):
            files += sorted(os.path.join(d, f) for f in os.listdir(dd) if f.endswith('.v') and (d != 'Exec' or f.startswith('Run')))
    text = '-Q . OV\n-arg -w -arg -notation-overridden,-deprecated-hint-without-locality,-deprecated-instance-without-locality\n' + '\n'.join(files) + '\n'
    p = os.path.join(COQ, '_CoqProject')
    old = open(p).read() if os.path.exists(p) else ''
    if old != text or not os.path.exists(os.path.join(COQ, 'Makefile.coq')):
        open(p, 'w').write(text)
        rc, out = sh('coq_makefile -f _CoqProject -o Makefile.coq', cwd=COQ)
        if rc != 0:
            raise RuntimeError('coq_makefile failed: ' + out)


def translate(only=None):
    sys.path.insert(0, ROOT)
    from py.translate import run as trun
    return trun.run(REPO, only)


def coq_make(targets, timeout=1500, jobs=16):
    """make the given .vo targets; returns (ok, output)"""
    coq_project()
    rc, out = sh('timeout %d make -f Makefile.coq -j%d %s' % (timeout, jobs, ' '.join(targets)), cwd=COQ, timeout=timeout + 30)
    return rc == 0, out


def first_error(out):
    m = re.search(r'File "([^"]+)", line (\d+), characters [^\n]*\n((?:.*\n){0,12})', out)
    if not m:
        return out[-1500:]
    f, ln, msg = m.group(1), int(m.group(2)), m.group(3)
    thm = ''
    try:
        lines = open(os.path.join(COQ, f)).read().split('\n')
        for i in range(min(ln, len(lines)) - 1, -1, -1):
            mm = re.match(r'\s*(Theorem|Lemma|Example|Corollary|Definition|Fixpoint)\s+(\w+)', lines[i])
            if mm:
                thm = mm.group(2)
                break
    except Exception:
        pass
    return '%s:%d %s :: %s' % (f, ln, ('in ' + thm) if thm else '', ' '.join(msg.split())[:600])


def check_property_file(ctx, pid, gen_status, gens_needed):
    """Tie A + proofs: regenerate, build deps, compile Properties/<pid>.v capturing Print Assumptions.
    Registers one obligation per theorem of the property file."""
    propfile = 'Properties/%s.v' % pid
    for g in gens_needed:
        st = gen_status.get(g, {'ok': False, 'error': 'generator missing'})
        ctx.obligation('translate:Gen/%s.v' % g, st['ok'], st.get('error', ''))
    src = open(os.path.join(COQ, propfile)).read()
    thms = re.findall(r'^\s*(?:Theorem|Corollary)\s+(\w+)', src, re.M)
    with CoqLock():
        ok, out = coq_make([propfile + 'o'])
        if ok:
            rc, pout = sh('timeout 900 coqc -q -Q . OV -w -notation-overridden,-deprecated-hint-without-locality,-deprecated-instance-without-locality %s' % propfile, cwd=COQ, timeout=930)
            ok = rc == 0
            out = pout
    if not ok:
        err = first_error(out)
        for i, t in enumerate(thms):
            ctx.obligation('theorem:' + t, False, ('does not build: ' + err) if i == 0 else 'does not build (same failure)')
        return False
    # parse Print Assumptions blocks in order
    blocks = re.split(r'(?=^Closed under the global context|^Axioms:)', out, flags=re.M)
    blocks = [b for b in blocks if b.startswith('Closed under') or b.startswith('Axioms:')]
    printed = re.findall(r'^Print Assumptions (\w+)\.', src, re.M)
    for t in thms:
        if t not in printed:
            ctx.obligation('theorem:' + t, False, 'no Print Assumptions for it in ' + propfile)
    if len(blocks) != len(printed):
        ctx.obligation('assumptions:' + pid, False, 'cannot match Print Assumptions output (%d blocks, %d commands)' % (len(blocks), len(printed)))
        return False
    allok = True
    for t, b in zip(printed, blocks):
        if b.startswith('Closed'):
            ctx.assumptions[t] = []
            good = True
            bad = []
        else:
            entries = re.findall(r'^([A-Za-z_][\w.\']*)\s*:\s*([^\n]*(?:\n\s+[^\n]*)*)', b[len('Axioms:'):], re.M)
            names = [e[0] for e in entries]

            def primitive(name, ty):
                # machine floats / 63-bit integers: primitive types and operations, not axioms of this development
                if name.startswith(PRIM_PREFIXES) or name in ('float', 'int'):
                    return True
                toks = set(re.findall(r'[A-Za-z_][\w.]*', ty))
                return '.' not in name and bool(toks & {'float', 'PrimInt63.int', 'int'}) and toks <= {
                    'float', 'PrimInt63.int', 'int', 'bool', 'Set', 'PrimFloat.float', 'float_comparison', 'float_class',
                    'PrimFloat.float_comparison', 'PrimFloat.float_class', 'comparison', 'FloatClass.float_class', 'carry', 'prod'}
            bad = [n_ for n_, ty in entries if n_ not in ALLOWED_AXIOMS and not primitive(n_, ty)]
            ctx.assumptions[t] = names
            good = not bad
        if t in thms:
            ctx.obligation('theorem:' + t, good, '' if good else 'non-whitelisted assumptions: %s' % bad)
        allok = allok and good
    if allok and ctx.thorough:
        coqchk_property(ctx, pid)
    return allok


def coqchk_property(ctx, pid, timeout=2400):
    """thorough tier: re-check Properties/<pid>.vo and everything it depends on with the independent checker; record its axiom summary"""
    with CoqLock():
        rc, out = sh('timeout %d coqchk -silent -o -Q . OV OV.Properties.%s' % (timeout, pid), cwd=COQ, timeout=timeout + 30)
    m = re.search(r'\* Axioms:(.*?)\n\s*\n\* Constants/Inductives relying on type-in-type', out, re.S)
    axioms = [a.strip() for a in (m.group(1).split('\n') if m else []) if a.strip() and a.strip() != '<none>']
    bad = [a for a in axioms if not (a.split(' ')[0].split('Coq.')[-1] in ALLOWED_AXIOMS or any(x in a for x in ALLOWED_AXIOMS)
                                     or 'Reals' in a or 'PrimFloat' in a or 'Uint63' in a or 'Float' in a or 'Int63' in a)]
    clean = rc == 0 and 'type-in-type: <none>' in out and 'unsafe (co)fixpoints: <none>' in out and 'positivity is assumed: <none>' in out
    ctx.extra['coqchk'] = {'rc': rc, 'axioms': axioms[:60], 'summary_clean': clean}
    ctx.obligation('coqchk:Properties/%s.vo' % pid, clean and not bad, '' if clean and not bad else ('coqchk rc=%d; unexpected axioms %s; %s' % (rc, bad[:5], out[-400:])))


def coq_eval(name, header, body, timeout=900):
    """compile a scratch file coq/Exec/<name>.v ; returns (rc, output)"""
    d = os.path.join(COQ, 'Exec')
    os.makedirs(d, exist_ok=True)
    p = os.path.join(d, name + '.v')
    open(p, 'w').write(header + '\n' + body + '\n')
    rc, out = sh('timeout %d coqc -q -Q . OV -w -notation-overridden,-deprecated-hint-without-locality,-deprecated-instance-without-locality Exec/%s.v' % (timeout, name), cwd=COQ, timeout=timeout + 30)
    for ext in ('.vo', '.vok', '.vos', '.glob'):
        try:
            os.remove(os.path.join(d, name + ext))
        except OSError:
            pass
    try:
        os.remove(os.path.join(d, '.' + name + '.aux'))
    except OSError:
        pass
    return rc, out


def parse_eval_lists(out):
    """every `= [...] : list ...` printed by Eval, as python lists of ints (nat or Z)"""
    res = []
    for m in re.finditer(r'=\s*(\[.*?\]|nil)\s*:\s*list', out, re.S):
        t = m.group(1)
        if t == 'nil':
            res.append([])
            continue
        t = re.sub(r'%\w+', '', t)
        inner = t.strip()[1:-1].strip()
        res.append([int(x.replace('(', '').replace(')', '').strip()) for x in inner.split(';')] if inner else [])
    return res


def fhex(x):
    """python float -> Coq PrimFloat literal"""
    import math
    x = float(x)
    if math.isnan(x):
        return 'nan'
    if math.isinf(x):
        return 'infinity' if x > 0 else 'neg_infinity'
    if x == 0:
        return '(0)%float' if math.copysign(1, x) > 0 else '(-0)%float'
    h = x.hex()
    return '(%s)%%float' % h


# ---------------------------------------------------------------- known findings / reporting
def load_known():
    p = os.path.join(ROOT, 'KNOWN_FINDINGS.json')
    if not os.path.exists(p):
        return []
    return json.load(open(p)).get('findings', [])


def finish(ctx, level='proof', rule='', checker_cmd='', extra_trusted=(), assumptions=()):
    """decide the outcome, print VIOLATION / KNOWN-FINDING lines, write evidence, return exit code"""
    known = [k for k in load_known() if k['property'] == ctx.pid and k.get('status', 'open') == 'open']
    known_keys = {k['key']: k for k in known}
    new_fail, seen_known = [], {}
    for f in ctx.failures:
        if f['key'] in known_keys:
            seen_known.setdefault(f['key'], f)
        else:
            new_fail.append(f)
    for key, f in seen_known.items():
        line = 'KNOWN-FINDING: property=%s %s' % (ctx.pid, known_keys[key]['what'])
        print(line)
        ctx.known_lines.append(line)
    rc = 0
    rdir = os.path.join(ROOT, 'replay', ctx.pid)
    if new_fail or ctx.broken:
        os.makedirs(rdir, exist_ok=True)
        rc = 1
        if new_fail:
            f = new_fail[0]
            h = hashlib.sha1(json.dumps(f, sort_keys=True, default=str).encode()).hexdigest()[:12]
            path = os.path.join(rdir, h + '.json')
            json.dump({'property': ctx.pid, 'kind': 'failing-input', 'seed': ctx.seed, 'tier': ctx.tier,
                       'failure': f, 'other_failures': new_fail[1:6], 'broken_obligations': ctx.broken}, open(path, 'w'), indent=1, default=str)
            print('VIOLATION property=%s replay=%s' % (ctx.pid, path))
        else:
            h = hashlib.sha1('\n'.join(ctx.broken).encode()).hexdigest()[:12]
            path = os.path.join(rdir, 'broken_' + h + '.json')
            json.dump({'property': ctx.pid, 'kind': 'obligation-broken', 'seed': ctx.seed, 'tier': ctx.tier,
                       'no_longer_checks': ctx.broken,
                       'search': 'implementation oracle and model-side search found no failing input'}, open(path, 'w'), indent=1)
            print('VIOLATION property=%s replay=%s no-failing-input-found' % (ctx.pid, path))
    nob = len(ctx.obligations)
    ndis = sum(1 for o in ctx.obligations if o[1])
    ev = {
        'property_id': ctx.pid, 'tier': ctx.tier, 'seed': ctx.seed, 'level': level,
        'coverage': {
            'obligations': nob, 'discharged': ndis,
            'checker_cmd': checker_cmd or 'make -f Makefile.coq Properties/%s.vo && coqc Properties/%s.v (Print Assumptions whitelisted)' % (ctx.pid, ctx.pid),
            'trusted_base': TRUSTED_BASE + list(extra_trusted),
            'evaluations': ctx.evaluations, 'distinct_nontrivial': len(ctx.hashes),
            'rule': rule, 'samples': ctx.samples[:6] or ['(no correspondence cases in this run)'],
            'traces_validated_against_impl': ctx.traces,
            'obligation_list': [{'name': o[0], 'ok': o[1], 'detail': o[2][:300]} for o in ctx.obligations],
            'print_assumptions': ctx.assumptions,
            'input_distribution': ctx.dist,
            'known_findings_printed': ctx.known_lines,
            'notes': ctx.notes,
        },
        'assumptions': list(assumptions),
        'wall_s': round(time.time() - ctx.t0, 2),
        'violations': len(new_fail) + (1 if (ctx.broken and not new_fail) else 0),
    }
    ev['coverage'].update(ctx.extra)
    os.makedirs(os.path.join(ROOT, 'evidence'), exist_ok=True)
    json.dump(ev, open(os.path.join(ROOT, 'evidence', ctx.pid + '.json'), 'w'), indent=1, default=str)
    return rc


def run_impl(script, payload, timeout=1800, env_extra=None):
    """run an implementation-side harness script (py/harness/<script>) under /venv/bin/python with
    PYTHONPATH=/repo; JSON in on stdin, JSON out on stdout's last line"""
    env = dict(os.environ)
    env.update({'PYTHONPATH': REPO + os.pathsep + ROOT, 'PYTHONHASHSEED': '0', 'OMP_NUM_THREADS': '1',
                'OPACUS_VERIF': '1', 'PYTHONWARNINGS': 'ignore'})
    if env_extra:
        env.update(env_extra)
    p = subprocess.run([PY, os.path.join(ROOT, 'py', 'harness', script)], input=json.dumps(payload), env=env,
                       stdout=subprocess.PIPE, stderr=subprocess.PIPE, text=True, timeout=timeout, cwd=ROOT)
    if p.returncode != 0:
        raise RuntimeError('harness %s failed (rc=%d): %s' % (script, p.returncode, p.stderr[-3000:]))
    lines = [l for l in p.stdout.strip().split('\n') if l.strip()]
    return json.loads(lines[-1])
