import torch
# float32 compare with python double threshold
q=1/93
u=torch.tensor([0.010752688, 0.0107526881, 0.01075268], dtype=torch.float32)
print((u<q).tolist(), [float(x)<q for x in u.tolist()], float(torch.tensor(q,dtype=torch.float32)), q)
# find a float32 u where float32-compare and double-compare differ
import numpy as np
q32=np.float32(q)
cands=[np.nextafter(q32,np.float32(0)), q32, np.nextafter(q32,np.float32(1))]
for c in cands:
    t=torch.tensor([c],dtype=torch.float32)
    print(float(c), "torch:", (t<q).item(), "double:", float(c)<q)
