From Coq Require Import List Arith Lia.
Import ListNotations.
Set Implicit Arguments.

Section Pack.
Variables X H : Type.
Variable cell : X -> H -> H.

Fixpoint scan (h : H) (xs : list X) : list H :=
  match xs with [] => [] | x :: xs' => let h' := cell x h in h' :: scan h' xs' end.

Definition nonempty (A : Type) (l : list A) : bool := match l with [] => false | _ => true end.
Fixpoint takeWhile (A : Type) (p : A -> bool) (l : list A) : list A :=
  match l with [] => [] | a :: l' => if p a then a :: takeWhile p l' else [] end.
Definition heads (A : Type) (rows : list (list A)) : list A := flat_map (firstn 1) rows.
Definition map2 (A B C : Type) (f : A -> B -> C) (la : list A) (lb : list B) : list C :=
  map (fun ab => f (fst ab) (snd ab)) (combine la lb).

(* time-major "packed" view of a ragged, prefix-closed batch; fuel = max length *)
Fixpoint cols (A : Type) (fuel : nat) (rows : list (list A)) : list (list A) :=
  match fuel with
  | 0 => []
  | S f => match takeWhile (@nonempty A) rows with
           | [] => []
           | ne => heads ne :: cols f (map (@tl A) ne)
           end
  end.

(* the code's time loop: h_prev[:batch_size_t] then the cell, row-wise *)
Fixpoint loop (xs : list (list X)) (h : list H) : list (list H) :=
  match xs with
  | [] => []
  | x :: xs' => let h' := map2 cell x (firstn (length x) h) in h' :: loop xs' h'
  end.

Definition scans (h0 : list H) (rows : list (list X)) : list (list H) := map2 (fun s h => scan h s) rows h0.

Lemma heads_cons (A : Type) (x : A) r ne : heads ((x :: r) :: ne) = x :: heads ne.
Proof. reflexivity. Qed.
Lemma map2_cons (A B C : Type) (f : A -> B -> C) a la b lb : map2 f (a :: la) (b :: lb) = f a b :: map2 f la lb.
Proof. reflexivity. Qed.
Lemma scans_cons h hs r rs : scans (h :: hs) (r :: rs) = scan h r :: scans hs rs.
Proof. reflexivity. Qed.

Lemma nonempty_scan h s : nonempty (scan h s) = nonempty s.
Proof. destruct s; reflexivity. Qed.

Lemma takeWhile_scans : forall rows h0, length rows <= length h0 ->
  takeWhile (@nonempty H) (scans h0 rows) =
  scans (firstn (length (takeWhile (@nonempty X) rows)) h0) (takeWhile (@nonempty X) rows).
Proof.
  induction rows as [|r rows IH]; intros h0 Hl; [reflexivity|].
  destruct h0 as [|h h0]; [simpl in Hl; lia|]. rewrite scans_cons. simpl takeWhile.
  rewrite nonempty_scan. destruct (nonempty r); [|reflexivity].
  simpl length. simpl firstn. rewrite scans_cons. f_equal. apply IH. simpl in Hl; lia.
Qed.

Lemma takeWhile_all (A : Type) (p : A -> bool) l : Forall (fun a => p a = true) (takeWhile p l).
Proof. induction l as [|a l IH]; simpl; [constructor|]. destruct (p a) eqn:E; constructor; assumption. Qed.

Lemma heads_scans : forall ne h, length ne = length h -> Forall (fun r => nonempty r = true) ne ->
  heads (scans h ne) = map2 cell (heads ne) h.
Proof.
  induction ne as [|r ne IH]; intros h Hl Hne; [reflexivity|].
  destruct h as [|h0 h]; [discriminate|]. inversion Hne as [|? ? Hr Hne']; subst.
  destruct r as [|x r]; [discriminate|]. rewrite scans_cons. cbn [scan]. rewrite !heads_cons, map2_cons.
  f_equal. apply IH; [simpl in Hl; lia|assumption].
Qed.

Lemma tails_scans : forall ne h, length ne = length h -> Forall (fun r => nonempty r = true) ne ->
  map (@tl H) (scans h ne) = scans (map2 cell (heads ne) h) (map (@tl X) ne).
Proof.
  induction ne as [|r ne IH]; intros h Hl Hne; [reflexivity|].
  destruct h as [|h0 h]; [discriminate|]. inversion Hne as [|? ? Hr Hne']; subst.
  destruct r as [|x r]; [discriminate|]. rewrite scans_cons. cbn [scan map tl]. rewrite heads_cons, map2_cons.
  rewrite scans_cons. f_equal.
  apply IH; [simpl in Hl; lia|assumption].
Qed.

Lemma heads_length (A : Type) (ne : list (list A)) : Forall (fun r => nonempty r = true) ne -> length (heads ne) = length ne.
Proof. induction 1 as [|r ne Hr _ IH]; [reflexivity|]. destruct r; [discriminate|]. rewrite heads_cons. simpl. lia. Qed.

Lemma map2_length (A B C : Type) (f : A -> B -> C) la lb : length la = length lb -> length (map2 f la lb) = length la.
Proof. intros E. unfold map2. rewrite map_length, combine_length. lia. Qed.

(* packing the per-sequence recurrences = running the batched loop on the packed input *)
Lemma takeWhile_length_le (A : Type) (p : A -> bool) l : length (takeWhile p l) <= length l.
Proof. induction l as [|a l IH]; simpl; [lia|]. destruct (p a); simpl; lia. Qed.

Theorem packed_forward_refines_scan : forall fuel rows h0, length rows <= length h0 ->
  loop (cols fuel rows) h0 = cols fuel (scans h0 rows).
Proof.
  induction fuel as [|f IH]; intros rows h0 Hl; [reflexivity|].
  cbn [cols]. rewrite (takeWhile_scans rows h0 Hl).
  pose proof (takeWhile_all (@nonempty X) rows) as Hne.
  pose proof (takeWhile_length_le (@nonempty X) rows) as Hk.
  remember (takeWhile (@nonempty X) rows) as ne eqn:Ene.
  destruct ne as [|r0 ne']; [reflexivity|].
  destruct h0 as [|h1 h0']; [simpl in *; lia|].
  cbn [length firstn]. rewrite scans_cons. cbv iota. rewrite <- scans_cons.
  set (hk := h1 :: firstn (length ne') h0').
  assert (Hhk: length (r0 :: ne') = length hk).
  { unfold hk. simpl. rewrite firstn_length. simpl in Hk, Hl. lia. }
  cbn [loop]. rewrite heads_length by assumption.
  replace (firstn (length (r0 :: ne')) (h1 :: h0')) with hk by reflexivity.
  rewrite heads_scans by assumption. f_equal.
  rewrite tails_scans by assumption. apply IH.
  rewrite map_length, map2_length; rewrite heads_length by assumption; lia.
Qed.
End Pack.
Print Assumptions packed_forward_refines_scan.
