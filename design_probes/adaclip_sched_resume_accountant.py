import warnings; warnings.filterwarnings("ignore")
import torch, torch.nn as nn, math, io
from torch.utils.data import TensorDataset, DataLoader
from opacus import PrivacyEngine
from opacus.schedulers import ExponentialNoise, StepNoise, LambdaNoise, ExponentialGradClip
torch.manual_seed(0)
def setup(acc="rdp", clipping="flat", **kw):
    ds=TensorDataset(torch.randn(40,3), torch.randint(0,2,(40,))); dl=DataLoader(ds,batch_size=8)
    model=nn.Linear(3,2); opt=torch.optim.SGD(model.parameters(),lr=0.1, momentum=0.9)
    pe=PrivacyEngine(accountant=acc)
    m,o,l=pe.make_private(module=model,optimizer=opt,data_loader=dl,noise_multiplier=1.0,max_grad_norm=1.0,clipping=clipping,poisson_sampling=False,**kw)
    return pe,m,o,l
def train(m,o,l,n,sched=None):
    k=0
    while k<n:
        for xb,yb in l:
            o.zero_grad(); nn.functional.cross_entropy(m(xb),yb).backward(); o.step()
            if sched: sched.step()
            k+=1
            if k>=n: break
# C20
pe,m,o,l=setup(clipping="adaptive", target_unclipped_quantile=0.5, clipbound_learning_rate=0.2, max_clipbound=10., min_clipbound=0.1, unclipped_num_std=2.0)
print("adaclip noise_multiplier", o.noise_multiplier, "expected", (1-1/16)**-0.5)
c0=o.max_grad_norm; train(m,o,l,2); print("history", pe.accountant.history, "C", c0, "->", o.max_grad_norm)
# C17/C16: scheduler restore
pe,m,o,l=setup(); s=ExponentialNoise(o,gamma=0.5); train(m,o,l,3,s)
print("after 3: nm", o.noise_multiplier, "last_epoch", s.last_epoch, "hist", pe.accountant.history)
buf=io.BytesIO(); pe.save_checkpoint(path=buf,module=m,optimizer=o,noise_scheduler=s); buf.seek(0)
pe2,m2,o2,l2=setup(); s2=ExponentialNoise(o2,gamma=0.5)
pe2.load_checkpoint(path=buf,module=m2,optimizer=o2,noise_scheduler=s2)
print("restored: nm", o2.noise_multiplier, "last_epoch", s2.last_epoch, "hist", pe2.accountant.history, "eps eq", pe.get_epsilon(1e-5)==pe2.get_epsilon(1e-5))
train(m,o,l,2,s); train(m2,o2,l2,2,s2)
print("uninterrupted hist", pe.accountant.history); print("resumed hist     ", pe2.accountant.history)
# C05 len
print("len(accountant)", len(pe.accountant), "steps", sum(h[2] for h in pe.accountant.history))
# accountant mechanism mismatch
from opacus.accountants import RDPAccountant, PRVAccountant, GaussianAccountant
a=RDPAccountant(); a.step(noise_multiplier=1.,sample_rate=0.1); sd=a.state_dict()
b=PRVAccountant()
try: b.load_state_dict(sd); print("prv accepted rdp state!")
except ValueError as e: print("rejected ok")
try: b.load_state_dict({}); print("accepted empty")
except ValueError as e: print("empty rejected ok")
buf=io.BytesIO(); torch.save(sd,buf); buf.seek(0); sd2=torch.load(buf,weights_only=False); c=RDPAccountant(); c.load_state_dict(sd2); print("roundtrip", c.history)
