From Coq Require Import ZArith Floats.PrimFloat Uint63 List.
Import ListNotations.
Open Scope float_scope.
Definition fz (z:Z) : float := of_uint63 (Uint63.of_Z z).
(* int(x) >= n  <->  n <= x ; int(x) < n+1 <-> x < n+1 *)
Definition trunc_is (x:float) (n:Z) : bool := andb (PrimFloat.leb (fz n) x) (PrimFloat.ltb x (fz (n+1))).
Definition rate (L:Z) := 1 / fz L.
Definition len_dp (L:Z) (n:Z) := trunc_is (1 / rate L) n.
Eval vm_compute in (len_dp 93 93, len_dp 93 92, len_dp 100 100).
Definition steps_is (e L n:Z) := trunc_is (fz e / rate L) n.
Eval vm_compute in (steps_is 3 75 225, steps_is 3 75 224).
Definition bad (L:Z) : bool := negb (len_dp L L).
Eval vm_compute in filter bad (map Z.of_nat (seq 1 300)).
Theorem len_refuted : exists L, (0 < L)%Z /\ len_dp L L = false.
Proof. exists 93%Z. split; [reflexivity | vm_compute; reflexivity]. Qed.
Print Assumptions len_refuted.
