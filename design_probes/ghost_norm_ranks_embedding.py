import warnings; warnings.filterwarnings("ignore")
import torch, torch.nn as nn, math
torch.set_default_dtype(torch.float64)
from opacus.grad_sample import GradSampleModuleFastGradientClipping
torch.manual_seed(0)
def true_norms(mk, x, loss):
    out=[]
    for i in range(x.shape[0]):
        m=mk(); l=loss(m(x[i:i+1])); l.backward()
        out.append(math.sqrt(sum((p.grad**2).sum().item() for p in m.parameters() if p.grad is not None)))
    return out
def ghost_norms(mk, x, loss):
    m=mk(); g=GradSampleModuleFastGradientClipping(m,max_grad_norm=1.0,use_ghost_clipping=True,loss_reduction="sum")
    y=g(x); per=torch.stack([loss(y[i:i+1]) for i in range(x.shape[0])]); per.sum().backward()
    return g.get_norm_sample().tolist(), g
def mkfac(ctor):
    base=ctor(); sd=base.state_dict()
    def mk():
        m=ctor(); m.load_state_dict(sd); return m
    return mk
loss=lambda y:(y**2).sum()
# 4-D input linear
mk=mkfac(lambda: nn.Linear(3,2,bias=False)); x=torch.randn(3,2,4,3)
try:
    gn,g=ghost_norms(mk,x,loss); print("4D linear ghost",gn,"true",true_norms(mk,x,loss))
    # second batch: stale?
    x2=torch.randn(3,2,4,3)*5; m=g._module
    y=g(x2); per=torch.stack([loss(y[i:i+1]) for i in range(3)]); per.sum().backward(); print(" second batch ghost", g.get_norm_sample().tolist(),"true",true_norms(mk,x2,loss))
except Exception as e: print("4D linear ERR",type(e).__name__,str(e)[:150])
# embedding
mk=mkfac(lambda: nn.Sequential(nn.Embedding(7,3), nn.Flatten(), nn.Linear(12,2,bias=False)))
x=torch.tensor([[1,1,2,3],[0,0,0,0],[4,5,6,4]])
gn,_=ghost_norms(mk,x,loss); print("embedding ghost",gn,"true",true_norms(mk,x,loss))
# weight 3D linear (no bias)
mk=mkfac(lambda: nn.Linear(3,2,bias=False)); x=torch.randn(3,5,3)
gn,_=ghost_norms(mk,x,loss); print("3D weight ghost",gn,"true",true_norms(mk,x,loss))
