import warnings; warnings.filterwarnings("ignore")
import torch, torch.nn as nn
from torch.utils.data import TensorDataset, DataLoader
from torch.nn.utils.rnn import pack_padded_sequence
torch.set_default_dtype(torch.float64)
from opacus import PrivacyEngine
from opacus.layers import DPLSTM, DPGRU, DPRNN
torch.manual_seed(0)
# C19 residuals
for mode in ("hooks","functorch","ghost","ew"):
    model=nn.Sequential(nn.Linear(3,4), nn.ReLU(), nn.Linear(4,2))
    before={n:set(vars(p).keys()) for n,p in model.named_parameters()}; mb={n:set(vars(m).keys()) for n,m in model.named_modules()}
    hooks_b={n:(len(m._forward_hooks),len(m._backward_hooks)) for n,m in model.named_modules()}
    opt=torch.optim.SGD(model.parameters(),lr=0.1)
    ds=TensorDataset(torch.randn(20,3), torch.randint(0,2,(20,))); dl=DataLoader(ds,batch_size=5)
    pe=PrivacyEngine()
    out=pe.make_private(module=model,optimizer=opt,data_loader=dl,noise_multiplier=1.0,max_grad_norm=1.0,grad_sample_mode=mode, criterion=nn.CrossEntropyLoss())
    if mode=="ghost": m,o,crit,l=out
    else: m,o,l=out; crit=nn.CrossEntropyLoss()
    for xb,yb in l:
        o.zero_grad(); crit(m(xb),yb).backward(); o.step()
    std=m.to_standard_module()
    print(mode, "same obj", std is model,
      "param residue", {n:sorted(set(vars(p).keys())-before[n]) for n,p in std.named_parameters()},
      "module residue", {n:sorted(set(vars(mm).keys())-mb[n]) for n,mm in std.named_modules() if set(vars(mm).keys())-mb[n]},
      "hooks", {n:(len(mm._forward_hooks),len(mm._backward_hooks)) for n,mm in std.named_modules()}==hooks_b)
# C13 quick
for cls,tcls in ((DPLSTM,nn.LSTM),(DPGRU,nn.GRU),(DPRNN,nn.RNN)):
  for bias in (True,False):
    t=tcls(3,4,num_layers=2,bidirectional=True,bias=bias,batch_first=True); d=cls(3,4,num_layers=2,bidirectional=True,bias=bias,batch_first=True)
    d.load_state_dict(t.state_dict())
    x=torch.randn(3,5,3); lens=[2,5,3]
    pk=pack_padded_sequence(x,lens,batch_first=True,enforce_sorted=False)
    h0=torch.randn(4,3,4); st=(h0,torch.randn(4,3,4)) if cls is DPLSTM else h0
    o1,s1=t(pk,st); o2,s2=d(pk,st)
    f=lambda s: s[0] if isinstance(s,tuple) else s
    print(cls.__name__,bias,"out",(o1.data-o2.data).abs().max().item(),"h",(f(s1)-f(s2)).abs().max().item(), "keys eq", list(t.state_dict().keys())==list(d.state_dict().keys()))
