import warnings; warnings.filterwarnings("ignore")
import torch, torch.nn as nn, math
torch.set_default_dtype(torch.float64)
from opacus.layers import DPMultiheadAttention, DPLSTM
torch.manual_seed(0)
# C14 batch_first
for bf in (False, True):
  for H in (1,2):
    t = nn.MultiheadAttention(4,H,batch_first=bf); d = DPMultiheadAttention(4,H,batch_first=bf)
    d.load_state_dict(t.state_dict())
    q = torch.randn(3,5,4) if bf else torch.randn(5,3,4)
    o1,w1 = t(q,q,q); o2,w2 = d(q,q,q)
    print("bf",bf,"H",H,"out diff",(o1-o2).abs().max().item(),"w diff",(w1-w2).abs().max().item())
# masks with batch_first
t = nn.MultiheadAttention(4,2,batch_first=True); d = DPMultiheadAttention(4,2,batch_first=True); d.load_state_dict(t.state_dict())
q=torch.randn(3,5,4); mask=torch.zeros(5,5,dtype=torch.bool); mask[0,1]=True
try:
    o2,_=d(q,q,q,attn_mask=mask); o1,_=t(q,q,q,attn_mask=mask); print("mask ok diff",(o1-o2).abs().max().item())
except Exception as e: print("mask rejected:", e)
# state_dict back
t2 = nn.MultiheadAttention(4,2); d2=DPMultiheadAttention(4,2); 
try:
    t2.load_state_dict(d2.state_dict()); print("load back ok")
except Exception as e: print("load back fail", str(e)[:200])
for kw in [dict(add_bias_kv=True), dict(kdim=3,vdim=5), dict(bias=False), dict(add_zero_attn=True)]:
    t2 = nn.MultiheadAttention(4,2,**kw); d2=DPMultiheadAttention(4,2,**kw)
    try:
        d2.load_state_dict(t2.state_dict()); t2.load_state_dict(d2.state_dict())
        k=torch.randn(6,3,kw.get('kdim',4)); v=torch.randn(6,3,kw.get('vdim',4)); q=torch.randn(5,3,4)
        o1,w1=t2(q,k,v); o2,w2=d2(q,k,v); print(kw,"diff",(o1-o2).abs().max().item(),(w1-w2).abs().max().item())
    except Exception as e: print(kw,"fail", type(e).__name__, str(e)[:150])
