import warnings; warnings.filterwarnings("ignore")
import torch, torch.nn as nn, math
from torch.utils.data import TensorDataset, DataLoader
from opacus import PrivacyEngine
from opacus.validators import ModuleValidator
from opacus.data_loader import DPDataLoader
# C09: int(1/(1/L)) != L
bad=[L for L in range(1,2000) if int(1/(1/L))!=L]
print("L with int(1/(1/L))!=L:", len(bad), bad[:12])
# C08: int(epochs/(1/L)) != epochs*L
bad2=[(L,e) for L in range(1,500) for e in (1,2,3,5,10) if int(e/(1/L))!=e*L]
print("bad (L,epochs):", len(bad2), bad2[:8])
# actual: DPDataLoader length vs original length
ds=TensorDataset(torch.randn(930,2), torch.zeros(930,dtype=torch.long))
dl=DataLoader(ds,batch_size=10)
print("len(dl)",len(dl))
dpl=DPDataLoader.from_data_loader(dl)
print("len(dpl)",len(dpl), "sample_rate", dpl.sample_rate, 1/len(dpl))
# engine: sample_rate accounted = 1/len(dp loader)
pe=PrivacyEngine(accountant="rdp")
model=nn.Linear(2,2); opt=torch.optim.SGD(model.parameters(),lr=0.1)
m,o,l=pe.make_private(module=model,optimizer=opt,data_loader=dl,noise_multiplier=1.0,max_grad_norm=1.0)
print("sampler rate", l.batch_sampler.sample_rate, "steps", len(l), "expected_bs", o.expected_batch_size)
for xb,yb in l:
    o.zero_grad(); nn.functional.cross_entropy(m(xb),yb).backward(); o.step(); break
print("history", pe.accountant.history)
# C15
for mod in [nn.BatchNorm1d(3,affine=False), nn.Sequential(nn.Linear(3,3), nn.BatchNorm1d(3,affine=False)),
            nn.Sequential(nn.Linear(3,3), nn.InstanceNorm1d(3,affine=False,track_running_stats=True)),
            nn.Sequential(nn.Linear(3,3), nn.BatchNorm1d(3))]:
    print(type(mod).__name__, [type(c).__name__ for c in mod.children()], "valid:", ModuleValidator.is_valid(mod))
mod=nn.Sequential(nn.Linear(3,3), nn.BatchNorm1d(3,affine=False))
try:
    pe=PrivacyEngine(); opt=torch.optim.SGD(mod.parameters(),lr=0.1)
    ds=TensorDataset(torch.randn(20,3), torch.zeros(20,dtype=torch.long)); dl=DataLoader(ds,batch_size=5)
    pe.make_private(module=mod,optimizer=opt,data_loader=dl,noise_multiplier=1.0,max_grad_norm=1.0)
    print("make_private accepted BatchNorm(affine=False)")
except Exception as e: print("rejected:", type(e).__name__, str(e)[:100])
