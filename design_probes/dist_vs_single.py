import warnings; warnings.filterwarnings("ignore")
import torch, torch.nn as nn, os, sys, tempfile
import torch.multiprocessing as mp
import torch.distributed as dist
from torch.utils.data import TensorDataset, DataLoader
def data():
    g=torch.Generator(); g.manual_seed(5)
    return torch.randn(8,3,generator=g,dtype=torch.float64), torch.randn(8,2,generator=g,dtype=torch.float64)
def mk():
    torch.manual_seed(3); return nn.Linear(3,2).double()
def worker(rank, W, path, clipping, mode, wrap):
    dist.init_process_group("gloo", init_method="file://"+path, rank=rank, world_size=W)
    from opacus import PrivacyEngine
    from opacus.distributed import DifferentiallyPrivateDistributedDataParallel as DPDDP
    from torch.nn.parallel import DistributedDataParallel as DDP
    X,Y=data(); m=mk()
    dd = DDP(m) if wrap=="ddp" else DPDDP(m)
    opt=torch.optim.SGD(m.parameters(),lr=1.0)
    dl=DataLoader(TensorDataset(X,Y),batch_size=8)   # len=1 => sample_rate 1, expected bs 8/W per worker
    pe=PrivacyEngine()
    C=[100.0,100.0] if clipping=="per_layer" else 100.0
    g,o,l=pe.make_private(module=dd,optimizer=opt,data_loader=dl,noise_multiplier=0.0,max_grad_norm=C,clipping=clipping,grad_sample_mode=mode,poisson_sampling=False)
    xs=X[rank::W]; ys=Y[rank::W]
    o.zero_grad(); ((g(xs)-ys)**2).sum(dim=1).mean().backward(); o.step()
    print(clipping,mode,wrap,"rank",rank,type(o).__name__, "Bexp",o.expected_batch_size, [round(v,6) for v in m.weight.flatten().tolist()[:3]], flush=True)
    dist.destroy_process_group()
if __name__=="__main__":
    # reference single process
    from opacus import PrivacyEngine
    X,Y=data(); m=mk(); opt=torch.optim.SGD(m.parameters(),lr=1.0)
    dl=DataLoader(TensorDataset(X,Y),batch_size=8)
    g,o,l=PrivacyEngine().make_private(module=m,optimizer=opt,data_loader=dl,noise_multiplier=0.0,max_grad_norm=100.0,poisson_sampling=False)
    o.zero_grad(); ((g(X)-Y)**2).sum(dim=1).mean().backward(); o.step()
    print("REF", [round(v,6) for v in m.weight.flatten().tolist()[:3]])
    for clipping,mode,wrap in (("flat","hooks","dpddp"),("per_layer","hooks","ddp"),("per_layer","ew","dpddp"),("flat","ghost","dpddp")):
        f=tempfile.mktemp()
        try: mp.spawn(worker, args=(2,f,clipping,mode,wrap), nprocs=2, join=True)
        except Exception as e: print(clipping,mode,wrap,"ERR",str(e)[-300:])
