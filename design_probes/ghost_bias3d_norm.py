import warnings; warnings.filterwarnings("ignore")
import torch, torch.nn as nn, math
torch.set_default_dtype(torch.float64)
from opacus import PrivacyEngine, GradSampleModule
from opacus.grad_sample import GradSampleModuleFastGradientClipping
from opacus.optimizers import DPOptimizerFastGradientClipping
from opacus.utils.fast_gradient_clipping_utils import DPLossFastGradientClipping
from opacus.validators import ModuleValidator

# --- C02/C03: ghost clipping bias norm on 3-D input
torch.manual_seed(0)
m = nn.Linear(3,2)
gsm = GradSampleModuleFastGradientClipping(m, max_grad_norm=1.0, use_ghost_clipping=True, loss_reduction="sum")
x = torch.randn(4,5,3)
y = gsm(x)
loss_ps = (y**2).sum(dim=(1,2))
loss_ps.sum().backward()
ns = gsm.get_norm_sample()
# true norms
true=[]
for i in range(4):
    mm = nn.Linear(3,2); mm.load_state_dict(m.state_dict())
    l=(mm(x[i:i+1])**2).sum(); l.backward()
    true.append(math.sqrt(sum((p.grad**2).sum().item() for p in mm.parameters())))
print("ghost norms", ns.tolist()); print("true norms ", true)
w_true=[]
