From Coq Require Import ZArith Lia.
Open Scope Z_scope.
Definition roll_amount (n N : Z) : Z := (n - 1) + (if Z.even n then N / 2 else 0).
Lemma roll_alignment n M k : 1 <= n -> 0 <= M ->
  let N := 2*M + 2 in
  (k + roll_amount n N) mod N = (k - (n-1)*M) mod N.
Proof.
  intros Hn HM N. unfold roll_amount.
  assert (HN: N / 2 = M + 1) by (unfold N; replace (2*M+2) with ((M+1)*2) by lia; apply Z.div_mul; lia).
  rewrite HN.
  destruct (Z.even n) eqn:E.
  - apply Z.even_spec in E. destruct E as [j Hj]. subst n.
    (* k + (2j-1) + (M+1) - (k - (2j-1) M) = (2j-1)(M+1) + (M+1) = 2j (M+1) = j*N *)
    replace (k + (2*j - 1 + (M+1))) with ((k - (2*j-1)*M) + j * N) by (unfold N; lia).
    apply Z.mod_add. unfold N; lia.
  - assert (O: Z.odd n = true) by (rewrite <- Z.negb_even, E; reflexivity).
    apply Z.odd_spec in O. destruct O as [j Hj]. subst n.
    replace (k + (2*j+1-1 + 0)) with ((k - (2*j+1-1)*M) + j * N) by (unfold N; lia).
    apply Z.mod_add. unfold N; lia.
Qed.
Print Assumptions roll_alignment.
