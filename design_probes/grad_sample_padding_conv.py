import warnings; warnings.filterwarnings("ignore")
import torch, torch.nn as nn, math, io
torch.set_default_dtype(torch.float64)
from opacus import GradSampleModule
from opacus.grad_sample import GradSampleModuleExpandedWeights
torch.manual_seed(0)
def check(model_fn, x, mode="hooks", red="sum", bf=True, loss=lambda y: (y**2).sum()):
    m=model_fn()
    if mode=="ew": g=GradSampleModuleExpandedWeights(m,loss_reduction=red)
    else: g=GradSampleModule(m,loss_reduction=red,batch_first=bf,force_functorch=(mode=="functorch"))
    B=x.shape[0] if bf else x.shape[1]
    y=g(x)
    per=torch.stack([loss(y[i:i+1] if bf else y[:,i:i+1]) for i in range(B)])
    L=per.sum() if red=="sum" else per.mean()
    L.backward()
    worst=0
    for n,p in m.named_parameters():
        if not p.requires_grad: continue
        for i in range(B):
            m2=model_fn(); m2.load_state_dict(m.state_dict())
            xi = x[i:i+1] if bf else x[:,i:i+1]
            loss(m2(xi)).backward()
            gi=dict(m2.named_parameters())[n].grad
            worst=max(worst,(p.grad_sample[i]-gi).abs().max().item())
    return worst
emb=lambda: nn.Sequential(nn.Embedding(6,3,padding_idx=0), nn.Linear(3,2))
x=torch.tensor([[0,1,2],[0,0,3],[4,5,0]])
for mode in ("hooks","functorch","ew"):
    try: print("emb padding_idx",mode, check(emb,x,mode))
    except Exception as e: print("emb",mode,"ERR",type(e).__name__,str(e)[:100])
conv=lambda: nn.Sequential(nn.Conv2d(2,4,3,padding="same",dilation=2,groups=2), nn.Flatten(), nn.Linear(4*5*5,2))
x=torch.randn(3,2,5,5)
for mode in ("hooks","functorch","ew"):
    try: print("conv same dil grp",mode, check(conv,x,mode,"mean"))
    except Exception as e: print("conv",mode,"ERR",type(e).__name__,str(e)[:100])
