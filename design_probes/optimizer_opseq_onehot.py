import warnings; warnings.filterwarnings("ignore")
import torch, torch.nn as nn, itertools, sys
torch.set_default_dtype(torch.float64)
from opacus import GradSampleModule
from opacus.optimizers import DPOptimizer
from opacus.accountants import RDPAccountant
D=12
class Probe:
    def __init__(self, forbid=False, sigma=0.0):
        self.lin=nn.Linear(D,1,bias=False); nn.init.zeros_(self.lin.weight)
        self.gsm=GradSampleModule(self.lin, loss_reduction="sum")
        if forbid: self.gsm.forbid_grad_accumulation()
        self.inner=torch.optim.SGD(self.lin.parameters(), lr=1.0)
        self.opt=DPOptimizer(self.inner, noise_multiplier=sigma, max_grad_norm=10.0, expected_batch_size=1, loss_reduction="sum")
        self.acc=RDPAccountant(); self.opt.attach_step_hook(self.acc.get_optimizer_hook_fn(sample_rate=0.01))
        self.next=0; self.releases=[]
    def fb(self,n=2):
        ids=list(range(self.next,self.next+n)); self.next+=n
        x=torch.zeros(n,D); 
        for r,i in enumerate(ids): x[r,i]=1.0
        self.gsm(x).sum().backward(); return ids
    def do(self,op):
        w0=self.lin.weight.detach().clone()
        try:
            if op=="FB": self.fb()
            elif op=="ST": self.opt.step()
            elif op=="OZ": self.opt.zero_grad()
            elif op=="MZ": self.gsm.zero_grad()
            elif op=="S1": self.opt.signal_skip_step(True)
            elif op=="S0": self.opt.signal_skip_step(False)
            r="ok"
        except Exception as e: r="ERR:"+type(e).__name__
        d=(w0-self.lin.weight.detach()).flatten()
        if d.abs().sum()>0:
            self.releases.append([round(v) for v in d.tolist()]); r+=" REL"+str([i for i,v in enumerate(d.tolist()) for _ in range(round(v))])
        return r
def run(seq, **kw):
    p=Probe(**kw); out=[p.do(o) for o in seq]
    tot=[sum(c) for c in zip(*p.releases)] if p.releases else []
    dbl=any(v>1 for v in tot)
    return out, p.acc.history, dbl
if __name__=="__main__":
    ops=["FB","ST","OZ","MZ","S1"]
    n=int(sys.argv[1]); bad=0; tot=0
    for seq in itertools.product(ops, repeat=n):
        out,h,dbl=run(seq); tot+=1
        nrel=sum("REL" in o for o in out); nh=sum(x[2] for x in h)
        if dbl or nrel!=nh:
            bad+=1; print("VIOL", seq, out, h)
    print("total",tot,"bad",bad)
    for seq in [("FB","ST","MZ","FB","ST"),("FB","ST","FB","ST"),("S1","FB","ST","MZ","FB","ST"),("FB","ST","ST"),("FB","FB","ST")]:
        print(seq, run(seq)[:2])
    print("poisson", run(("FB","FB","ST"),forbid=True)[:2])
