import warnings; warnings.filterwarnings("ignore")
import torch, torch.nn as nn
from torch.utils.data import TensorDataset, DataLoader
from opacus.validators import ModuleValidator
from opacus import PrivacyEngine, GradSampleModule
m=nn.Sequential(nn.Conv1d(3,4,1), nn.BatchNorm1d(4), nn.InstanceNorm1d(4,affine=True,track_running_stats=True))
for kw in [dict(), dict(num_groups=2), dict(replace_bn_with_in=True)]:
    try:
        f=ModuleValidator.fix(m,**kw); print(kw,"->",[type(c).__name__ for c in f], "valid", ModuleValidator.is_valid(f))
        try: GradSampleModule(f); print("   GSM ok")
        except Exception as e: print("   GSM rejects:", type(e).__name__, str(e)[:90])
        print("   buffers:", [n for n,_ in f.named_buffers()], "orig untouched:", type(m[1]).__name__, m[2].track_running_stats)
    except Exception as e: print(kw,"ERR",type(e).__name__,str(e)[:100])
m2=nn.Sequential(nn.LSTM(3,4), )
try: print(type(ModuleValidator.fix(nn.LSTM(3,4),num_groups=2)).__name__)
except Exception as e: print("LSTM fix with kwargs ERR",type(e).__name__,str(e)[:100])
# frozen BN with affine: trainable walk skips?
bn=nn.BatchNorm1d(4); 
for p in bn.parameters(): p.requires_grad=False
m3=nn.Sequential(nn.Linear(4,4),bn); print("frozen BN valid:", ModuleValidator.is_valid(m3))
# eval-mode
m4=nn.Linear(2,2).eval(); print("eval valid:", ModuleValidator.is_valid(m4))
# foreign optimizer params
try:
    pe=PrivacyEngine(); a=nn.Linear(2,2); b=nn.Linear(2,2)
    pe.make_private(module=a,optimizer=torch.optim.SGD(b.parameters(),lr=.1),data_loader=DataLoader(TensorDataset(torch.randn(4,2)),batch_size=2),noise_multiplier=1.,max_grad_norm=1.)
    print("foreign params accepted")
except ValueError as e: print("foreign params rejected ok")
