import warnings; warnings.filterwarnings("ignore")
import torch, torch.nn as nn, copy
from torch.utils.data import TensorDataset, DataLoader, Sampler
torch.set_default_dtype(torch.float64)
from opacus import PrivacyEngine
from opacus.utils.batch_memory_manager import BatchMemoryManager
class FixedBatches(Sampler):
    def __init__(s,b): s.b=b
    def __iter__(s): return iter(s.b)
    def __len__(s): return len(s.b)
def run(mode, red, maxphys, batches, N=30):
    torch.manual_seed(1)
    X=torch.randn(N,5); Y=torch.randint(0,3,(N,))
    ds=TensorDataset(X,Y)
    model=nn.Sequential(nn.Linear(5,4),nn.ReLU(),nn.Linear(4,3))
    opt=torch.optim.SGD(model.parameters(),lr=0.5,momentum=0.9)
    dl=DataLoader(ds,batch_size=6)
    pe=PrivacyEngine(accountant="rdp")
    g=torch.Generator(); g.manual_seed(7)
    crit=nn.CrossEntropyLoss(reduction=red)
    out=pe.make_private(module=model,optimizer=opt,data_loader=dl,noise_multiplier=1.3,max_grad_norm=0.7,noise_generator=g,grad_sample_mode=mode,loss_reduction=red,criterion=crit,poisson_sampling=True)
    if mode=="ghost": m,o,crit,l=out
    else: m,o,l=out
    # replace sampler with fixed batches
    from opacus.data_loader import wrap_collate_with_empty, DPDataLoader
    l2=DataLoader(ds,batch_sampler=FixedBatches(batches),collate_fn=l.collate_fn)
    traj=[]; sizes=[]
    def loop(loader):
        for xb,yb in loader:
            sizes.append(len(xb))
            o.zero_grad()
            loss=crit(m(xb),yb); loss.backward(); o.step()
            if not o._is_last_step_skipped: traj.append(torch.cat([p.detach().flatten().clone() for p in model.parameters()]))
    if maxphys is None: loop(l2)
    else:
        with BatchMemoryManager(data_loader=l2,max_physical_batch_size=maxphys,optimizer=o) as l3: loop(l3)
    return traj, pe.accountant.history, sizes
batches=[[0,1,2,3,4,5,6],[7,8,9],[],[10,11,12,13,14,15,16,17,18],[19,20,21,22]]
for mode in ("hooks","ghost"):
  for red in ("mean","sum"):
    t0,h0,_=run(mode,red,None,batches)
    for mp in (1,2,3,4,9,20):
        try:
            t1,h1,s=run(mode,red,mp,batches)
            d=max((a-b).abs().max().item() for a,b in zip(t0,t1)) if len(t0)==len(t1) else "LEN %d vs %d"%(len(t0),len(t1))
            print(mode,red,"max",mp,"traj diff",d,"hist eq",h0==h1,"maxsize",max(s))
        except Exception as e: print(mode,red,mp,"ERR",type(e).__name__,str(e)[:120])
