import warnings; warnings.filterwarnings("ignore")
import torch, torch.nn as nn
from opacus import GradSampleModule
torch.manual_seed(0)
for mode in ("sum","mean"):
    eb=nn.EmbeddingBag(5,2,mode=mode); g=GradSampleModule(eb,loss_reduction="sum")
    idx=torch.tensor([1,1,2, 3,4]); off=torch.tensor([0,3])
    y=g(idx,off); (y**2).sum().backward()
    gs=eb.weight.grad_sample
    worst=0
    for i,(b,e) in enumerate([(0,3),(3,5)]):
        m=nn.EmbeddingBag(5,2,mode=mode); m.load_state_dict(eb.state_dict())
        (m(idx[b:e],torch.tensor([0]))**2).sum().backward()
        worst=max(worst,(gs[i]-m.weight.grad).abs().max().item())
    print("EmbeddingBag",mode,"duplicate index in bag: max err",worst)
