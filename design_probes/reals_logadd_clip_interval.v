From Coq Require Import Reals Lra Lia List.
From Interval Require Import Tactic.
From Coquelicot Require Import Coquelicot.
Open Scope R_scope.
(* log-space add over reals *)
Definition log_add (a b : R) : R := let lo := Rmin a b in let hi := Rmax a b in ln (1 + exp (lo - hi)) + hi.
Lemma log_add_correct a b : log_add a b = ln (exp a + exp b).
Proof.
  unfold log_add.
  assert (H: forall lo hi, ln (1 + exp (lo - hi)) + hi = ln (exp lo + exp hi)).
  { intros lo hi. rewrite <- (ln_exp hi) at 2. rewrite <- ln_mult.
    - f_equal. rewrite Rmult_plus_distr_r, Rmult_1_l, <- exp_plus. replace (lo - hi + hi) with lo by lra. apply Rplus_comm.
    - pose proof (exp_pos (lo-hi)); lra.
    - apply exp_pos. }
  rewrite H. unfold Rmin, Rmax. destruct (Rle_dec a b); [reflexivity| f_equal; apply Rplus_comm].
Qed.
(* clip lemma *)
Lemma clip_le (C n eps : R) : 0 < C -> 0 <= n -> 0 < eps -> Rmin 1 (C / (n + eps)) * n <= C.
Proof.
  intros HC Hn He. assert (Hd: 0 < n + eps) by lra.
  apply Rle_trans with (C / (n+eps) * n).
  - apply Rmult_le_compat_r; [lra| apply Rmin_r].
  - unfold Rdiv. rewrite Rmult_assoc. rewrite <- (Rmult_1_r C) at 2. apply Rmult_le_compat_l; [lra|].
    apply Rmult_le_reg_l with (n+eps); [lra|]. rewrite <- Rmult_assoc, Rinv_r by lra. lra.
Qed.
(* interval: certified enclosure of an RDP-like value: sigma=1.5,q=0.04,alpha=3 *)
Goal True.
  interval_intro (ln ( (1-0.04)^3 + 3*(1-0.04)^2*0.04 + 3*(1-0.04)*0.04^2*exp(1/(1.5*1.5)) + 0.04^3*exp(3/(1.5*1.5)) ) / 2) with (i_prec 80) as H.
  match goal with H: _ |- _ => idtac H end. match type of H with ?T => idtac T end. exact I.
Qed.
Goal forall x, 0.5 <= x <= 2 -> 0 <= x * ln x - (x - 1 - 1e-9).
Proof. intros x Hx. interval with (i_bisect x, i_taylor x, i_depth 20). Qed.
