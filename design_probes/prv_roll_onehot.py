import numpy as np
from opacus.accountants.analysis.prv.compose import _compose_fourier
from opacus.accountants.analysis.prv.prvs import DiscretePRV
from opacus.accountants.analysis.prv.domain import Domain
bad=0; tot=0
for M in range(1,9):
    dt=0.5; dom=Domain.create_aligned(-M*dt, M*dt, dt); N=dom.size
    assert N==2*M+2, (N,M)
    for n in range(1,12):
        for i0 in range(N):
            j=n*i0-(n-1)*M
            if not (0<=j<N): continue   # result must lie inside the window (no wrap)
            p=np.zeros(N); p[i0]=1.0
            out=_compose_fourier(DiscretePRV(pmf=p,domain=dom), n).pmf
            tot+=1
            if int(np.argmax(out))!=j or abs(out[j]-1)>1e-9: bad+=1; print("MISMATCH",M,n,i0,j,int(np.argmax(out)))
print("cases",tot,"bad",bad)
