import warnings; warnings.filterwarnings("ignore")
import torch, torch.nn as nn, os, sys, tempfile
import torch.multiprocessing as mp
import torch.distributed as dist
def worker(rank, W, path):
    dist.init_process_group("gloo", init_method="file://"+path, rank=rank, world_size=W)
    torch.set_default_dtype(torch.float64)
    from opacus import GradSampleModule
    from opacus.optimizers import DistributedDPOptimizer
    from opacus.distributed import DifferentiallyPrivateDistributedDataParallel as DPDDP
    torch.manual_seed(rank)
    m=nn.Linear(3,2); dd=DPDDP(m)
    g=GradSampleModule(dd)
    o=DistributedDPOptimizer(torch.optim.SGD(m.parameters(),lr=1.0),noise_multiplier=0.0,max_grad_norm=1.0,expected_batch_size=2)
    x=torch.randn(2+rank,3); g(x).sum(dim=1).mean().backward(); o.step()
    print(rank, m.weight.flatten().tolist()[:3], flush=True)
    dist.destroy_process_group()
if __name__=="__main__":
    W=3; f=tempfile.mktemp()
    mp.spawn(worker, args=(W,f), nprocs=W, join=True)
