(* Properties/C10.v -- Splitting logical batches with BatchMemoryManager changes nothing but memory. *)
From Coq Require Import ZArith List Bool.
From OV Require Import Base.Num Base.NumZ Base.Py Model.BmmState Gen.Bmm Proofs.BmmP
  Model.OptimState Gen.Optim Gen.Ghost Proofs.OptimSM Proofs.BmmRefine Proofs.GhostBackward Proofs.BmmReset.
Import ListNotations.

(* numpy.array_split(l, k), k >= 1: the chunks concatenate to l, there are k, sizes differ by at most one *)
Theorem C10_array_split_partition (l : list Z) (k : Z) : (1 <= k)%Z ->
  List.concat (array_split l k) = l /\ length (array_split l k) = Z.to_nat k /\
  Forall (fun c => length c = (length l / Z.to_nat k)%nat \/ length c = S (length l / Z.to_nat k)) (array_split l k).
Proof. exact (array_split_partition l k). Qed.

(* with k = ceil(n / max): at least one chunk, every physical batch non-empty and of size <= max *)
Theorem C10_physical_batches_bounded (l : list Z) (mx : Z) : (1 <= mx)%Z -> (0 < length l)%nat ->
  let k := zceil_div (Z.of_nat (length l)) mx in
  (1 <= k)%Z /\ Forall (fun c => (0 < length c)%nat /\ (Z.of_nat (length c) <= mx)%Z) (array_split l k).
Proof. exact (array_split_bounded l mx). Qed.

(* the GENERATED sampler body: for one logical batch it emits skip=True before every physical batch but the last,
   skip=False before the last; an empty logical batch gives one empty physical batch with skip=False *)
Theorem C10_sampler_emits (mx : Z) (out : list bev) (batch : list Z) : (1 <= mx)%Z ->
  bmm_one_batch (mkbst mx out) batch =
  SOk (mkbst mx (out ++ match batch with
                        | [] => [BSignal false; BYield []]
                        | _ => signals (array_split batch (zceil_div (Z.of_nat (length batch)) mx))
                        end)) tt.
Proof. exact (bmm_one_batch_spec mx out batch). Qed.

(* For EVERY optimizer variant (flat, per-layer, adaptive loop, ghost clipping): from any state with an empty skip queue, for every
   split cs of a logical batch and every values of the hyper-parameters, training over the physical batches with the sampler's
   signals has the same bid-free observables -- every noise draw, accountant record, released list of (sample id, clipping norm),
   accountant history, noise-stream position -- as training on the unsplit batch.  The optimizer transitions are the ones
   generated from optimizer.py / optimizer_fast_gradient_clipping.py; the ghost backward (two passes with zero_grad between
   them, hooks disabled on the second) is fb_ghost of Proofs/OptimSM.v, which C10_ghost_backward_is_generated below shows to be the
   interpretation of the statement list generated from DPTensorFastGradientClipping.backward. *)
Theorem C10_bmm_refines_unsplit {T} {N : Num T} (cs : list (list Z)) (s1 s2 : ost T) :
  cs <> [] ->
  o_skipq s1 = [] -> o_last_skipped s1 = false -> o_skipq s2 = [] -> o_last_skipped s2 = false -> restE s1 = restE s2 ->
  restE (run (split_prog cs) s1) = restE (run (unsplit_prog (List.concat cs)) s2) /\
  o_skipq (run (split_prog cs) s1) = [] /\ o_skipq (run (unsplit_prog (List.concat cs)) s2) = [].
Proof. exact (bmm_refines_unsplit cs s1 s2). Qed.

(* the model of the ghost criterion's backward used above (and in C03 C05 C11) is the statement list GENERATED from
   DPTensorFastGradientClipping.backward, interpreted on the ledger: reordering the statements (zero_grad after the second pass, hooks not
   disabled, ...) changes the list and breaks this lemma *)
Theorem C10_ghost_backward_is_generated {T} {N : Num T} (s : ost T) (sids : list Z) :
  fb_ghost s sids = run_gops ghost_backward_ops s sids.
Proof. exact (fb_ghost_is_generated s sids). Qed.

(* non-vacuity: a ghost-clipping optimizer state satisfies the premises, and the split [[1;2];[3]] releases samples 1 2 3 once each *)
Example C10_ghost_nonvacuous :
  let s := init_state (T:=Z) Ghost AccRDP 1%Z 1%Z 3%Z 1%Z false false true in
  o_skipq s = [] /\ o_last_skipped s = false /\
  restE (run (split_prog [[1; 2]; [3]]%Z) s) = restE (run (unsplit_prog [1; 2; 3]%Z) s) /\
  List.length (o_events (run (split_prog [[1; 2]; [3]]%Z) s)) = 3%nat.
Proof. vm_compute. repeat split. Qed.

Example C10_nonvacuous :
  array_split [1; 2; 3; 4; 5; 6; 7]%Z (zceil_div 7 3) = [[1; 2; 3]; [4; 5]; [6; 7]]%Z.
Proof. reflexivity. Qed.

Print Assumptions C10_array_split_partition.
Print Assumptions C10_physical_batches_bounded.
Print Assumptions C10_sampler_emits.
(* an iteration of the manager's loader that was left early (a peek at one batch, break after max_steps with workers that fetched ahead,
   an exception): the clean-up generated from _drop_unfinished_logical_batch -- pinned as the first statement of the splitting sampler's
   __iter__ and as the body of __exit__ -- empties the signal queue and forgets a half-finished logical batch, touches neither the
   accountant nor the noise stream nor any hyper-parameter, is the identity after an iteration that ran to its end, and makes everything
   that follows independent of the signals that were left behind *)
Theorem C10_abandoned_iteration_leaves_nothing {T} {N : Num T} (s : ost T) :
  v_drop s = SOk (ref_drop s) tt /\
  (let s' := ref_drop s in
   o_skipq s' = [] /\ o_last_skipped s' = false /\ (o_last_skipped s = true -> o_summed s' = None /\ o_gs s' = GNone) /\
   o_events s' = o_events s /\ o_hist s' = o_hist s /\ o_nm s' = o_nm s /\ o_mgn s' = o_mgn s /\ o_noise_pos s' = o_noise_pos s) /\
  (o_skipq s = [] -> o_last_skipped s = false -> ref_drop s = s) /\
  (forall q q', ref_drop (upd_skipq s q) = ref_drop (upd_skipq s q')).
Proof. exact (conj (drop_is_ref s) (conj (drop_post s) (conj (drop_clean_noop s) (stale_signals_irrelevant s)))). Qed.

Theorem C10_after_cleanup_as_from_clean_queue {T} {N : Num T} (s : ost T) (q : list bool) (ops : list (@op T)) :
  run ops (ref_drop (upd_skipq s q)) = run ops (ref_drop (upd_skipq s [])).
Proof. exact (after_cleanup_as_from_clean_queue s q ops). Qed.

Print Assumptions C10_bmm_refines_unsplit.
Print Assumptions C10_ghost_backward_is_generated.
Print Assumptions C10_abandoned_iteration_leaves_nothing.
Print Assumptions C10_after_cleanup_as_from_clean_queue.
