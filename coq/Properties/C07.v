(* Properties/C07.v -- PRV accountant's reported epsilon brackets the true epsilon within its error  (PARTIAL).
   Proved: the index / parity / shift bookkeeping generated from compose.py, domain.py, prvs.py -- the part the tests never sample
   ("every composition-count parity and every heterogeneous mix") -- and the ordering of the (lower, estimate, upper) triple.
   NOT proved: the truncation / discretisation / FFT wrap-around error analysis (Gopi, Lee, Wutschitz 2021), scipy's rfft / irfft /
   convolve / quad; bracketing of the true epsilon is validated against closed forms and the RDP upper bound by the check. *)
From Coq Require Import ZArith Reals List Bool.
From OV Require Import Base.Num Base.NumR Base.NumZ Base.Py Gen.Prv Proofs.PrvP.

Theorem C07_roll_alignment (n M k : Z) : (1 <= n)%Z -> (0 <= M)%Z ->
  let N := (2 * M + 2)%Z in ((k + roll_amount n N) mod N = (k - (n - 1) * M) mod N)%Z.
Proof. exact (roll_alignment n M k). Qed.
Theorem C07_grid_size_even (r : Z) : (aligned_size r mod 2 = 0)%Z.
Proof. exact (aligned_size_even r). Qed.
Theorem C07_fourier_shifts_total (s : R) (n : Z) : fourier_shifts s n = (IZR n * s)%R.
Proof. exact (fourier_shifts_total s n). Qed.
Theorem C07_eps_triple_ordered (f : R -> R) (delta delta_error eps_error : R) :
  (forall x y, (x <= y)%R -> (f y <= f x)%R) -> (0 <= delta_error)%R -> (0 <= eps_error)%R ->
  let '(lo, est, up) := eps_triple f delta delta_error eps_error in (lo <= est <= up)%R.
Proof. exact (eps_triple_ordered f delta delta_error eps_error). Qed.
Theorem C07_delta_estimate_antitone (pt : list (R * R)) (e e' : R) :
  Forall (fun '(p, _) => (0 <= p)%R) pt -> (e <= e')%R -> (delta_est pt e' <= delta_est pt e)%R.
Proof. exact (delta_est_antitone pt e e'). Qed.

Example C07_nonvacuous : roll_amount 4 10 = 8%Z /\ roll_amount 5 10 = 4%Z /\ aligned_size 6 = 8%Z.
Proof. repeat split. Qed.

(* the convolution tree of compose_heterogeneous (generated tree_level / tree_compose over an abstract composition): for EVERY number of
   PRVs -- every tree shape, odd and even levels at every depth -- the result is the composition of ALL of them, whenever composition is
   associative and commutative with a unit (exact convolution of pmfs is; truncation to the grid is outside the theorem) *)
Theorem C07_tree_composes_all (A : Type) (op : A -> A -> A) (e : A) :
  (forall a b c, op a (op b c) = op (op a b) c) -> (forall a b, op a b = op b a) -> (forall a, op a e = a) ->
  forall (fuel : nat) (l : list A), l <> nil -> (length l <= fuel)%nat -> tree_compose op fuel l = Some (tprod A op e l).
Proof. intros H1 H2 H3 fuel l. exact (tree_composes_all A op e H1 H2 H3 fuel l). Qed.
(* e.g. the shifts of the composed domain are the sum of all shifts: 6 PRVs *)
Example C07_tree_six : tree_compose Z.add 6 (1 :: 2 :: 3 :: 4 :: 5 :: 6 :: nil)%Z = Some 21%Z.
Proof. reflexivity. Qed.

Print Assumptions C07_roll_alignment.
Print Assumptions C07_grid_size_even.
Print Assumptions C07_fourier_shifts_total.
Print Assumptions C07_eps_triple_ordered.
Print Assumptions C07_delta_estimate_antitone.
Print Assumptions C07_tree_composes_all.
