(* Properties/C17.v -- Noise and clipping schedules follow their closed forms and are what is used.
   Only statements closed by `exact`, non-vacuity examples, and Print Assumptions.
   All statements are about Gen/Sched.v, regenerated from /repo's schedulers on every run. *)
From Coq Require Import ZArith Reals List.
From OV Require Import Base.Num Base.NumR Base.NumZ Base.Py Model.SchedState Gen.Sched Proofs.SchedP Proofs.SchedR.
From OV Require Import Model.OptimState Model.OptimRef Gen.Optim Proofs.OptimSM Proofs.OptimTrace Proofs.OptimMore Model.ClipNum Proofs.ClipR.
From OV Require Import Gen.Ghost Proofs.GhostBackward.
Import ListNotations.

(* construction (last_epoch = -1) leaves the scheduled value unchanged, k = 0 *)
Theorem C17_exponential_construct_noop {T} {N : Num T} (s0 : ss T) v g :
  exists s1, noise_exp_init s0 v g (-1) = SOk s1 tt /\ f_last_epoch s1 = 0%Z /\ f_oval s1 = v /\ f_gamma s1 = g.
Proof. exact (noise_exp_ctor s0 v g). Qed.
Theorem C17_step_construct_noop {T} {N : Num T} (s0 : ss T) v sz g :
  exists s1, noise_stepc_init s0 v sz g (-1) = SOk s1 tt /\ f_last_epoch s1 = 0%Z /\ f_oval s1 = v /\ f_gamma s1 = g /\ f_step_size s1 = sz.
Proof. exact (noise_step_ctor s0 v sz g). Qed.
Theorem C17_lambda_construct {T} {N : Num T} (s0 : ss T) v f :
  exists s1, noise_lambda_init s0 v f (-1) = SOk s1 tt /\ f_last_epoch s1 = 0%Z /\ f_oval s1 = nmul v (f 0%Z) /\ f_base s1 = v /\ f_lam s1 = f.
Proof. exact (noise_lambda_ctor s0 v f). Qed.
Theorem C17_clip_exponential_construct_noop {T} {N : Num T} (s0 : ss T) v g :
  exists s1, clip_exp_init s0 v g (-1) = SOk s1 tt /\ f_last_epoch s1 = 0%Z /\ f_oval s1 = v /\ f_gamma s1 = g.
Proof. exact (clip_exp_ctor s0 v g). Qed.
Theorem C17_clip_step_construct_noop {T} {N : Num T} (s0 : ss T) v sz g :
  exists s1, clip_stepc_init s0 v sz g (-1) = SOk s1 tt /\ f_last_epoch s1 = 0%Z /\ f_oval s1 = v /\ f_gamma s1 = g /\ f_step_size s1 = sz.
Proof. exact (clip_step_ctor s0 v sz g). Qed.
Theorem C17_clip_lambda_construct {T} {N : Num T} (s0 : ss T) v f :
  exists s1, clip_lambda_init s0 v f (-1) = SOk s1 tt /\ f_last_epoch s1 = 0%Z /\ f_oval s1 = nmul v (f 0%Z) /\ f_base s1 = v /\ f_lam s1 = f.
Proof. exact (clip_lambda_ctor s0 v f). Qed.

(* after k scheduler steps: every k, every initial value, gamma, step size, lambda; any Num instance
   (for binary64 this is the bit-exact statement: the k-fold iterate of the float multiplication) *)
Theorem C17_exponential_closed_form {T} {N : Num T} (s1 : ss T) k :
  f_last_epoch s1 = 0%Z ->
  exists sk, steps (noise_step noise_exp_get) k s1 = Ok sk /\ f_last_epoch sk = Z.of_nat k /\
             f_oval sk = iter k (fun x => nmul x (f_gamma s1)) (f_oval s1) /\ same_cfg sk s1.
Proof. exact (noise_exp_closed_form s1 k). Qed.
Theorem C17_step_closed_form {T} {N : Num T} (s1 : ss T) k :
  f_last_epoch s1 = 0%Z -> (0 < f_step_size s1)%Z ->
  exists sk, steps (noise_step noise_step_get) k s1 = Ok sk /\ f_last_epoch sk = Z.of_nat k /\
             f_oval sk = iter (Z.to_nat (Z.of_nat k / f_step_size s1)) (fun x => nmul (f_gamma s1) x) (f_oval s1) /\ same_cfg sk s1.
Proof. exact (noise_step_closed_form s1 k). Qed.
Theorem C17_lambda_closed_form {T} {N : Num T} (s1 : ss T) k :
  f_last_epoch s1 = 0%Z -> f_oval s1 = nmul (f_base s1) (f_lam s1 0%Z) ->
  exists sk, steps (noise_step noise_lambda_get) k s1 = Ok sk /\ f_last_epoch sk = Z.of_nat k /\
             f_oval sk = nmul (f_base s1) (f_lam s1 (Z.of_nat k)) /\ same_cfg sk s1.
Proof. exact (noise_lambda_closed_form s1 k). Qed.
Theorem C17_clip_exponential_closed_form {T} {N : Num T} (s1 : ss T) k :
  f_last_epoch s1 = 0%Z ->
  exists sk, steps (clip_step clip_exp_get) k s1 = Ok sk /\ f_last_epoch sk = Z.of_nat k /\
             f_oval sk = iter k (fun x => nmul x (f_gamma s1)) (f_oval s1) /\ same_cfg sk s1.
Proof. exact (clip_exp_closed_form s1 k). Qed.
Theorem C17_clip_step_closed_form {T} {N : Num T} (s1 : ss T) k :
  f_last_epoch s1 = 0%Z -> (0 < f_step_size s1)%Z ->
  exists sk, steps (clip_step clip_step_get) k s1 = Ok sk /\ f_last_epoch sk = Z.of_nat k /\
             f_oval sk = iter (Z.to_nat (Z.of_nat k / f_step_size s1)) (fun x => nmul (f_gamma s1) x) (f_oval s1) /\ same_cfg sk s1.
Proof. exact (clip_step_closed_form s1 k). Qed.
Theorem C17_clip_lambda_closed_form {T} {N : Num T} (s1 : ss T) k :
  f_last_epoch s1 = 0%Z -> f_oval s1 = nmul (f_base s1) (f_lam s1 0%Z) ->
  exists sk, steps (clip_step clip_lambda_get) k s1 = Ok sk /\ f_last_epoch sk = Z.of_nat k /\
             f_oval sk = nmul (f_base s1) (f_lam s1 (Z.of_nat k)) /\ same_cfg sk s1.
Proof. exact (clip_lambda_closed_form s1 k). Qed.

(* over the reals the iterates are  initial * gamma^k  and  initial * gamma^floor(k/step_size) *)
Theorem C17_iter_is_power_r (k : nat) (g v : R) : iter k (fun x => nmul x g) v = (v * g ^ k)%R.
Proof. exact (iter_mul_r k g v). Qed.
Theorem C17_iter_is_power_l (k : nat) (g v : R) : iter k (fun x => nmul g x) v = (v * g ^ k)%R.
Proof. exact (iter_mul_l k g v). Qed.

(* restore.  FULL statement of the property: forall s s', load s' (state_dict s) = s  (so that the
   restored scheduler continues the trajectory).  It is FALSE of the code: the live scheduled value is
   kept on the optimizer and is in neither state_dict (Findings/C17.v : C17_restore_refuted; recorded in
   KNOWN_FINDINGS.json).  Proved part: exact restore when the fresh optimizer carries the same live
   value, and for Lambda schedules exact agreement from the next scheduler step on.  The schedule function of a Lambda scheduler is NOT
   part of the saved state (a plain function cannot be pickled; same convention as torch's LambdaLR): the scheduler the state is loaded into
   keeps its own, hence the hypothesis `f_lam s' = f_lam s` -- the fresh scheduler is built with the same function. *)
Theorem C17_restore_exact_partial {T} {N : Num T} (s s' : ss T) :
  f_oval s' = f_oval s -> f_lam s' = f_lam s -> noise_load_state_dict s' (noise_state_dict s) = s.
Proof. exact (noise_restore_exact_partial s s'). Qed.
Theorem C17_clip_restore_exact_partial {T} {N : Num T} (s s' : ss T) :
  f_oval s' = f_oval s -> f_lam s' = f_lam s -> clip_load_state_dict s' (clip_state_dict s) = s.
Proof. exact (clip_restore_exact_partial s s'). Qed.
Theorem C17_lambda_restore_next {T} {N : Num T} (s s' : ss T) : f_lam s' = f_lam s ->
  noise_step noise_lambda_get (noise_load_state_dict s' (noise_state_dict s)) = noise_step noise_lambda_get s.
Proof. exact (noise_lambda_restore_next s s'). Qed.
Theorem C17_clip_lambda_restore_next {T} {N : Num T} (s s' : ss T) : f_lam s' = f_lam s ->
  clip_step clip_lambda_get (clip_load_state_dict s' (clip_state_dict s)) = clip_step clip_lambda_get s.
Proof. exact (clip_lambda_restore_next s s'). Qed.
(* the saved state holds no function, whatever the schedule: it can always be written to a checkpoint *)
Theorem C17_state_dict_holds_no_function {T} {N : Num T} (s : ss T) : sd_lam (noise_state_dict s) = None /\ sd_lam (clip_state_dict s) = None.
Proof. exact (state_dict_holds_no_function s). Qed.

(* the value in force is the one used: after a scheduler wrote noise_multiplier := nm' and max_grad_norm := c'
   (what scheduler.step() does to the optimizer), the next optimizer step -- in the code generated from
   optimizer.py -- draws its noise with std nm' * c' and hands the accountant nm' (clipping with c' is the
   clip_items (o_mgn s) of the generated clip_and_accumulate). *)
Theorem C17_scheduled_value_is_used {T} {N : Num T} (neqb_sound : forall a b : T, neqb a b = true -> a = b) (s : ost T) nm' c' :
  o_has_hook s = true -> o_acc s <> AccGDP -> runs_pos (o_hist s) ->
  let s1 := sstate (exec (sstate (exec s (SetNm nm'))) (SetC c')) in
  let r := exec s1 Step in
  let s' := sstate r in
  exists nz, Forall (noise_ev (nmul nm' c')) nz /\
   ((o_events s' = o_events s ++ nz /\ o_hist s' = o_hist s)
   \/
   (exists k og, r = SOk s' tt /\
      o_events s' = o_events s ++ nz ++ [EAccount nm' (nmul (o_rate s) (nofZ k)); EInner og] /\
      expand (o_hist s') = expand (o_hist s) ++ [(nm', nmul (o_rate s) (nofZ k))])).
Proof. exact (scheduled_value_used neqb_sound s nm' c'). Qed.

(* non-vacuity: a concrete scheduler meeting the hypotheses, run on the Z instance *)
(* per-layer clipping: the scheduler (or anyone) changes the scalar max_grad_norm, which scales the noise; the bounds every tensor is
   clipped with (generated pl_bounds_in_force) are the configured ones rescaled so that their joint norm IS the value in force, they stay
   non-negative, and they are the configured bounds as long as max_grad_norm is untouched *)
Theorem C17_perlayer_bounds_follow_value_in_force (mgn : R) (Cs : list R) : (0 <= mgn)%R -> (0 < nnorm2 Cs)%R ->
  nnorm2 (pl_bounds_in_force mgn Cs) = mgn /\
  (Forall (fun c => 0 <= c)%R Cs -> Forall (fun c => 0 <= c)%R (pl_bounds_in_force mgn Cs)) /\
  pl_bounds_in_force (nnorm2 Cs) Cs = Cs.
Proof.
  intros Hm Hn. destruct (pl_bounds_in_force_norm mgn Cs Hm Hn) as (A & B). split; [exact A|]. split; [exact B|]. exact (pl_bounds_unchanged Cs Hn).
Qed.

(* ghost clipping: the clipping coefficients are computed by the wrapped module from its own max_grad_norm; on the statement list
   generated from DPTensorFastGradientClipping.backward that copy is first set to the optimizer's value (the scheduled one, which scales the
   noise), whatever it was before; the adaptive variant uses the freshly updated norm for both; without the synchronisation the stale copy is read *)
Theorem C17_ghost_clips_with_value_in_force {B} (module_bound optimizer_bound upd : B) :
  fold_left (bound_step upd) ghost_backward_ops (module_bound, optimizer_bound, None) = (optimizer_bound, optimizer_bound, Some optimizer_bound) /\
  fold_left (bound_step upd) ghost_adaptive_backward_ops (module_bound, optimizer_bound, None) = (upd, upd, Some upd).
Proof. split; [exact (ghost_clips_with_optimizer_bound module_bound optimizer_bound upd) | exact (ghost_adaptive_clips_with_updated_bound module_bound optimizer_bound upd)]. Qed.
Theorem C17_ghost_unsynced_refuted : exists (mb ob : nat),
  fold_left (bound_step 0%nat) (filter (fun o => match o with GSyncModuleBound => false | _ => true end) ghost_backward_ops) (mb, ob, None)
  <> (ob, ob, Some ob).
Proof. exact ghost_unsynced_refuted. Qed.

Example C17_nonvacuous :
  let s1 := mkss 0%Z 3%Z 2%Z 5%Z (fun k => k) 5%Z in
  f_last_epoch s1 = 0%Z /\ (0 < f_step_size s1)%Z /\
  (match steps (noise_step noise_step_get) 5 s1 with Ok s => f_oval s | Err _ => 0%Z end) = 45%Z.
Proof. vm_compute. repeat split. Qed.

Print Assumptions C17_exponential_construct_noop.
Print Assumptions C17_step_construct_noop.
Print Assumptions C17_lambda_construct.
Print Assumptions C17_clip_exponential_construct_noop.
Print Assumptions C17_clip_step_construct_noop.
Print Assumptions C17_clip_lambda_construct.
Print Assumptions C17_exponential_closed_form.
Print Assumptions C17_step_closed_form.
Print Assumptions C17_lambda_closed_form.
Print Assumptions C17_clip_exponential_closed_form.
Print Assumptions C17_clip_step_closed_form.
Print Assumptions C17_clip_lambda_closed_form.
Print Assumptions C17_iter_is_power_r.
Print Assumptions C17_iter_is_power_l.
Print Assumptions C17_scheduled_value_is_used.
Print Assumptions C17_perlayer_bounds_follow_value_in_force.
Print Assumptions C17_ghost_clips_with_value_in_force.
Print Assumptions C17_ghost_unsynced_refuted.
Print Assumptions C17_restore_exact_partial.
Print Assumptions C17_clip_restore_exact_partial.
Print Assumptions C17_lambda_restore_next.
Print Assumptions C17_clip_lambda_restore_next.
Print Assumptions C17_state_dict_holds_no_function.
