(* Properties/C04.v -- Released noise is fresh isotropic Gaussian with std sigma x max_grad_norm  (PARTIAL).
   Proved: the noise LEDGER of the generated optimizer code -- how many draws, with which std, from which
   (fresh) positions of the generator stream, combined how, and on which rank.
   NOT proved (modelled): that torch.normal returns i.i.d. N(0, std^2) values from fresh generator state;
   the distributional reading of the ledger rests on that assumption (DESIGN.md section 6). *)
From Coq Require Import ZArith Reals List Bool.
From OV Require Import Base.Num Base.NumR Base.Py Model.OptimState Model.OptimRef Gen.Optim Gen.Engine
  Proofs.OptimSM Proofs.OptimEq Proofs.OptimTrace Proofs.OptimMore Proofs.NoiseP.
Import ListNotations.

(* one add_noise call (generated from DPOptimizer.add_noise and _generate_noise): on an unprocessed summed gradient
   it appends exactly the draws of noise_shape -- none when std == 0, one of the parameter's shape, or in secure mode
   one discarded (1,1) draw and four parameter-shaped draws -- all with std = noise_multiplier * max_grad_norm READ AT
   THAT CALL, from consecutive fresh positions; p.grad becomes summed_grad + that noise; otherwise it raises and
   changes nothing *)
Theorem C04_add_noise_ledger {T} {N : Num T} (s : ost T) :
  match add_noise s with
  | SOk s' _ =>
      exists v0, o_summed s = Some v0 /\ s_proc v0 = false /\
      let std := nmul (o_nm s) (o_mgn s) in
      o_events s' = o_events s ++ noise_shape (o_secure s) std (o_noise_pos s) /\
      o_grad s' = Some (mkgrad [] (s_items v0) (noise_value (o_secure s) std (o_noise_pos s)) []) /\
      o_summed s' = Some (mksum (s_items v0) true)
  | SErr s' e => s' = s
  end.
Proof. exact (add_noise_ledger s). Qed.

(* over ANY program and variant: no position of the generator stream is read twice (draws are fresh and
   pairwise disjoint across parameters, steps and discarded draws) *)
Theorem C04_noise_positions_fresh {T} {N : Num T} v a (nm mgn ebs rate : T) mean secure accum (ops : list (@op T)) :
  let s := run ops (init_state v a nm mgn ebs rate mean secure accum) in
  NoDup (npos (o_events s)).
Proof. exact (noise_positions_fresh v a nm mgn ebs rate mean secure accum ops). Qed.

(* noise is drawn per LOGICAL step: a skipped physical sub-batch step draws none (and records / applies nothing) *)
Theorem C04_skipped_step_draws_nothing {T} {N : Num T} (s : ost T) q :
  o_skipq s = true :: q -> o_events (sstate (v_step s)) = o_events s /\ o_hist (sstate (v_step s)) = o_hist s.
Proof. exact (skipped_step_silent s q). Qed.

(* every draw of a step uses the values in force at that step (also after scheduler / adaptive updates) *)
Theorem C04_std_in_force {T} {N : Num T} (neqb_sound : forall a b : T, neqb a b = true -> a = b) (s : ost T) nm' c' :
  o_has_hook s = true -> o_acc s <> AccGDP -> runs_pos (o_hist s) ->
  let s1 := sstate (exec (sstate (exec s (SetNm nm'))) (SetC c')) in
  let r := exec s1 Step in
  let s' := sstate r in
  exists nz, Forall (noise_ev (nmul nm' c')) nz /\
   ((o_events s' = o_events s ++ nz /\ o_hist s' = o_hist s)
   \/
   (exists k og, r = SOk s' tt /\
      o_events s' = o_events s ++ nz ++ [EAccount nm' (nmul (o_rate s) (nofZ k)); EInner og] /\
      expand (o_hist s') = expand (o_hist s) ++ [(nm', nmul (o_rate s) (nofZ k))])).
Proof. exact (scheduled_value_used neqb_sound s nm' c'). Qed.

(* noise_multiplier 0: no draw is consumed and the noise term is exactly empty (zero) *)
Theorem C04_zero_std_no_noise {T} {N : Num T} (secure : bool) (std : T) p :
  neqb std (nofZ 0) = true -> noise_shape secure std p = [] /\ noise_value secure std p = [].
Proof. exact (zero_std_no_noise secure std p). Qed.

(* secure mode has the same variance: (xi1+xi2+xi3+xi4) * std / 2 with independent standard draws *)
Theorem C04_secure_mode_variance (std : R) p : std <> 0%R ->
  variance (noise_value true std p) = (std * std)%R /\ variance (noise_value false std p) = (std * std)%R.
Proof. exact (secure_mode_variance std p). Qed.

(* distributed optimizers: rank 0 draws the noise, every other rank draws none *)
Theorem C04_ddp_noise_rank0_only {T} {N : Num T} (super_add_noise : ost T -> sres (ost T) unit) (s : ost T) :
  (o_rank s <> 0)%Z -> ddp_add_noise super_add_noise s = SOk (upd_grad s (grad_of_sum (o_summed s) [])) tt.
Proof. exact (ddp_noise_rank0_only super_add_noise s). Qed.
Theorem C04_ddp_noise_rank0 {T} {N : Num T} (super_add_noise : ost T -> sres (ost T) unit) (s : ost T) :
  (o_rank s = 0)%Z -> ddp_add_noise super_add_noise s = sbind (super_add_noise s) (fun s _ => SOk s tt).
Proof. exact (ddp_noise_rank0 super_add_noise s). Qed.

(* which generator draws the noise (generated from PrivacyEngine._prepare_optimizer / make_private): the secure generator in secure mode
   -- a user generator is then refused --, otherwise the user's generator if one is given, otherwise torch's global generator *)
Theorem C04_generator_selection {G : Type} (secure : bool) (secure_rng user : option G) :
  (secure = true -> engine_noise_generator secure secure_rng user = secure_rng) /\
  (secure = false -> engine_noise_generator secure secure_rng user = user) /\
  (secure = true -> user <> None -> engine_generator_guard secure user = Err ValueError) /\
  (secure = false -> engine_generator_guard secure user = Ok tt).
Proof.
  repeat split; intros; subst; unfold engine_noise_generator, engine_generator_guard; destruct user; try reflexivity; try contradiction.
Qed.

Print Assumptions C04_add_noise_ledger.
Print Assumptions C04_noise_positions_fresh.
Print Assumptions C04_skipped_step_draws_nothing.
Print Assumptions C04_std_in_force.
Print Assumptions C04_zero_std_no_noise.
Print Assumptions C04_secure_mode_variance.
Print Assumptions C04_ddp_noise_rank0_only.
Print Assumptions C04_ddp_noise_rank0.
Print Assumptions C04_generator_selection.
