(* Properties/C03.v -- A DP step hands the inner optimizer clip-sum-noise-scale of the per-sample gradients.
   Stage by stage on the code GENERATED from the optimizers; numeric reading over the reals. *)
From Coq Require Import ZArith Reals List Bool.
From OV Require Import Base.Num Base.NumR Base.NumZ Base.Py Model.OptimState Model.OptimRef Gen.Optim Gen.Engine
  Proofs.OptimSM Proofs.OptimEq Proofs.NoiseP Model.ClipNum Proofs.ClipR Proofs.ClipEval Proofs.EngineP.
From OV Require Import Gen.Ghost Proofs.GhostBackward.
Import ListNotations.

(* stage 1: clip_and_accumulate of DPOptimizer / DPPerLayerOptimizer / AdaClipDPOptimizer adds, for every sample of the
   (unprocessed) per-sample gradients, one contribution tagged with the clipping norm IN FORCE; raises otherwise *)
Theorem C03_clip_stage {T} {N : Num T} (s : ost T) :
  clip_and_accumulate s = ref_clip s /\ pl_clip_and_accumulate s = ref_clip s /\ ada_clip_loop s = ref_clip s.
Proof. exact (conj (clip_eq s) (conj (pl_clip_eq s) (ada_clip_eq s))). Qed.
(* the factor applied to sample i is min(1, C / (|g_i| + 1e-6)) *)
Theorem C03_clip_factor (C n : R) : clip_factor C n = Rmin (C / (n + eps6)) 1.
Proof. exact (clip_factor_R C n). Qed.
Theorem C03_unclipped_pass_through (C n : R) : (0 <= n)%R -> (n + eps6 <= C)%R -> clip_factor C n = 1%R.
Proof. exact (clip_factor_one C n). Qed.

(* stage 2: add_noise sets p.grad := summed_grad + z with z drawn at std = noise_multiplier * max_grad_norm *)
Theorem C03_noise_stage {T} {N : Num T} (s : ost T) :
  match add_noise s with
  | SOk s' _ =>
      exists v0, o_summed s = Some v0 /\ s_proc v0 = false /\
      let std := nmul (o_nm s) (o_mgn s) in
      o_events s' = o_events s ++ noise_shape (o_secure s) std (o_noise_pos s) /\
      o_grad s' = Some (mkgrad [] (s_items v0) (noise_value (o_secure s) std (o_noise_pos s)) []) /\
      o_summed s' = Some (mksum (s_items v0) true)
  | SErr s' e => s' = s
  end.
Proof. exact (add_noise_ledger s). Qed.

(* stage 3: scale_grad divides by expected_batch_size * accumulated_iterations for mean reduction, not at all for sum *)
Theorem C03_scale_stage {T} {N : Num T} (s : ost T) : v_scale s = ref_scale s.
Proof. exact (scale_eq s). Qed.

(* numeric reading: the release with ledger (clipped items of `ids` w.r.t. C, noise nz, divisors divs) evaluates to
   ( sum_i min(1, C/(|g_i|+1e-6)) g_i  +  z ) / divisors *)
Theorem C03_release_closed_form {T} {N : Num T} (g z : Z -> psg) (C : T) (ids : list (Z * Z)) (nz : noise T) (divs : list T) :
  eval_grad g z (mkgrad [] (clip_items C ids) nz divs) =
  fold_left (fun acc d => pdiv d acc) divs
    (padd (psum (map (fun id => flat_clipped C (g (snd id))) ids)) (eval_noise z nz)).
Proof. exact (eval_grad_closed g z C ids nz divs). Qed.

(* zero noise and a huge clipping norm: the DP step hands over the plain averaged gradient *)
Theorem C03_zero_noise_big_C_is_vanilla (g z : Z -> list (list R)) (C d : R) (ids : list (Z * Z)) :
  (forall id, In id ids -> (joint_norm (g (snd id)) + eps6 <= C)%R) ->
  eval_grad g z (mkgrad [] (clip_items C ids) [] [d]) = pdiv d (psum (map (fun id => g (snd id)) ids)).
Proof. exact (vanilla_when_unclipped g z C d ids). Qed.

(* get_optimizer_class: total on the documented domain and equal to the documented table (finite domain, exhaustive) *)
Theorem C03_optimizer_class_table :
  forall c d m, In c clippings -> In m modes -> res_eq (optimizer_class c d m) (table c d m) = true.
Proof. exact optimizer_class_table. Qed.

Print Assumptions C03_clip_stage.
Print Assumptions C03_clip_factor.
Print Assumptions C03_unclipped_pass_through.
Print Assumptions C03_noise_stage.
Print Assumptions C03_scale_stage.
(* ghost clipping: the clipped sum reaches p.grad as the gradient of the SECOND loss.  On the statement lists generated from
   DPTensorFastGradientClipping.backward and its adaptive variant that loss is sum_i c_i * loss_i when the criterion returns its per-sample
   losses as a vector [B].  PARTIAL: for a column [B, 1] the statement is false of the code (recorded finding ghost-column-loss-unclipped):
   the coefficients (shape [B]) are multiplied with the column without a re-layout, the product is the B x B outer product and the loss is
   (sum of all coefficients) * (sum of losses) -- C03_ghost_second_loss_column_refuted; any statement list that re-lays the coefficients
   out before the product computes the weighted sum for both layouts -- C03_ghost_second_loss_shaped *)
Theorem C03_ghost_second_loss_is_weighted_sum_partial (c l : list R) :
  snd (fold_left (shape_step LVec c l) ghost_backward_ops (LVec, None)) = Some (rdot c l) /\
  snd (fold_left (shape_step LVec c l) ghost_adaptive_backward_ops (LVec, None)) = Some (rdot c l).
Proof. exact (second_loss_is_weighted_sum_vec c l). Qed.
Theorem C03_ghost_second_loss_column_refuted : exists c l,
  snd (fold_left (shape_step LCol c l) (filter (fun o => match o with GShapeCoef => false | _ => true end) ghost_backward_ops) (LVec, None)) <> Some (rdot c l).
Proof. exact second_loss_unshaped_refuted. Qed.
Theorem C03_ghost_second_loss_shaped (ll : layout) (c l : list R) (pre post : list gop) :
  (forall o, In o pre -> o <> GSecondSum) -> (forall o, In o post -> o <> GSecondSum /\ o <> GClipCoef /\ o <> GShapeCoef) ->
  snd (fold_left (shape_step ll c l) (pre ++ [GShapeCoef; GSecondLoss; GSecondSum] ++ post) (LVec, None)) = Some (rdot c l).
Proof. exact (second_loss_is_weighted_sum_shaped ll c l pre post). Qed.

Print Assumptions C03_release_closed_form.
Print Assumptions C03_zero_noise_big_C_is_vanilla.
Print Assumptions C03_optimizer_class_table.
Print Assumptions C03_ghost_second_loss_is_weighted_sum_partial.
Print Assumptions C03_ghost_second_loss_column_refuted.
Print Assumptions C03_ghost_second_loss_shaped.
