(* Properties/C14.v -- DPMultiheadAttention computes the same function as nn.MultiheadAttention  (PARTIAL: softmax / bmm / linear kernels and
   the numerical equality are compared against torch; proved here is the head split / merge index plumbing for ALL extents and both layouts,
   on the reshape sequences generated from the source). *)
From Coq Require Import List Arith Lia.
From OV Require Import Base.Num Model.GhostNorm Model.ViewOps Gen.Mha Proofs.MhaP Proofs.MhaCore.
Import ListNotations.

Theorem C14_split_heads_correct (L B H hd l b h d : nat) : l < L -> b < B -> h < H -> d < hd ->
  let st := vrun (split_q_ops L B H hd) (vinit (L, B, H * hd)) in
  fst st = (B * H, L, hd) /\ snd st (b * H + h, l, d) (l, b, h * hd + d).
Proof. exact (split_heads_correct L B H hd l b h d). Qed.
Theorem C14_split_heads_functional (L B H hd : nat) (x src src' : idx) :
  let st := vrun (split_q_ops L B H hd) (vinit (L, B, H * hd)) in snd st x src -> snd st x src' -> src = src'.
Proof. exact (split_heads_functional L B H hd x src src'). Qed.
Theorem C14_merge_heads_correct (L B H hd l b h d : nat) : l < L -> b < B -> h < H -> d < hd ->
  let st := vrun (merge_ops_seq_first L B H hd) (vinit (B * H, L, hd)) in
  fst st = (L, B, H * hd) /\ snd st (l, b, h * hd + d) (b * H + h, l, d).
Proof. exact (merge_heads_correct L B H hd l b h d). Qed.
Theorem C14_merge_heads_functional (L B H hd : nat) (x src src' : idx) :
  let st := vrun (merge_ops_seq_first L B H hd) (vinit (B * H, L, hd)) in snd st x src -> snd st x src' -> src = src'.
Proof. exact (merge_heads_functional L B H hd x src src'). Qed.
(* batch_first = True (repaired by a fix: commit; before it the heads of different samples were interleaved for num_heads > 1) *)
Theorem C14_merge_heads_batch_first_correct (L B H hd l b h d : nat) : l < L -> b < B -> h < H -> d < hd ->
  let st := vrun (merge_ops_batch_first L B H hd) (vinit (B * H, L, hd)) in
  fst st = (B, L, H * hd) /\ snd st (b, l, h * hd + d) (b * H + h, l, d).
Proof. exact (merge_heads_batch_first_correct L B H hd l b h d). Qed.
Theorem C14_merge_heads_batch_first_functional (L B H hd : nat) (x src src' : idx) :
  let st := vrun (merge_ops_batch_first L B H hd) (vinit (B * H, L, hd)) in snd st x src -> snd st x src' -> src = src'.
Proof. exact (merge_heads_batch_first_functional L B H hd x src src'). Qed.
Theorem C14_merge_split_inverse (L B H hd l b h d : nat) : l < L -> b < B -> h < H -> d < hd ->
  exists hidx, snd (vrun (merge_ops_seq_first L B H hd) (vinit (B * H, L, hd))) (l, b, h * hd + d) hidx /\
               snd (vrun (split_q_ops L B H hd) (vinit (L, B, H * hd))) hidx (l, b, h * hd + d).
Proof. exact (merge_split_inverse L B H hd l b h d). Qed.
Theorem C14_split_kv_same (S B H hd : nat) : split_k_ops S B H hd = split_q_ops S B H hd /\ split_v_ops S B H hd = split_q_ops S B H hd.
Proof. exact (split_kv_same S B H hd). Qed.

(* the attention core with the GENERATED reshapes: q scaled, heads split, scores = q k^T + additive term (masks expanded per batch*head),
   a row function "softmax" that only reads the S scores of its row, weighted sum of v, heads merged -- entry (l, b, h*hd + d) of the result
   is head h of sample b attending over the source positions with the feature slice h*hd .. h*hd+hd-1 of Q, K, V (both layouts).
   Holds for arbitrary ring operations (only WHICH entries meet is at stake), every extent, every additive term. *)
Theorem C14_attention_core {T} {N : Num T} (softmax : nat -> (nat -> T) -> nat -> T) :
  (forall S f g, (forall s, s < S -> f s = g s) -> forall s, s < S -> softmax S f s = softmax S g s) ->
  forall (L S B H hd : nat) (scaling : T) (Q K V : tensor) (bias : nat -> nat -> nat -> T) (q2 k2 v2 o out out_bf : tensor),
  realises (vrun (split_q_ops L B H hd) (vinit (L, B, H * hd))) (fun x => nmul (Q x) scaling) q2 ->
  realises (vrun (split_k_ops S B H hd) (vinit (S, B, H * hd))) K k2 ->
  realises (vrun (split_v_ops S B H hd) (vinit (S, B, H * hd))) V v2 ->
  (forall bh l d, o (bh, l, d) = sum_n S (fun s => nmul (weights softmax S hd bias q2 k2 bh l s) (v2 (bh, s, d)))) ->
  realises (vrun (merge_ops_seq_first L B H hd) (vinit (B * H, L, hd))) o out ->
  realises (vrun (merge_ops_batch_first L B H hd) (vinit (B * H, L, hd))) o out_bf ->
  forall l b h d, l < L -> b < B -> h < H -> d < hd ->
  out (l, b, h * hd + d) = ref_out softmax S H hd scaling Q K V bias l b h d /\
  out_bf (b, l, h * hd + d) = ref_out softmax S H hd scaling Q K V bias l b h d.
Proof.
  intros SL L S B H hd scaling Q K V bias q2 k2 v2 o out out_bf Hq Hk Hv Ho Hout Hbf l b h d Hl Hb Hh Hd. split.
  - exact (attention_core_is_per_head_attention softmax SL L S B H hd scaling Q K V bias q2 k2 v2 o out Hq Hk Hv Ho Hout l b h d Hl Hb Hh Hd).
  - exact (attention_core_batch_first softmax SL L S B H hd scaling Q K V bias q2 k2 v2 o Hq Hk Hv Ho out_bf Hbf l b h d Hl Hb Hh Hd).
Qed.
(* the premises are satisfiable: every tensor has a view through the generated split *)
Theorem C14_views_exist {T} (L B H hd : nat) (t : @tensor T) :
  exists t', realises (vrun (split_q_ops L B H hd) (vinit (L, B, H * hd))) t t'.
Proof. exact (realises_split_exists L B H hd t). Qed.

Example C14_nonvacuous : 1 < 2 /\ 2 < 3 /\ 1 < 2 /\ 2 < 4 /\
  snd (vrun (merge_ops_batch_first 2 3 2 4) (vinit (3 * 2, 2, 4))) (2, 1, 1 * 4 + 2) (2 * 2 + 1, 1, 2).
Proof. repeat split; try lia. apply (merge_heads_batch_first_correct 2 3 2 4 1 2 1 2); lia. Qed.

Print Assumptions C14_split_heads_correct.
Print Assumptions C14_split_heads_functional.
Print Assumptions C14_merge_heads_correct.
Print Assumptions C14_merge_heads_functional.
Print Assumptions C14_merge_heads_batch_first_correct.
Print Assumptions C14_merge_heads_batch_first_functional.
Print Assumptions C14_merge_split_inverse.
Print Assumptions C14_split_kv_same.
Print Assumptions C14_attention_core.
Print Assumptions C14_views_exist.
