(* Properties/C14.v -- DPMultiheadAttention computes the same function as nn.MultiheadAttention  (PARTIAL: softmax / bmm / linear kernels and
   the numerical equality are compared against torch; proved here is the head split / merge index plumbing for ALL extents and both layouts,
   on the reshape sequences generated from the source). *)
From Coq Require Import List Arith Lia.
From OV Require Import Model.ViewOps Gen.Mha Proofs.MhaP.
Import ListNotations.

Theorem C14_split_heads_correct (L B H hd l b h d : nat) : l < L -> b < B -> h < H -> d < hd ->
  let st := vrun (split_q_ops L B H hd) (vinit (L, B, H * hd)) in
  fst st = (B * H, L, hd) /\ snd st (b * H + h, l, d) (l, b, h * hd + d).
Proof. exact (split_heads_correct L B H hd l b h d). Qed.
Theorem C14_split_heads_functional (L B H hd : nat) (x src src' : idx) :
  let st := vrun (split_q_ops L B H hd) (vinit (L, B, H * hd)) in snd st x src -> snd st x src' -> src = src'.
Proof. exact (split_heads_functional L B H hd x src src'). Qed.
Theorem C14_merge_heads_correct (L B H hd l b h d : nat) : l < L -> b < B -> h < H -> d < hd ->
  let st := vrun (merge_ops_seq_first L B H hd) (vinit (B * H, L, hd)) in
  fst st = (L, B, H * hd) /\ snd st (l, b, h * hd + d) (b * H + h, l, d).
Proof. exact (merge_heads_correct L B H hd l b h d). Qed.
Theorem C14_merge_heads_functional (L B H hd : nat) (x src src' : idx) :
  let st := vrun (merge_ops_seq_first L B H hd) (vinit (B * H, L, hd)) in snd st x src -> snd st x src' -> src = src'.
Proof. exact (merge_heads_functional L B H hd x src src'). Qed.
(* batch_first = True (repaired by a fix: commit; before it the heads of different samples were interleaved for num_heads > 1) *)
Theorem C14_merge_heads_batch_first_correct (L B H hd l b h d : nat) : l < L -> b < B -> h < H -> d < hd ->
  let st := vrun (merge_ops_batch_first L B H hd) (vinit (B * H, L, hd)) in
  fst st = (B, L, H * hd) /\ snd st (b, l, h * hd + d) (b * H + h, l, d).
Proof. exact (merge_heads_batch_first_correct L B H hd l b h d). Qed.
Theorem C14_merge_heads_batch_first_functional (L B H hd : nat) (x src src' : idx) :
  let st := vrun (merge_ops_batch_first L B H hd) (vinit (B * H, L, hd)) in snd st x src -> snd st x src' -> src = src'.
Proof. exact (merge_heads_batch_first_functional L B H hd x src src'). Qed.
Theorem C14_merge_split_inverse (L B H hd l b h d : nat) : l < L -> b < B -> h < H -> d < hd ->
  exists hidx, snd (vrun (merge_ops_seq_first L B H hd) (vinit (B * H, L, hd))) (l, b, h * hd + d) hidx /\
               snd (vrun (split_q_ops L B H hd) (vinit (L, B, H * hd))) hidx (l, b, h * hd + d).
Proof. exact (merge_split_inverse L B H hd l b h d). Qed.
Theorem C14_split_kv_same (S B H hd : nat) : split_k_ops S B H hd = split_q_ops S B H hd /\ split_v_ops S B H hd = split_q_ops S B H hd.
Proof. exact (split_kv_same S B H hd). Qed.

Example C14_nonvacuous : 1 < 2 /\ 2 < 3 /\ 1 < 2 /\ 2 < 4 /\
  snd (vrun (merge_ops_batch_first 2 3 2 4) (vinit (3 * 2, 2, 4))) (2, 1, 1 * 4 + 2) (2 * 2 + 1, 1, 2).
Proof. repeat split; try lia. apply (merge_heads_batch_first_correct 2 3 2 4 1 2 1 2); lia. Qed.

Print Assumptions C14_split_heads_correct.
Print Assumptions C14_split_heads_functional.
Print Assumptions C14_merge_heads_correct.
Print Assumptions C14_merge_heads_functional.
Print Assumptions C14_merge_heads_batch_first_correct.
Print Assumptions C14_merge_heads_batch_first_functional.
Print Assumptions C14_merge_split_inverse.
Print Assumptions C14_split_kv_same.
