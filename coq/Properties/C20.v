(* Properties/C20.v -- Adaptive clipping follows its update rule and its cost is fully accounted  (PARTIAL: see the finding). *)
From Coq Require Import ZArith Reals.
From OV Require Import Base.Num Base.NumR Base.Py Gen.AdaClip Proofs.AdaClipR.
Local Open Scope R_scope.

(* the rule generated from update_max_grad_norm: C' = clamp(C exp(-lr (b~ - gamma)), [min, max]), b~ = noisy count / sample size *)
Theorem C20_update_rule (C noisy n lr gamma maxc minc : R) : minc <= maxc ->
  ada_update C noisy n lr gamma maxc minc = Rmax minc (Rmin maxc (C * exp (- lr * (noisy / n - gamma)))).
Proof. exact (ada_update_rule C noisy n lr gamma maxc minc). Qed.
(* the un-noised count influences the norm only through the noisy count *)
Theorem C20_count_noninterference (C raw raw' z z' n lr gamma maxc minc : R) :
  raw + z = raw' + z' -> ada_update C (raw + z) n lr gamma maxc minc = ada_update C (raw' + z') n lr gamma maxc minc.
Proof. exact (count_noninterference C raw raw' z z' n lr gamma maxc minc). Qed.
(* gradient noise is raised to sigma_g with sigma_g^-2 + (2 sigma_b)^-2 = sigma^-2 *)
Theorem C20_sigma_split_identity (sigma sigma_b : R) : 0 < sigma -> sigma < 2 * sigma_b ->
  let sg := ada_sigma sigma sigma_b in 0 < sg /\ 1 / (sg * sg) + 1 / ((2 * sigma_b) * (2 * sigma_b)) = 1 / (sigma * sigma).
Proof. exact (sigma_split_identity sigma sigma_b). Qed.
(* FULL statement required by the property: the accountant is charged with a multiplier <= the nominal sigma.
   It is FALSE of the code: AdaClipDPOptimizer overwrites optimizer.noise_multiplier with sigma_g, which is what the accountant
   hook reads, and sigma_g > sigma (theorem below; Findings/C20.v; KNOWN_FINDINGS.json). *)
Theorem C20_sigma_g_exceeds_nominal (sigma sigma_b : R) : 0 < sigma -> sigma < 2 * sigma_b -> sigma < ada_sigma sigma sigma_b.
Proof. exact (sigma_g_gt_sigma sigma sigma_b). Qed.

Print Assumptions C20_update_rule.
Print Assumptions C20_count_noninterference.
Print Assumptions C20_sigma_split_identity.
Print Assumptions C20_sigma_g_exceeds_nominal.
