(* Properties/C20.v -- Adaptive clipping follows its update rule and its cost is fully accounted  (PARTIAL: see the finding). *)
From Coq Require Import ZArith Reals List.
From OV Require Import Base.Num Base.NumR Base.Py Gen.AdaClip Gen.Ghost Proofs.AdaClipR.
Import ListNotations.
Local Open Scope R_scope.

(* the rule generated from update_max_grad_norm: C' = clamp(C exp(-lr (b~ - gamma)), [min, max]), b~ = noisy count / sample size *)
Theorem C20_update_rule (C noisy n lr gamma maxc minc : R) : minc <= maxc ->
  ada_update C noisy n lr gamma maxc minc = Rmax minc (Rmin maxc (C * exp (- lr * (noisy / n - gamma)))).
Proof. exact (ada_update_rule C noisy n lr gamma maxc minc). Qed.
(* the un-noised count influences the norm only through the noisy count *)
Theorem C20_count_noninterference (C raw raw' z z' n lr gamma maxc minc : R) :
  raw + z = raw' + z' -> ada_update C (raw + z) n lr gamma maxc minc = ada_update C (raw' + z') n lr gamma maxc minc.
Proof. exact (count_noninterference C raw raw' z z' n lr gamma maxc minc). Qed.
(* gradient noise is raised to sigma_g with sigma_g^-2 + (2 sigma_b)^-2 = sigma^-2 *)
Theorem C20_sigma_split_identity (sigma sigma_b : R) : 0 < sigma -> sigma < 2 * sigma_b ->
  let sg := ada_sigma sigma sigma_b in 0 < sg /\ 1 / (sg * sg) + 1 / ((2 * sigma_b) * (2 * sigma_b)) = 1 / (sigma * sigma).
Proof. exact (sigma_split_identity sigma sigma_b). Qed.
(* FULL statement required by the property: the accountant is charged with a multiplier <= the nominal sigma.
   It is FALSE of the code: AdaClipDPOptimizer overwrites optimizer.noise_multiplier with sigma_g, which is what the accountant
   hook reads, and sigma_g > sigma (theorem below; Findings/C20.v; KNOWN_FINDINGS.json). *)
Theorem C20_sigma_g_exceeds_nominal (sigma sigma_b : R) : 0 < sigma -> sigma < 2 * sigma_b -> sigma < ada_sigma sigma sigma_b.
Proof. exact (sigma_g_gt_sigma sigma sigma_b). Qed.

(* the ghost adaptive engine's backward, as generated statement by statement: the per-sample norms are read after the first pass, the bound
   and the noise multiplier are updated from them, module AND optimizer receive the new bound, and only then are the clipping coefficients
   computed and the second pass run with hooks disabled -- so the gradients of a step are clipped with the very bound that scales its noise *)
Definition pos (o : gop) (l : list gop) : nat :=
  (fix go (l : list gop) (i : nat) : nat := match l with [] => i | x :: r => if (match x, o with
     | GReduce, GReduce | GBackwardReduced, GBackwardReduced | GOptZeroGrad, GOptZeroGrad | GClipCoef, GClipCoef | GSecondLoss, GSecondLoss
     | GSecondSum, GSecondSum | GDisableHooks, GDisableHooks | GBackwardSecond, GBackwardSecond | GEnableHooks, GEnableHooks | GReadNorms, GReadNorms
     | GAdaptiveUpdate, GAdaptiveUpdate | GSetModuleBound, GSetModuleBound | GSetOptimizerBound, GSetOptimizerBound
     | GSetNoiseMultiplier, GSetNoiseMultiplier => true | _, _ => false end) then i else go r (S i) end) l 0%nat.
Theorem C20_ghost_adaptive_backward_order :
  let l := ghost_adaptive_backward_ops in
  (pos GBackwardReduced l < pos GReadNorms l)%nat /\ (pos GReadNorms l < pos GAdaptiveUpdate l)%nat /\
  (pos GAdaptiveUpdate l < pos GSetModuleBound l)%nat /\ (pos GAdaptiveUpdate l < pos GSetOptimizerBound l)%nat /\
  (pos GAdaptiveUpdate l < pos GSetNoiseMultiplier l)%nat /\
  (pos GSetModuleBound l < pos GClipCoef l)%nat /\ (pos GSetOptimizerBound l < pos GClipCoef l)%nat /\
  (pos GClipCoef l < pos GDisableHooks l)%nat /\ (pos GDisableHooks l < pos GBackwardSecond l)%nat /\ (pos GBackwardSecond l < pos GEnableHooks l)%nat /\
  (pos GEnableHooks l < length l)%nat.
Proof. vm_compute. repeat split; repeat constructor. Qed.


(* update_max_grad_norm as a whole (with its guard): after a logical batch without a single sample (empty Poisson draws) the norm is unchanged -- not nan, not inf --
   and after any other batch it is the rule of C20_update_rule *)
Theorem C20_update_after_empty_batch (C noisy lr gamma maxc minc : R) : ada_update_step C noisy 0 lr gamma maxc minc = C.
Proof. exact (ada_update_step_empty C noisy lr gamma maxc minc). Qed.
Theorem C20_update_step_rule (C noisy n lr gamma maxc minc : R) : minc <= maxc -> n <> 0 ->
  ada_update_step C noisy n lr gamma maxc minc = Rmax minc (Rmin maxc (C * exp (- lr * (noisy / n - gamma)))).
Proof. exact (ada_update_step_rule C noisy n lr gamma maxc minc). Qed.

Print Assumptions C20_update_rule.
Print Assumptions C20_count_noninterference.
Print Assumptions C20_sigma_split_identity.
Print Assumptions C20_sigma_g_exceeds_nominal.
Print Assumptions C20_ghost_adaptive_backward_order.
Print Assumptions C20_update_after_empty_batch.
Print Assumptions C20_update_step_rule.
