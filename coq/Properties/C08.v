(* Properties/C08.v -- Calibrated noise never overshoots the requested (epsilon, delta) budget. *)
From Coq Require Import ZArith Reals List Bool.
From OV Require Import Base.Num Base.NumR Base.Py Gen.Calib Gen.Engine Proofs.CalibP.
Local Open Scope R_scope.

(* the search GENERATED from get_noise_multiplier, with the accountant abstracted to an ARBITRARY function
   eps_of : sigma -> epsilon (no monotonicity needed): whenever it returns sigma_s, eps(sigma_s) <= target and
   target - eps(sigma_s) <= tolerance.  Running out of fuel / exceeding MAX_SIGMA are the error outcomes. *)
Theorem C08_bisection_invariant (ninf : R) (eps_of : R -> R) (fuel : nat) (target tol sigma : R) :
  target < ninf -> calib_search ninf eps_of fuel target tol = Ok sigma ->
  eps_of sigma <= target /\ target - eps_of sigma <= tol.
Proof. exact (bisection_invariant ninf eps_of fuel target tol sigma). Qed.

(* the engine calibrates for exactly epochs * len(loader) steps (integer arithmetic, after the repair), at the rate
   1/len(loader) that is also the sampler's and the accountant's rate *)
Theorem C08_engine_calibration_arguments {T} {N : Num T} {NI : NumI T} (epochs L : Z) :
  engine_calibration_steps epochs L = (epochs * L)%Z /\
  engine_calibration_rate (T:=T) L = engine_sample_rate L /\ loader_sample_rate (T:=T) L = engine_sample_rate L.
Proof. repeat split. Qed.

Print Assumptions C08_bisection_invariant.
Print Assumptions C08_engine_calibration_arguments.
