(* Properties/C13.v -- DPLSTM / DPGRU / DPRNN are drop-in equivalents of the torch.nn recurrent layers  (PARTIAL: torch's kernels and the
   gate equations are compared numerically; proved here is the index plumbing of the packed time loop, for EVERY cell). *)
From Coq Require Import List Arith Lia Bool.
From Coq Require String.
From OV Require Import Gen.Rnn Proofs.RnnP Proofs.RnnStack Proofs.RenameP.
Import ListNotations.

(* running the code's batched time loop (batch shrinking with the packed sequence, previous state sliced to the current batch) on the
   time-major packed input equals packing the per-sequence recurrences: for every cell, every ragged prefix-closed batch, every initial states *)
Theorem C13_packed_forward_refines_scan (X H : Type) (cell : X -> H -> H) (fuel : nat) (rows : list (list X)) (h0 : list H) :
  length rows <= length h0 -> loop cell (cols fuel rows) h0 = cols fuel (scans cell h0 rows).
Proof. exact (packed_forward_refines_scan cell fuel rows h0). Qed.
(* reverse direction (reverse_layer=True): the batch GROWS along the reversed time axis, and a row takes its initial state from h_0 at
   the step where its sequence starts.  For every cell, every list of columns with non-decreasing lengths and every previous state:
   row i of the loop's outputs is the recurrence over row i of the inputs, started from the state row i holds on entry ... *)
Theorem C13_reverse_loop_rows (X H : Type) (cell : X -> H -> H) (h0 : list H) (cs : list (list X)) (h : list H) (i : nat) (hi : H) :
  nondecreasing X (length h) cs -> Forall (fun c => length c <= length h0) cs -> length h <= length h0 ->
  nth_error (h ++ skipn (length h) h0) i = Some hi ->
  rowseq H i (rloop X H cell h0 cs h) = rscan X H cell hi (rowseq X i cs).
Proof. exact (rloop_rows X H cell h0 cs h i hi). Qed.
(* ... hence for the whole reversed layer, with the outputs put back in time order: row i = reversed recurrence over the reversed row *)
Theorem C13_reverse_layer_rows (X H : Type) (cell : X -> H -> H) (h0 : list H) (cols_fwd : list (list X)) (i : nat) (hi : H) :
  nondecreasing X 0 (rev cols_fwd) -> Forall (fun c => length c <= length h0) cols_fwd -> nth_error h0 i = Some hi ->
  rowseq H i (rev (rloop X H cell h0 (rev cols_fwd) [])) = rev (rscan X H cell hi (rev (rowseq X i cols_fwd))).
Proof. exact (reverse_layer_rows X H cell h0 cols_fwd i hi). Qed.
(* compute_seq_lengths (generated): for the non-increasing batch sizes of a PackedSequence, entry i is the number of time steps whose
   batch still contains sequence i (its length), and there is one entry per sequence -- the index used to gather the last states *)
Theorem C13_seq_lengths_correct (b0 : nat) (rest : list nat) (i : nat) : noninc b0 rest -> i < b0 ->
  nth i (compute_seq_lengths (b0 :: rest)) 0 = longer i (b0 :: rest).
Proof. exact (seq_lengths_correct b0 rest i). Qed.
Theorem C13_seq_lengths_length (b0 : nat) (rest : list nat) : noninc b0 rest -> length (compute_seq_lengths (b0 :: rest)) = b0.
Proof. exact (seq_lengths_length b0 rest). Qed.

(* the layer loop of DPRNNBase.forward (pinned structurally: layers outermost, directions inside, state index layer * P + direction, the
   directions' outputs concatenated, dropout on the outputs of every layer but the last): for ANY per-(layer, direction) run function,
   concatenation, dropout map, number of layers L >= 1 and directions P, the loop returns the UNdropped output of the last layer fed with
   the dropped outputs of the layers below, and the L * P final states in layer-major order, entry l * P + dir being the state returned by
   (layer l, direction dir) -- torch.nn's stacking semantics *)
Theorem C13_layer_stack (Seq St : Type) (run : nat -> nat -> Seq -> St -> Seq * St) (cat : list Seq -> Seq) (drop : nat -> Seq -> Seq)
    (P : nat) (h0 : nat -> St) (L : nat) (x : Seq) : 0 < L ->
  stack Seq St run cat drop P h0 L 0 x [] =
    (cat (map fst (runs Seq St run P h0 (L - 1) (layer_input Seq St run cat drop P h0 x (L - 1)))), all_states Seq St run cat drop P h0 x L) /\
  length (all_states Seq St run cat drop P h0 x L) = L * P /\
  (forall l dir d, l < L -> dir < P ->
     nth (l * P + dir) (all_states Seq St run cat drop P h0 x L) d = snd (run l dir (layer_input Seq St run cat drop P h0 x l) (h0 (l * P + dir)))).
Proof.
  intros H. split; [exact (stack_is_torch_semantics Seq St run cat drop P h0 L x H)|].
  split; [exact (all_states_length Seq St run cat drop P h0 x L)|].
  intros l dir d Hl Hd. exact (all_states_nth Seq St run cat drop P h0 x L l dir d Hl Hd).
Qed.
(* unsorted packed input: initial states are selected by sorted_indices, final states by unsorted_indices (apply_permutation = index_select);
   for any row-wise computation F and inverse permutations the caller sees F applied to the rows in their original order *)
Theorem C13_sort_unsort_rowwise (A B : Type) (dA : A) (dB : B) (F : A -> B) (rows : list A) (sorted unsorted : list nat) :
  length sorted = length rows -> length unsorted = length rows ->
  (forall i, i < length rows -> nth i unsorted 0 < length rows /\ nth (nth i unsorted 0) sorted 0 = i) ->
  select dB (map F (select dA rows sorted)) unsorted = map F rows.
Proof. exact (sort_unsort_rowwise A B dA dB F rows sorted unsorted). Qed.

Example C13_nonvacuous :
  noninc 3 [3; 2; 1] /\ compute_seq_lengths [3; 3; 2; 1] = [4; 3; 2] /\
  loop (fun x h => x + 2 * h) (cols 4 [[1; 2; 3; 4]; [5; 6; 7]; [8; 9]]) [0; 1; 2] = cols 4 (scans (fun x h => x + 2 * h) [0; 1; 2] [[1; 2; 3; 4]; [5; 6; 7]; [8; 9]]).
Proof. repeat split; try (cbn; lia); vm_compute; reflexivity. Qed.

(* "its state_dict has exactly the torch layer's keys, so checkpoints move in both directions" -- also when the layer is a sub-module of a
   model (keys carry a prefix): on the definitions generated from param_rename.py the state_dict hook removes exactly the keys
   prefix + sub-module name and nothing else, and on loading every sub-module name whose renamed key is present is offered to the
   sub-modules (so a strict load finds nothing missing); the filter that ignores the prefix leaves the sub-module keys of a nested layer in *)
Theorem C13_state_dict_keys_nested (prefix : String.string) (olds keys : list String.string) (k : String.string) :
  In k (rename_filter prefix olds keys) <-> In k keys /\ ~ (exists o, In o olds /\ k = String.append prefix o).
Proof. exact (rename_filter_spec prefix olds keys k). Qed.
(* exactly the torch keys: the raw keys of the layer under `prefix` are the renamed names (the torch names, by the pinned naming formula)
   followed by the sub-modules' own names; no renamed name being a sub-module name, what the model's state_dict keeps is the torch names, in order *)
Theorem C13_state_dict_is_exactly_the_renamed_keys (prefix : String.string) (olds news : list String.string) :
  (forall n, In n news -> ~ In n olds) ->
  rename_filter prefix olds (map (String.append prefix) (news ++ olds)) = map (String.append prefix) news.
Proof. exact (rename_filter_exact prefix olds news). Qed.
Module C13_nonvacuous_keys.
Import String.
Local Open Scope string_scope.
Example C13_state_dict_keys_nonvacuous :
  rename_filter "rnn." ["l0.ih.weight"; "l0.hh.weight"] (map (String.append "rnn.") (["weight_ih_l0"; "weight_hh_l0"] ++ ["l0.ih.weight"; "l0.hh.weight"]))
  = ["rnn.weight_ih_l0"; "rnn.weight_hh_l0"].
Proof. vm_compute. reflexivity. Qed.
End C13_nonvacuous_keys.
Theorem C13_load_offers_submodule_names (prefix : String.string) (pairs : list (String.string * String.string)) (keys : list String.string) (o n : String.string) :
  incl keys (rename_offer prefix pairs keys) /\
  (In (o, n) pairs -> In (String.append prefix n) keys -> In (String.append prefix o) (rename_offer prefix pairs keys)).
Proof. exact (conj (rename_offer_incl prefix pairs keys) (rename_offer_spec prefix pairs keys o n)). Qed.
Theorem C13_unprefixed_filter_refuted : exists prefix olds keys k,
  In k (filter (fun k => negb (existsb (fun o => String.eqb k o) olds)) keys) /\ In k keys /\ exists o, In o olds /\ k = String.append prefix o.
Proof. exact rename_filter_unprefixed_refuted. Qed.

Print Assumptions C13_packed_forward_refines_scan.
Print Assumptions C13_reverse_loop_rows.
Print Assumptions C13_reverse_layer_rows.
Print Assumptions C13_seq_lengths_correct.
Print Assumptions C13_seq_lengths_length.
Print Assumptions C13_layer_stack.
Print Assumptions C13_sort_unsort_rowwise.
Print Assumptions C13_state_dict_keys_nested.
Print Assumptions C13_load_offers_submodule_names.
Print Assumptions C13_unprefixed_filter_refuted.
Print Assumptions C13_state_dict_is_exactly_the_renamed_keys.
