(* Properties/C11.v -- No per-sample gradient is ever released twice; stale state never leaks.
   Statements about `run` / `exec` / `v_step`, i.e. about the optimizer transitions GENERATED from
   opacus/optimizers/*.py (Gen/Optim.v) composed per class (Proofs/OptimSM.v). *)
From Coq Require Import ZArith List Bool.
From OV Require Import Base.Num Base.NumZ Base.Py Model.OptimState Gen.Optim Proofs.OptimSM Proofs.OptimInv Proofs.OptimMore.
Import ListNotations.

(* every finite program over {forward+backward(batch), optimizer.step, optimizer.zero_grad, module.zero_grad,
   signal_skip_step(b), scheduler writes}, every variant (flat, per-layer, adaptive, ghost), accumulation
   allowed or forbidden, any accountant, any parameters:  the (backward id, sample id) pairs over ALL
   releases to the inner optimizer are duplicate free, and every released contribution is a CLIPPED one. *)
Theorem C11_no_double_release {T} {N : Num T} v a (nm mgn ebs rate : T) mean secure accum (ops : list (@op T)) :
  Forall op_wf ops ->
  let s := run ops (init_state v a nm mgn ebs rate mean secure accum) in
  NoDup (map ikey (released (o_events s))) /\ Forall clipped (released (o_events s)).
Proof. exact (no_double_release v a nm mgn ebs rate mean secure accum ops). Qed.

(* the invariant behind it holds in every reachable state, also after operations that raised *)
Theorem C11_invariant_every_reachable_state {T} {N : Num T} (ops : list (@op T)) s :
  Forall op_wf ops -> Inv s -> Inv (run ops s).
Proof. exact (run_inv ops s). Qed.

(* stepping on already consumed per-sample gradients raises and changes nothing (flat / per-layer / adaptive) *)
Theorem C11_reuse_raises {T} {N : Num T} (s : ost T) :
  o_variant s <> Ghost -> cells (o_gs s) <> [] -> Forall (fun c => c_proc c = true) (cells (o_gs s)) ->
  v_step s = SErr s ValueError.
Proof. exact (reuse_raises s). Qed.

(* ghost clipping: a step whose summed gradient was already released raises and releases nothing *)
Theorem C11_ghost_reuse_raises {T} {N : Num T} (s : ost T) :
  o_variant s = Ghost -> sproc (o_summed s) = true -> o_skipq s = [] ->
  exists s', v_step s = SErr s' ValueError /\ o_events s' = o_events s.
Proof. exact (ghost_reuse_raises s). Qed.

(* with accumulation forbidden (Poisson sampling) a second backward without a step raises *)
Theorem C11_second_backward_raises {T} {N : Num T} (s : ost T) sids :
  o_accum_allowed s = false -> cells (o_gs s) <> [] -> exists s', fb_hooks s sids = SErr s' ValueError.
Proof. exact (second_backward_raises s sids). Qed.

(* non-vacuity: a concrete program reaches the hypotheses of C11_reuse_raises, and releases something *)
Example C11_nonvacuous :
  let s := run [FB [0; 1]%Z; Step] (init_state Flat AccRDP 1%Z 10%Z 1%Z 1%Z false false true) in
  cells (o_gs s) <> [] /\ forallb c_proc (cells (o_gs s)) = true /\
  map ikey (released (o_events s)) = [(0, 0); (0, 1)]%Z /\
  (match v_step s with SErr _ ValueError => true | _ => false end) = true.
Proof. vm_compute. repeat split. discriminate. Qed.

Print Assumptions C11_no_double_release.
Print Assumptions C11_invariant_every_reachable_state.
Print Assumptions C11_reuse_raises.
Print Assumptions C11_ghost_reuse_raises.
Print Assumptions C11_second_backward_raises.
