(* Properties/C19.v -- Wrapping is transparent and reversible (PARTIAL: object identity and torch's own forward are runtime facts).
   Statements about lists and definitions regenerated from the grad_sample package and optimizer.py (Gen/Wrap.v). *)
From Coq Require Import ZArith List String Bool.
From OV Require Import Base.Py Gen.Wrap Model.WrapLedger Proofs.WrapP.
Import ListNotations.
Local Open Scope string_scope.
Local Open Scope list_scope.

(* every attribute that any code of the grad_sample package assigns on a user's parameter or module is deleted by to_standard_module *)
Theorem C19_written_is_removed (f : fact) : written f = true -> removed f = true.
Proof. exact (written_is_removed f). Qed.
(* wrap -> ANY sequence of Opacus writes / deletes on any parameters and modules (forward, backward, accumulation, any mode) ->
   to_standard_module: exactly the user's own attributes remain, and no hook handle *)
Theorem C19_unwrap_restores_ledger (u : list fact) (hooked : list nat) (ops : list wop) :
  Forall (fun f => removed f = false) u -> Forall (fun o => written (op_fact o) = true) ops ->
  unwrap (wrun (wrap hooked (mkw u [])) ops) = mkw u [].
Proof. exact (unwrap_restores_ledger u hooked ops). Qed.
Theorem C19_handles_recorded (hooked : list nat) (s : wstate) (ops : list wop) :
  w_handles (wrun (wrap hooked s) ops) = flat_map (fun m => map (fun k => (m, k)) hook_kinds) hooked ++ w_handles s.
Proof. exact (wrap_handles_recorded hooked s ops). Qed.
(* the wrapper's forward is the wrapped module's; the DP optimizer's param_groups / state / defaults are the inner optimizer's, reads and writes *)
Theorem C19_forward_delegates {A B} (f : A -> B) x : gsm_forward f x = f x.
Proof. exact (forward_delegates f x). Qed.
Theorem C19_optimizer_passthrough {G S D} (o : inner_opt G S D) (g : G) (s : S) (d : D) :
  dp_param_groups o = i_param_groups o /\ dp_state o = i_state o /\ dp_defaults o = i_defaults o /\
  i_param_groups (dp_set_param_groups o g) = g /\ i_state (dp_set_state o s) = s /\ i_defaults (dp_set_defaults o d) = d /\
  i_state (dp_set_param_groups o g) = i_state o /\ i_defaults (dp_set_param_groups o g) = i_defaults o.
Proof. exact (optimizer_passthrough o g s d). Qed.

(* ghost mode: whatever values the loss wrapper wants for its per-sample criterion, the criterion object the caller passed keeps all of its attributes
   (reduction among them), so ordinary training after to_standard_module goes on with the criterion it started with *)
Theorem C19_criterion_untouched {V} (own : pystr -> V) (c : list (pystr * V)) : crit_after_wrap own c = c.
Proof. exact (criterion_untouched own c). Qed.
(* non-vacuity: a user attribute survives, Opacus attributes written during training (incl. a deleted and re-created one) do not *)
Example C19_nonvacuous :
  let u := [mkfact OParam 0 "my_tag"; mkfact OModule 1 "weight_g"] in
  let ops := [Touch (mkfact OParam 0 "grad_sample"); Touch (mkfact OModule 1 "activations"); Touch (mkfact OModule 1 "max_batch_len");
              Drop (mkfact OModule 1 "max_batch_len"); Touch (mkfact OParam 0 "_norm_sample"); Touch (mkfact OParam 0 "_current_grad_sample")] in
  Forall (fun f => removed f = false) u /\ Forall (fun o => written (op_fact o) = true) ops /\
  List.length (w_ledger (wrun (wrap [1] (mkw u [])) ops)) = 6%nat /\ unwrap (wrun (wrap [1] (mkw u [])) ops) = mkw u [].
Proof. split; [repeat constructor|]. split; [repeat constructor|]. split; vm_compute; reflexivity. Qed.

Print Assumptions C19_written_is_removed.
Print Assumptions C19_unwrap_restores_ledger.
Print Assumptions C19_handles_recorded.
Print Assumptions C19_forward_delegates.
Print Assumptions C19_optimizer_passthrough.
Print Assumptions C19_criterion_untouched.
