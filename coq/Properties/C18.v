(* Properties/C18.v -- Distributed DP training equals single-process DP training on the union batch.
   Over R, on the expressions generated from ddpoptimizer.py, ddpoptimizer_fast_gradient_clipping.py, ddp_perlayeroptimizer.py, optimizer.py,
   distributed.py.  S_w is rank w's sum of clipped per-sample gradients (one component), z the single noise draw. *)
From Coq Require Import ZArith String List Reals Lra Bool.
From OV Require Import Base.Num Base.NumR Base.Py Gen.Dist Proofs.ClipR Proofs.DistR.
Import ListNotations.
Local Open Scope R_scope.

(* flat clipping: for every world size >= 1, every shard content (empty shards have S_w = 0), both loss reductions, every number k of
   accumulated iterations: after pre_step + reduce_gradients every rank holds (sum_w S_w + z) / (B k)  (no division for "sum") *)
Theorem C18_flat_equals_union (mean : bool) (B : R) (k : Z) (Ss : list R) (z : R) : Ss <> [] -> B <> 0 -> (k <> 0)%Z ->
  dist_flat ddp_noised ddp_reduce mean B k Ss z = single mean B k (nsum Ss) z.
Proof. exact (dist_flat_equals_union mean B k Ss z). Qed.
Theorem C18_ghost_equals_union (mean : bool) (B : R) (k : Z) (Ss : list R) (z : R) : Ss <> [] -> B <> 0 -> (k <> 0)%Z ->
  dist_flat ddpfgc_noised ddpfgc_reduce mean B k Ss z = single mean B k (nsum Ss) z.
Proof. exact (dist_ghost_equals_union mean B k Ss z). Qed.
(* noise is added exactly once in total: by rank 0 only *)
Theorem C18_noise_once (r : Z) (S z : R) : (r <> 0)%Z ->
  ddp_noised r S z = S /\ ddpfgc_noised r S z = S /\ dpl_noised r S z = S /\ ddp_noised 0 S z = S + z.
Proof. intros H. repeat split; auto using ddp_noised_other, ddpfgc_noised_other, dpl_noised_other. Qed.
(* SimpleDistributedPerLayerOptimizer = per-layer clipping + the distributed noise / reduction / step above (method resolution) *)
Theorem C18_simple_perlayer_resolution :
  simple_dpl_resolves "clip_and_accumulate"%string = "DPPerLayerOptimizer"%string /\ simple_dpl_resolves "add_noise"%string = "DistributedDPOptimizer"%string /\
  simple_dpl_resolves "reduce_gradients"%string = "DistributedDPOptimizer"%string /\ simple_dpl_resolves "step"%string = "DistributedDPOptimizer"%string /\
  simple_dpl_resolves "scale_grad"%string = "DPOptimizer"%string /\ simple_dpl_resolves "pre_step"%string = "DPOptimizer"%string.
Proof. exact simple_dpl_mro. Qed.
(* the distributed wrapper starts every worker from rank 0's parameters *)
Theorem C18_broadcast_from_rank0 (ps : list R) : ps <> [] -> Forall (fun p => p = nth 0 ps 0) (dpddp_init ps).
Proof. exact (dpddp_broadcast_from_rank0 ps). Qed.
(* DistributedPerLayerOptimizer (backward hooks + torch DDP; torch's accumulate-and-average modelled from observation).
   FULL statement: dpl_release = single for every world size.  It is FALSE (Findings/C18.v): the release is 2/W times the
   single-process one.  Proved: the closed form, and equality for exactly two workers. *)
Theorem C18_perlayer_hooks_closed_form (mean : bool) (B : R) (k : Z) (Ss : list R) (z : R) : Ss <> [] -> B <> 0 -> (k <> 0)%Z ->
  dpl_release mean B k Ss z = 2 / IZR (Z.of_nat (length Ss)) * single mean B k (nsum Ss) z.
Proof. exact (dpl_release_closed mean B k Ss z). Qed.
Theorem C18_perlayer_hooks_two_workers_partial (mean : bool) (B : R) (k : Z) (S0 S1 z : R) : B <> 0 -> (k <> 0)%Z ->
  dpl_release mean B k [S0; S1] z = single mean B k (nsum [S0; S1]) z.
Proof. exact (dpl_two_workers_equals_union mean B k S0 S1 z). Qed.

(* non-vacuity: three workers, unequal shards (one empty), mean reduction *)
Example C18_nonvacuous : dist_flat ddp_noised ddp_reduce true 6 1 [3; 0; 2] 1 = 1.
Proof. rewrite C18_flat_equals_union by (try discriminate; lra). unfold single, opt_scale, opt_denominator. cbn. unfold nsum. cbn. lra. Qed.

(* a second make_private on one engine (per-layer clipping on a distributed module): after any number of optimizers built in turn over
   the same parameters only the last one's tensor hook fires, so a backward pass accumulates each clipped sample once *)
Theorem C18_perlayer_hooks_replaced {H : Type} (hs : list H) (h : H) (c : R) :
  fold_left dpl_register (hs ++ [h]) [] = [h] /\ dpl_accumulated (fold_left dpl_register (hs ++ [h]) []) c = c.
Proof. exact (conj (dpl_one_hook_after_any_history hs h) (dpl_accumulates_once hs h c)). Qed.
Theorem C18_perlayer_hooks_append_refuted : exists c : R, dpl_accumulated (fold_left (fun old h => old ++ [h]) [1%nat; 2%nat] []) c <> c.
Proof. exact dpl_append_refuted. Qed.

Print Assumptions C18_flat_equals_union.
Print Assumptions C18_ghost_equals_union.
Print Assumptions C18_noise_once.
Print Assumptions C18_simple_perlayer_resolution.
Print Assumptions C18_broadcast_from_rank0.
Print Assumptions C18_perlayer_hooks_closed_form.
Print Assumptions C18_perlayer_hooks_two_workers_partial.
Print Assumptions C18_perlayer_hooks_replaced.
Print Assumptions C18_perlayer_hooks_append_refuted.
