(* Properties/C15.v -- Validation accepts only sample-independent models; fix() is safe and faithful.
   On torch.nn module trees (Model/ModTree.v) with the walks, validator predicates, fixers and make_private guards generated from
   opacus/validators, opacus/utils/module_utils.py and opacus/privacy_engine.py (Gen/Validators.v). *)
From Coq Require Import ZArith List String Bool.
From OV Require Import Base.Py Model.ModTree Gen.Validators Proofs.ValidP.
Import ListNotations.

(* FULL statement: validate t = 0 -> the tree is in training mode and NO layer couples the samples of a batch or keeps running statistics.
   It is FALSE of the code (Findings/C15.v, KNOWN_FINDINGS.json): validation only visits modules that own a trainable parameter.
   Proved part: for every tree whose coupling layers each own a trainable parameter. *)
Theorem C15_validate_sound_partial (t : tree) : couplers_trainable t = true -> validate t = 0%nat -> n_training t = true /\ tree_couples t = false.
Proof. exact (validate_sound_partial t). Qed.
(* make_private succeeds only for a valid tree in training mode and an optimizer over the model's own parameters *)
Theorem C15_make_private_guards (foreign : bool) (t : tree) :
  make_private_guards foreign t = Ok tt -> foreign = false /\ validate t = 0%nat /\ n_training t = true.
Proof. exact (make_private_guards_sound foreign t). Qed.
Theorem C15_make_private_rejects_eval (foreign : bool) (t : tree) : n_training t = false -> make_private_guards foreign t <> Ok tt.
Proof. exact (make_private_rejects_eval foreign t). Qed.
(* fix returns a module that passes validation: every tree in training mode, every fixer option *)
Theorem C15_fix_then_valid (replace_bn_with_in : bool) (t : tree) : leaves_childless t = true -> n_training t = true -> validate (fixt replace_bn_with_in t) = 0%nat.
Proof. exact (fix_then_valid replace_bn_with_in t). Qed.
(* fix replaces nothing but visited sub-modules with a registered fixer: a tree without any is returned structurally unchanged *)
Theorem C15_fix_identity_when_nothing_to_fix (b : bool) (t : tree) : nothing_to_fix t = true -> fixt b t = t.
Proof. exact (fix_identity_when_nothing_to_fix b t). Qed.
(* the repaired InstanceNorm fixer drops the running-stat buffers; every fixer accepts the keyword options (checked by the translator) *)
Theorem C15_instancenorm_fixer_drops_buffers : instancenorm_fixer_drops_buffers = true.
Proof. reflexivity. Qed.

(* non-vacuity: a nested tree with BatchNorm, a tracking InstanceNorm, an LSTM and a frozen Linear *)
Example C15_nonvacuous :
  let t := Node KSeq false false false true [Node KLinear false true false true []; Node KBatchNorm true true true true [];
            Node KSeq false false false true [Node KInstanceNorm true true true true []; Node KLSTM true true false true []]] in
  leaves_childless t = true /\ couplers_trainable t = true /\ validate t = 3%nat /\ validate (fixt false t) = 0%nat /\ tree_couples (fixt false t) = false.
Proof. vm_compute. repeat split. Qed.

(* fix() returns a module in the train / eval mode of its argument, at the root and at every replaced sub-module (generated fixer: the
   replacement takes the mode of the module it replaces; dtype, device and frozen parameters are pinned in the generator and compared on the
   real code by the harness) *)
Theorem C15_fix_keeps_mode (b : bool) (t : tree) : n_training (fixt b t) = n_training t /\ n_training (fixer b t) = n_training t.
Proof. exact (conj (fix_keeps_mode b t) (fixer_keeps_mode b t)). Qed.

Print Assumptions C15_validate_sound_partial.
Print Assumptions C15_make_private_guards.
Print Assumptions C15_make_private_rejects_eval.
Print Assumptions C15_fix_then_valid.
Print Assumptions C15_fix_identity_when_nothing_to_fix.
Print Assumptions C15_instancenorm_fixer_drops_buffers.
Print Assumptions C15_fix_keeps_mode.
