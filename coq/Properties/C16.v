(* Properties/C16.v -- Checkpoint and resume preserve the privacy ledger and training trajectory.
   Statements about the code generated from accountant.py (state_dict / load_state_dict) and privacy_engine.py
   (save_checkpoint / load_checkpoint); torch.save / torch.load are modelled as the identity on values (pickle). *)
From Coq Require Import ZArith List String Bool.
From OV Require Import Base.Num Base.NumZ Base.Py Model.SchedState Model.Ckpt Gen.Sched Gen.Ckpt Proofs.CkptP.
Import ListNotations.
Local Open Scope string_scope.
Local Open Scope list_scope.

(* the saved history is a deep copy: it equals the history at saving time and no later in-place change of the accountant reaches it *)
Theorem C16_state_dict_isolated {T} {N : Num T} (h : heap T) (a : acc) : (a_loc a < List.length h)%nat ->
  let h1 := fst (acc_state_dict h a) in let d := snd (acc_state_dict h a) in
  exists l, sd_get d "history" = Some (VLoc l) /\ sd_get d "mechanism" = Some (VMech (a_mech a)) /\
    l <> a_loc a /\ hget h1 l = hget h (a_loc a) /\ hget h1 (a_loc a) = hget h (a_loc a) /\
    (forall v, hget (hset h1 (a_loc a) v) l = hget h (a_loc a)).
Proof. exact (acc_state_dict_isolated h a). Qed.
(* load_state_dict stores a deep copy too: the loaded accountant holds the saved history in a cell that is neither the list
   inside the state_dict nor the source accountant's list, so in-place steps of the loaded accountant reach neither *)
Theorem C16_accountant_roundtrip {T} {N : Num T} (h : heap T) (a b : acc) : (a_loc a < List.length h)%nat -> a_mech b = a_mech a ->
  let h1 := fst (acc_state_dict h a) in let d := snd (acc_state_dict h a) in
  exists h2 b' l, sd_get d "history" = Some (VLoc l) /\ acc_load_state_dict h1 b (Some d) = Ok (h2, b') /\ a_mech b' = a_mech a /\
    hget h2 (a_loc b') = hget h (a_loc a) /\ a_loc b' <> l /\ a_loc b' <> a_loc a /\
    (forall v, hget (hset h2 (a_loc b') v) l = hget h (a_loc a) /\ hget (hset h2 (a_loc b') v) (a_loc a) = hget h (a_loc a)).
Proof. exact (acc_roundtrip h a b). Qed.
(* one state_dict loaded into two accountants gives two independent ledgers *)
Theorem C16_load_twice_isolated {T} {N : Num T} (h : heap T) (b1 b2 : acc) (d : asd) l m h1 c1 h2 c2 :
  sd_get d "history" = Some (VLoc l) -> sd_get d "mechanism" = Some (VMech m) -> a_mech b1 = m -> a_mech b2 = m -> (l < List.length h)%nat ->
  acc_load_state_dict h b1 (Some d) = Ok (h1, c1) -> acc_load_state_dict h1 b2 (Some d) = Ok (h2, c2) ->
  a_loc c1 <> a_loc c2 /\ a_loc c1 <> l /\ a_loc c2 <> l /\ hget h2 (a_loc c1) = hget h l /\ hget h2 (a_loc c2) = hget h l /\
  (forall v, hget (hset h2 (a_loc c1) v) (a_loc c2) = hget h l /\ hget (hset h2 (a_loc c1) v) l = hget h l).
Proof. exact (acc_load_twice_isolated h b1 b2 d l m h1 c1 h2 c2). Qed.
(* an empty / None / incomplete state, or one of another mechanism, is rejected *)
Theorem C16_rejects_none {T} (h : heap T) (a : acc) : acc_load_state_dict h a None = Err ValueError.
Proof. exact (acc_load_rejects_none h a). Qed.
Theorem C16_rejects_empty {T} (h : heap T) (a : acc) : acc_load_state_dict h a (Some []) = Err ValueError.
Proof. exact (acc_load_rejects_empty h a). Qed.
Theorem C16_rejects_no_history {T} (h : heap T) (a : acc) m : acc_load_state_dict h a (Some [("mechanism", VMech m)]) = Err ValueError.
Proof. exact (acc_load_rejects_no_history h a m). Qed.
Theorem C16_rejects_no_mechanism {T} (h : heap T) (a : acc) l : acc_load_state_dict h a (Some [("history", VLoc l)]) = Err ValueError.
Proof. exact (acc_load_rejects_no_mechanism h a l). Qed.
Theorem C16_rejects_other_mechanism {T} {N : Num T} (h h' : heap T) (a b : acc) : a_mech b <> a_mech a ->
  acc_load_state_dict h' b (Some (snd (acc_state_dict h a))) = Err ValueError.
Proof. exact (acc_load_rejects_other_mechanism h h' a b). Qed.
Theorem C16_checkpoint_rejects_other_mechanism {T} {N : Num T} {P I} (y y0 : sys T P I) (o n c : bool) : y_mech y0 <> y_mech y ->
  load_ckpt y0 (save_ckpt y o n c) o n c = Err ValueError.
Proof. exact (load_rejects_other_mechanism y y0 o n c). Qed.

(* load (save y): module parameters and the accountant history always come back; the inner optimizer state when the optimizer is passed;
   so epsilon -- any function of the history -- is the same immediately after loading *)
Theorem C16_ledger_restored {T} {N : Num T} {P I} (y y0 : sys T P I) (o n c : bool) : y_mech y0 = y_mech y ->
  exists y', load_ckpt y0 (save_ckpt y o n c) o n c = Ok y' /\ y_params y' = y_params y /\ y_hist y' = y_hist y /\ (o = true -> y_inner y' = y_inner y).
Proof. exact (load_save_ledger y y0 o n c). Qed.
Theorem C16_epsilon_continuous {T} {N : Num T} {P I E} (eps_of : hist T -> E) (y y0 : sys T P I) (o n c : bool) : y_mech y0 = y_mech y ->
  exists y', load_ckpt y0 (save_ckpt y o n c) o n c = Ok y' /\ eps_of (y_hist y') = eps_of (y_hist y).
Proof. intros H. destruct (load_save_ledger y y0 o n c H) as [y' [H1 [_ [H2 _]]]]. exists y'. split; [exact H1|now rewrite H2]. Qed.

(* FULL statement of the property: for every history bs1 ++ bs2 and every cut, resuming from the checkpoint in a freshly constructed
   system equals the uninterrupted run.  It is FALSE of the code when a scheduler has moved the live noise_multiplier / max_grad_norm
   before the cut (they are in no state_dict: Findings/C16.v, KNOWN_FINDINGS.json).  Proved part: whenever the live values at the cut
   equal those of the fresh system (no scheduler, or one that has not changed them), for every batch sequence, every cut point, every
   inner optimizer, accountant step function and scheduler step function the resumed run IS the uninterrupted run. *)
Theorem C16_resume_refines_uninterrupted_partial {T} {N : Num T} {P I B G}
  (release : P -> B -> T -> T -> G) (inner : P -> I -> G -> P * I) (accstep : hist T -> T -> hist T) (nsstep csstep : ss T -> ss T)
  (fresh : sys T P I) (bs1 bs2 : list B) :
  let y1 := run release inner accstep nsstep csstep fresh bs1 in
  f_oval (y_ns fresh) = f_oval (y_ns y1) -> f_oval (y_cs fresh) = f_oval (y_cs y1) ->
  f_lam (y_ns fresh) = f_lam (y_ns y1) -> f_lam (y_cs fresh) = f_lam (y_cs y1) ->       (* schedule functions are not saved: same functions in the fresh system *)
  exists y2, load_ckpt fresh (save_ckpt y1 true true true) true true true = Ok y2 /\
             run release inner accstep nsstep csstep y2 bs2 = run release inner accstep nsstep csstep fresh (bs1 ++ bs2).
Proof. exact (resume_refines_uninterrupted release inner accstep nsstep csstep fresh bs1 bs2). Qed.

(* non-vacuity: a concrete run on the Z instance (momentum-like inner state, no schedulers), cut after 2 of 4 steps *)
Example C16_nonvacuous :
  let fresh : sys Z Z Z := mksys 10%Z 0%Z [] "rdp" (mkss 0%Z 1%Z 1%Z 0%Z (fun _ => 1%Z) 3%Z) (mkss 0%Z 1%Z 1%Z 0%Z (fun _ => 1%Z) 2%Z) in
  let release := fun (p b sg c : Z) => (p * b + sg * c)%Z in
  let inner := fun (p i g : Z) => ((p - (g + i))%Z, (g + i)%Z) in
  let accstep := fun (h : hist Z) (sg : Z) => h ++ [(sg, 1%Z, 1%Z)] in
  let r := run release inner accstep (fun s => s) (fun s => s) in
  match load_ckpt fresh (save_ckpt (r fresh [1%Z; 2%Z]) true true true) true true true with
  | Ok y2 => r y2 [3%Z; 4%Z] = r fresh [1%Z; 2%Z; 3%Z; 4%Z] /\ List.length (y_hist (r y2 [3%Z; 4%Z])) = 4%nat /\ y_params (r y2 [3%Z; 4%Z]) <> 10%Z
  | Err _ => False end.
Proof. vm_compute. repeat split. discriminate. Qed.

Print Assumptions C16_state_dict_isolated.
Print Assumptions C16_accountant_roundtrip.
Print Assumptions C16_load_twice_isolated.
Print Assumptions C16_rejects_none.
Print Assumptions C16_rejects_empty.
Print Assumptions C16_rejects_no_history.
Print Assumptions C16_rejects_no_mechanism.
Print Assumptions C16_rejects_other_mechanism.
Print Assumptions C16_checkpoint_rejects_other_mechanism.
Print Assumptions C16_ledger_restored.
Print Assumptions C16_epsilon_continuous.
Print Assumptions C16_resume_refines_uninterrupted_partial.
