(* Properties/C05.v -- Every noised step is accounted exactly once, with the parameters in force.
   About the transitions generated from optimizer.py, accountant.py, rdp.py, prv.py, gdp.py. *)
From Coq Require Import ZArith Reals List Bool.
From OV Require Import Base.Num Base.NumZ Base.NumR Base.Py Model.OptimState Model.OptimRef Gen.Optim
  Proofs.OptimSM Proofs.OptimEq Proofs.OptimTrace Proofs.OptimMore Model.BmmState Gen.Bmm Proofs.BmmP Proofs.BmmReset.
Import ListNotations.

(* After ANY program (forward/backward, steps, zero_grad, skip signals, scheduler writes; any variant;
   rdp / prv accountant):  the accountant's expanded history IS the list of accountant records in the trace,
   the trace is a sequence of quiet events and adjacent [record; inner step] pairs (a record is written
   immediately before the parameters change, a skipped or raising step writes neither), and the number of
   inner-optimizer steps equals the number of recorded steps. *)
Theorem C05_accounting_exact {T} {N : Num T} (neqb_sound : forall a b : T, neqb a b = true -> a = b)
        v a (nm mgn ebs rate : T) mean secure accum (ops : list (@op T)) :
  a <> AccGDP ->
  let s := run ops (init_state v a nm mgn ebs rate mean secure accum) in
  expand (o_hist s) = acc_list (o_events s) /\ wo false (o_events s) = true /\
  count_inner (o_events s) = List.length (expand (o_hist s)).
Proof. exact (accounting_exact neqb_sound v a nm mgn ebs rate mean secure accum ops). Qed.

(* the same, closed, for the two number systems used: exact integers and the reals *)
Theorem C05_accounting_exact_Z v a (nm mgn ebs rate : Z) mean secure accum (ops : list (@op Z)) :
  a <> AccGDP ->
  let s := run ops (init_state v a nm mgn ebs rate mean secure accum) in
  expand (o_hist s) = acc_list (o_events s) /\ wo false (o_events s) = true /\
  count_inner (o_events s) = List.length (expand (o_hist s)).
Proof. exact (accounting_exact (fun a b H => proj1 (Z.eqb_eq a b) H) v a nm mgn ebs rate mean secure accum ops). Qed.
Theorem C05_accounting_exact_R v a (nm mgn ebs rate : R) mean secure accum (ops : list (@op R)) :
  a <> AccGDP ->
  let s := run ops (init_state v a nm mgn ebs rate mean secure accum) in
  expand (o_hist s) = acc_list (o_events s) /\ wo false (o_events s) = true /\
  count_inner (o_events s) = List.length (expand (o_hist s)).
Proof. exact (accounting_exact (fun a b H => proj1 (Reqb_true a b) H) v a nm mgn ebs rate mean secure accum ops). Qed.

(* one optimizer.step(): either nothing but noise draws is appended (skipped / raised), or the trace grows by
   noise draws, ONE record carrying the noise multiplier in force and sample_rate x accumulated iterations,
   and ONE inner step, in this order; the expanded history grows by exactly that record *)
Theorem C05_step_trace {T} {N : Num T} (neqb_sound : forall a b : T, neqb a b = true -> a = b) (s : ost T) :
  o_has_hook s = true -> o_acc s <> AccGDP -> runs_pos (o_hist s) ->
  let r := v_step s in
  let s' := sstate r in
  cfg s' = cfg s /\ runs_pos (o_hist s') /\
  exists nz, Forall (noise_ev (nmul (o_nm s) (o_mgn s))) nz /\
   ((o_events s' = o_events s ++ nz /\ o_hist s' = o_hist s)
   \/
   (exists k og, r = SOk s' tt /\ ref_accit s = Ok k /\
      o_events s' = o_events s ++ nz ++ [EAccount (o_nm s) (nmul (o_rate s) (nofZ k)); EInner og] /\
      expand (o_hist s') = expand (o_hist s) ++ [(o_nm s, nmul (o_rate s) (nofZ k))])).
Proof. exact (v_step_trace neqb_sound s). Qed.

(* run-length encoding of the RDP / PRV accountants is sound: a step appends exactly one (sigma, q) *)
Theorem C05_runlength_sound {T} {N : Num T} (neqb_sound : forall a b : T, neqb a b = true -> a = b) (s : ost T) sigma q :
  o_acc s <> AccGDP -> runs_pos (o_hist s) ->
  exists s', ref_acc s sigma q = SOk s' tt /\ cfg s' = cfg s /\ o_events s' = o_events s /\
             o_gs s' = o_gs s /\ o_summed s' = o_summed s /\ o_grad s' = o_grad s /\
             runs_pos (o_hist s') /\ expand (o_hist s') = expand (o_hist s) ++ [(sigma, q)].
Proof. exact (acc_runlength neqb_sound s sigma q). Qed.
(* ... and ref_acc IS the generated <Accountant>.step *)
Theorem C05_generated_step_is_ref {T} {N : Num T} (s : ost T) sigma q :
  (match o_acc s with AccRDP => rdp_acc_step s sigma q | AccPRV => prv_acc_step s sigma q | AccGDP => gdp_acc_step s sigma q end)
  = ref_acc s sigma q.
Proof. exact (acc_eq s sigma q). Qed.

(* GDP accountant: a step either raises ValueError or leaves a single run *)
Theorem C05_gdp_single_run {T} {N : Num T} (s : ost T) sigma q :
  o_acc s = AccGDP ->
  match ref_acc s sigma q with
  | SOk s' _ => exists n, o_hist s' = [(sigma, q, n)] \/ exists s0 q0, o_hist s' = [(s0, q0, n)] /\ neqb s0 sigma = true /\ neqb q0 q = true
  | SErr _ e => e = ValueError
  end.
Proof. exact (gdp_single_run s sigma q). Qed.

(* a step the accountant refuses (GDP asked to record other parameters) changes nothing: the ledger recorded so far survives *)
Theorem C05_refused_step_keeps_ledger {T} {N : Num T} (s : ost T) sigma q s' e :
  ref_acc s sigma q = SErr s' e -> s' = s.
Proof. exact (refused_step_keeps_ledger s sigma q s' e). Qed.
(* accounting stays exact over any number of iterations of the batch memory manager's loader, complete or abandoned: each iteration is an
   arbitrary program followed by the manager's clean-up (generated drop_unfinished_logical_batch), which writes no record and no event *)
Theorem C05_accounting_exact_across_cleanups {T} {N : Num T} (neqb_sound : forall a b : T, neqb a b = true -> a = b)
        v a (nm mgn ebs rate : T) mean secure accum (epochs : list (list (@op T))) :
  a <> AccGDP ->
  let s := fold_left (fun s ops => ref_drop (run ops s)) epochs (init_state v a nm mgn ebs rate mean secure accum) in
  expand (o_hist s) = acc_list (o_events s) /\ wo false (o_events s) = true /\
  count_inner (o_events s) = List.length (expand (o_hist s)).
Proof. exact (accounting_exact_across_cleanups neqb_sound v a nm mgn ebs rate mean secure accum epochs). Qed.
Example C05_refusal_nonvacuous :
  let s := upd_hist (init_state Flat AccGDP 1%Z 10%Z 1%Z 1%Z false false true) [(1, 1, 4)]%Z in
  ref_acc s 2%Z 1%Z = SErr s ValueError.
Proof. vm_compute. reflexivity. Qed.

Example C05_nonvacuous :
  let s := run [FB [0; 1]%Z; Step; OptZero; FB [2]%Z; Skip true; Step; OptZero; FB [3]%Z; Step; SetNm 2%Z; OptZero; FB [4]%Z; Step]
               (init_state Flat AccRDP 1%Z 10%Z 1%Z 1%Z false false true) in
  o_hist s = [(1, 1, 2); (2, 1, 1)]%Z /\ count_inner (o_events s) = 3%nat.
Proof. vm_compute. split; reflexivity. Qed.

(* an EMPTY Poisson batch under the batch memory manager is a real (non-skipped) logical step: the sampler generated from
   BatchSplittingSampler.__iter__ signals do_skip = False for it, so the step is noised and accounted like any other *)
Theorem C05_empty_batch_not_skipped (mx : Z) (out : list bev) : (1 <= mx)%Z ->
  bmm_one_batch (mkbst mx out) [] = SOk (mkbst mx (out ++ [BSignal false; BYield []])) tt.
Proof. intros H. exact (bmm_one_batch_spec mx out [] H). Qed.

Print Assumptions C05_accounting_exact.
Print Assumptions C05_accounting_exact_Z.
Print Assumptions C05_accounting_exact_R.
Print Assumptions C05_step_trace.
Print Assumptions C05_runlength_sound.
Print Assumptions C05_generated_step_is_ref.
Print Assumptions C05_gdp_single_run.
Print Assumptions C05_empty_batch_not_skipped.
Print Assumptions C05_refused_step_keeps_ledger.
Print Assumptions C05_accounting_exact_across_cleanups.
