(* Properties/C06.v -- RDP accountant never under-reports  (PARTIAL).
   Proved, about the formulas GENERATED from accountants/analysis/rdp.py (over the reals):
     * _log_add is ln(e^a + e^b); the integer-order log-moment IS ln A_alpha with A_alpha the binomial moment series of the
       Poisson-subsampled Gaussian; A_alpha >= 1; the q = 0 / sigma = 0 / q = 1 cases (q = 1: the Gaussian mechanism's exact RDP);
     * the RDP -> (eps, delta) conversion is sound for finite distributions (Balle et al. 2020, Thm 21) with exactly the code's epsilon
       expression; a minimum over orders of valid epsilons is valid; composition adds (Properties/C12.v).
   NOT proved: that A_alpha is the Renyi moment of the sampled Gaussian mechanism in the worse direction (Mironov, Talwar, Zhang 2019:
   cited), the fractional-order series (_compute_log_a_for_frac_alpha: validated numerically only), float rounding (validated against
   kernel-checked interval enclosures by the check). *)
From Coq Require Import ZArith Reals List Bool.
From OV Require Import Base.Num Base.NumR Base.Py Gen.Rdp Proofs.RdpR Proofs.RdpToDp Proofs.RdpMoment.
Local Open Scope R_scope.

Theorem C06_log_add_correct (a b : R) : log_add_fin a b = ln (exp a + exp b).
Proof. exact (log_add_fin_correct a b). Qed.

Theorem C06_log_a_int_correct q sigma (alpha : nat) : 0 < q < 1 ->
  log_a_int q sigma (Z.of_nat alpha) = Some (ln (A_int q sigma alpha)).
Proof. exact (log_a_int_correct q sigma alpha). Qed.

Theorem C06_moment_at_least_one q sigma (alpha : nat) : 0 < q < 1 -> 1 <= A_int q sigma alpha.
Proof. exact (A_int_ge_1 q sigma alpha). Qed.

Theorem C06_compute_rdp_cases (log_a : R -> R -> R -> R) (q sigma alpha : R) :
  (q = 0 -> compute_rdp1 log_a q sigma alpha = Fin 0) /\
  (q <> 0 -> sigma = 0 -> compute_rdp1 log_a q sigma alpha = PInf) /\
  (q = 1 -> sigma <> 0 -> compute_rdp1 log_a q sigma alpha = Fin (alpha / (2 * (sigma * sigma)))) /\
  (q <> 0 -> q <> 1 -> sigma <> 0 -> compute_rdp1 log_a q sigma alpha = Fin (log_a q sigma alpha / (alpha - 1))).
Proof. exact (compute_rdp1_cases log_a q sigma alpha). Qed.

(* for every pair of finite distributions (as lists of (p_i, q_i) with positive atoms), every order a > 1 and delta > 0:
   Renyi moment <= e^{(a-1) rho}  implies  hockey-stick divergence at the code's epsilon <= delta *)
Theorem C06_rdp_to_dp_sound (d : list (R * R)) (a rho delta : R) :
  pos d -> 1 < a -> 0 < delta -> mom a d <= exp ((a - 1) * rho) -> hs (exp (eps_of_rdp rho a delta)) d <= delta.
Proof. exact (rdp_to_dp_sound d a rho delta). Qed.

Theorem C06_min_over_orders_sound (d : list (R * R)) (delta : R) (cands : list R) (e : R) :
  In e cands -> (forall x, In x cands -> hs (exp x) d <= delta) -> hs (exp e) d <= delta.
Proof. exact (min_over_orders_sound d delta cands e). Qed.

(* where A_alpha comes from: for ANY expectation operator that is linear on finite sums and has the Gaussian moment generating function
   E[exp(t z)] = exp(t^2 sigma^2 / 2), the alpha-th moment of the privacy-loss ratio (1-q) + q exp((2z-1)/(2 sigma^2)) of the Poisson-subsampled
   Gaussian mechanism is exactly the series the code sums (the identification of this moment with the Renyi divergence is cited) *)
Theorem C06_sgm_moment_expansion (sigma : R) (E : (R -> R) -> R) (q : R) (alpha : nat) : 0 < sigma ->
  (forall f g, (forall z, f z = g z) -> E f = E g) ->
  (forall (f : nat -> R -> R) n, E (fun z => sum_f_R0 (fun i => f i z) n) = sum_f_R0 (fun i => E (f i)) n) ->
  (forall c f, E (fun z => c * f z) = c * E f) ->
  (forall t, E (fun z => exp (t * z)) = exp (t * t * (sigma * sigma) / 2)) ->
  E (fun z => ratio sigma q z ^ alpha) = A_int q sigma alpha.
Proof. intros Hs H1 H2 H3 H4. exact (sgm_moment_expansion sigma Hs E H1 H2 H3 H4 q alpha). Qed.
(* RDP adds under (non-adaptive) composition of mechanisms with finite output distributions, and the SUM converted with the code's
   epsilon expression bounds the hockey-stick divergence of the composed mechanism -- what RDPAccountant does with its history *)
Theorem C06_rdp_adds_under_composition (a rho1 rho2 : R) (d1 d2 : list (R * R)) : pos d1 -> pos d2 ->
  mom a d1 <= exp ((a - 1) * rho1) -> mom a d2 <= exp ((a - 1) * rho2) -> mom a (dprod d1 d2) <= exp ((a - 1) * (rho1 + rho2)).
Proof. exact (rdp_adds_under_composition a rho1 rho2 d1 d2). Qed.
Theorem C06_composed_rdp_to_dp_sound (a rho1 rho2 delta : R) (d1 d2 : list (R * R)) : pos d1 -> pos d2 -> 1 < a -> 0 < delta ->
  mom a d1 <= exp ((a - 1) * rho1) -> mom a d2 <= exp ((a - 1) * rho2) ->
  hs (exp (eps_of_rdp (rho1 + rho2) a delta)) (dprod d1 d2) <= delta.
Proof. exact (composed_rdp_to_dp_sound a rho1 rho2 delta d1 d2). Qed.

Print Assumptions C06_log_add_correct.
Print Assumptions C06_log_a_int_correct.
Print Assumptions C06_moment_at_least_one.
Print Assumptions C06_compute_rdp_cases.
Print Assumptions C06_rdp_to_dp_sound.
Print Assumptions C06_min_over_orders_sound.
Print Assumptions C06_sgm_moment_expansion.
Print Assumptions C06_rdp_adds_under_composition.
Print Assumptions C06_composed_rdp_to_dp_sound.
