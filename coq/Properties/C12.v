(* Properties/C12.v -- Accountants are monotone and invariant to history order and run splitting  (PARTIAL).
   Proved over the reals for the formulas generated from the RDP and GDP analysis code; the PRV accountant's invariances
   (exact convolution is commutative / associative) are in Properties/C07.v; root finding (brentq) and the numerical error of the
   PRV pipeline are validated by metamorphic runs on the real accountants, not proved. *)
From Coq Require Import ZArith Reals List Bool Permutation.
From OV Require Import Base.Num Base.NumR Base.Py Gen.Rdp Proofs.RdpR Proofs.RdpToDp Proofs.GdpR.
Local Open Scope R_scope.

(* RDP of a history = sum over runs of n * rdp1(q, sigma):  invariant under any permutation of the history *)
Theorem C12_rdp_perm_invariant (r1 : R -> R -> R) (h h' : list (R * R * Z)) : Permutation h h' -> hist_rdp r1 h = hist_rdp r1 h'.
Proof. exact (hist_rdp_perm r1 h h'). Qed.
(* ... under splitting / merging runs of identical steps, hence n single steps = one run of n *)
Theorem C12_rdp_split_merge (r1 : R -> R -> R) s q (n1 n2 : Z) h :
  hist_rdp r1 ((s, q, (n1 + n2)%Z) :: h) = hist_rdp r1 ((s, q, n1) :: (s, q, n2) :: h).
Proof. exact (hist_rdp_split r1 s q n1 n2 h). Qed.
Theorem C12_rdp_concat (r1 : R -> R -> R) h1 h2 : hist_rdp r1 (h1 ++ h2) = hist_rdp r1 h1 + hist_rdp r1 h2.
Proof. exact (hist_rdp_app r1 h1 h2). Qed.
(* non-decreasing in the number of steps (one-step RDP is >= 0: A_alpha >= 1) *)
Theorem C12_rdp_monotone_steps (r1 : R -> R -> R) s q (n n' : Z) h :
  0 <= r1 q s -> (n <= n')%Z -> hist_rdp r1 ((s, q, n) :: h) <= hist_rdp r1 ((s, q, n') :: h).
Proof. exact (hist_rdp_mono_steps r1 s q n n' h). Qed.
Theorem C12_one_step_rdp_nonneg q sigma (alpha : nat) : 0 < q < 1 -> (2 <= alpha)%nat -> 0 <= ln (A_int q sigma alpha) / (INR alpha - 1).
Proof.
  intros Hq Ha. exact (Rmult_le_pos _ _
    (Rle_trans _ _ _ (Req_le _ _ (eq_sym ln_1)) (match Rle_lt_or_eq_dec _ _ (A_int_ge_1 q sigma alpha Hq) with
       | left H => Rlt_le _ _ (ln_increasing _ _ Rlt_0_1 H) | right H => Req_le _ _ (f_equal ln H) end))
    (Rlt_le _ _ (Rinv_0_lt_compat _ (Rlt_Rminus _ _ (lt_1_INR _ Ha))))).
Qed.
(* epsilon is non-decreasing in the RDP value and non-increasing in delta, at every order *)
Theorem C12_eps_monotone_rdp r r' a delta : r <= r' -> eps_of_rdp r a delta <= eps_of_rdp r' a delta.
Proof. exact (eps_mono_rdp r r' a delta). Qed.
Theorem C12_eps_antitone_delta r a d d' : 1 < a -> 0 < d <= d' -> eps_of_rdp r a d' <= eps_of_rdp r a d.
Proof. exact (eps_antitone_delta r a d d'). Qed.
(* sample rate 1 is the plain Gaussian mechanism: RDP = alpha / (2 sigma^2) *)
Theorem C12_q1_is_gaussian (log_a : R -> R -> R -> R) (sigma alpha : R) :
  sigma <> 0 -> compute_rdp1 log_a 1 sigma alpha = Fin (alpha / (2 * (sigma * sigma))).
Proof. intros H. exact (proj1 (proj2 (proj2 (compute_rdp1_cases log_a 1 sigma alpha))) eq_refl H). Qed.

(* GDP accountant: mu = sqrt(e^{1/sigma^2} - 1) sqrt(T) q, monotone in T and q, antitone in sigma *)
Theorem C12_gdp_mu_formula (T : Z) (sigma q : R) : gdp_mu_poisson T sigma q = sqrt (exp (1 / (sigma * sigma)) - 1) * sqrt (IZR T) * q.
Proof. exact (gdp_mu_formula T sigma q). Qed.
Theorem C12_gdp_mu_monotone_steps (T T' : Z) sigma q : 0 <= q -> (0 <= T <= T')%Z -> gdp_mu_poisson T sigma q <= gdp_mu_poisson T' sigma q.
Proof. exact (gdp_mu_mono_steps T T' sigma q). Qed.
Theorem C12_gdp_mu_monotone_rate (T : Z) sigma q q' : q <= q' -> gdp_mu_poisson T sigma q <= gdp_mu_poisson T sigma q'.
Proof. exact (gdp_mu_mono_rate T sigma q q'). Qed.
Theorem C12_gdp_mu_antitone_sigma (T : Z) sigma sigma' q : 0 <= q -> 0 < sigma <= sigma' -> gdp_mu_poisson T sigma' q <= gdp_mu_poisson T sigma q.
Proof. exact (gdp_mu_antitone_sigma T sigma sigma' q). Qed.

Print Assumptions C12_rdp_perm_invariant.
Print Assumptions C12_rdp_split_merge.
Print Assumptions C12_rdp_concat.
Print Assumptions C12_rdp_monotone_steps.
Print Assumptions C12_one_step_rdp_nonneg.
Print Assumptions C12_eps_monotone_rdp.
Print Assumptions C12_eps_antitone_delta.
Print Assumptions C12_q1_is_gaussian.
Print Assumptions C12_gdp_mu_formula.
Print Assumptions C12_gdp_mu_monotone_steps.
Print Assumptions C12_gdp_mu_monotone_rate.
Print Assumptions C12_gdp_mu_antitone_sigma.
