(* Properties/C01.v -- Per-sample gradients equal the gradient of each sample taken alone  (PARTIAL: autograd's chain rule, functorch and
   ExpandedWeights are modelled, not verified; convolutions reduce to the Linear theorem through torch's unfold).
   Every supported layer is affine in its own parameters, layer(theta, x) = Phi(x) theta + c(x), so its parameter gradient against a
   cotangent g is the adjoint Phi(x)^T g, characterised -- uniquely (C01_adjoint_unique) -- by
       forall delta,  <gs, delta> = <g, layer(theta + delta, x) - layer(theta, x)>.
   The theorems state this for the formulas the grad samplers compute (Gen/GradSample.v names which formula each registered sampler uses),
   for ONE sample alone, over an arbitrary commutative ring, for all extents. *)
From Coq Require Import List Arith Ring ZArith Lia.
From OV Require Import Model.Layers Model.GsHooks Proofs.LayersP Gen.GradSample.
Import ListNotations.
Section C01.
Variable K : Type.
Variables (k0 k1 : K) (kadd kmul ksub : K -> K -> K) (kopp : K -> K).
Hypothesis Kring : ring_theory k0 k1 kadd kmul ksub kopp (@eq K).
Local Notation sumn := (sumn K k0 kadd).

Theorem C01_adjoint_unique n (v v' : nat -> K) :
  (forall d : nat -> K, sumn n (fun i => kmul (v i) (d i)) = sumn n (fun i => kmul (v' i) (d i))) -> forall i, i < n -> v i = v' i.
Proof. exact (adjoint_unique K k0 k1 kadd kmul ksub kopp Kring n v v'). Qed.
(* nn.Linear / RNNLinear: einsum "n...i,n...j->nij" (weight) and "n...k->nk" (bias), any input rank (T positions per sample) *)
Theorem C01_linear_gs_is_grad (T din dout : nat) (W dW : nat -> nat -> K) (b db : nat -> K) (x g : nat -> nat -> K) :
  kadd (sumn dout (fun j => sumn din (fun i => kmul (lin_gs_w K k0 kadd kmul T g x j i) (dW j i)))) (sumn dout (fun j => kmul (lin_gs_b K k0 kadd T g j) (db j)))
  = pair2 K k0 kadd kmul T dout g (fun t j => ksub (lin_fwd K k0 kadd kmul din (fun j i => kadd (W j i) (dW j i)) (fun j => kadd (b j) (db j)) x t j) (lin_fwd K k0 kadd kmul din W b x t j)).
Proof. exact (linear_gs_is_grad K k0 k1 kadd kmul ksub kopp Kring T din dout W dW b db x g). Qed.
(* nn.Conv1d / 2d / 3d as one gather layer (arbitrary channel map and tap-location map: every stride, padding incl. "same", dilation, groups, rank) *)
Theorem C01_conv_gs_is_grad (P O C Kk : nat) (chan src : nat -> nat -> nat) (W dW : nat -> nat -> nat -> K) (b db : nat -> K) (xp : nat -> nat -> K) (g : nat -> nat -> K) :
  kadd (sumn O (fun o => sumn C (fun c => sumn Kk (fun k => kmul (conv_gs_w K k0 kadd kmul P chan src g xp o c k) (dW o c k))))) (sumn O (fun o => kmul (conv_gs_b K k0 kadd P g o) (db o)))
  = pair2 K k0 kadd kmul P O g (fun p o => ksub (conv_fwd K k0 kadd kmul C Kk chan src (fun o c k => kadd (W o c k) (dW o c k)) (fun o => kadd (b o) (db o)) xp p o)
                                                (conv_fwd K k0 kadd kmul C Kk chan src W b xp p o)).
Proof. exact (conv_gs_is_grad K k0 k1 kadd kmul ksub kopp Kring P O C Kk chan src W dW b db xp g). Qed.
(* nn.Embedding with or without padding_idx (the padding row is a constant: zero gradient) *)
Theorem C01_embedding_gs_is_grad (pad : option nat) (c : nat -> K) (T V D : nat) (W dW : nat -> nat -> K) (idx : nat -> nat) (g : nat -> nat -> K) :
  (forall t, t < T -> idx t < V) ->
  sumn V (fun v => sumn D (fun d => kmul (emb_gs K k0 kadd pad T g idx v d) (dW v d)))
  = pair2 K k0 kadd kmul T D g (fun t d => ksub (emb_fwd K pad c (fun v d => kadd (W v d) (dW v d)) idx t d) (emb_fwd K pad c W idx t d)).
Proof. exact (embedding_gs_is_grad K k0 k1 kadd kmul ksub kopp Kring pad c T V D W dW idx g). Qed.
(* nn.EmbeddingBag, modes sum / mean (s = 1 or 1 / number of non-padding entries), one bag; entries holding the padding index are excluded *)
Theorem C01_embedding_bag_gs_is_grad (pad : option nat) (s : K) (T V D : nat) (W dW : nat -> nat -> K) (idx : nat -> nat) (gb : nat -> K) :
  (forall t, t < T -> idx t < V) ->
  sumn V (fun v => sumn D (fun d => kmul (bag_gs K k0 kadd kmul pad s T gb idx v d) (dW v d)))
  = sumn D (fun d => kmul (gb d) (ksub (bag_fwd K k0 kadd kmul pad s T (fun v d => kadd (W v d) (dW v d)) idx d) (bag_fwd K k0 kadd kmul pad s T W idx d))).
Proof. exact (embedding_bag_gs_is_grad K k0 k1 kadd kmul ksub kopp Kring pad s T V D W dW idx gb). Qed.
(* affine part of GroupNorm / LayerNorm / InstanceNorm *)
Theorem C01_norm_affine_gs_is_grad (P C : nat) (w dw b db : nat -> K) (xhat g : nat -> nat -> K) :
  kadd (sumn C (fun c => kmul (norm_gs_w K k0 kadd kmul P g xhat c) (dw c))) (sumn C (fun c => kmul (norm_gs_b K k0 kadd P g c) (db c)))
  = pair2 K k0 kadd kmul P C g (fun p c => ksub (norm_fwd K kadd kmul (fun c => kadd (w c) (dw c)) (fun c => kadd (b c) (db c)) xhat p c) (norm_fwd K kadd kmul w b xhat p c)).
Proof. exact (norm_affine_gs_is_grad K k0 k1 kadd kmul ksub kopp Kring P C w dw b db xhat g). Qed.
(* tied weights / recurrent time steps: the per-use samples are added *)
Theorem C01_uses_accumulate (U n : nat) (gs : nat -> nat -> K) (pairing : nat -> K) (d : nat -> K) :
  (forall u, u < U -> sumn n (fun i => kmul (gs u i) (d i)) = pairing u) ->
  sumn n (fun i => kmul (sumn U (fun u => gs u i)) (d i)) = sumn U pairing.
Proof. exact (uses_accumulate K k0 k1 kadd kmul ksub kopp Kring U n gs pairing d). Qed.
(* mean reduction: multiplying the incoming cotangent by the batch length gives the sample's own cotangent *)
Theorem C01_mean_rescale (n inv_n g : K) : kmul n inv_n = k1 -> kmul n (kmul inv_n g) = g.
Proof. exact (mean_rescale K k0 k1 kadd kmul ksub kopp Kring n inv_n g). Qed.
(* the per-sample gradients sum to the batch gradient *)
Theorem C01_gs_sum_is_batch_grad (B n : nat) (gs : nat -> nat -> K) (pairing : nat -> K) (d : nat -> K) :
  (forall s, s < B -> sumn n (fun i => kmul (gs s i) (d i)) = pairing s) ->
  sumn n (fun i => kmul (sumn B (fun s => gs s i)) (d i)) = sumn B pairing.
Proof. exact (gs_sum_is_batch_grad K k0 k1 kadd kmul ksub kopp Kring B n gs pairing d). Qed.
End C01.
(* hook bookkeeping (forward counter, accumulate, promote; pinned in Gen/GradSample.v): for ANY number of uses of a layer within one
   forward and any samples already stacked from earlier batches, the matching backward hooks leave counter 0, no accumulator, and exactly
   one new stacked entry: the prefix-wise sum of the per-use samples zero-padded to the batch length *)
Theorem C01_uses_then_promote (K : Type) (k0 : K) (kadd : K -> K -> K) (mb : nat) (g1 : list K) (gs : list (list K)) (stacked : list (list K)) :
  fold_left (bwd K k0 kadd mb) (g1 :: gs) (Nat.iter (S (length gs)) (fwd K) (mkp K 0 None stacked))
  = mkp K 0 None (stacked ++ [fold_left (prefix_add K kadd) gs (pad K k0 mb g1)]).
Proof. exact (uses_then_promote K k0 kadd mb g1 gs stacked). Qed.
(* padding = "same" in unfold2d / unfold3d (translated from tensor_utils.py): on EVERY axis the left pad is floor(d (k-1) / 2) -- torch's own
   convention for Conv*d(padding="same") -- and left + right = d (k-1), for all dilations and kernel sizes (also anisotropic ones) *)
Theorem C01_same_padding_2d (d0 d1 k0 k1 : Z) :
  unfold2d_pad_H_left d0 d1 k0 k1 = (d0 * (k0 - 1) / 2)%Z /\ unfold2d_pad_W_left d0 d1 k0 k1 = (d1 * (k1 - 1) / 2)%Z /\
  (unfold2d_pad_H_left d0 d1 k0 k1 + unfold2d_pad_H_right d0 d1 k0 k1 = d0 * (k0 - 1))%Z /\
  (unfold2d_pad_W_left d0 d1 k0 k1 + unfold2d_pad_W_right d0 d1 k0 k1 = d1 * (k1 - 1))%Z.
Proof. unfold unfold2d_pad_H_left, unfold2d_pad_W_left, unfold2d_pad_H_right, unfold2d_pad_W_right. repeat split; lia. Qed.
Theorem C01_same_padding_3d (d0 d1 d2 k0 k1 k2 : Z) :
  unfold3d_pad_D_left d0 d1 d2 k0 k1 k2 = (d0 * (k0 - 1) / 2)%Z /\ unfold3d_pad_H_left d0 d1 d2 k0 k1 k2 = (d1 * (k1 - 1) / 2)%Z /\
  unfold3d_pad_W_left d0 d1 d2 k0 k1 k2 = (d2 * (k2 - 1) / 2)%Z /\
  (unfold3d_pad_D_left d0 d1 d2 k0 k1 k2 + unfold3d_pad_D_right d0 d1 d2 k0 k1 k2 = d0 * (k0 - 1))%Z /\
  (unfold3d_pad_H_left d0 d1 d2 k0 k1 k2 + unfold3d_pad_H_right d0 d1 d2 k0 k1 k2 = d1 * (k1 - 1))%Z /\
  (unfold3d_pad_W_left d0 d1 d2 k0 k1 k2 + unfold3d_pad_W_right d0 d1 d2 k0 k1 k2 = d2 * (k2 - 1))%Z.
Proof. unfold unfold3d_pad_D_left, unfold3d_pad_H_left, unfold3d_pad_W_left, unfold3d_pad_D_right, unfold3d_pad_H_right, unfold3d_pad_W_right. repeat split; lia. Qed.
(* unfold2d's sliding-window view (as_strided with the GENERATED strides): entry (kh, kw, ph, pw) of the view sits at the memory offset of
   location (ph * s0 + kh * d0, pw * s1 + kw * d1) of the padded input -- the tap the gather-layer model calls `src` -- whatever the strides
   sH, sW of the padded input are (contiguous, channels_last, transposed, ...) *)
Theorem C01_unfold2d_view_reads_taps (sH sW Wpad d0 d1 s0 s1 kh kw ph pw : Z) :
  let '(a, b, c, d) := unfold2d_view_strides sH sW Wpad d0 d1 s0 s1 in
  (kh * a + kw * b + ph * c + pw * d = (ph * s0 + kh * d0) * sH + (pw * s1 + kw * d1) * sW)%Z.
Proof. unfold unfold2d_view_strides. ring. Qed.
(* the strides hard-coded before the repair (Wpad * d0, d1, Wpad * s0, s1) read other locations as soon as the input is not contiguous *)
Theorem C01_unfold2d_contiguous_strides_refuted :
  exists sH sW Wpad d0 d1 s0 s1 kh kw ph pw : Z,
    (kh * (Wpad * d0) + kw * d1 + ph * (Wpad * s0) + pw * s1 <> (ph * s0 + kh * d0) * sH + (pw * s1 + kw * d1) * sW)%Z.
Proof. exists 1%Z, 3%Z, 4%Z, 1%Z, 1%Z, 1%Z, 1%Z, 0%Z, 1%Z, 0%Z, 0%Z. vm_compute. discriminate. Qed.
(* the registered samplers use exactly these formulas (table generated from the sources) *)
Theorem C01_sampler_table_covers :
  forallb (fun r => match snd r with FLinW | FLinB | FConvW | FConvB | FEmbScatterPadZero | FEmbBagSumMean | FNormW | FNormB | FSeqBiasLast => true end) sampler_table = true /\ Nat.leb 1 (length sampler_table) = true.
Proof. split; reflexivity. Qed.

(* non-vacuity: the Linear identity instantiated on Z with concrete tensors (2 positions, 2 inputs, 1 output) *)
Example C01_nonvacuous :
  let x := fun t i => Z.of_nat (t + 2 * i + 1) in let g := fun t (_ : nat) => Z.of_nat (t + 1) in
  lin_gs_w Z 0%Z Z.add Z.mul 2 g x 0 1 = 11%Z /\ lin_gs_b Z 0%Z Z.add 2 g 0 = 3%Z.
Proof. vm_compute. split; reflexivity. Qed.

Print Assumptions C01_adjoint_unique.
Print Assumptions C01_linear_gs_is_grad.
Print Assumptions C01_conv_gs_is_grad.
Print Assumptions C01_embedding_gs_is_grad.
Print Assumptions C01_embedding_bag_gs_is_grad.
Print Assumptions C01_norm_affine_gs_is_grad.
Print Assumptions C01_uses_accumulate.
Print Assumptions C01_mean_rescale.
Print Assumptions C01_gs_sum_is_batch_grad.
Print Assumptions C01_uses_then_promote.
Print Assumptions C01_same_padding_2d.
Print Assumptions C01_same_padding_3d.
Print Assumptions C01_unfold2d_view_reads_taps.
Print Assumptions C01_unfold2d_contiguous_strides_refuted.
Print Assumptions C01_sampler_table_covers.
