(* Properties/C02.v -- One example moves the noise-free update by at most the clipping norm.
   The clip factor is the expression GENERATED from the optimizers' clip_and_accumulate / get_clipping_coef. *)
From Coq Require Import ZArith Reals List Bool.
From OV Require Import Base.Num Base.NumR Base.Py Model.OptimState Gen.Optim Gen.Ghost Model.ClipNum Model.GhostNorm
  Proofs.ClipR Proofs.GhostR.
Import ListNotations.
Local Open Scope R_scope.

(* the generated clip factor (flat / adaptive / per-layer / ghost coefficient: the same expression) *)
Theorem C02_clip_factor_is_min (C n : R) :
  clip_factor C n = Rmin (C / (n + eps6)) 1 /\ ada_clip_factor C n = clip_factor C n /\
  pl_clip_factor C n = clip_factor C n /\ ghost_clip_coef C n = clip_factor C n.
Proof. split; [exact (clip_factor_R C n)|]. repeat split; reflexivity. Qed.

(* a clipped per-sample gradient has joint norm (over all optimised parameters) at most C *)
Theorem C02_clip_scaled_norm_le C (g : list (list R)) : 0 <= C -> joint_norm (flat_clipped C g) <= C.
Proof. exact (clip_scaled_norm_le C g). Qed.

(* flat (and adaptive, with the C in force) clipping: for every batch l1 ++ x :: l2 and every example x,
   removing x changes the aggregated pre-noise gradient by a vector d with ||d|| <= C *)
Theorem C02_flat_sensitivity C (l1 l2 : list (list (list R))) (x : list (list R)) : 0 <= C ->
  exists d, psum (map (flat_clipped C) (l1 ++ x :: l2)) = padd (psum (map (flat_clipped C) (l1 ++ l2))) d /\ joint_norm d <= C.
Proof. exact (flat_sensitivity C l1 l2 x). Qed.

(* per-layer clipping: each parameter tensor moves by at most its own bound, jointly by at most the root-sum-square *)
Theorem C02_perlayer_sensitivity (Cs : list R) (l1 l2 : list (list (list R))) (x : list (list R)) :
  Forall (fun c => 0 <= c) Cs -> length x = length Cs ->
  exists d, psum (map (perlayer_clipped Cs) (l1 ++ x :: l2)) = padd (psum (map (perlayer_clipped Cs) (l1 ++ l2))) d /\
            Forall2 (fun t c => nnorm2 t <= c) d Cs /\ joint_norm d <= nnorm2 Cs.
Proof. exact (perlayer_sensitivity Cs l1 l2 x). Qed.

(* physical-batch splitting does not change the sum: the clipped sum over a concatenation is the sum of the chunk sums *)
Theorem C02_split_sum (f : list (list R) -> list (list R)) (c1 c2 : list (list (list R))) :
  psum (map f (c1 ++ c2)) = padd (psum (map f c1)) (psum (map f c2)).
Proof. rewrite map_app. exact (psum_app (map f c1) (map f c2)). Qed.

(* ghost clipping computes the TRUE per-sample gradient norms, for all extents (positions L, outputs p, inputs q):
   hence the same clip factor as standard clipping, hence the same bound *)
Theorem C02_ghost_weight_3d (L p q : nat) (g a : nat -> nat -> R) :
  true_norm_sq_weight L p q g a = ghost_sq_weight_3d L p q g a.
Proof. exact (ghost_weight_3d L p q g a). Qed.
Theorem C02_ghost_bias_3d (L p : nat) (g : nat -> nat -> R) : true_norm_sq_bias L p g = ghost_sq_bias_3d L p g.
Proof. exact (ghost_bias_3d L p g). Qed.
Theorem C02_ghost_weight_2d (p q : nat) (g a : nat -> R) :
  true_norm_sq_weight 1 p q (fun _ => g) (fun _ => a) = ghost_sq_weight_2d p q g a.
Proof. exact (ghost_weight_2d p q g a). Qed.

(* nn.Embedding: the ghost norm (positions grouped by id, padding positions masked) is the norm of the scatter-add per-sample gradient
   with the padding row zero, for every vocabulary size V, row length L, embedding dimension D, ids below V, optional padding index and
   per-row factor sc (1, or 1 / frequency of the id in the sample under scale_grad_by_freq: both samplers divide by the same counts);
   that per-sample gradient is the formula of Model/Layers shown in C01 to be the sample's own gradient *)
Theorem C02_ghost_embedding (sc : nat -> R) (pad : option nat) (V L D : nat) (idx : nat -> nat) (g : nat -> nat -> R) :
  (forall t, (t < L)%nat -> (idx t < V)%nat) ->
  true_norm_sq_embedding sc pad V L D idx g = ghost_sq_embedding sc pad L D idx g /\
  (forall v d, emb_gs_row pad L idx g v d = Layers.emb_gs R 0 Rplus pad L g idx v d).
Proof. intros B. split; [exact (ghost_embedding sc pad V L D idx g B) | intros v d; exact (emb_gs_row_is_layers pad L idx g v d)]. Qed.
(* and the masking is needed: the unmasked formula (the sampler before the repair) differs when a position holds the padding index *)
Theorem C02_ghost_embedding_needs_mask :
  exists (V L D : nat) (idx : nat -> nat) (g : nat -> nat -> R),
    (forall t, (t < L)%nat -> (idx t < V)%nat) /\ true_norm_sq_embedding (fun _ => 1) (Some 0%nat) V L D idx g <> ghost_sq_embedding_old (fun _ => 1) L D idx g.
Proof. exact ghost_embedding_old_refuted. Qed.

Example C02_nonvacuous : joint_norm (flat_clipped 1 [[3; 0]; [4]]) <= 1.
Proof. exact clip_example. Qed.

Print Assumptions C02_clip_factor_is_min.
Print Assumptions C02_clip_scaled_norm_le.
Print Assumptions C02_flat_sensitivity.
Print Assumptions C02_perlayer_sensitivity.
Print Assumptions C02_split_sum.
Print Assumptions C02_ghost_weight_3d.
Print Assumptions C02_ghost_bias_3d.
Print Assumptions C02_ghost_weight_2d.
Print Assumptions C02_ghost_embedding.
Print Assumptions C02_ghost_embedding_needs_mask.
