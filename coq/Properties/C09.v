(* Properties/C09.v -- Poisson sampling: independent inclusion at the accounted rate, empties kept. *)
From Coq Require Import ZArith List Bool Sorting.Sorted.
From OV Require Import Base.Num Base.NumZ Base.NumF Base.Py Model.Sampler Model.Batch Gen.Engine Gen.SamplerPins Proofs.SamplerP Proofs.BatchP Proofs.EngineP.
Import ListNotations.

(* a Poisson batch (mask = torch.rand(N) < q; mask.nonzero()): strictly increasing -- hence duplicate free --, within
   0..N-1, and index i is included iff ITS OWN uniform u_i < q: inclusion of i is a function of u_i alone, so with
   i.i.d. uniforms (assumption on torch.rand) inclusions are independent Bernoulli(q) *)
Theorem C09_batch_indices_spec {T} {N : Num T} (q : T) (us : list T) :
  let b := mask_indices (sample_mask q us) in
  StronglySorted Z.lt b /\ NoDup b /\
  forall i, In i b <-> (0 <= i < Z.of_nat (length us))%Z /\ nltb (nth (Z.to_nat i) us q) q = true.
Proof. exact (batch_indices_spec q us). Qed.

(* an epoch has exactly `steps` batches -- none is dropped, empty ones included -- and batch b is computed from the
   b-th fresh block of uniforms only *)
Theorem C09_batches_per_epoch {T} {N : Num T} (steps : Z) (q : T) (u : Z -> list T) : (0 <= steps)%Z ->
  length (sampler_epoch steps q u) = Z.to_nat steps /\
  forall b, (0 <= b < steps)%Z -> nth (Z.to_nat b) (sampler_epoch steps q u) [] = mask_indices (sample_mask q (u b)).
Proof. exact (batches_per_epoch steps q u). Qed.

(* the probability used by the sampler IS the rate handed to the accountant: both are the generated 1/len(loader),
   and (after the repair) the loader is told its epoch length instead of deriving it from the rate *)
Theorem C09_rate_is_accounted_rate {T} {N : Num T} {NI : NumI T} (L : Z) :
  loader_sample_rate L = engine_sample_rate L /\ engine_calibration_rate L = engine_sample_rate L.
Proof. split; reflexivity. Qed.

(* distributed mode: the strided shards l[r::W] are disjoint in positions, cover every position, and have the sizes
   the sampler computes (N/W, +1 for the first N mod W ranks) *)
Theorem C09_strided_shards_partition {A} (d : A) (l : list A) (W : nat) : (0 < W)%nat ->
  (forall n, (n < length l)%nat -> nth (n / W) (shard (n mod W) W l) d = nth n l d) /\
  (forall r j, (r < W)%nat -> (j < length (shard r W l))%nat -> nth j (shard r W l) d = nth (r + j * W) l d /\ (r + j * W < length l)%nat) /\
  (forall r, (r < W)%nat -> length (shard r W l) = (length l / W + (if Nat.ltb r (length l mod W) then 1 else 0))%nat).
Proof. exact (strided_shards_partition d l W). Qed.

(* empty batches: the batch DPDataLoader delivers for an empty draw is its prepared template cut to length zero (empty_like_batch, pinned
   branch by branch to Model/Batch.empty_like).  For EVERY batch structure -- tensors, mappings, lists / tuples / named tuples, nested to any
   depth, per-sample strings, other leaves -- it has the structure, trailing shapes and dtypes of the batch it was derived from, every batch
   extent is zero, and cutting is idempotent; hence whatever the number of drawn samples, the delivered batch has the skeleton of a
   one-sample batch (for a collate function whose batches have one skeleton) *)
Theorem C09_empty_batch_structure (b : btree) :
  skeleton (empty_like b) = skeleton b /\ Forall (fun n => n = 0%nat) (extents (empty_like b)) /\ empty_like (empty_like b) = empty_like b.
Proof. exact (conj (empty_like_skeleton b) (conj (empty_like_extents b) (empty_like_idem b))). Qed.
Theorem C09_collate_delivers_one_structure (collate_fn : nat -> btree) (n : nat) :
  (forall k, (0 < k)%nat -> skeleton (collate_fn k) = skeleton (collate_fn 1%nat)) ->
  skeleton (dp_collate collate_fn (empty_like (collate_fn 1%nat)) n) = skeleton (collate_fn 1%nat) /\
  (n = 0%nat -> Forall (fun e => e = 0%nat) (extents (dp_collate collate_fn (empty_like (collate_fn 1%nat)) n))).
Proof. exact (dp_collate_skeleton collate_fn n). Qed.

Example C09_nonvacuous :
  mask_indices (sample_mask (T:=Z) 5%Z [7; 2; 5; 4; 9; 0]%Z) = [1; 3; 5]%Z /\ shard 1 3 [10; 11; 12; 13; 14; 15; 16]%Z = [11; 14]%Z.
Proof. split; reflexivity. Qed.

(* the expected batch size used for averaging (generated from make_private) is the integer part of q * N for q = 1 / len(loader) taken
   exactly -- B for a loader of L batches of B samples, for every L; the product of the binary64 numbers falls below B for L = 49, 98, 103, ... *)
Theorem C09_expected_batch_size_is_integer_part {T} {N : Num T} (Nd B L : Z) (r : T) :
  engine_expected_batch_size Nd L r = (Nd / L)%Z /\ ((0 < L)%Z -> engine_expected_batch_size (B * L) L r = B).
Proof. exact (conj (expected_batch_size_integer_part Nd L r) (expected_batch_size_exact B L r)). Qed.
Example C09_float_product_truncates_below : ntrunc (nmul (nofZ 3136%Z) (engine_sample_rate (T:=PrimFloat.float) 49%Z)) = 63%Z.
Proof. exact float_product_truncates_below. Qed.

Print Assumptions C09_batch_indices_spec.
Print Assumptions C09_batches_per_epoch.
Print Assumptions C09_rate_is_accounted_rate.
Print Assumptions C09_strided_shards_partition.
Print Assumptions C09_empty_batch_structure.
Print Assumptions C09_collate_delivers_one_structure.
Print Assumptions C09_expected_batch_size_is_integer_part.
