(* Findings/C15.v -- validation accepts models that couple the samples of a batch: a BatchNorm without affine parameters (or a frozen one),
   or an InstanceNorm(affine=False, track_running_stats=True), owns no trainable parameter, is skipped by the trainable-modules walk of
   ModuleValidator.validate (and of GradSampleModule.validate), and make_private accepts the model. *)
From Coq Require Import ZArith List String Bool.
From OV Require Import Base.Py Model.ModTree Gen.Validators Proofs.ValidP.
Import ListNotations.
Theorem C15_validate_sound_refuted : exists t, validate t = 0%nat /\ make_private_guards false t = Ok tt /\ tree_couples t = true.
Proof. exists (Node KSeq false false false true [Node KLinear true true false true []; Node KBatchNorm false false true true []]). vm_compute. repeat split. Qed.
Theorem C15_running_stats_refuted : exists t, validate t = 0%nat /\ tree_couples t = true /\ validate (fixt false t) = 0%nat /\ tree_couples (fixt false t) = true.
Proof. exists (Node KSeq false false false true [Node KLinear true true false true []; Node KInstanceNorm false false true true []]). vm_compute. repeat split. Qed.
Print Assumptions C15_validate_sound_refuted.
