(* Findings/C18.v -- DistributedPerLayerOptimizer (grad_sample_mode="hooks", clipping="per_layer", torch DDP) releases 2/W times the
   single-process update: correct for two workers only.  Witness: three workers. *)
From Coq Require Import ZArith String List Reals Lra Bool.
From OV Require Import Base.Num Base.NumR Base.Py Gen.Dist Proofs.ClipR Proofs.DistR.
Import ListNotations.
Local Open Scope R_scope.
Theorem C18_perlayer_hooks_refuted : exists mean B k Ss z, Ss <> [] /\ B <> 0 /\ (k <> 0)%Z /\
  dpl_release mean B k Ss z <> single mean B k (nsum Ss) z.
Proof.
  exists false, 6, 1%Z, [3; 0; 3], 0. repeat split; try discriminate; try lra.
  rewrite dpl_release_closed by (try discriminate; lra).
  unfold single, opt_scale. cbn [length Z.of_nat Pos.of_succ_nat Pos.succ]. unfold nsum. cbn. lra.
Qed.
Print Assumptions C18_perlayer_hooks_refuted.
