(* Findings/C09.v -- why the Poisson loader must be told its epoch length: on binary64, int(1/(1/L)) <> L for
   L = 93 (and 99, 105, ...).  Before the repair the sampler derived its number of batches that way, so an epoch had
   L-1 batches and the accountant recorded the rate 1/(L-1) while the sampler used 1/L.  (Repaired by a fix: commit.) *)
From Coq Require Import ZArith List Floats.PrimFloat.
From OV Require Import Base.Num Base.NumF Base.Py Gen.Engine.
Theorem C09_steps_from_rate_refuted : exists L : Z, (0 < L)%Z /\ sampler_steps (loader_sample_rate (T:=float) L) <> L.
Proof. exists 93%Z. split; [reflexivity|]. vm_compute. discriminate. Qed.
Definition bad_lengths (n : nat) : list Z :=
  filter (fun L => negb (Z.eqb (sampler_steps (loader_sample_rate (T:=float) L)) L)) (map Z.of_nat (seq 1 n)).
Eval vm_compute in bad_lengths 200.
Print Assumptions C09_steps_from_rate_refuted.
