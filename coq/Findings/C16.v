(* Findings/C16.v -- resuming from a checkpoint does NOT continue the uninterrupted run when a scheduler has moved the live
   noise multiplier: it is saved in no state_dict, a freshly built optimizer carries the initial value, so the accountant
   history (hence epsilon) of the resumed run differs.  Witness on the Z instance with the generated Exponential schedule
   (gamma = 2): uninterrupted sigmas 3, 6, 12, 24 ; cut after two steps and resumed: 3, 6, 3, 6. *)
From Coq Require Import ZArith List String Bool.
From OV Require Import Base.Num Base.NumZ Base.Py Model.SchedState Model.Ckpt Gen.Sched Gen.Ckpt Proofs.CkptP.
Import ListNotations.
Local Open Scope string_scope.
Local Open Scope list_scope.
Definition fresh0 : sys Z Z Z := mksys 10%Z 0%Z [] "rdp" (mkss 0%Z 2%Z 1%Z 0%Z (fun _ => 1%Z) 3%Z) (mkss 0%Z 1%Z 1%Z 0%Z (fun _ => 1%Z) 2%Z).
Definition r0 := run (P:=Z) (I:=Z) (B:=Z) (G:=Z) (fun p b sg c => (p * b + sg * c)%Z) (fun p i g => ((p - (g + i))%Z, (g + i)%Z))
                     (fun h sg => h ++ [(sg, 1%Z, 1%Z)]) (fun s => sstate (noise_step noise_exp_get s)) (fun s => s).
Theorem C16_resume_live_refuted :
  exists y2, load_ckpt fresh0 (save_ckpt (r0 fresh0 [1%Z; 2%Z]) true true true) true true true = Ok y2 /\
             y_hist (r0 y2 [3%Z; 4%Z]) <> y_hist (r0 fresh0 [1%Z; 2%Z; 3%Z; 4%Z]).
Proof. eexists. split; [vm_compute; reflexivity|]. vm_compute. discriminate. Qed.
Eval vm_compute in (map (fun x => fst (fst x)) (y_hist (r0 fresh0 [1%Z; 2%Z; 3%Z; 4%Z]))).
Print Assumptions C16_resume_live_refuted.
