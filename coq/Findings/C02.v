(* Findings/C02.v -- the ghost-clipping bias norm formula BEFORE the repair (fix: commit in /repo) is not the
   norm of the per-sample bias gradient; kept as the record of the repaired defect. *)
From Coq Require Import Reals.
From OV Require Import Base.Num Base.NumR Model.GhostNorm Proofs.GhostR.
Theorem C02_ghost_bias_3d_old_refuted :
  exists (L p : nat) (g : nat -> nat -> R), true_norm_sq_bias L p g <> ghost_sq_bias_3d_old L p g.
Proof. exact ghost_bias_3d_old_refuted. Qed.
Print Assumptions C02_ghost_bias_3d_old_refuted.
