(* Findings/C02.v -- the ghost-clipping bias norm formula BEFORE the repair (fix: commit in /repo) is not the
   norm of the per-sample bias gradient; kept as the record of the repaired defect. *)
From Coq Require Import Reals List Lra.
From OV Require Import Base.Num Base.NumR Base.Py Model.OptimState Gen.Optim Model.ClipNum Model.GhostNorm Proofs.GhostR Proofs.ClipR.
Import ListNotations.
Local Open Scope R_scope.
Theorem C02_ghost_bias_3d_old_refuted :
  exists (L p : nat) (g : nat -> nat -> R), true_norm_sq_bias L p g <> ghost_sq_bias_3d_old L p g.
Proof. exact ghost_bias_3d_old_refuted. Qed.
Print Assumptions C02_ghost_bias_3d_old_refuted.

(* OPEN finding rnn-packed-unsorted-sensitivity: C02_flat_sensitivity needs row i of EVERY parameter tensor to belong to example i.
   When the rows of one tensor are in another order (recurrent layers on a packed batch that is not length-sorted), one example
   sits in two rows, each clipped separately, and removing it moves the sum by more than C: *)
(* rows of two parameter tensors that belong to DIFFERENT examples (the recurrent layer's rows in length-sorted order, the
   other layers' rows in batch order): example 1 = ([9/10], [9/10]) occupies the first tensor of row 1 and the second tensor of row 2 *)
Theorem C02_row_misalignment_refuted :
  exists (C : R) (rows_with rows_without : list (list (list R))) (d : list (list R)),
    0 <= C /\
    psum (map (flat_clipped C) rows_with) = padd (psum (map (flat_clipped C) rows_without)) d /\
    C < joint_norm d.
Proof.
  exists 1, [[[9/10]; [0]]; [[0]; [9/10]]], [[[0]; [0]]; [[0]; [0]]], [[9/10]; [9/10]].
  split; [lra|].
  assert (N0 : joint_norm (T:=R) [[0]; [0]] = 0).
  { unfold joint_norm, nnorm2, nnorm2sq, nsum, nsq. cbn. replace (0 + 0 * 0) with 0 by lra. rewrite sqrt_0. replace (0 + 0 * 0 + 0 * 0) with 0 by lra. apply sqrt_0. }
  assert (N1 : joint_norm (T:=R) [[9/10]; [0]] = 9/10).
  { unfold joint_norm, nnorm2, nnorm2sq, nsum, nsq. cbn. replace (0 + 0 * 0) with 0 by lra. rewrite sqrt_0.
    replace (0 + 9/10 * (9/10)) with ((9/10) * (9/10)) by lra. rewrite sqrt_square by lra.
    replace (0 + 9/10 * (9/10) + 0 * 0) with ((9/10) * (9/10)) by lra. apply sqrt_square. lra. }
  assert (N2 : joint_norm (T:=R) [[0]; [9/10]] = 9/10).
  { unfold joint_norm, nnorm2, nnorm2sq, nsum, nsq. cbn. replace (0 + 0 * 0) with 0 by lra. rewrite sqrt_0.
    replace (0 + 9/10 * (9/10)) with ((9/10) * (9/10)) by lra. rewrite sqrt_square by lra.
    replace (0 + 0 * 0 + 9/10 * (9/10)) with ((9/10) * (9/10)) by lra. apply sqrt_square. lra. }
  assert (E6 : eps6 <= 1/10) by (unfold eps6; change (IZR (10 ^ 6)) with (IZR 1000000); lra).
  split.
  - unfold flat_clipped. cbn [map]. rewrite N0, N1, N2.
    rewrite (clip_factor_one 1 (9/10)) by lra.
    rewrite (clip_factor_one 1 0) by lra.
    unfold psum, pscale, vscale. cbn.
    assert (L2 : forall a b c d : R, a = c -> b = d -> [[a]; [b]] = [[c]; [d]]) by (intros; subst; reflexivity).
    apply L2; lra.
  - unfold joint_norm, nnorm2, nnorm2sq, nsum, nsq. cbn.
    replace (0 + 9/10 * (9/10)) with ((9/10) * (9/10)) by lra. rewrite sqrt_square by lra.
    replace (0 + 9/10 * (9/10) + 9/10 * (9/10)) with (162/100) by lra.
    rewrite <- sqrt_1 at 1. apply sqrt_lt_1_alt. lra.
Qed.
Print Assumptions C02_row_misalignment_refuted.
