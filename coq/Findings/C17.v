(* Findings/C17.v -- refutation (on the faithful, regenerated model) of the full restore statement:
   an Exponential noise scheduler stepped twice, saved, and loaded into a freshly constructed
   scheduler on a fresh optimizer does NOT continue the trajectory. *)
From Coq Require Import ZArith List.
From OV Require Import Base.Num Base.NumZ Base.Py Model.SchedState Gen.Sched Proofs.SchedP.
Definition blankZ : ss Z := mkss 0%Z 0%Z 0%Z 0%Z (fun _ => 0%Z) 0%Z.
Definition ctor (init g : Z) : ss Z := sstate (noise_exp_init blankZ init g (-1)).
Definition after (k : nat) (init g : Z) : result (ss Z) := steps (noise_step noise_exp_get) k (ctor init g).
Definition resumed (k : nat) (init g : Z) : result (ss Z) :=
  bind (after k init g) (fun s =>
    steps (noise_step noise_exp_get) 1 (noise_load_state_dict (ctor init g) (noise_state_dict s))).
Theorem C17_restore_refuted :
  exists k init g, (match resumed k init g, after (S k) init g with
                    | Ok a, Ok b => negb (Z.eqb (f_oval a) (f_oval b)) | _, _ => false end) = true.
Proof. exists 2%nat, 8%Z, 3%Z. vm_compute. reflexivity. Qed.
Print Assumptions C17_restore_refuted.
