(* Findings/C20.v -- the accountant is charged with the INFLATED multiplier sigma_g > sigma under AdaClipDPOptimizer:
   the count release (noise sigma_b) is not paid for.  Recorded finding (no safe small repair). *)
From Coq Require Import Reals Lra.
From OV Require Import Base.Num Base.NumR Base.Py Gen.AdaClip Proofs.AdaClipR.
Local Open Scope R_scope.
Theorem C20_accounted_sigma_refuted : exists sigma sigma_b, 0 < sigma /\ sigma < 2 * sigma_b /\ ~ (ada_sigma sigma sigma_b <= sigma).
Proof. exists 1, 2. split; [lra|]. split; [lra|]. pose proof (sigma_g_gt_sigma 1 2 ltac:(lra) ltac:(lra)). lra. Qed.
Print Assumptions C20_accounted_sigma_refuted.
