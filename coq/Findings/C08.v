(* Findings/C08.v -- get_noise_multiplier(epochs=e, sample_rate=1/L) derives its step count as int(e / (1/L)),
   which on binary64 is e*L - 1 for some (e, L) (e.g. 3, 75): the direct API then calibrates for one step too few.
   (The engine path was repaired to pass the exact step count; the direct API is a recorded finding.) *)
From Coq Require Import ZArith List Floats.PrimFloat.
From OV Require Import Base.Num Base.NumF Base.Py Gen.Engine.
Theorem C08_calibration_steps_float_refuted :
  exists e L : Z, (0 < e)%Z /\ (0 < L)%Z /\ calibration_steps e (loader_sample_rate (T:=float) L) <> (e * L)%Z.
Proof. exists 3%Z, 75%Z. split; [reflexivity|]. split; [reflexivity|]. vm_compute. discriminate. Qed.
Print Assumptions C08_calibration_steps_float_refuted.
