(* Model/SchedState.v -- data only: the state a noise / grad-clip scheduler reads and writes.
   `f_oval` is the attribute of the wrapped optimizer the scheduler drives
   (optimizer.noise_multiplier, resp. optimizer.max_grad_norm). *)
From Coq Require Import ZArith.
From OV Require Import Base.Num Base.Py.
Record ss (T : Type) := mkss {
  f_last_epoch : Z; f_gamma : T; f_step_size : Z; f_base : T; f_lam : Z -> T; f_oval : T }.
Arguments mkss {T}. Arguments f_last_epoch {T}. Arguments f_gamma {T}. Arguments f_step_size {T}.
Arguments f_base {T}. Arguments f_lam {T}. Arguments f_oval {T}.
Definition set_last_epoch {T} (s : ss T) v := mkss v (f_gamma s) (f_step_size s) (f_base s) (f_lam s) (f_oval s).
Definition set_gamma {T} (s : ss T) v := mkss (f_last_epoch s) v (f_step_size s) (f_base s) (f_lam s) (f_oval s).
Definition set_step_size {T} (s : ss T) v := mkss (f_last_epoch s) (f_gamma s) v (f_base s) (f_lam s) (f_oval s).
Definition set_base {T} (s : ss T) v := mkss (f_last_epoch s) (f_gamma s) (f_step_size s) v (f_lam s) (f_oval s).
Definition set_lam {T} (s : ss T) v := mkss (f_last_epoch s) (f_gamma s) (f_step_size s) (f_base s) v (f_oval s).
Definition set_oval {T} (s : ss T) v := mkss (f_last_epoch s) (f_gamma s) (f_step_size s) (f_base s) (f_lam s) v.
(* what state_dict() returns: every field of the scheduler's __dict__ except `optimizer` and except plain functions (sd_lam = None:
   the schedule of a Lambda scheduler is not saved; Some f only for code that still puts the function into the state),
   plus (after the fix for the resume defect) the live scheduled value *)
Record sdict (T : Type) := mksd { sd_last_epoch : Z; sd_gamma : T; sd_step_size : Z; sd_base : T;
                                  sd_lam : option (Z -> T); sd_live : option T }.
Arguments mksd {T}. Arguments sd_last_epoch {T}. Arguments sd_gamma {T}. Arguments sd_step_size {T}.
Arguments sd_base {T}. Arguments sd_lam {T}. Arguments sd_live {T}.
(* hasattr(optimizer, "<attr>") on a DPOptimizer: the attribute exists (assumption of the model) *)
Definition has_attr {A} (_ : A) (_ : pystr) : bool := true.
