(* Model/GhostNorm.v -- the ghost-clipping norm formulas of grad_sample/linear.py as index-function sums
   over the Num class (tensors = functions of their indices with explicit extents). No proofs. *)
From Coq Require Import ZArith List Arith.
From OV Require Import Base.Num.
Import ListNotations.
Section G.
Context {T : Type} {N : Num T}.
Fixpoint sum_n (n : nat) (f : nat -> T) : T := match n with O => n0 | S k => nadd (sum_n k f) (f k) end.
(* one sample: backprops g[t][i] (t < L positions, i < p outputs), activations a[t][j] (j < q inputs) *)
(* the true per-sample gradients *)
Definition gs_weight (L : nat) (g a : nat -> nat -> T) (i j : nat) : T := sum_n L (fun t => nmul (g t i) (a t j)).
Definition gs_bias (L : nat) (g : nat -> nat -> T) (i : nat) : T := sum_n L (fun t => g t i).
Definition true_norm_sq_weight (L p q : nat) g a : T := sum_n p (fun i => sum_n q (fun j => nsq (gs_weight L g a i j))).
Definition true_norm_sq_bias (L p : nat) g : T := sum_n p (fun i => nsq (gs_bias L g i)).
(* what compute_linear_norm_sample computes (squared) *)
Definition ggT (p : nat) (g : nat -> nat -> T) (t s : nat) : T := sum_n p (fun i => nmul (g t i) (g s i)).
Definition ghost_sq_weight_3d (L p q : nat) g a : T :=
  sum_n L (fun t => sum_n L (fun s => nmul (ggT p g t s) (ggT q a t s))).
(* 'nij->n' of ggT : the sum of all entries  (the repaired bias formula) *)
Definition ghost_sq_bias_3d (L p : nat) g : T := sum_n L (fun t => sum_n L (fun s => ggT p g t s)).
(* the formula before the repair: 'n...i,n...i->n' of (ggT, ggT) *)
Definition ghost_sq_bias_3d_old (L p : nat) g : T := sum_n L (fun t => sum_n L (fun s => nsq (ggT p g t s))).
(* 2-D input (L = 1): g * a and g *)
Definition ghost_sq_weight_2d (p q : nat) (g a : nat -> T) : T := nmul (sum_n p (fun i => nsq (g i))) (sum_n q (fun j => nsq (a j))).

(* ---- nn.Embedding (grad_sample/embedding_norm_sample.py), one sample: ids idx t (t < L positions), backprops g t d (d < D),
   an optional padding index.  True per-sample gradient = scatter-add of the backprops into the rows named by the ids, padding row
   zero (the grad sampler of embedding.py; Model/Layers.emb_gs is the same function over a ring).  `sc v` is the factor applied to row v:
   1, or 1 / (number of positions of the sample holding v) under scale_grad_by_freq -- a constant of the sample's ids. *)
Definition emb_gs_row (pad : option nat) (L : nat) (idx : nat -> nat) (g : nat -> nat -> T) (v d : nat) : T :=
  match pad with
  | Some p => if Nat.eqb v p then n0 else sum_n L (fun t => if Nat.eqb (idx t) v then g t d else n0)
  | None => sum_n L (fun t => if Nat.eqb (idx t) v then g t d else n0)
  end.
Definition true_norm_sq_embedding (sc : nat -> T) (pad : option nat) (V L D : nat) idx g : T :=
  sum_n V (fun v => sum_n D (fun d => nsq (nmul (sc v) (emb_gs_row pad L idx g v d)))).
(* what compute_embedding_norm_sample computes (squared): values at padding positions are masked to zero; the positions of the row are
   grouped by id (torch.unique over (row, id) pairs + index_add); the squared norms of the group sums are added up (scatter_add) *)
Definition emb_masked (pad : option nat) (idx : nat -> nat) (g : nat -> nat -> T) (t d : nat) : T :=
  match pad with Some p => if Nat.eqb (idx t) p then n0 else g t d | None => g t d end.
Definition row_ids (L : nat) (idx : nat -> nat) : list nat := nodup Nat.eq_dec (map idx (seq 0 L)).
Definition lsum (l : list nat) (f : nat -> T) : T := fold_right (fun v acc => nadd (f v) acc) n0 l.
Definition ghost_sq_embedding (sc : nat -> T) (pad : option nat) (L D : nat) idx g : T :=
  lsum (row_ids L idx) (fun v => sum_n D (fun d => nsq (nmul (sc v) (sum_n L (fun t => if Nat.eqb (idx t) v then emb_masked pad idx g t d else n0))))).
(* the sampler before the repair: no masking *)
Definition ghost_sq_embedding_old (sc : nat -> T) (L D : nat) idx g : T := ghost_sq_embedding sc None L D idx g.
End G.
