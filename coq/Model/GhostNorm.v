(* Model/GhostNorm.v -- the ghost-clipping norm formulas of grad_sample/linear.py as index-function sums
   over the Num class (tensors = functions of their indices with explicit extents). No proofs. *)
From Coq Require Import ZArith List.
From OV Require Import Base.Num.
Section G.
Context {T : Type} {N : Num T}.
Fixpoint sum_n (n : nat) (f : nat -> T) : T := match n with O => n0 | S k => nadd (sum_n k f) (f k) end.
(* one sample: backprops g[t][i] (t < L positions, i < p outputs), activations a[t][j] (j < q inputs) *)
(* the true per-sample gradients *)
Definition gs_weight (L : nat) (g a : nat -> nat -> T) (i j : nat) : T := sum_n L (fun t => nmul (g t i) (a t j)).
Definition gs_bias (L : nat) (g : nat -> nat -> T) (i : nat) : T := sum_n L (fun t => g t i).
Definition true_norm_sq_weight (L p q : nat) g a : T := sum_n p (fun i => sum_n q (fun j => nsq (gs_weight L g a i j))).
Definition true_norm_sq_bias (L p : nat) g : T := sum_n p (fun i => nsq (gs_bias L g i)).
(* what compute_linear_norm_sample computes (squared) *)
Definition ggT (p : nat) (g : nat -> nat -> T) (t s : nat) : T := sum_n p (fun i => nmul (g t i) (g s i)).
Definition ghost_sq_weight_3d (L p q : nat) g a : T :=
  sum_n L (fun t => sum_n L (fun s => nmul (ggT p g t s) (ggT q a t s))).
(* 'nij->n' of ggT : the sum of all entries  (the repaired bias formula) *)
Definition ghost_sq_bias_3d (L p : nat) g : T := sum_n L (fun t => sum_n L (fun s => ggT p g t s)).
(* the formula before the repair: 'n...i,n...i->n' of (ggT, ggT) *)
Definition ghost_sq_bias_3d_old (L p : nat) g : T := sum_n L (fun t => sum_n L (fun s => nsq (ggT p g t s))).
(* 2-D input (L = 1): g * a and g *)
Definition ghost_sq_weight_2d (p q : nat) (g a : nat -> T) : T := nmul (sum_n p (fun i => nsq (g i))) (sum_n q (fun j => nsq (a j))).
End G.
