(* Model/OptimState.v -- data and primitive operations of the DP-optimizer ledger model.
   No proofs.  The transitions themselves (pre_step, step, zero_grad, clip loop, add_noise, ...)
   are GENERATED into Gen/Optim.v from opacus/optimizers/*.py; this file only fixes what the
   Python objects are abstracted to.

   Abstraction.  All optimised parameters move in lock-step (every backward pass attaches a
   per-sample gradient to each of them), so one symbolic parameter stands for the list.
   A per-sample gradient is identified by (backward id, sample id); a clipped contribution
   additionally carries the clipping norm that was in force when it was clipped. *)
From Coq Require Import ZArith List Bool.
From OV Require Import Base.Num Base.Py.
Import ListNotations.

Section OS.
Context {T : Type}.

(* one backward pass worth of p.grad_sample; c_proc is the `_processed` attribute *)
Record cell := mkcell { c_bid : Z; c_sids : list Z; c_proc : bool }.
(* p.grad_sample : None | tensor | list of tensors *)
Inductive gsv := GNone | GTensor (c : cell) | GList (l : list cell).
(* a clipped contribution: backward id, sample id, clipping norm used *)
Definition item : Type := (Z * Z * T)%type.
(* p.summed_grad tensor: contents + `_processed` attribute *)
Record sumv := mksum { s_items : list item; s_proc : bool }.
(* a noise value: linear combination of fresh standard draws: (stream position, std, divisor) *)
Definition noise : Type := list (Z * T * Z)%type.
(* p.grad: raw (non-private) contributions, clipped contributions, noise, divisors applied *)
Record gradv := mkgrad { g_raw : list (Z * Z); g_items : list item; g_noise : noise; g_divs : list T }.

Inductive event :=
| ENoise (std : T) (pos : Z)              (* one torch.normal call of parameter shape *)
| EDiscard (std : T) (pos : Z)            (* secure mode: the discarded (1,1) draw *)
| EAccount (sigma q : T)                  (* accountant.step *)
| EInner (g : option gradv)               (* original_optimizer.step() with this p.grad *)
| EClipUpdate (oldC newC : T).            (* adaptive clipping update *)

Inductive variant := Flat | PerLayer | AdaClip | Ghost.

Record ost := mkost {
  o_variant : variant;
  o_gs : gsv; o_summed : option sumv; o_grad : option gradv;
  o_skipq : list bool; o_last_skipped : bool;
  o_nm : T; o_mgn : T; o_ebs : T; o_mean : bool; o_secure : bool;
  o_has_hook : bool; o_rate : T; o_hist : list (T * T * Z);
  o_next_bid : Z; o_noise_pos : Z; o_accum_allowed : bool;
  o_rank : Z; o_world : Z;
  (* adaptive clipping counters *)
  o_sample_size : Z; o_unclipped : T;
  o_events : list event }.

Definition upd_gs s v := mkost (o_variant s) v (o_summed s) (o_grad s) (o_skipq s) (o_last_skipped s) (o_nm s) (o_mgn s) (o_ebs s) (o_mean s) (o_secure s) (o_has_hook s) (o_rate s) (o_hist s) (o_next_bid s) (o_noise_pos s) (o_accum_allowed s) (o_rank s) (o_world s) (o_sample_size s) (o_unclipped s) (o_events s).
Definition upd_summed s v := mkost (o_variant s) (o_gs s) v (o_grad s) (o_skipq s) (o_last_skipped s) (o_nm s) (o_mgn s) (o_ebs s) (o_mean s) (o_secure s) (o_has_hook s) (o_rate s) (o_hist s) (o_next_bid s) (o_noise_pos s) (o_accum_allowed s) (o_rank s) (o_world s) (o_sample_size s) (o_unclipped s) (o_events s).
Definition upd_grad s v := mkost (o_variant s) (o_gs s) (o_summed s) v (o_skipq s) (o_last_skipped s) (o_nm s) (o_mgn s) (o_ebs s) (o_mean s) (o_secure s) (o_has_hook s) (o_rate s) (o_hist s) (o_next_bid s) (o_noise_pos s) (o_accum_allowed s) (o_rank s) (o_world s) (o_sample_size s) (o_unclipped s) (o_events s).
Definition upd_skipq s v := mkost (o_variant s) (o_gs s) (o_summed s) (o_grad s) v (o_last_skipped s) (o_nm s) (o_mgn s) (o_ebs s) (o_mean s) (o_secure s) (o_has_hook s) (o_rate s) (o_hist s) (o_next_bid s) (o_noise_pos s) (o_accum_allowed s) (o_rank s) (o_world s) (o_sample_size s) (o_unclipped s) (o_events s).
Definition upd_last_skipped s v := mkost (o_variant s) (o_gs s) (o_summed s) (o_grad s) (o_skipq s) v (o_nm s) (o_mgn s) (o_ebs s) (o_mean s) (o_secure s) (o_has_hook s) (o_rate s) (o_hist s) (o_next_bid s) (o_noise_pos s) (o_accum_allowed s) (o_rank s) (o_world s) (o_sample_size s) (o_unclipped s) (o_events s).
Definition upd_nm s v := mkost (o_variant s) (o_gs s) (o_summed s) (o_grad s) (o_skipq s) (o_last_skipped s) v (o_mgn s) (o_ebs s) (o_mean s) (o_secure s) (o_has_hook s) (o_rate s) (o_hist s) (o_next_bid s) (o_noise_pos s) (o_accum_allowed s) (o_rank s) (o_world s) (o_sample_size s) (o_unclipped s) (o_events s).
Definition upd_mgn s v := mkost (o_variant s) (o_gs s) (o_summed s) (o_grad s) (o_skipq s) (o_last_skipped s) (o_nm s) v (o_ebs s) (o_mean s) (o_secure s) (o_has_hook s) (o_rate s) (o_hist s) (o_next_bid s) (o_noise_pos s) (o_accum_allowed s) (o_rank s) (o_world s) (o_sample_size s) (o_unclipped s) (o_events s).
Definition upd_hist s v := mkost (o_variant s) (o_gs s) (o_summed s) (o_grad s) (o_skipq s) (o_last_skipped s) (o_nm s) (o_mgn s) (o_ebs s) (o_mean s) (o_secure s) (o_has_hook s) (o_rate s) v (o_next_bid s) (o_noise_pos s) (o_accum_allowed s) (o_rank s) (o_world s) (o_sample_size s) (o_unclipped s) (o_events s).
Definition upd_next_bid s v := mkost (o_variant s) (o_gs s) (o_summed s) (o_grad s) (o_skipq s) (o_last_skipped s) (o_nm s) (o_mgn s) (o_ebs s) (o_mean s) (o_secure s) (o_has_hook s) (o_rate s) (o_hist s) v (o_noise_pos s) (o_accum_allowed s) (o_rank s) (o_world s) (o_sample_size s) (o_unclipped s) (o_events s).
Definition upd_noise_pos s v := mkost (o_variant s) (o_gs s) (o_summed s) (o_grad s) (o_skipq s) (o_last_skipped s) (o_nm s) (o_mgn s) (o_ebs s) (o_mean s) (o_secure s) (o_has_hook s) (o_rate s) (o_hist s) (o_next_bid s) v (o_accum_allowed s) (o_rank s) (o_world s) (o_sample_size s) (o_unclipped s) (o_events s).
Definition upd_sample_size s v := mkost (o_variant s) (o_gs s) (o_summed s) (o_grad s) (o_skipq s) (o_last_skipped s) (o_nm s) (o_mgn s) (o_ebs s) (o_mean s) (o_secure s) (o_has_hook s) (o_rate s) (o_hist s) (o_next_bid s) (o_noise_pos s) (o_accum_allowed s) (o_rank s) (o_world s) v (o_unclipped s) (o_events s).
Definition upd_unclipped s v := mkost (o_variant s) (o_gs s) (o_summed s) (o_grad s) (o_skipq s) (o_last_skipped s) (o_nm s) (o_mgn s) (o_ebs s) (o_mean s) (o_secure s) (o_has_hook s) (o_rate s) (o_hist s) (o_next_bid s) (o_noise_pos s) (o_accum_allowed s) (o_rank s) (o_world s) (o_sample_size s) v (o_events s).
Definition upd_events s v := mkost (o_variant s) (o_gs s) (o_summed s) (o_grad s) (o_skipq s) (o_last_skipped s) (o_nm s) (o_mgn s) (o_ebs s) (o_mean s) (o_secure s) (o_has_hook s) (o_rate s) (o_hist s) (o_next_bid s) (o_noise_pos s) (o_accum_allowed s) (o_rank s) (o_world s) (o_sample_size s) (o_unclipped s) v.
Definition emit s e := upd_events s (o_events s ++ [e]).

(* ---- primitives standing for the helper functions pinned in py/translate/gen_optim.py ---- *)

(* _check_processed_flag(p.grad_sample): raises iff a tensor carries `_processed`;
   None is neither a tensor nor a list and passes *)
Definition gs_check (g : gsv) : result unit :=
  match g with
  | GNone => Ok tt
  | GTensor c => if c_proc c then Err ValueError else Ok tt
  | GList l => if existsb c_proc l then Err ValueError else Ok tt
  end.
(* _mark_as_processed(p.grad_sample) *)
Definition gs_mark (g : gsv) : gsv :=
  match g with
  | GNone => GNone
  | GTensor c => GTensor (mkcell (c_bid c) (c_sids c) true)
  | GList l => GList (map (fun c => mkcell (c_bid c) (c_sids c) true) l)
  end.
Definition cell_ids (c : cell) : list (Z * Z) := map (fun sid => (c_bid c, sid)) (c_sids c).
(* self._get_flat_grad_sample(p): ValueError when None; torch.cat of a list *)
Definition gs_flat (g : gsv) : result (list (Z * Z)) :=
  match g with
  | GNone => Err ValueError
  | GTensor c => Ok (cell_ids c)
  | GList l => Ok (flat_map cell_ids l)
  end.
(* DPOptimizer.accumulated_iterations *)
Definition gs_accum_iters (g : gsv) : result Z :=
  match g with
  | GNone => Err ValueError
  | GTensor _ => Ok 1%Z
  | GList l => Ok (Z.of_nat (length l))
  end.
(* _check_processed_flag(p.summed_grad) *)
Definition sum_check (o : option sumv) : result unit :=
  match o with Some v => if s_proc v then Err ValueError else Ok tt | None => Ok tt end.
(* _mark_as_processed(p.summed_grad) : setattr on None raises AttributeError (never reached: the noise
   generation dereferences it first) *)
Definition sum_mark (o : option sumv) : option sumv :=
  match o with Some v => Some (mksum (s_items v) true) | None => None end.
(* torch.einsum("i,i...", per_sample_clip_factor, grad_sample): every sample's gradient scaled by
   its clip factor w.r.t. the norm in force *)
Definition clip_items (C : T) (ids : list (Z * Z)) : list item := map (fun p => (fst p, snd p, C)) ids.
(* p.summed_grad += grad   (in place: keeps the `_processed` attribute) *)
Definition sum_iadd (v : sumv) (g : list item) : sumv := mksum (s_items v ++ g) (s_proc v).
(* promote_current_grad_sample *)
Definition gs_promote (g : gsv) (c : cell) : gsv :=
  match g with GNone => GTensor c | GTensor c0 => GList [c0; c] | GList l => GList (l ++ [c]) end.
Definition gs_is_multi (g : gsv) : bool :=
  match g with GList l => Nat.ltb 1 (length l) | _ => false end.

Definition grad_add_raw (g : option gradv) (ids : list (Z * Z)) : option gradv :=
  match g with
  | None => Some (mkgrad ids [] [] [])
  | Some v => Some (mkgrad (g_raw v ++ ids) (g_items v) (g_noise v) (g_divs v))
  end.
Definition grad_add_items (g : option gradv) (its : list item) : option gradv :=
  match g with
  | None => Some (mkgrad [] its [] [])
  | Some v => Some (mkgrad (g_raw v) (g_items v ++ its) (g_noise v) (g_divs v))
  end.
(* original_optimizer.zero_grad(set_to_none=False): p.grad becomes zeros (or stays None) *)
Definition grad_zero (g : option gradv) : option gradv :=
  match g with None => None | Some _ => Some (mkgrad [] [] [] []) end.
Definition grad_div (g : option gradv) (d : T) : option gradv :=
  match g with None => None | Some v => Some (mkgrad (g_raw v) (g_items v) (g_noise v) (g_divs v ++ [d])) end.
End OS.

Arguments item : clear implicits.
Arguments sumv : clear implicits.
Arguments noise : clear implicits.
Arguments gradv : clear implicits.
Arguments event : clear implicits.
Arguments ost : clear implicits.
