(* Model/OptimState.v -- data and primitive operations of the DP-optimizer ledger model.
   No proofs.  The transitions themselves (pre_step, step, zero_grad, clip loop, add_noise, ...)
   are GENERATED into Gen/Optim.v from opacus/optimizers/*.py; this file only fixes what the
   Python objects are abstracted to.

   Abstraction.  All optimised parameters move in lock-step (every backward pass attaches a
   per-sample gradient to each of them), so one symbolic parameter stands for the list.
   A per-sample gradient is identified by (backward id, sample id); a clipped contribution
   additionally carries the clipping norm that was in force when it was clipped. *)
From Coq Require Import ZArith List Bool.
From OV Require Import Base.Num Base.Py.
Import ListNotations.

Section OS.
Context {T : Type}.

(* one backward pass worth of p.grad_sample; c_proc is the `_processed` attribute *)
Record cell := mkcell { c_bid : Z; c_sids : list Z; c_proc : bool }.
(* p.grad_sample : None | tensor | list of tensors *)
Inductive gsv := GNone | GTensor (c : cell) | GList (l : list cell).
(* a clipped contribution: backward id, sample id, clipping norm used *)
Definition item : Type := (Z * Z * option T)%type.   (* None: an UNCLIPPED (raw) per-sample gradient *)
(* p.summed_grad tensor: contents + `_processed` attribute *)
Record sumv := mksum { s_items : list item; s_proc : bool }.
(* a noise value: linear combination of fresh standard draws: (stream position, std, divisor) *)
Definition noise : Type := list (Z * T * Z)%type.
(* p.grad: raw (non-private) contributions, clipped contributions, noise, divisors applied *)
Record gradv := mkgrad { g_raw : list (Z * Z); g_items : list item; g_noise : noise; g_divs : list T }.

Inductive event :=
| ENoise (std : T) (pos : Z)              (* one torch.normal call of parameter shape *)
| EDiscard (std : T) (pos : Z)            (* secure mode: the discarded (1,1) draw *)
| EAccount (sigma q : T)                  (* accountant.step *)
| EInner (g : option gradv)               (* original_optimizer.step() with this p.grad *)
| EClipUpdate (oldC newC : T).            (* adaptive clipping update *)

Inductive variant := Flat | PerLayer | AdaClip | Ghost.
Inductive acckind := AccRDP | AccPRV | AccGDP.
Inductive shape := ShapeRef | Shape11 | ShapeOther.

Record ost := mkost {
  o_variant : variant;
  o_acc : acckind;
  o_gs : gsv;
  o_summed : option sumv;
  o_grad : option gradv;
  o_skipq : list bool;
  o_last_skipped : bool;
  o_nm : T;
  o_mgn : T;
  o_ebs : T;
  o_mean : bool;
  o_secure : bool;
  o_has_hook : bool;
  o_rate : T;
  o_hist : list (T * T * Z);
  o_next_bid : Z;
  o_noise_pos : Z;
  o_accum_allowed : bool;
  o_rank : Z;
  o_world : Z;
  o_sample_size : Z;
  o_unclipped : T;
  o_target_q : T;
  o_clip_lr : T;
  o_max_clip : T;
  o_min_clip : T;
  o_unclipped_std : T;
  o_events : list event }.

Definition upd_gs s v := mkost (o_variant s) (o_acc s) v (o_summed s) (o_grad s) (o_skipq s) (o_last_skipped s) (o_nm s) (o_mgn s) (o_ebs s) (o_mean s) (o_secure s) (o_has_hook s) (o_rate s) (o_hist s) (o_next_bid s) (o_noise_pos s) (o_accum_allowed s) (o_rank s) (o_world s) (o_sample_size s) (o_unclipped s) (o_target_q s) (o_clip_lr s) (o_max_clip s) (o_min_clip s) (o_unclipped_std s) (o_events s).
Definition upd_summed s v := mkost (o_variant s) (o_acc s) (o_gs s) v (o_grad s) (o_skipq s) (o_last_skipped s) (o_nm s) (o_mgn s) (o_ebs s) (o_mean s) (o_secure s) (o_has_hook s) (o_rate s) (o_hist s) (o_next_bid s) (o_noise_pos s) (o_accum_allowed s) (o_rank s) (o_world s) (o_sample_size s) (o_unclipped s) (o_target_q s) (o_clip_lr s) (o_max_clip s) (o_min_clip s) (o_unclipped_std s) (o_events s).
Definition upd_grad s v := mkost (o_variant s) (o_acc s) (o_gs s) (o_summed s) v (o_skipq s) (o_last_skipped s) (o_nm s) (o_mgn s) (o_ebs s) (o_mean s) (o_secure s) (o_has_hook s) (o_rate s) (o_hist s) (o_next_bid s) (o_noise_pos s) (o_accum_allowed s) (o_rank s) (o_world s) (o_sample_size s) (o_unclipped s) (o_target_q s) (o_clip_lr s) (o_max_clip s) (o_min_clip s) (o_unclipped_std s) (o_events s).
Definition upd_skipq s v := mkost (o_variant s) (o_acc s) (o_gs s) (o_summed s) (o_grad s) v (o_last_skipped s) (o_nm s) (o_mgn s) (o_ebs s) (o_mean s) (o_secure s) (o_has_hook s) (o_rate s) (o_hist s) (o_next_bid s) (o_noise_pos s) (o_accum_allowed s) (o_rank s) (o_world s) (o_sample_size s) (o_unclipped s) (o_target_q s) (o_clip_lr s) (o_max_clip s) (o_min_clip s) (o_unclipped_std s) (o_events s).
Definition upd_last_skipped s v := mkost (o_variant s) (o_acc s) (o_gs s) (o_summed s) (o_grad s) (o_skipq s) v (o_nm s) (o_mgn s) (o_ebs s) (o_mean s) (o_secure s) (o_has_hook s) (o_rate s) (o_hist s) (o_next_bid s) (o_noise_pos s) (o_accum_allowed s) (o_rank s) (o_world s) (o_sample_size s) (o_unclipped s) (o_target_q s) (o_clip_lr s) (o_max_clip s) (o_min_clip s) (o_unclipped_std s) (o_events s).
Definition upd_nm s v := mkost (o_variant s) (o_acc s) (o_gs s) (o_summed s) (o_grad s) (o_skipq s) (o_last_skipped s) v (o_mgn s) (o_ebs s) (o_mean s) (o_secure s) (o_has_hook s) (o_rate s) (o_hist s) (o_next_bid s) (o_noise_pos s) (o_accum_allowed s) (o_rank s) (o_world s) (o_sample_size s) (o_unclipped s) (o_target_q s) (o_clip_lr s) (o_max_clip s) (o_min_clip s) (o_unclipped_std s) (o_events s).
Definition upd_mgn s v := mkost (o_variant s) (o_acc s) (o_gs s) (o_summed s) (o_grad s) (o_skipq s) (o_last_skipped s) (o_nm s) v (o_ebs s) (o_mean s) (o_secure s) (o_has_hook s) (o_rate s) (o_hist s) (o_next_bid s) (o_noise_pos s) (o_accum_allowed s) (o_rank s) (o_world s) (o_sample_size s) (o_unclipped s) (o_target_q s) (o_clip_lr s) (o_max_clip s) (o_min_clip s) (o_unclipped_std s) (o_events s).
Definition upd_ebs s v := mkost (o_variant s) (o_acc s) (o_gs s) (o_summed s) (o_grad s) (o_skipq s) (o_last_skipped s) (o_nm s) (o_mgn s) v (o_mean s) (o_secure s) (o_has_hook s) (o_rate s) (o_hist s) (o_next_bid s) (o_noise_pos s) (o_accum_allowed s) (o_rank s) (o_world s) (o_sample_size s) (o_unclipped s) (o_target_q s) (o_clip_lr s) (o_max_clip s) (o_min_clip s) (o_unclipped_std s) (o_events s).
Definition upd_mean s v := mkost (o_variant s) (o_acc s) (o_gs s) (o_summed s) (o_grad s) (o_skipq s) (o_last_skipped s) (o_nm s) (o_mgn s) (o_ebs s) v (o_secure s) (o_has_hook s) (o_rate s) (o_hist s) (o_next_bid s) (o_noise_pos s) (o_accum_allowed s) (o_rank s) (o_world s) (o_sample_size s) (o_unclipped s) (o_target_q s) (o_clip_lr s) (o_max_clip s) (o_min_clip s) (o_unclipped_std s) (o_events s).
Definition upd_secure s v := mkost (o_variant s) (o_acc s) (o_gs s) (o_summed s) (o_grad s) (o_skipq s) (o_last_skipped s) (o_nm s) (o_mgn s) (o_ebs s) (o_mean s) v (o_has_hook s) (o_rate s) (o_hist s) (o_next_bid s) (o_noise_pos s) (o_accum_allowed s) (o_rank s) (o_world s) (o_sample_size s) (o_unclipped s) (o_target_q s) (o_clip_lr s) (o_max_clip s) (o_min_clip s) (o_unclipped_std s) (o_events s).
Definition upd_has_hook s v := mkost (o_variant s) (o_acc s) (o_gs s) (o_summed s) (o_grad s) (o_skipq s) (o_last_skipped s) (o_nm s) (o_mgn s) (o_ebs s) (o_mean s) (o_secure s) v (o_rate s) (o_hist s) (o_next_bid s) (o_noise_pos s) (o_accum_allowed s) (o_rank s) (o_world s) (o_sample_size s) (o_unclipped s) (o_target_q s) (o_clip_lr s) (o_max_clip s) (o_min_clip s) (o_unclipped_std s) (o_events s).
Definition upd_rate s v := mkost (o_variant s) (o_acc s) (o_gs s) (o_summed s) (o_grad s) (o_skipq s) (o_last_skipped s) (o_nm s) (o_mgn s) (o_ebs s) (o_mean s) (o_secure s) (o_has_hook s) v (o_hist s) (o_next_bid s) (o_noise_pos s) (o_accum_allowed s) (o_rank s) (o_world s) (o_sample_size s) (o_unclipped s) (o_target_q s) (o_clip_lr s) (o_max_clip s) (o_min_clip s) (o_unclipped_std s) (o_events s).
Definition upd_hist s v := mkost (o_variant s) (o_acc s) (o_gs s) (o_summed s) (o_grad s) (o_skipq s) (o_last_skipped s) (o_nm s) (o_mgn s) (o_ebs s) (o_mean s) (o_secure s) (o_has_hook s) (o_rate s) v (o_next_bid s) (o_noise_pos s) (o_accum_allowed s) (o_rank s) (o_world s) (o_sample_size s) (o_unclipped s) (o_target_q s) (o_clip_lr s) (o_max_clip s) (o_min_clip s) (o_unclipped_std s) (o_events s).
Definition upd_next_bid s v := mkost (o_variant s) (o_acc s) (o_gs s) (o_summed s) (o_grad s) (o_skipq s) (o_last_skipped s) (o_nm s) (o_mgn s) (o_ebs s) (o_mean s) (o_secure s) (o_has_hook s) (o_rate s) (o_hist s) v (o_noise_pos s) (o_accum_allowed s) (o_rank s) (o_world s) (o_sample_size s) (o_unclipped s) (o_target_q s) (o_clip_lr s) (o_max_clip s) (o_min_clip s) (o_unclipped_std s) (o_events s).
Definition upd_noise_pos s v := mkost (o_variant s) (o_acc s) (o_gs s) (o_summed s) (o_grad s) (o_skipq s) (o_last_skipped s) (o_nm s) (o_mgn s) (o_ebs s) (o_mean s) (o_secure s) (o_has_hook s) (o_rate s) (o_hist s) (o_next_bid s) v (o_accum_allowed s) (o_rank s) (o_world s) (o_sample_size s) (o_unclipped s) (o_target_q s) (o_clip_lr s) (o_max_clip s) (o_min_clip s) (o_unclipped_std s) (o_events s).
Definition upd_accum_allowed s v := mkost (o_variant s) (o_acc s) (o_gs s) (o_summed s) (o_grad s) (o_skipq s) (o_last_skipped s) (o_nm s) (o_mgn s) (o_ebs s) (o_mean s) (o_secure s) (o_has_hook s) (o_rate s) (o_hist s) (o_next_bid s) (o_noise_pos s) v (o_rank s) (o_world s) (o_sample_size s) (o_unclipped s) (o_target_q s) (o_clip_lr s) (o_max_clip s) (o_min_clip s) (o_unclipped_std s) (o_events s).
Definition upd_rank s v := mkost (o_variant s) (o_acc s) (o_gs s) (o_summed s) (o_grad s) (o_skipq s) (o_last_skipped s) (o_nm s) (o_mgn s) (o_ebs s) (o_mean s) (o_secure s) (o_has_hook s) (o_rate s) (o_hist s) (o_next_bid s) (o_noise_pos s) (o_accum_allowed s) v (o_world s) (o_sample_size s) (o_unclipped s) (o_target_q s) (o_clip_lr s) (o_max_clip s) (o_min_clip s) (o_unclipped_std s) (o_events s).
Definition upd_world s v := mkost (o_variant s) (o_acc s) (o_gs s) (o_summed s) (o_grad s) (o_skipq s) (o_last_skipped s) (o_nm s) (o_mgn s) (o_ebs s) (o_mean s) (o_secure s) (o_has_hook s) (o_rate s) (o_hist s) (o_next_bid s) (o_noise_pos s) (o_accum_allowed s) (o_rank s) v (o_sample_size s) (o_unclipped s) (o_target_q s) (o_clip_lr s) (o_max_clip s) (o_min_clip s) (o_unclipped_std s) (o_events s).
Definition upd_sample_size s v := mkost (o_variant s) (o_acc s) (o_gs s) (o_summed s) (o_grad s) (o_skipq s) (o_last_skipped s) (o_nm s) (o_mgn s) (o_ebs s) (o_mean s) (o_secure s) (o_has_hook s) (o_rate s) (o_hist s) (o_next_bid s) (o_noise_pos s) (o_accum_allowed s) (o_rank s) (o_world s) v (o_unclipped s) (o_target_q s) (o_clip_lr s) (o_max_clip s) (o_min_clip s) (o_unclipped_std s) (o_events s).
Definition upd_unclipped s v := mkost (o_variant s) (o_acc s) (o_gs s) (o_summed s) (o_grad s) (o_skipq s) (o_last_skipped s) (o_nm s) (o_mgn s) (o_ebs s) (o_mean s) (o_secure s) (o_has_hook s) (o_rate s) (o_hist s) (o_next_bid s) (o_noise_pos s) (o_accum_allowed s) (o_rank s) (o_world s) (o_sample_size s) v (o_target_q s) (o_clip_lr s) (o_max_clip s) (o_min_clip s) (o_unclipped_std s) (o_events s).
Definition upd_target_q s v := mkost (o_variant s) (o_acc s) (o_gs s) (o_summed s) (o_grad s) (o_skipq s) (o_last_skipped s) (o_nm s) (o_mgn s) (o_ebs s) (o_mean s) (o_secure s) (o_has_hook s) (o_rate s) (o_hist s) (o_next_bid s) (o_noise_pos s) (o_accum_allowed s) (o_rank s) (o_world s) (o_sample_size s) (o_unclipped s) v (o_clip_lr s) (o_max_clip s) (o_min_clip s) (o_unclipped_std s) (o_events s).
Definition upd_clip_lr s v := mkost (o_variant s) (o_acc s) (o_gs s) (o_summed s) (o_grad s) (o_skipq s) (o_last_skipped s) (o_nm s) (o_mgn s) (o_ebs s) (o_mean s) (o_secure s) (o_has_hook s) (o_rate s) (o_hist s) (o_next_bid s) (o_noise_pos s) (o_accum_allowed s) (o_rank s) (o_world s) (o_sample_size s) (o_unclipped s) (o_target_q s) v (o_max_clip s) (o_min_clip s) (o_unclipped_std s) (o_events s).
Definition upd_max_clip s v := mkost (o_variant s) (o_acc s) (o_gs s) (o_summed s) (o_grad s) (o_skipq s) (o_last_skipped s) (o_nm s) (o_mgn s) (o_ebs s) (o_mean s) (o_secure s) (o_has_hook s) (o_rate s) (o_hist s) (o_next_bid s) (o_noise_pos s) (o_accum_allowed s) (o_rank s) (o_world s) (o_sample_size s) (o_unclipped s) (o_target_q s) (o_clip_lr s) v (o_min_clip s) (o_unclipped_std s) (o_events s).
Definition upd_min_clip s v := mkost (o_variant s) (o_acc s) (o_gs s) (o_summed s) (o_grad s) (o_skipq s) (o_last_skipped s) (o_nm s) (o_mgn s) (o_ebs s) (o_mean s) (o_secure s) (o_has_hook s) (o_rate s) (o_hist s) (o_next_bid s) (o_noise_pos s) (o_accum_allowed s) (o_rank s) (o_world s) (o_sample_size s) (o_unclipped s) (o_target_q s) (o_clip_lr s) (o_max_clip s) v (o_unclipped_std s) (o_events s).
Definition upd_unclipped_std s v := mkost (o_variant s) (o_acc s) (o_gs s) (o_summed s) (o_grad s) (o_skipq s) (o_last_skipped s) (o_nm s) (o_mgn s) (o_ebs s) (o_mean s) (o_secure s) (o_has_hook s) (o_rate s) (o_hist s) (o_next_bid s) (o_noise_pos s) (o_accum_allowed s) (o_rank s) (o_world s) (o_sample_size s) (o_unclipped s) (o_target_q s) (o_clip_lr s) (o_max_clip s) (o_min_clip s) v (o_events s).
Definition upd_events s v := mkost (o_variant s) (o_acc s) (o_gs s) (o_summed s) (o_grad s) (o_skipq s) (o_last_skipped s) (o_nm s) (o_mgn s) (o_ebs s) (o_mean s) (o_secure s) (o_has_hook s) (o_rate s) (o_hist s) (o_next_bid s) (o_noise_pos s) (o_accum_allowed s) (o_rank s) (o_world s) (o_sample_size s) (o_unclipped s) (o_target_q s) (o_clip_lr s) (o_max_clip s) (o_min_clip s) (o_unclipped_std s) v.
Definition emit s e := upd_events s (o_events s ++ [e]).

(* ---- primitives standing for the helper functions pinned in py/translate/gen_optim.py ---- *)

(* _check_processed_flag(p.grad_sample): raises iff a tensor carries `_processed`;
   None is neither a tensor nor a list and passes *)
Definition gs_check (g : gsv) : result unit :=
  match g with
  | GNone => Ok tt
  | GTensor c => if c_proc c then Err ValueError else Ok tt
  | GList l => if existsb c_proc l then Err ValueError else Ok tt
  end.
(* _mark_as_processed(p.grad_sample) *)
Definition gs_mark (g : gsv) : gsv :=
  match g with
  | GNone => GNone
  | GTensor c => GTensor (mkcell (c_bid c) (c_sids c) true)
  | GList l => GList (map (fun c => mkcell (c_bid c) (c_sids c) true) l)
  end.
Definition cell_ids (c : cell) : list (Z * Z) := map (fun sid => (c_bid c, sid)) (c_sids c).
(* self._get_flat_grad_sample(p): ValueError when None; torch.cat of a list *)
Definition gs_flat (g : gsv) : result (list (Z * Z)) :=
  match g with
  | GNone => Err ValueError
  | GTensor c => Ok (cell_ids c)
  | GList l => Ok (flat_map cell_ids l)
  end.
(* DPOptimizer.accumulated_iterations *)
Definition gs_accum_iters (g : gsv) : result Z :=
  match g with
  | GNone => Err ValueError
  | GTensor _ => Ok 1%Z
  | GList l => Ok (Z.of_nat (length l))
  end.
(* _check_processed_flag(p.summed_grad) *)
Definition sum_check (o : option sumv) : result unit :=
  match o with Some v => if s_proc v then Err ValueError else Ok tt | None => Ok tt end.
(* _mark_as_processed(p.summed_grad) : setattr on None raises AttributeError (never reached: the noise
   generation dereferences it first) *)
Definition sum_mark (o : option sumv) : option sumv :=
  match o with Some v => Some (mksum (s_items v) true) | None => None end.
(* torch.einsum("i,i...", per_sample_clip_factor, grad_sample): every sample's gradient scaled by
   its clip factor w.r.t. the norm in force *)
Definition clip_items (C : T) (ids : list (Z * Z)) : list item := map (fun p => (fst p, snd p, Some C)) ids.
(* p.summed_grad += grad   (in place: keeps the `_processed` attribute) *)
Definition sum_iadd (v : sumv) (g : list item) : sumv := mksum (s_items v ++ g) (s_proc v).
(* promote_current_grad_sample *)
Definition gs_promote (g : gsv) (c : cell) : gsv :=
  match g with GNone => GTensor c | GTensor c0 => GList [c0; c] | GList l => GList (l ++ [c]) end.
Definition gs_is_multi (g : gsv) : bool :=
  match g with GList l => Nat.ltb 1 (length l) | _ => false end.

Definition grad_add_raw (g : option gradv) (ids : list (Z * Z)) : option gradv :=
  match g with
  | None => Some (mkgrad ids [] [] [])
  | Some v => Some (mkgrad (g_raw v ++ ids) (g_items v) (g_noise v) (g_divs v))
  end.
Definition grad_add_items (g : option gradv) (its : list item) : option gradv :=
  match g with
  | None => Some (mkgrad [] its [] [])
  | Some v => Some (mkgrad (g_raw v) (g_items v ++ its) (g_noise v) (g_divs v))
  end.
(* original_optimizer.zero_grad(set_to_none=False): p.grad becomes zeros (or stays None) *)
Definition grad_zero (g : option gradv) : option gradv :=
  match g with None => None | Some _ => Some (mkgrad [] [] [] []) end.
Definition grad_div (g : option gradv) (d : T) : option gradv :=
  match g with None => None | Some v => Some (mkgrad (g_raw v) (g_items v) (g_noise v) (g_divs v ++ [d])) end.
(* torch.zeros(reference.shape, ...): dereferences p.summed_grad *)
Definition deref_zeros (reference : option sumv) (s : ost) : sres ost noise :=
  match reference with None => SErr s AttributeError | Some _ => SOk s [] end.
Definition shape_of_pair (p : Z * Z) : shape := if (Z.eqb (fst p) 1 && Z.eqb (snd p) 1)%bool then Shape11 else ShapeOther.
(* torch.normal(mean=0, std, size, generator): one fresh position of the generator stream *)
Definition draw_normal (s : ost) (std : T) (size : shape) : sres ost noise :=
  let pos := o_noise_pos s in
  let s := upd_noise_pos s (pos + 1)%Z in
  SOk (emit s (match size with ShapeRef => ENoise std pos | _ => EDiscard std pos end)) [(pos, std, 1%Z)].
Definition noise_div (n : noise) (d : Z) : noise := map (fun '(p, sd, k) => (p, sd, (k * d)%Z)) n.
(* (p.summed_grad + noise).view_as(p) *)
Definition grad_of_sum (o : option sumv) (n : noise) : option gradv :=
  match o with Some v => Some (mkgrad [] (s_items v) n []) | None => None end.
Definition inner_zero_grad (s : ost) (set_to_none : bool) : sres ost unit :=
  SOk (upd_grad s (if set_to_none then None else grad_zero (o_grad s))) tt.
Definition inner_step (s : ost) : sres ost unit := SOk (emit s (EInner (o_grad s))) tt.
(* everything p.grad holds, as contributions (raw ones carry no clipping norm) *)
Definition grad_items (v : gradv) : list item := map (fun p => (fst p, snd p, None)) (g_raw v) ++ g_items v.
(* p.grad.data : AttributeError when p.grad is None *)
Definition grad_data (s : ost) : sres ost gradv :=
  match o_grad s with Some v => SOk s v | None => SErr s AttributeError end.
(* copy.deepcopy(p.grad.data): a new tensor, no `_processed` attribute *)
Definition sum_of_grad (v : gradv) : option sumv := Some (mksum (grad_items v) false).
(* DPOptimizer.grad_samples: one flat per-sample gradient per parameter *)
Definition grad_samples (s : ost) : sres ost (list (list (Z * Z))) :=
  bindr (gs_flat (o_gs s)) s (fun ids => SOk s [ids]).
End OS.

Arguments item : clear implicits.
Arguments sumv : clear implicits.
Arguments noise : clear implicits.
Arguments gradv : clear implicits.
Arguments event : clear implicits.
Arguments ost : clear implicits.
