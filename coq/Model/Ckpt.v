(* Model/Ckpt.v -- data only: what a checkpoint holds (C16).
   accountant.history is a mutable Python list, so the accountant level has an explicit heap of history lists:
   deepcopy allocates a fresh cell, a plain assignment aliases.  The engine level (save_checkpoint / load_checkpoint through
   torch.save / torch.load, i.e. pickle: everything becomes a value) uses value semantics. *)
From Coq Require Import ZArith List String Bool.
From OV Require Import Base.Num Base.Py Model.SchedState.
Import ListNotations.
Local Open Scope string_scope.
Local Open Scope list_scope.
Section Ckpt.
Context {T : Type}.
Definition hist := list (T * T * Z).
Definition heap := list hist.
Definition hget (h : heap) (l : nat) : hist := nth l h [].
Definition hset (h : heap) (l : nat) (v : hist) : heap := firstn l h ++ v :: skipn (S l) h.
Definition halloc (h : heap) (v : hist) : heap * nat := (h ++ [v], List.length h).
Record acc := mkacc { a_loc : nat; a_mech : pystr }.
(* values of an accountant state_dict *)
Inductive sdval := VLoc (l : nat) | VMech (m : pystr).
Definition asd := list (pystr * sdval).
Fixpoint sd_get (d : asd) (k : pystr) : option sdval :=
  match d with [] => None | (k', v) :: r => if pystr_eqb k k' then Some v else sd_get r k end.
Fixpoint sd_set (d : asd) (k : pystr) (v : sdval) : asd :=
  match d with [] => [(k, v)] | (k', v') :: r => if pystr_eqb k k' then (k, v) :: r else (k', v') :: sd_set r k v end.
(* the guards of load_state_dict *)
Definition sd_none_or_empty (sd : option asd) : bool := match sd with None => true | Some d => lnull d end.
Definition sd_lacks (sd : option asd) (k : pystr) : bool := match sd with None => true | Some d => negb (oisSome (sd_get d k)) end.
Definition sd_mech_differs (a : acc) (sd : option asd) : bool :=
  match sd with Some d => match sd_get d "mechanism" with Some (VMech m) => negb (pystr_eqb (a_mech a) m) | _ => true end | None => true end.
Definition sd_hist_loc (sd : option asd) : result nat :=
  match sd with Some d => match sd_get d "history" with Some (VLoc l) => Ok l | _ => Err KeyError end | None => Err TypeError end.

(* pickled accountant state: locations resolved to values *)
Inductive sdvalv := VHistV (h : hist) | VMechV (m : pystr).
Definition asdv := list (pystr * sdvalv).
Definition sd_export (h : heap) (d : asd) : asdv :=
  map (fun kv => (fst kv, match snd kv with VLoc l => VHistV (hget h l) | VMech m => VMechV m end)) d.
Fixpoint sd_import (h : heap) (d : asdv) : heap * asd :=
  match d with
  | [] => (h, [])
  | (k, VHistV v) :: r => let '(h1, l) := halloc h v in let '(h2, r') := sd_import h1 r in (h2, (k, VLoc l) :: r')
  | (k, VMechV m) :: r => let '(h2, r') := sd_import h r in (h2, (k, VMech m) :: r')
  end.

(* engine level *)
Context {P I : Type}.   (* module parameters (+buffers), inner optimizer state_dict *)
Inductive cval := CModule (p : P) | CAcc (d : asdv) | COpt (i : I) | CSched (d : sdict T).
Definition ckpt := list (pystr * cval).
Fixpoint ck_get (c : ckpt) (k : pystr) : option cval :=
  match c with [] => None | (k', v) :: r => if pystr_eqb k k' then Some v else ck_get r k end.
Fixpoint ck_set (c : ckpt) (k : pystr) (v : cval) : ckpt :=
  match c with [] => [(k, v)] | (k', v') :: r => if pystr_eqb k k' then (k, v) :: r else (k', v') :: ck_set r k v end.
(* the system a checkpoint is taken of; the LIVE optimizer.noise_multiplier / max_grad_norm are the f_oval fields of y_ns / y_cs
   (the attribute a scheduler drives; present whether or not a scheduler object exists) *)
Record sys := mksys { y_params : P; y_inner : I; y_hist : hist; y_mech : pystr; y_ns : ss T; y_cs : ss T }.
Definition set_params y v := mksys v (y_inner y) (y_hist y) (y_mech y) (y_ns y) (y_cs y).
Definition set_inner y v := mksys (y_params y) v (y_hist y) (y_mech y) (y_ns y) (y_cs y).
Definition set_hist y v := mksys (y_params y) (y_inner y) v (y_mech y) (y_ns y) (y_cs y).
Definition set_ns y v := mksys (y_params y) (y_inner y) (y_hist y) (y_mech y) v (y_cs y).
Definition set_cs y v := mksys (y_params y) (y_inner y) (y_hist y) (y_mech y) (y_ns y) v.
(* typed reads of checkpoint entries: checkpoint["k"] raises KeyError when absent; checkpoint.pop("k", {}) gives the empty dict *)
Definition ck_module (c : ckpt) (k : pystr) : result P := match ck_get c k with Some (CModule p) => Ok p | Some _ => Err TypeError | None => Err KeyError end.
Definition ck_acc (c : ckpt) (k : pystr) : result asdv := match ck_get c k with Some (CAcc d) => Ok d | Some _ => Err TypeError | None => Err KeyError end.
Definition ck_pop_opt (c : ckpt) (k : pystr) : option I := match ck_get c k with Some (COpt i) => Some i | _ => None end.
Definition ck_pop_sched (c : ckpt) (k : pystr) : option (sdict T) := match ck_get c k with Some (CSched d) => Some d | _ => None end.
End Ckpt.
Arguments hist : clear implicits.
Arguments heap : clear implicits.
Arguments asdv : clear implicits.
Arguments cval : clear implicits.
Arguments ckpt : clear implicits.
Arguments sys : clear implicits.
