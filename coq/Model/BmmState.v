(* Model/BmmState.v -- data for the batch splitter: emitted events and numpy.array_split. *)
From Coq Require Import ZArith List.
From OV Require Import Base.Py.
Import ListNotations.
Inductive bev := BSignal (do_skip : bool) | BYield (batch : list Z).
Record bst := mkbst { b_max : Z; b_out : list bev }.
Definition b_signal (s : bst) (b : bool) : sres bst unit := SOk (mkbst (b_max s) (b_out s ++ [BSignal b])) tt.
Definition b_yield (s : bst) (l : list Z) : sres bst unit := SOk (mkbst (b_max s) (b_out s ++ [BYield l])) tt.
(* numpy.array_split(l, k): k chunks, the first (n mod k) of size n/k + 1, the others of size n/k *)
Fixpoint take_chunks (l : list Z) (sizes : list nat) : list (list Z) :=
  match sizes with [] => [] | n :: r => firstn n l :: take_chunks (skipn n l) r end.
Definition chunk_sizes (n k : nat) : list nat :=
  map (fun i => if Nat.ltb i (n mod k) then S (n / k) else (n / k)) (seq 0 k).
Definition array_split (l : list Z) (k : Z) : list (list Z) :=
  take_chunks l (chunk_sizes (length l) (Z.to_nat k)).
