(* Model/OptimRef.v -- hand-written reference semantics of the DP optimizer step (no proofs).
   Proofs/OptimEq.v proves that the transitions GENERATED from optimizer.py & co. (Gen/Optim.v)
   are equal to these; the property theorems are then proved about this stable text. *)
From Coq Require Import ZArith List Bool String.
From OV Require Import Base.Num Base.Py Model.OptimState.
Import ListNotations.

Section Ref.
Context {T : Type} {N : Num T}.

Definition sum_add (o : option (sumv T)) (its : list (item T)) : sumv T :=
  match o with Some v => sum_iadd v its | None => mksum its false end.

(* clip_and_accumulate (flat, per-layer, adaptive: same bookkeeping) *)
Definition ref_clip (s : ost T) : sres (ost T) unit :=
  match gs_check (o_gs s) with
  | Err e => SErr s e
  | Ok _ =>
    match gs_flat (o_gs s) with
    | Err e => SErr s e
    | Ok ids => SOk (upd_gs (upd_summed s (Some (sum_add (o_summed s) (clip_items (o_mgn s) ids)))) (gs_mark (o_gs s))) tt
    end
  end.

Definition ref_check_skip (s : ost T) : ost T * bool :=
  match o_skipq s with [] => (s, false) | b :: q => (upd_skipq s q, b) end.

Definition draw (s : ost T) (std : T) (sh : shape) : ost T * noise T :=
  let pos := o_noise_pos s in
  (emit (upd_noise_pos s (pos + 1)%Z) (match sh with ShapeRef => ENoise std pos | _ => EDiscard std pos end),
   [(pos, std, 1%Z)]).

(* _generate_noise(std, reference=p.summed_grad, generator, secure_mode) *)
Definition ref_gen_noise (s : ost T) (std : T) (reference : option (sumv T)) (secure : bool) : sres (ost T) (noise T) :=
  match reference with
  | None => SErr s AttributeError
  | Some _ =>
    if neqb std (nofZ 0) then SOk s []
    else if secure then
      let '(s, _) := draw s std Shape11 in
      let '(s, a) := draw s std ShapeRef in
      let '(s, b) := draw s std ShapeRef in
      let '(s, c) := draw s std ShapeRef in
      let '(s, d) := draw s std ShapeRef in
      SOk s (noise_div ((((([] ++ a) ++ b) ++ c) ++ d)) 2)
    else let '(s, a) := draw s std ShapeRef in SOk s a
  end.

Definition ref_add_noise (s : ost T) : sres (ost T) unit :=
  match sum_check (o_summed s) with
  | Err e => SErr s e
  | Ok _ =>
    sbind (ref_gen_noise s (nmul (o_nm s) (o_mgn s)) (o_summed s) (o_secure s)) (fun s' nz =>
      SOk (upd_summed (upd_grad s' (grad_of_sum (o_summed s') nz)) (sum_mark (o_summed s'))) tt)
  end.

Definition ref_accit (s : ost T) : result Z :=
  match o_variant s with Ghost => Ok 1%Z | _ => gs_accum_iters (o_gs s) end.

Definition ref_scale (s : ost T) : sres (ost T) unit :=
  if o_mean s then
    match ref_accit s with
    | Err e => SErr s e
    | Ok k => SOk (upd_grad s (grad_div (o_grad s) (nmul (o_ebs s) (nofZ k)))) tt
    end
  else SOk s tt.

(* run-length append of the RDP / PRV accountants; the GDP accountant keeps one run or raises -- and a refusal leaves the ledger as it was *)
Definition ref_acc (s : ost T) (sigma q : T) : sres (ost T) unit :=
  match o_acc s with
  | AccGDP =>
    match rev (o_hist s) with
    | [] => SOk (upd_hist s [(sigma, q, 1%Z)]) tt
    | (s0, q0, n) :: r =>
      if negb (neqb s0 sigma) || negb (neqb q0 q) then SErr s ValueError
      else SOk (upd_hist s [(s0, q0, (n + 1)%Z)]) tt
    end
  | _ =>
    match rev (o_hist s) with
    | [] => SOk (upd_hist s (o_hist s ++ [(sigma, q, 1%Z)])) tt
    | (s0, q0, n) :: r =>
      if neqb s0 sigma && neqb q0 q
      then SOk (upd_hist (upd_hist s (rev r)) (rev r ++ [(s0, q0, (n + 1)%Z)])) tt
      else SOk (upd_hist (upd_hist (upd_hist s (rev r)) (rev r ++ [(s0, q0, n)])) ((rev r ++ [(s0, q0, n)]) ++ [(sigma, q, 1%Z)])) tt
    end
  end.

Definition ref_hook (s : ost T) : sres (ost T) unit :=
  match ref_accit s with
  | Err e => SErr s e
  | Ok k =>
    let sigma := o_nm s in
    let q := nmul (o_rate s) (nofZ k) in
    sbind (ref_acc s sigma q) (fun s _ => SOk (emit s (EAccount sigma q)) tt)
  end.

(* what follows the clipping / accumulation stage of pre_step *)
Definition ref_after_accumulate (s : ost T) : sres (ost T) bool :=
  let '(s, skip) := ref_check_skip s in
  if skip then SOk (upd_last_skipped s true) false
  else
    sbind (ref_add_noise s) (fun s _ =>
    sbind (ref_scale s) (fun s _ =>
    sbind (if o_has_hook s then ref_hook s else SOk s tt) (fun s _ =>
    SOk (upd_last_skipped s false) true))).

(* DPOptimizerFastGradientClipping.accumulate (after the repair: p.grad is consumed) *)
Definition ref_fgc_accumulate (s : ost T) : sres (ost T) unit :=
  match o_grad s with
  | None => SErr s ValueError
  | Some g =>
    SOk (upd_grad (upd_summed s (match o_summed s with
                                 | Some v => Some (sum_iadd v (grad_items g))
                                 | None => Some (mksum (grad_items g) false) end)) None) tt
  end.

Definition ref_pre_step (s : ost T) : sres (ost T) bool :=
  match o_variant s with
  | Ghost => sbind (ref_fgc_accumulate s) (fun s _ => ref_after_accumulate s)
  | _ =>
    match gs_flat (o_gs s) with
    | Err e => SErr s e
    | Ok _ => sbind (ref_clip s) (fun s _ => ref_after_accumulate s)
    end
  end.

Definition ref_step (s : ost T) : sres (ost T) unit :=
  sbind (ref_pre_step s) (fun s go => if go then SOk (emit s (EInner (o_grad s))) tt else SOk s tt).

Definition ref_zero (s : ost T) : sres (ost T) unit :=
  let s := upd_gs s GNone in
  let s := if o_last_skipped s then s else upd_summed s None in
  SOk (upd_grad s (grad_zero (o_grad s))) tt.
End Ref.
