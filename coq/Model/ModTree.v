(* Model/ModTree.v -- data only: torch.nn module trees as seen by the validators (C15).
   n_trainable : the module OWNS a parameter with requires_grad;  n_has_params : it owns a parameter at all (affine norms, Linear, ...);
   n_track : track_running_stats (norm layers);  n_training : module.training. *)
From Coq Require Import List Bool.
Import ListNotations.
Inductive kind := KSeq | KLinear | KConv | KEmbedding | KGroupNorm | KLayerNorm | KBatchNorm | KInstanceNorm | KLSTM | KMHA | KDPLSTM | KDPMHA.
Inductive tree := Node (k : kind) (trainable has_params track training : bool) (ch : list tree).
Definition n_kind (t : tree) := match t with Node k _ _ _ _ _ => k end.
Definition n_trainable (t : tree) := match t with Node _ b _ _ _ _ => b end.
Definition n_has_params (t : tree) := match t with Node _ _ b _ _ _ => b end.
Definition n_track (t : tree) := match t with Node _ _ _ b _ _ => b end.
Definition n_training (t : tree) := match t with Node _ _ _ _ b _ => b end.
Definition n_children (t : tree) := match t with Node _ _ _ _ _ ch => ch end.
(* SPECIFICATION (validated against torch by the harness' leaf probes): a layer that, in training mode, makes a row's output depend on
   the other rows of the batch (BatchNorm: batch statistics) or keeps data-dependent running statistics (InstanceNorm with tracking) *)
Definition node_couples (t : tree) : bool :=
  n_training t && match n_kind t with KBatchNorm => true | KInstanceNorm => n_track t | _ => false end.
Fixpoint tree_couples (t : tree) : bool :=
  match t with Node k tr hp tk tg ch =>
    node_couples t || (fix go (l : list tree) : bool := match l with [] => false | c :: r => tree_couples c || go r end) ch end.
(* every coupling layer owns a trainable parameter (the hypothesis under which the trainable-modules walk sees it) *)
Fixpoint couplers_trainable (t : tree) : bool :=
  match t with Node k tr hp tk tg ch =>
    (negb (node_couples t) || tr) && (fix go (l : list tree) : bool := match l with [] => true | c :: r => couplers_trainable c && go r end) ch end.
Section TreeInd.
  Variable P : tree -> Prop.
  Hypothesis H : forall k tr hp tk tg ch, Forall P ch -> P (Node k tr hp tk tg ch).
  Fixpoint tree_ind' (t : tree) : P t :=
    match t with Node k tr hp tk tg ch =>
      H k tr hp tk tg ch ((fix go (l : list tree) : Forall P l := match l with [] => Forall_nil P | c :: r => Forall_cons c (tree_ind' c) (go r) end) ch) end.
End TreeInd.
