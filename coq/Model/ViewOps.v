(* Model/ViewOps.v -- index semantics of contiguous / transpose(0,1) / view on 3-D tensors (row-major), as relations between an index of
   the result and the index of the source element it holds (C14).  No division: a view relates indices with equal flat offsets. *)
From Coq Require Import List Arith.
Import ListNotations.
Definition idx := (nat * nat * nat)%type.
Definition shape := (nat * nat * nat)%type.
Inductive vop := VContig | VTranspose01 | VView (s0 s1 s2 : nat).
Definition flat (s : shape) (i : idx) : nat := let '(_, s1, s2) := s in let '(a, b, c) := i in (a * s1 + b) * s2 + c.
Definition inr (s : shape) (i : idx) : Prop := let '(s0, s1, s2) := s in let '(a, b, c) := i in a < s0 /\ b < s1 /\ c < s2.
Definition vstate := (shape * (idx -> idx -> Prop))%type.
Definition vstep (o : vop) (st : vstate) : vstate :=
  let '(t, R) := st in
  match o with
  | VContig => st
  | VTranspose01 => let '(a, b, c) := t in ((b, a, c), fun x src => let '(i, j, k) := x in R (j, i, k) src)
  | VView s0 s1 s2 => ((s0, s1, s2), fun x src => exists y, inr t y /\ flat t y = flat (s0, s1, s2) x /\ R y src)
  end.
Fixpoint vrun (ops : list vop) (st : vstate) : vstate := match ops with [] => st | o :: r => vrun r (vstep o st) end.
Definition vinit (s : shape) : vstate := (s, fun x src => x = src).
