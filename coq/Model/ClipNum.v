(* Model/ClipNum.v -- numeric reading of the ledger: vectors, norms, the clipped sum, the released gradient.
   Written once over the Num class (instances: R for theorems, binary64 for execution against torch). *)
From Coq Require Import ZArith List Bool.
From OV Require Import Base.Num Base.Py Model.OptimState Gen.Optim.
Import ListNotations.

Section ClipNum.
Context {T : Type} {N : Num T}.
Definition vec := list T.
Definition vscale (c : T) (v : vec) : vec := map (nmul c) v.
Fixpoint vadd (a b : vec) : vec :=
  match a, b with x :: a', y :: b' => nadd x y :: vadd a' b' | [], _ => b | _, [] => a end.
Definition vsum (vs : list vec) : vec := fold_left vadd vs [].
(* a per-sample gradient: one vector per optimised parameter tensor *)
Definition psg := list vec.
Definition pscale (c : T) (g : psg) : psg := map (vscale c) g.
Fixpoint padd (a b : psg) : psg :=
  match a, b with x :: a', y :: b' => vadd x y :: padd a' b' | [], _ => b | _, [] => a end.
Definition psum (gs : list psg) : psg := fold_left padd gs [].
(* per-parameter norms stacked, then their norm (DPOptimizer.clip_and_accumulate) *)
Definition joint_norm (g : psg) : T := nnorm2 (map nnorm2 g).
(* flat clipping: every sample scaled by the generated clip factor w.r.t. its joint norm *)
Definition flat_clipped (C : T) (g : psg) : psg := pscale (clip_factor C (joint_norm g)) g.
(* per-layer clipping: every tensor scaled w.r.t. its own norm and bound *)
Definition perlayer_clipped (Cs : list T) (g : psg) : psg :=
  map (fun p => vscale (pl_clip_factor (fst p) (nnorm2 (snd p))) (snd p)) (combine Cs g).

(* numeric value of a ledger release, given the per-sample gradients g (by sample id) and the
   standard draws z (by stream position, one vector per parameter tensor is abstracted to one psg) *)
Definition eval_item (g : Z -> psg) (it : item T) : psg :=
  match snd it with
  | Some C => flat_clipped C (g (snd (fst it)))
  | None => g (snd (fst it))
  end.
Definition eval_noise (z : Z -> psg) (n : noise T) : psg :=
  psum (map (fun '(pos, std, d) => pscale (ndiv std (nofZ d)) (z pos)) n).
Definition pdiv (d : T) (g : psg) : psg := map (map (fun x => ndiv x d)) g.
Definition eval_grad (g : Z -> psg) (z : Z -> psg) (r : gradv T) : psg :=
  fold_left (fun acc d => pdiv d acc) (g_divs r)
            (padd (psum (map (eval_item g) (grad_items r))) (eval_noise z (g_noise r))).
End ClipNum.
