(* Model/Layers.v -- forward maps of the supported layers as functions of their own parameters, and the per-sample gradient formulas of
   the grad samplers (opacus/grad_sample), over an arbitrary commutative ring K.  Tensors are index functions with explicit extents;
   one SAMPLE is considered at a time: `t` ranges over all positions of that sample (the "..." of the einsum strings, flattened),
   i / j over input / output features.  Definitions only. *)
From Coq Require Import List Arith.
Import ListNotations.
Section Layers.
Variable K : Type.
Variables (k0 k1 : K) (kadd kmul ksub : K -> K -> K) (kopp : K -> K).
Local Notation "a + b" := (kadd a b).
Local Notation "a * b" := (kmul a b).
(* finite sums over 0 .. n-1 *)
Fixpoint sumn (n : nat) (f : nat -> K) : K := match n with O => k0 | S m => sumn m f + f m end.

(* ---- nn.Linear / RNNLinear: y[t][j] = sum_i W[j][i] x[t][i] + b[j] *)
Definition lin_fwd (din : nat) (W : nat -> nat -> K) (b : nat -> K) (x : nat -> nat -> K) (t j : nat) : K := sumn din (fun i => W j i * x t i) + b j.
(* einsum "n...i,n...j->nij" (backprops, activations)  and  "n...k->nk" (backprops), for one sample n *)
Definition lin_gs_w (T : nat) (g x : nat -> nat -> K) (j i : nat) : K := sumn T (fun t => g t j * x t i).
Definition lin_gs_b (T : nat) (g : nat -> nat -> K) (j : nat) : K := sumn T (fun t => g t j).
(* <g, y> over positions and output features *)
Definition pair2 (T dout : nat) (g y : nat -> nat -> K) : K := sumn T (fun t => sumn dout (fun j => g t j * y t j)).

(* ---- nn.Embedding: y[t][d] = W[idx t][d]; the padding row (if any) is a constant, not a parameter *)
Definition emb_fwd (pad : option nat) (c : nat -> K) (W : nat -> nat -> K) (idx : nat -> nat) (t d : nat) : K :=
  match pad with Some p => if Nat.eqb (idx t) p then c d else W (idx t) d | None => W (idx t) d end.
(* scatter_add of the backprops into the rows named by the indices, padding row zeroed *)
Definition emb_gs (pad : option nat) (T : nat) (g : nat -> nat -> K) (idx : nat -> nat) (v d : nat) : K :=
  match pad with
  | Some p => if Nat.eqb v p then k0 else sumn T (fun t => if Nat.eqb (idx t) v then g t d else k0)
  | None => sumn T (fun t => if Nat.eqb (idx t) v then g t d else k0)
  end.

(* ---- nn.EmbeddingBag, modes sum / mean, ONE bag of T entries: y[d] = s * sum_t W[idx t][d] over the entries that do not hold the padding
   index (s = 1 for sum, 1 / number of non-padding entries for mean: a constant of the bag, not of the parameters) *)
Definition bag_fwd (pad : option nat) (s : K) (T : nat) (W : nat -> nat -> K) (idx : nat -> nat) (d : nat) : K :=
  s * sumn T (fun t => emb_fwd pad (fun _ => k0) W idx t d).
(* index_add_ of s * backprops into the rows named by the non-padding entries *)
Definition bag_gs (pad : option nat) (s : K) (T : nat) (gb : nat -> K) (idx : nat -> nat) (v d : nat) : K :=
  emb_gs pad T (fun _ d => s * gb d) idx v d.

(* ---- the affine part of GroupNorm / LayerNorm / InstanceNorm: y[p][c] = xhat[p][c] * w[c] + b[c]  (xhat does not depend on w, b) *)
Definition norm_fwd (w b : nat -> K) (xhat : nat -> nat -> K) (p c : nat) : K := xhat p c * w c + b c.
Definition norm_gs_w (P : nat) (g xhat : nat -> nat -> K) (c : nat) : K := sumn P (fun p => xhat p c * g p c).
Definition norm_gs_b (P : nat) (g : nat -> nat -> K) (c : nat) : K := sumn P (fun p => g p c).

(* ---- nn.Conv1d / Conv2d / Conv3d as ONE gather layer: y[p][o] = sum_c sum_k W[o][c][k] * xpad[chan o c][src p k] + b[o]
   p : output position (flattened), k : kernel offset (flattened), c : input channel within the group of o,
   chan o c : absolute input channel ((o / (O/G)) * (C/G) + c), src p k : location in the padded input read by tap k at position p
   (1-D: p*stride + k*dilation) -- both are arbitrary functions here, so stride, padding (incl. "same"), dilation, groups and the number
   of spatial dimensions are all covered.  unfold + einsum "noq,npq->nop" + the group diagonal compute conv_gs_w. *)
Definition conv_fwd (C Kk : nat) (chan src : nat -> nat -> nat) (W : nat -> nat -> nat -> K) (b : nat -> K) (xp : nat -> nat -> K) (p o : nat) : K :=
  sumn C (fun c => sumn Kk (fun k => W o c k * xp (chan o c) (src p k))) + b o.
Definition conv_gs_w (P : nat) (chan src : nat -> nat -> nat) (g : nat -> nat -> K) (xp : nat -> nat -> K) (o c k : nat) : K :=
  sumn P (fun p => g p o * xp (chan o c) (src p k)).
Definition conv_gs_b (P : nat) (g : nat -> nat -> K) (o : nat) : K := sumn P (fun p => g p o).

(* ---- SequenceBias (bias_k / bias_v of multi-head attention): one extra position holding the bias: y[T][d] = b[d] *)
Definition seqbias_gs (T : nat) (g : nat -> nat -> K) (d : nat) : K := g T d.
End Layers.
