(* Model/Sampler.v -- Poisson sampling: mask -> indices, per-epoch batches, strided shards (no proofs). *)
From Coq Require Import ZArith List Bool.
From OV Require Import Base.Num Base.Py.
Import ListNotations.
Section S.
Context {T : Type} {N : Num T}.
(* mask.nonzero().reshape(-1).tolist(): positions of the True entries, from position `base` on *)
Fixpoint mask_indices_from (base : Z) (m : list bool) : list Z :=
  match m with [] => [] | b :: r => (if b then [base] else []) ++ mask_indices_from (base + 1) r end.
Definition mask_indices (m : list bool) : list Z := mask_indices_from 0 m.
(* torch.rand(num_samples) < sample_rate : u b i is the i-th uniform of the b-th call *)
Definition sample_mask (q : T) (us : list T) : list bool := map (fun u => nltb u q) us.
(* UniformWithReplacementSampler.__iter__: `steps` batches, the b-th from the b-th fresh call of torch.rand *)
Definition sampler_epoch (steps : Z) (q : T) (u : Z -> list T) : list (list Z) :=
  map (fun b => mask_indices (sample_mask q (u b))) (zrange 0 steps).
(* DistributedUniformWithReplacementSampler (after the repair: empty selections are yielded too) *)
Fixpoint stride_from {A} (k : nat) (W : nat) (l : list A) : list A :=
  match l with [] => [] | x :: r => match k with O => x :: stride_from (W - 1) W r | S k' => stride_from k' W r end end.
(* indices[rank : total : W] *)
Definition shard {A} (rank W : nat) (l : list A) : list A := stride_from rank W l.
Definition dist_sampler_epoch {A} (steps : Z) (q : T) (rank W : nat) (perm : list A) (u : Z -> list T) (d : A) : list (list A) :=
  let mine := shard rank W perm in
  map (fun b => map (fun i => nth (Z.to_nat i) mine d) (mask_indices (sample_mask q (u b)))) (zrange 0 steps).
End S.
