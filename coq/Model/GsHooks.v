(* Model/GsHooks.v -- the per-parameter bookkeeping of the GradSampleModule hooks (C01): forward counter, within-batch accumulation with
   prefix-add (recurrent layers see shrinking batches), promotion to grad_sample (stacked across batches).  One scalar per batch row
   stands for a row of the per-sample gradient tensor (every operation is row-wise).  Definitions only; tied to the sources by the pins of
   Gen/GradSample.v (create_or_accumulate_grad_sample, promote_current_grad_sample, the counter arithmetic of the two hooks). *)
From Coq Require Import List Arith.
Import ListNotations.
Section GsHooks.
Variable K : Type.
Variable k0 : K.
Variable kadd : K -> K -> K.
Record pst := mkp { fc : nat; cur : option (list K); gsl : list (list K) }.
(* torch.zeros(max_batch_len, ...)[: n] = grad_sample *)
Fixpoint pad (mb : nat) (g : list K) : list K :=
  match mb with O => [] | S m => match g with [] => k0 :: pad m [] | x :: r => x :: pad m r end end.
(* _current_grad_sample[: n] += grad_sample *)
Fixpoint prefix_add (c g : list K) : list K :=
  match c, g with x :: c', y :: g' => kadd x y :: prefix_add c' g' | _, _ => c end.
(* capture_activations_hook: p._forward_counter += 1 *)
Definition fwd (s : pst) : pst := mkp (S (fc s)) (cur s) (gsl s).
(* capture_backprops_hook on one use of the layer: create_or_accumulate; counter -= 1; promote (and delete the accumulator) at zero *)
Definition bwd (mb : nat) (s : pst) (g : list K) : pst :=
  let c := match cur s with None => pad mb g | Some c => prefix_add c g end in
  let n := pred (fc s) in
  if Nat.eqb n 0 then mkp n None (gsl s ++ [c]) else mkp n (Some c) (gsl s).
End GsHooks.
