(* Model/Batch.v -- the structure of a collated batch and DPDataLoader's empty batch (opacus/data_loader.py : empty_like_batch).
   A batch is a tree: tensors (batch extent, trailing shape, dtype tag), mappings, sequences (tagged list / tuple / named tuple),
   a sequence of per-sample strings, or any other leaf.  Definitions only. *)
From Coq Require Import List String Arith.
Import ListNotations.
Inductive btree :=
| BTensor (n : nat) (trail : list nat) (dtype : nat)
| BMap (kv : list (string * btree))
| BSeq (tag : nat) (l : list btree)       (* tag: 0 list, 1 tuple, 2 named tuple *)
| BStrs (tag : nat) (n : nat)             (* a list / tuple of n strings (one per sample) *)
| BLeaf (tag : nat).
(* empty_like_batch, branch by branch *)
Fixpoint empty_like (b : btree) : btree :=
  match b with
  | BTensor _ trail dt => BTensor 0 trail dt                                     (* batch[:0] *)
  | BMap kv => BMap (map (fun p => (fst p, empty_like (snd p))) kv)
  | BSeq tag l => BSeq tag (map empty_like l)
  | BStrs tag _ => BStrs tag 0                                                   (* type(batch)() *)
  | BLeaf t => BLeaf t
  end.
(* the batch with every batch extent forgotten: what "same structure, shapes and dtypes" compares *)
Fixpoint skeleton (b : btree) : btree :=
  match b with
  | BTensor _ trail dt => BTensor 0 trail dt
  | BMap kv => BMap (map (fun p => (fst p, skeleton (snd p))) kv)
  | BSeq tag l => BSeq tag (map skeleton l)
  | BStrs tag _ => BStrs tag 0
  | BLeaf t => BLeaf t
  end.
(* every batch extent of the tree *)
Fixpoint extents (b : btree) : list nat :=
  match b with
  | BTensor n _ _ => [n]
  | BMap kv => flat_map (fun p => extents (snd p)) kv
  | BSeq _ l => flat_map extents l
  | BStrs _ n => [n]
  | BLeaf _ => []
  end.
(* collate of the loader: the wrapped collate function for a non-empty list of samples, the prepared empty batch otherwise *)
Definition dp_collate (collate_fn : nat -> btree) (template : btree) (nsamples : nat) : btree :=
  if Nat.ltb 0 nsamples then collate_fn nsamples else empty_like template.
