(* Model/WrapLedger.v -- data + transitions only: which Opacus attributes sit on which user object, and the hook handles (C19). *)
From Coq Require Import ZArith List String Bool.
From OV Require Import Base.Py Gen.Wrap.
Import ListNotations.
Local Open Scope string_scope.
Local Open Scope list_scope.
Inductive okind := OParam | OModule.
Definition okind_eqb (a b : okind) : bool := match a, b with OParam, OParam | OModule, OModule => true | _, _ => false end.
Record fact := mkfact { f_kind : okind; f_obj : nat; f_attr : pystr }.
Definition fact_eqb (a b : fact) : bool := okind_eqb (f_kind a) (f_kind b) && Nat.eqb (f_obj a) (f_obj b) && pystr_eqb (f_attr a) (f_attr b).
Definition mem (a : pystr) (l : list pystr) : bool := existsb (pystr_eqb a) l.
(* the attribute is one Opacus writes (Gen/Wrap.v: every assignment found in the grad_sample package) *)
Definition written (f : fact) : bool := match f_kind f with OParam => mem (f_attr f) param_attrs_written | OModule => mem (f_attr f) module_attrs_written end.
(* the attribute is one to_standard_module deletes (from every parameter / every trainable module) *)
Definition removed (f : fact) : bool := match f_kind f with OParam => mem (f_attr f) param_attrs_removed | OModule => mem (f_attr f) module_attrs_removed end.
Record wstate := mkw { w_ledger : list fact; w_handles : list (nat * pystr) }.
Inductive wop := Touch (f : fact) | Drop (f : fact).
Definition wstep (s : wstate) (o : wop) : wstate :=
  match o with
  | Touch f => mkw (f :: w_ledger s) (w_handles s)
  | Drop f => mkw (filter (fun g => negb (fact_eqb g f)) (w_ledger s)) (w_handles s)
  end.
Definition wrun (s : wstate) (ops : list wop) : wstate := fold_left wstep ops s.
Definition op_fact (o : wop) : fact := match o with Touch f | Drop f => f end.
(* GradSampleModule.__init__ / add_hooks: one handle per hook kind per hooked sub-module, all recorded *)
Definition wrap (hooked : list nat) (s : wstate) : wstate :=
  mkw (w_ledger s) (flat_map (fun m => map (fun k => (m, k)) hook_kinds) hooked ++ w_handles s).
(* to_standard_module *)
Definition unwrap (s : wstate) : wstate := mkw (filter (fun f => negb (removed f)) (w_ledger s)) [].
(* the caller's criterion, as a list of (attribute, value): ghost-mode make_private overwrites the attributes listed in criterion_attrs_written with values of its own *)
Fixpoint aset {V} (k : pystr) (v : V) (c : list (pystr * V)) : list (pystr * V) :=
  match c with [] => [(k, v)] | (k', v') :: t => if String.eqb k k' then (k, v) :: t else (k', v') :: aset k v t end.
Definition crit_after_wrap {V} (own : pystr -> V) (c : list (pystr * V)) : list (pystr * V) :=
  fold_left (fun acc k => aset k (own k) acc) criterion_attrs_written c.
