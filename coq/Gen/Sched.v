(* TRANSLATION FAILED (py/translate/gen_sched.py):
pinned function _NoiseScheduler.state_dict changed:
--- expected
state = {key: value for key, value in self.__dict__.items() if key != 'optimizer'}
state['noise_multiplier'] = self.optimizer.noise_multiplier
return state
--- found
return {key: value for key, value in self.__dict__.items() if key != 'optimizer'}
*)
Translation_failed.
