(* TRANSLATION FAILED (py/translate/gen_ckpt.py):
load_checkpoint: unexpected body: pass
*)
Translation_failed.
