(* binary64 instance: IEEE correctly rounded + - * / sqrt, comparisons. *)
From Coq Require Import ZArith Floats.PrimFloat Uint63 Floats.FloatOps.
From OV Require Import Base.Num.
Definition fz (z : Z) : float :=
  if (z <? 0)%Z then PrimFloat.opp (of_uint63 (Uint63.of_Z (- z))) else of_uint63 (Uint63.of_Z z).
Definition fpow10 (e : Z) : float := fz (10 ^ e).
Definition fdec (m e : Z) : float :=
  if (e <? 0)%Z then PrimFloat.div (fz m) (fpow10 (- e)) else PrimFloat.mul (fz m) (fpow10 e).
#[export] Instance NumF : Num float := {|
  n0 := fz 0; n1 := fz 1; nadd := PrimFloat.add; nsub := PrimFloat.sub; nmul := PrimFloat.mul;
  ndiv := PrimFloat.div; nneg := PrimFloat.opp; nsqrt := PrimFloat.sqrt;
  nleb := PrimFloat.leb; nltb := PrimFloat.ltb; neqb := PrimFloat.eqb;
  nofZ := fz; nofdec := fdec |}.
(* int(x) = n for a Python float x, decided without float->Z conversion (n >= 0) *)
Definition trunc_is (x : float) (n : Z) : bool :=
  andb (PrimFloat.leb (fz n) x) (PrimFloat.ltb x (fz (n + 1))).
(* |a-b| <= tol * max(1,|b|) *)
Definition fclose (tol a b : float) : bool :=
  let d := PrimFloat.abs (PrimFloat.sub a b) in
  let m := if PrimFloat.ltb (fz 1) (PrimFloat.abs b) then PrimFloat.abs b else fz 1 in
  orb (PrimFloat.leb d (PrimFloat.mul tol m)) (andb (PrimFloat.eqb a b) true).

(* int(x) for a finite binary64 x: mantissa / exponent decomposition, exact *)
Definition ftrunc (x : float) : Z :=
  let ax := PrimFloat.abs x in
  if PrimFloat.ltb ax (fz 1) then 0%Z else
  let '(m, e) := PrimFloat.frshiftexp ax in
  let mant := Uint63.to_Z (PrimFloat.normfr_mantissa m) in   (* m * 2^53 *)
  let ex := (Uint63.to_Z e - FloatOps.shift - 53)%Z in
  let v := if (0 <=? ex)%Z then Z.shiftl mant ex else Z.shiftr mant (- ex) in
  if PrimFloat.ltb x (fz 0) then (- v)%Z else v.
#[export] Instance NumIF : NumI float := {| ntrunc := ftrunc |}.
