From Coq Require Import ZArith Reals Lra.
From OV Require Import Base.Num.
Local Open Scope R_scope.
Definition Rleb (a b : R) : bool := if Rle_dec a b then true else false.
Definition Rltb (a b : R) : bool := if Rlt_dec a b then true else false.
Definition Reqb (a b : R) : bool := if Req_EM_T a b then true else false.
Definition Rdec (m e : Z) : R := IZR m * (if (e <? 0)%Z then / (IZR (10 ^ (- e))) else IZR (10 ^ e)).
#[export] Instance NumR : Num R := {|
  n0 := 0; n1 := 1; nadd := Rplus; nsub := Rminus; nmul := Rmult; ndiv := Rdiv;
  nneg := Ropp; nsqrt := sqrt; nleb := Rleb; nltb := Rltb; neqb := Reqb;
  nofZ := IZR; nofdec := Rdec |}.
Lemma Rleb_true a b : Rleb a b = true <-> a <= b.
Proof. unfold Rleb; destruct (Rle_dec a b); split; intros; try easy; lra. Qed.
Lemma Rltb_true a b : Rltb a b = true <-> a < b.
Proof. unfold Rltb; destruct (Rlt_dec a b); split; intros; try easy; lra. Qed.
Lemma Reqb_true a b : Reqb a b = true <-> a = b.
Proof. unfold Reqb; destruct (Req_EM_T a b); split; intros; try easy. Qed.
Lemma Rleb_false a b : Rleb a b = false <-> b < a.
Proof. unfold Rleb; destruct (Rle_dec a b); split; intros; try easy; lra. Qed.
Lemma Rltb_false a b : Rltb a b = false <-> b <= a.
Proof. unfold Rltb; destruct (Rlt_dec a b); split; intros; try easy; lra. Qed.
Definition Rtrunc (x : R) : Z := if Rle_dec 0 x then Int_part x else (- Int_part (- x))%Z.
#[export] Instance NumIR : NumI R := {| ntrunc := Rtrunc |}.
#[export] Instance NumXR : NumX R := {| nexp := exp; nln := ln; nbinom := fun a i => C (Z.to_nat a) (Z.to_nat i) |}.
