(* Base/Py.v -- run-time support for the code emitted by py/translate (Tie A):
   the result monad standing for Python exceptions, list helpers with Python's semantics. *)
From Coq Require Import ZArith List String Bool.
Import ListNotations.

Inductive err := ValueError | NotImplementedError | IndexError | AssertionError | TypeError
  | RuntimeError | KeyError | OutOfFuel | AttributeError | UnsupportedModuleError.
Scheme Equality for err.

Inductive result (A : Type) := Ok (a : A) | Err (e : err).
Arguments Ok {A} a.
Arguments Err {A} e.

Definition bind {A B} (r : result A) (f : A -> result B) : result B :=
  match r with Ok a => f a | Err e => Err e end.

(* state + exception monad: an exception keeps the state reached when it was raised
   (Python mutations made before a raise persist) *)
Inductive sres (S A : Type) := SOk (s : S) (a : A) | SErr (s : S) (e : err).
Arguments SOk {S A} s a.
Arguments SErr {S A} s e.
Definition sbind {S A B} (r : sres S A) (f : S -> A -> sres S B) : sres S B :=
  match r with SOk s a => f s a | SErr s e => SErr s e end.
(* a pure computation that may raise, run in state s *)
Definition bindr {S A B} (r : result A) (s : S) (f : A -> sres S B) : sres S B :=
  match r with Ok a => f a | Err e => SErr s e end.
Definition sstate {S A} (r : sres S A) : S := match r with SOk s _ => s | SErr s _ => s end.

Definition pystr := string.
Definition pystr_eqb := String.eqb.

Fixpoint foldM {A X} (f : A -> X -> result A) (l : list X) (a : A) : result A :=
  match l with [] => Ok a | x :: l' => bind (f a x) (foldM f l') end.

Fixpoint sfoldM {S A X} (f : S -> A -> X -> sres S A) (l : list X) (s : S) (a : A) : sres S A :=
  match l with [] => SOk s a | x :: l' => sbind (f s a x) (fun s' a' => sfoldM f l' s' a') end.

(* while c(st): st := body(st)   with explicit fuel; exhaustion is an error value *)
Fixpoint whileM {A} (fuel : nat) (c : A -> bool) (body : A -> result A) (a : A) : result A :=
  match fuel with
  | O => Err OutOfFuel
  | S f => if c a then bind (body a) (whileM f c body) else Ok a
  end.

Definition zrange (lo hi : Z) : list Z := map (fun k => (lo + Z.of_nat k)%Z) (seq 0 (Z.to_nat (hi - lo))).
Definition lhd {A} (l : list A) : option A := match l with [] => None | x :: _ => Some x end.
Definition llast {A} (l : list A) : option A := match rev l with [] => None | x :: _ => Some x end.
Definition lnull {A} (l : list A) : bool := match l with [] => true | _ => false end.
Definition oisSome {A} (o : option A) : bool := match o with Some _ => true | None => false end.
(* list.pop(): last element and the remaining list; IndexError on [] *)
Definition lpop {A} (l : list A) : result (list A * A) :=
  match rev l with [] => Err IndexError | x :: r => Ok (rev r, x) end.
(* list.pop(0) *)
Definition lpop0 {A} (l : list A) : result (list A * A) :=
  match l with [] => Err IndexError | x :: r => Ok (r, x) end.

Lemma lpop_app {A} (l : list A) x : lpop (l ++ [x]) = Ok (l, x).
Proof. unfold lpop. rewrite rev_app_distr. simpl. now rewrite rev_involutive. Qed.
Lemma lpop_nil {A} : @lpop A [] = Err IndexError.
Proof. reflexivity. Qed.
Lemma llast_app {A} (l : list A) x : llast (l ++ [x]) = Some x.
Proof. unfold llast. now rewrite rev_app_distr. Qed.
Definition lget0 {A} (l : list A) : result A := match l with [] => Err IndexError | x :: _ => Ok x end.
Definition lgetlast {A} (l : list A) : result A := match rev l with [] => Err IndexError | x :: _ => Ok x end.
(* math.ceil(a / b) for non-negative Python ints (exact; float rounding of huge quotients is not modelled) *)
Definition zceil_div (a b : Z) : Z := ((a + b - 1) / b)%Z.
