(* Base/Num.v -- the small operations class over which model arithmetic is written once.
   Instances: Z (NumZ.v, exact, executable), R (NumR.v, theorems), PrimFloat (NumF.v, bit-exact binary64). *)
From Coq Require Import ZArith List.
Import ListNotations.

Class Num (T : Type) := {
  n0 : T; n1 : T;
  nadd : T -> T -> T; nsub : T -> T -> T; nmul : T -> T -> T; ndiv : T -> T -> T;
  nneg : T -> T; nsqrt : T -> T;
  nleb : T -> T -> bool; nltb : T -> T -> bool; neqb : T -> T -> bool;
  nofZ : Z -> T;
  nofdec : Z -> Z -> T   (* nofdec m e = m * 10^e, the value of a Python decimal literal *)
}.

Declare Scope num_scope.
Delimit Scope num_scope with num.
Infix "+" := nadd : num_scope.
Infix "-" := nsub : num_scope.
Infix "*" := nmul : num_scope.
Infix "/" := ndiv : num_scope.
Notation "- x" := (nneg x) : num_scope.
Infix "<=?" := nleb : num_scope.
Infix "<?" := nltb : num_scope.
Infix "=?" := neqb : num_scope.

Section Generic.
  Context {T : Type} {N : Num T}.
  Local Open Scope num_scope.
  Definition nmin (a b : T) : T := if a <=? b then a else b.
  Definition nmax (a b : T) : T := if a <=? b then b else a.
  Definition nsum (l : list T) : T := fold_left nadd l n0.
  Fixpoint npow (x : T) (k : nat) : T := match k with O => n1 | S k' => x * npow x k' end.
  Definition nsq (x : T) : T := x * x.
  Definition ndot (a b : list T) : T := nsum (map (fun p => fst p * snd p) (combine a b)).
  Definition nnorm2sq (a : list T) : T := nsum (map nsq a).
  Definition nnorm2 (a : list T) : T := nsqrt (nnorm2sq a).
End Generic.

(* int(x): truncation toward zero of a Python float *)
Class NumI (T : Type) := { ntrunc : T -> Z }.
(* exp / log, only instantiated for R *)
Class NumX (T : Type) := { nexp : T -> T; nln : T -> T; nbinom : Z -> Z -> T (* scipy.special.binom on integers *) }.
