From Coq Require Import ZArith.
From OV Require Import Base.Num.
#[export] Instance NumZ : Num Z := {|
  n0 := 0%Z; n1 := 1%Z; nadd := Z.add; nsub := Z.sub; nmul := Z.mul; ndiv := Z.div;
  nneg := Z.opp; nsqrt := Z.sqrt; nleb := Z.leb; nltb := Z.ltb; neqb := Z.eqb;
  nofZ := fun z => z; nofdec := fun m e => (m * 10 ^ e)%Z |}.
