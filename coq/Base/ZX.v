From Coq Require Import ZArith Lia.
Open Scope Z.
Lemma div_succ_hit a b : 0 < b -> 0 <= a -> (a + 1) mod b = 0 -> (a + 1) / b = a / b + 1.
Proof.
  intros Hb Ha Hm.
  pose proof (Z.div_mod (a+1) b ltac:(lia)) as E1. rewrite Hm in E1.
  pose proof (Z.div_mod a b ltac:(lia)) as E2.
  pose proof (Z.mod_pos_bound a b Hb) as B.
  assert (b * ((a+1)/b - a/b) = a mod b + 1) by lia.
  assert (0 < (a+1)/b - a/b) by nia.
  assert ((a+1)/b - a/b < 2) by nia. lia.
Qed.
Lemma div_succ_miss a b : 0 < b -> 0 <= a -> (a + 1) mod b <> 0 -> (a + 1) / b = a / b.
Proof.
  intros Hb Ha Hm.
  pose proof (Z.div_mod (a+1) b ltac:(lia)) as E1.
  pose proof (Z.div_mod a b ltac:(lia)) as E2.
  pose proof (Z.mod_pos_bound a b Hb) as B.
  pose proof (Z.mod_pos_bound (a+1) b Hb) as B1.
  assert (b * ((a+1)/b - a/b) = a mod b + 1 - (a+1) mod b) by lia.
  assert (-1 < (a+1)/b - a/b) by nia.
  assert ((a+1)/b - a/b < 1) by nia. lia.
Qed.
