(* Proofs/BmmRefine.v -- C10: training through the batch splitter refines training on the unsplit logical batch.
   Symbolic execution of the GENERATED optimizer transitions on programs of the shape the splitter induces. *)
From Coq Require Import ZArith List Bool String Lia.
From OV Require Import Base.Num Base.Py Model.OptimState Model.OptimRef Gen.Optim Proofs.OptimSM Proofs.OptimEq Proofs.NoiseP.
Import ListNotations.

Section B.
Context {T : Type} {N : Num T}.

(* what the training loop does with one physical batch: the sampler's skip signal, then
   optimizer.zero_grad(); forward+backward; optimizer.step() *)
Definition phys (skip : bool) (c : list Z) : list (@op T) := [Skip skip; OptZero; FB c; Step].
Fixpoint split_prog (cs : list (list Z)) : list (@op T) :=
  match cs with [] => [] | [c] => phys false c | c :: r => phys true c ++ split_prog r end.
Definition unsplit_prog (b : list Z) : list (@op T) := [OptZero; FB b; Step].

(* observables that do not mention backward ids: a released contribution is (sample id, clipping norm) *)
Definition strip_item (it : item T) : Z * option T := (snd (fst it), snd it).
Inductive sevent :=
| SNoise (std : T) (pos : Z) | SDiscard (std : T) (pos : Z) | SAccount (sigma q : T)
| SInner (items : option (list (Z * option T) * noise T * list T)) | SClip (a b : T).
Definition strip_event (e : event T) : sevent :=
  match e with
  | ENoise a b => SNoise a b | EDiscard a b => SDiscard a b | EAccount a b => SAccount a b
  | EInner None => SInner None
  | EInner (Some g) => SInner (Some (map strip_item (grad_items g), g_noise g, g_divs g))
  | EClipUpdate a b => SClip a b
  end.
(* everything except p.grad_sample / p.summed_grad / p.grad / the backward-id counter *)
Definition rest (s : ost T) :=
  (o_variant s, o_acc s, o_skipq s, o_last_skipped s, o_nm s, o_mgn s, o_ebs s, o_mean s, o_secure s,
   o_has_hook s, o_rate s, o_hist s, o_noise_pos s, o_accum_allowed s, o_rank s, o_world s,
   (o_sample_size s, o_unclipped s, o_target_q s, o_clip_lr s, o_max_clip s, o_min_clip s, o_unclipped_std s),
   map strip_event (o_events s)).
Definition pend (s : ost T) : list (Z * option T) :=
  if o_last_skipped s then match o_summed s with Some v => map strip_item (s_items v) | None => [] end else [].
Definition pend_ok (s : ost T) : Prop :=
  o_last_skipped s = true -> match o_summed s with Some v => s_proc v = false | None => True end.

Definition body (c : list Z) : list (@op T) := [OptZero; FB c; Step].
Lemma phys_unfold skip c (s : ost T) : run (phys skip c) s = run (body c) (upd_skipq s (o_skipq s ++ [skip])).
Proof. reflexivity. Qed.

(* a skipped physical batch (every variant, ghost included): its clipped samples join the pending sum, nothing else happens *)
Lemma body_skip_hooks (s : ost T) c :
  o_skipq s = [true] -> pend_ok s ->
  let s' := run (body c) s in
  rest s' = rest (upd_last_skipped (upd_skipq s []) true) /\ o_last_skipped s' = true /\
  pend s' = pend s ++ map (fun sid => (sid, Some (o_mgn s))) c /\ pend_ok s'.
Proof.
  intros Q P. destruct s as [v a gs sm gr q ls nm mgn ebs mean sec hook rate hist nb np accum rk wd ss un tq lr mxc mnc ust evs].
  cbn in Q, P. subst q. unfold pend_ok, pend in *. cbn [o_last_skipped o_summed] in *.
  destruct v; destruct accum; destruct ls; destruct gr;
    try (specialize (P eq_refl)); try (destruct sm as [[its pr]|]; cbn in P; try subst pr);
    cbv -[map app clip_items cell_ids flat_map nmul nofZ neqb ndiv Z.add]; unfold clip_items, cell_ids; cbn [c_bid c_sids];
    rewrite ?map_app, ?map_map; cbn [strip_item fst snd app]; repeat split; auto.
Qed.

(* ---------- simulation: the noise / scale / hook / release stages do not look at backward ids ---------- *)
Definition sum_equiv (a b : option (sumv T)) : Prop :=
  match a, b with
  | None, None => True
  | Some x, Some y => map strip_item (s_items x) = map strip_item (s_items y) /\ s_proc x = s_proc y
  | _, _ => False
  end.
Definition grad_equiv (a b : option (gradv T)) : Prop :=
  match a, b with
  | None, None => True
  | Some x, Some y => map strip_item (grad_items x) = map strip_item (grad_items y) /\ g_noise x = g_noise y /\ g_divs x = g_divs y
  | _, _ => False
  end.
Definition E0 (s1 s2 : ost T) : Prop :=
  rest s1 = rest s2 /\ sum_equiv (o_summed s1) (o_summed s2) /\ ref_accit s1 = ref_accit s2.
Definition E1 (s1 s2 : ost T) : Prop := E0 s1 s2 /\ grad_equiv (o_grad s1) (o_grad s2).

Definition res_equiv {A} (R : ost T -> ost T -> Prop) (r1 r2 : sres (ost T) A) : Prop :=
  match r1, r2 with
  | SOk s1 a1, SOk s2 a2 => a1 = a2 /\ R s1 s2
  | SErr s1 e1, SErr s2 e2 => e1 = e2 /\ E0 s1 s2
  | _, _ => False
  end.

Ltac rest_inv H :=
  unfold rest in H; inversion H; clear H.

Lemma sim_draw s1 s2 std sh :
  rest s1 = rest s2 -> snd (draw s1 std sh) = snd (draw s2 std sh) /\
  rest (fst (draw s1 std sh)) = rest (fst (draw s2 std sh)) /\
  o_summed (fst (draw s1 std sh)) = o_summed s1 /\ o_summed (fst (draw s2 std sh)) = o_summed s2 /\
  o_gs (fst (draw s1 std sh)) = o_gs s1 /\ o_gs (fst (draw s2 std sh)) = o_gs s2.
Proof.
  intros R. unfold draw, emit. cbn. rest_inv R. repeat split; try congruence.
  unfold rest. cbn. rewrite !map_app. cbn. congruence.
Qed.

(* closed form of add_noise on an unprocessed summed gradient, as far as the bid-free observables go *)
Lemma add_noise_obs (s : ost T) v0 :
  o_summed s = Some v0 -> s_proc v0 = false ->
  exists s', ref_add_noise s = SOk s' tt /\
    o_summed s' = Some (mksum (s_items v0) true) /\
    o_grad s' = Some (mkgrad [] (s_items v0) (noise_value (o_secure s) (nmul (o_nm s) (o_mgn s)) (o_noise_pos s)) []) /\
    o_gs s' = o_gs s /\
    rest s' = rest (upd_events (upd_noise_pos s (o_noise_pos s')) (o_events s ++ noise_shape (o_secure s) (nmul (o_nm s) (o_mgn s)) (o_noise_pos s))) /\
    o_noise_pos s' = (o_noise_pos s + (if neqb (nmul (o_nm s) (o_mgn s)) (nofZ 0) then 0 else if o_secure s then 1 + 1 + 1 + 1 + 1 else 1))%Z.
Proof.
  intros S P. destruct s as [v a gs sm gr q ls nm mgn ebs mean sec hook rate hist nb np accum rk wd ss un tq lr mxc mnc ust evs].
  cbn in S. subst sm. unfold ref_add_noise, ref_gen_noise, noise_shape, noise_value.
  cbn [o_summed sum_check o_nm o_mgn o_secure o_noise_pos o_events]. rewrite P.
  destruct (neqb (nmul nm mgn) (nofZ 0)).
  - eexists. split; [reflexivity|]. cbn. rewrite app_nil_r, Z.add_0_r. repeat split.
  - destruct sec.
    + eexists. split; [reflexivity|]. cbv -[map app nmul nofZ neqb Z.add strip_event]. rewrite <- !app_assoc.
      cbn [app]. rewrite <- !Z.add_assoc. repeat split.
    + eexists. split; [reflexivity|]. cbv -[map app nmul nofZ neqb Z.add strip_event]. repeat split.
Qed.

(* the accountant step as a function of (class, history, sigma, q) only *)
Lemma ref_acc_fun (s : ost T) sigma q :
  exists h r, (forall s2 : ost T, o_acc s2 = o_acc s -> o_hist s2 = o_hist s ->
                 ref_acc s2 sigma q = match r with None => SOk (upd_hist s2 h) tt | Some e => SErr (upd_hist s2 h) e end).
Proof.
  destruct (o_acc s) eqn:A; destruct (rev (o_hist s)) as [|[[s0 q0] n] r] eqn:R.
  all: try (destruct (neqb s0 sigma && neqb q0 q)%bool eqn:B1).
  all: try (destruct (negb (neqb s0 sigma) || negb (neqb q0 q))%bool eqn:B2).
  all: first
    [ eexists; exists None; intros s2 A2 H2; destruct s2; cbn in A2, H2; subst; unfold ref_acc; cbn [o_acc o_hist]; rewrite ?R;
      rewrite ?B1, ?B2; reflexivity
    | eexists; exists (Some ValueError); intros s2 A2 H2; destruct s2; cbn in A2, H2; subst; unfold ref_acc; cbn [o_acc o_hist]; rewrite ?R;
      rewrite ?B1, ?B2; reflexivity ].
Qed.

Lemma strip_clip C nb c p : map strip_item (clip_items (T:=T) C (cell_ids (mkcell nb c p))) = map (fun sid => (sid, Some C)) c.
Proof. unfold clip_items, cell_ids. cbn. rewrite !map_map. reflexivity. Qed.

Definition rest0 (s : ost T) :=
  (o_variant s, o_acc s, o_nm s, o_mgn s, o_ebs s, o_mean s, o_secure s,
   o_has_hook s, o_rate s, o_hist s, o_noise_pos s, o_accum_allowed s, o_rank s, o_world s,
   (o_sample_size s, o_unclipped s, o_target_q s, o_clip_lr s, o_max_clip s, o_min_clip s, o_unclipped_std s),
   map strip_event (o_events s)).


(* the stages after clipping are functions of the bid-free projection of the state *)
Definition restE (s : ost T) :=
  (o_variant s, o_acc s, o_nm s, o_mgn s, o_ebs s, o_mean s, o_secure s,
   o_has_hook s, o_rate s, o_hist s, o_noise_pos s, o_accum_allowed s, o_rank s, o_world s,
   (o_sample_size s, o_unclipped s, o_target_q s, o_clip_lr s, o_max_clip s, o_min_clip s, o_unclipped_std s),
   map strip_event (o_events s)).
Definition Fr (s s' : ost T) : Prop := o_skipq s' = o_skipq s /\ o_last_skipped s' = o_last_skipped s /\ o_variant s' = o_variant s.
Definition Eq (s1 s2 : ost T) : Prop :=
  restE s1 = restE s2 /\ sum_equiv (o_summed s1) (o_summed s2) /\ gs_accum_iters (o_gs s1) = gs_accum_iters (o_gs s2) /\
  grad_equiv (o_grad s1) (o_grad s2).
Definition Req {A} (i1 i2 : ost T) (r1 r2 : sres (ost T) A) : Prop :=
  match r1, r2 with
  | SOk s1 a1, SOk s2 a2 => a1 = a2 /\ Eq s1 s2 /\ Fr i1 s1 /\ Fr i2 s2
  | SErr s1 e1, SErr s2 e2 => e1 = e2 /\ restE s1 = restE s2 /\ Fr i1 s1 /\ Fr i2 s2
  | _, _ => False
  end.
Ltac crunch := cbv -[map app nmul nofZ neqb Z.add strip_event strip_item ref_acc gs_accum_iters].
Ltac open_states s1 s2 H :=
  destruct s1 as [v a gs sm gr q ls nm mgn ebs mean sec hook rate hist nb np accum rk wd ss un tq lr mxc mnc ust evs];
  destruct s2 as [v2 a2 gs2 sm2 gr2 q2 ls2 nm2 mgn2 ebs2 mean2 sec2 hook2 rate2 hist2 nb2 np2 accum2 rk2 wd2 ss2 un2 tq2 lr2 mxc2 mnc2 ust2 evs2];
  unfold Eq, restE in H; cbn in H; destruct H as (R & S & A & G); inversion R; subst; clear R.

Definition Eq0 (s1 s2 : ost T) : Prop :=
  restE s1 = restE s2 /\ sum_equiv (o_summed s1) (o_summed s2) /\ gs_accum_iters (o_gs s1) = gs_accum_iters (o_gs s2).
Lemma sim_add_noise (s1 s2 : ost T) : Eq0 s1 s2 -> Req s1 s2 (ref_add_noise s1) (ref_add_noise s2).
Proof.
  intros H.
  destruct s1 as [v a gs sm gr q ls nm mgn ebs mean sec hook rate hist nb np accum rk wd ss un tq lr mxc mnc ust evs];
  destruct s2 as [v2 a2 gs2 sm2 gr2 q2 ls2 nm2 mgn2 ebs2 mean2 sec2 hook2 rate2 hist2 nb2 np2 accum2 rk2 wd2 ss2 un2 tq2 lr2 mxc2 mnc2 ust2 evs2];
  unfold Eq0, restE in H; cbn in H; destruct H as (R & S & A); inversion R; subst; clear R.
  destruct sm as [[i1 p1]|], sm2 as [[i2 p2]|]; cbn in S; try contradiction.
  2: { crunch. split; [reflexivity|]. repeat split; f_equal; auto. }
  destruct S as (S1 & S2). cbn in S2. subst p2.
  destruct p1; [crunch; split; [reflexivity|]; repeat split; f_equal; auto|].
  unfold ref_add_noise, ref_gen_noise. cbn [o_summed sum_check s_proc o_nm o_mgn o_secure].
  destruct (neqb (nmul nm2 mgn2) (nofZ 0)); [|destruct sec2]; crunch;
    (split; [reflexivity|]); unfold Eq, restE, Fr; cbn; rewrite ?map_app; cbn [map strip_event];
    repeat split; try congruence; unfold grad_items; cbn; first [assumption | congruence].
Qed.

Lemma grad_equiv_div g1 g2 d : grad_equiv g1 g2 -> grad_equiv (grad_div g1 d) (grad_div g2 d).
Proof.
  destruct g1 as [x|], g2 as [y|]; cbn; try contradiction; auto.
  intros (G1 & G2 & G3). unfold grad_items in *. cbn. repeat split; congruence.
Qed.

Lemma sim_scale (s1 s2 : ost T) : Eq s1 s2 -> Req s1 s2 (ref_scale s1) (ref_scale s2).
Proof.
  intros H. open_states s1 s2 H.
  unfold ref_scale, ref_accit. cbn [o_mean o_variant o_gs]. destruct mean2.
  2: { cbn. split; [reflexivity|]. unfold Eq, restE, Fr. cbn. repeat split; auto; try congruence. }
  destruct v2; rewrite ?A; destruct (gs_accum_iters gs2) eqn:A2; cbn [sbind];
    try (split; [reflexivity|]; unfold restE, Fr; cbn; repeat split; congruence);
    (split; [reflexivity|]); unfold Eq, restE, Fr; cbn [o_variant o_acc o_gs o_summed o_grad o_skipq o_last_skipped o_nm o_mgn o_ebs o_mean o_secure
      o_has_hook o_rate o_hist o_next_bid o_noise_pos o_accum_allowed o_rank o_world o_sample_size o_unclipped o_target_q o_clip_lr
      o_max_clip o_min_clip o_unclipped_std o_events upd_grad];
    repeat split; auto; try congruence; try (apply grad_equiv_div; assumption).
Qed.

Lemma sim_hook (s1 s2 : ost T) : Eq s1 s2 -> Req s1 s2 (ref_hook s1) (ref_hook s2).
Proof.
  intros H.
  destruct (ref_acc_fun s1 (o_nm s1) (nmul (o_rate s1) (nofZ 1))) as (h & r & Hacc).
  assert (Hk : forall k, exists h r, forall s0 : ost T, o_acc s0 = o_acc s1 -> o_hist s0 = o_hist s1 ->
            ref_acc s0 (o_nm s1) (nmul (o_rate s1) (nofZ k)) = match r with None => SOk (upd_hist s0 h) tt | Some e => SErr (upd_hist s0 h) e end).
  { intros k. apply ref_acc_fun. }
  clear h r Hacc.
  open_states s1 s2 H. cbn in Hk.
  unfold ref_hook, ref_accit. cbn [o_variant o_gs o_nm o_rate].
  destruct v2.
  4: { destruct (Hk 1%Z) as (h & r & Hacc); cbn [sbind]; rewrite !Hacc by reflexivity; destruct r; cbn [sbind];
       (split; [reflexivity|]); unfold Eq, restE, Fr, emit; cbn; rewrite ?map_app; cbn [map strip_event];
       repeat split; auto; try congruence. }
  all: rewrite A; destruct (gs_accum_iters gs2) as [k|e] eqn:A2; cbn [sbind];
    try (split; [reflexivity|]; unfold restE, Fr; cbn; repeat split; congruence);
    destruct (Hk k) as (h & r & Hacc); rewrite !Hacc by reflexivity; destruct r; cbn [sbind];
    (split; [reflexivity|]); unfold Eq, restE, Fr, emit; cbn; rewrite ?map_app; cbn [map strip_event];
    repeat split; auto; try congruence.
Qed.

Definition emitf (s : ost T) (go : bool) : sres (ost T) unit := if go then SOk (emit s (EInner (o_grad s))) tt else SOk s tt.
Definition tail (t : ost T) : sres (ost T) bool :=
  sbind (ref_add_noise t) (fun s _ => sbind (ref_scale s) (fun s _ =>
  sbind (if o_has_hook s then ref_hook s else SOk s tt) (fun s _ => SOk (upd_last_skipped s false) true))).

Lemma restE_hook_flag (s1 s2 : ost T) : restE s1 = restE s2 -> o_has_hook s1 = o_has_hook s2 /\ o_variant s1 = o_variant s2.
Proof. unfold restE. intros H. inversion H. auto. Qed.

Lemma sim_tail (t1 t2 : ost T) :
  Eq0 t1 t2 ->
  restE (sstate (sbind (tail t1) emitf)) = restE (sstate (sbind (tail t2) emitf)) /\
  o_skipq (sstate (sbind (tail t1) emitf)) = o_skipq t1 /\ o_skipq (sstate (sbind (tail t2) emitf)) = o_skipq t2.
Proof.
  intros H. unfold tail.
  pose proof (sim_add_noise t1 t2 H) as R1.
  destruct (ref_add_noise t1) as [a1 u1|a1 e1], (ref_add_noise t2) as [a2 u2|a2 e2]; cbn in R1; try contradiction.
  2: { cbn [sbind sstate]. destruct R1 as (_ & R & (F1 & _) & (F2 & _)). auto. }
  destruct R1 as (_ & E1 & (F1 & _ & V1) & (F2 & _)). cbn [sbind].
  pose proof (sim_scale a1 a2 E1) as R2.
  destruct (ref_scale a1) as [b1 w1|b1 e1], (ref_scale a2) as [b2 w2|b2 e2]; cbn in R2; try contradiction.
  2: { cbn [sbind sstate]. destruct R2 as (_ & R & (G1 & _) & (G2 & _)). repeat split; congruence. }
  destruct R2 as (_ & E2 & (G1 & _ & V2) & (G2 & _)). cbn [sbind].
  destruct (restE_hook_flag b1 b2 (proj1 E2)) as (HK & _). rewrite <- HK.
  destruct (o_has_hook b1).
  - pose proof (sim_hook b1 b2 E2) as R3.
    destruct (ref_hook b1) as [c1 x1|c1 e1], (ref_hook b2) as [c2 x2|c2 e2]; cbn in R3; try contradiction.
    2: { cbn [sbind sstate]. destruct R3 as (_ & R & (K1 & _) & (K2 & _)). repeat split; congruence. }
    destruct R3 as (_ & (RE & SE & AE & GE) & (K1 & _) & (K2 & _)). cbn [sbind sstate emitf].
    unfold emit, upd_events, upd_last_skipped. cbn [o_skipq o_events o_grad]. unfold restE in *. cbn.
    inversion RE. repeat split; try congruence. rewrite !map_app. cbn [map strip_event].
    destruct (o_grad c1) as [g1|], (o_grad c2) as [g2|]; cbn in GE; try contradiction.
    + destruct GE as (GE1 & GE2 & GE3). cbn [strip_event]. rewrite GE1, GE2, GE3. congruence.
    + congruence.
  - destruct E2 as (RE & SE & AE & GE). cbn [sbind sstate emitf].
    unfold emit, upd_events, upd_last_skipped. cbn [o_skipq o_events o_grad]. unfold restE in *. cbn.
    inversion RE. repeat split; try congruence. rewrite !map_app. cbn [map strip_event].
    destruct (o_grad b1) as [g1|], (o_grad b2) as [g2|]; cbn in GE; try contradiction.
    + destruct GE as (GE1 & GE2 & GE3). cbn [strip_event]. rewrite GE1, GE2, GE3. congruence.
    + congruence.
Qed.

Ltac crunch2 := cbv -[map app nmul nofZ neqb Z.add strip_event strip_item ref_add_noise ref_scale ref_hook clip_items cell_ids].

(* zero_grad; backward; the clipping stage and the skip-queue pop of the LAST physical batch (or of the unsplit batch) *)
Definition accit_after (v : variant) : result Z := match v with Ghost => Err ValueError | _ => Ok 1%Z end.
Lemma pre_final (s : ost T) c :
  (o_skipq s = [false] \/ o_skipq s = []) -> pend_ok s ->
  exists t, run (body c) s = sstate (sbind (tail t) emitf) /\
            o_skipq t = [] /\ restE t = restE s /\
            (exists v, o_summed t = Some v /\ s_proc v = false /\
                       map strip_item (s_items v) = pend s ++ map (fun sid => (sid, Some (o_mgn s))) c) /\
            gs_accum_iters (o_gs t) = accit_after (o_variant s) /\ o_variant t = o_variant s.
Proof.
  intros Q P.
  destruct s as [v a gs sm gr q ls nm mgn ebs mean sec hook rate hist nb np accum rk wd ss un tq lr mxc mnc ust evs].
  cbn in Q, P. unfold pend_ok, pend in *. cbn [o_last_skipped o_summed o_mgn] in *.
  cbn [run body fold_left exec]. rewrite zero_eq, step_eq.
  unfold ref_step, ref_pre_step, ref_after_accumulate, ref_check_skip, ref_clip.
  destruct Q as [-> | ->]; destruct v; destruct accum; destruct ls;
    try (specialize (P eq_refl)); try (destruct sm as [[its pr]|]; cbn in P; try subst pr); destruct gr;
    crunch2; (eexists; split; [reflexivity|]); cbn; rewrite ?map_app, ?strip_clip;
    repeat split; eauto;
    try (eexists; split; [reflexivity|]; split; [reflexivity|]; cbn [s_items]; rewrite ?map_app, ?map_map; reflexivity);
    try (eexists; split; [reflexivity|]; split; [reflexivity|]; cbn [s_items]; unfold clip_items; rewrite ?map_app, ?map_map; reflexivity).
Qed.

Lemma run_app (l1 l2 : list (@op T)) s : run (l1 ++ l2) s = run l2 (run l1 s).
Proof. unfold run. apply fold_left_app. Qed.
Lemma rest_restE (s1 s2 : ost T) : rest s1 = rest s2 -> restE s1 = restE s2 /\ o_skipq s1 = o_skipq s2 /\ o_last_skipped s1 = o_last_skipped s2.
Proof. unfold rest, restE. intros H. inversion H. repeat split; congruence. Qed.
Lemma restE_fields (s1 s2 : ost T) : restE s1 = restE s2 -> o_mgn s1 = o_mgn s2 /\ o_variant s1 = o_variant s2.
Proof. unfold restE. intros H. inversion H. auto. Qed.

(* C10, core: for every optimizer variant (flat, per-layer, adaptive loop, ghost clipping), from ANY state in which the skip queue is
   empty, training on the physical batches cs -- signals enqueued by the sampler, zero_grad / backward / step per physical
   batch -- has the same bid-free observables (noise draws, accountant records, released (sample id, clipping norm) lists,
   history, noise-stream position, ...) as one zero_grad / backward / step on the unsplit batch. *)
Lemma split_gen (cs : list (list Z)) : cs <> [] -> forall (s1 s2 : ost T) b,
  o_skipq s1 = [] -> pend_ok s1 ->
  o_skipq s2 = [] -> o_last_skipped s2 = false -> restE s1 = restE s2 ->
  pend s1 ++ map (fun sid => (sid, Some (o_mgn s1))) (List.concat cs) = map (fun sid => (sid, Some (o_mgn s2))) b ->
  restE (run (split_prog cs) s1) = restE (run (unsplit_prog b) s2) /\
  o_skipq (run (split_prog cs) s1) = [] /\ o_skipq (run (unsplit_prog b) s2) = [].
Proof.
  induction cs as [|c cs IH]; [contradiction|]. intros _ s1 s2 b Q1 P1 Q2 L2 RE HI.
  destruct cs as [|c' r].
  - (* last physical batch *)
    cbn [split_prog List.concat] in *. rewrite app_nil_r in HI. rewrite phys_unfold, Q1. cbn [app].
    set (s1' := upd_skipq s1 [false]).
    destruct (pre_final s1' c (or_introl eq_refl) P1) as (t1 & R1 & K1 & E1 & (v1 & S1 & PR1 & I1) & A1 & V1).
    assert (V2 : o_variant s2 = o_variant s1') by (destruct (restE_fields _ _ RE) as (_ & <-); reflexivity).
    assert (P2 : pend_ok s2) by (unfold pend_ok; rewrite L2; discriminate).
    destruct (pre_final s2 b (or_intror Q2) P2) as (t2 & R2 & K2 & E2 & (v2 & S2 & PR2 & I2) & A2 & W2).
    unfold unsplit_prog. fold (body b). rewrite R1, R2.
    assert (EQ : Eq0 t1 t2).
    { unfold Eq0. split; [rewrite E1, E2; exact RE|]. split; [|congruence].
      rewrite S1, S2. cbn. split; [|congruence]. rewrite I1, I2. unfold pend at 2. rewrite L2. cbn [app].
      exact HI. }
    destruct (sim_tail t1 t2 EQ) as (X1 & X2 & X3). rewrite X2, X3. auto.
  - (* a skipped physical batch, then the rest *)
    change (split_prog (c :: c' :: r)) with (phys true c ++ split_prog (c' :: r)). rewrite run_app, phys_unfold, Q1. cbn [app].
    set (s1' := upd_skipq s1 [true]).
    destruct (body_skip_hooks s1' c eq_refl P1) as (RS & LS & PD & PK).
    set (s1'' := run (body c) s1') in *.
    destruct (rest_restE _ _ RS) as (RE1 & SQ & _).
    assert (REa : restE s1'' = restE s1) by (rewrite RE1; reflexivity).
    destruct (restE_fields _ _ REa) as (M1 & W1).
    apply (IH ltac:(discriminate) s1'' s2 b).
    + rewrite SQ. reflexivity.
    + exact PK.
    + exact Q2.
    + exact L2.
    + congruence.
    + rewrite PD, M1. cbn [List.concat] in HI. rewrite map_app, app_assoc in HI. exact HI.
Qed.

Theorem bmm_refines_unsplit (cs : list (list Z)) (s1 s2 : ost T) :
  cs <> [] ->
  o_skipq s1 = [] -> o_last_skipped s1 = false -> o_skipq s2 = [] -> o_last_skipped s2 = false -> restE s1 = restE s2 ->
  restE (run (split_prog cs) s1) = restE (run (unsplit_prog (List.concat cs)) s2) /\
  o_skipq (run (split_prog cs) s1) = [] /\ o_skipq (run (unsplit_prog (List.concat cs)) s2) = [].
Proof.
  intros NE Q1 L1 Q2 L2 RE. apply split_gen; auto.
  - unfold pend_ok. rewrite L1. discriminate.
  - unfold pend. rewrite L1. cbn [app]. destruct (restE_fields _ _ RE) as (-> & _). reflexivity.
Qed.
End B.
