(* Proofs/WrapP.v -- unwrapping removes everything the grad_sample package ever attaches (C19). *)
From Coq Require Import ZArith List String Bool Lia.
From OV Require Import Base.Py Gen.Wrap Model.WrapLedger.
Import ListNotations.
Local Open Scope string_scope.
Local Open Scope list_scope.

(* every attribute written is among the attributes removed: finite, generated lists -- decided by computation *)
Lemma written_subset_param : forallb (fun a => mem a param_attrs_removed) param_attrs_written = true.
Proof. vm_compute. reflexivity. Qed.
Lemma written_subset_module : forallb (fun a => mem a module_attrs_removed) module_attrs_written = true.
Proof. vm_compute. reflexivity. Qed.
Lemma mem_In a l : mem a l = true <-> In a l.
Proof.
  unfold mem. rewrite existsb_exists. split.
  - intros [x [Hx He]]. apply String.eqb_eq in He. now subst.
  - intros H. exists a. split; [exact H|apply String.eqb_refl].
Qed.
Theorem written_is_removed (f : fact) : written f = true -> removed f = true.
Proof.
  unfold written, removed. destruct (f_kind f); intros H; apply mem_In in H.
  - pose proof written_subset_param as S. rewrite forallb_forall in S. exact (S _ H).
  - pose proof written_subset_module as S. rewrite forallb_forall in S. exact (S _ H).
Qed.

Lemma fact_eqb_eq a b : fact_eqb a b = true -> a = b.
Proof.
  unfold fact_eqb. destruct a as [ka oa aa], b as [kb ob ab]. cbn. intros H.
  apply andb_prop in H. destruct H as [H Hs]. apply andb_prop in H. destruct H as [Hk Ho].
  apply Nat.eqb_eq in Ho. apply String.eqb_eq in Hs. destruct ka, kb; try discriminate; subst; reflexivity.
Qed.

Definition keep (f : fact) : bool := negb (removed f).
Lemma filter_keep_drop f l : removed f = true ->
  filter keep (filter (fun g => negb (fact_eqb g f)) l) = filter keep l.
Proof.
  intros Hr. induction l as [|g l IH]; [reflexivity|]. cbn [filter].
  destruct (fact_eqb g f) eqn:E; cbn [negb filter].
  - apply fact_eqb_eq in E. subst g. unfold keep at 2. rewrite Hr. cbn. exact IH.
  - destruct (keep g); [f_equal|]; exact IH.
Qed.

(* invariant: the user's own attributes are exactly what survives the filter *)
Lemma wstep_inv (u : list fact) s o : written (op_fact o) = true -> filter keep (w_ledger s) = u -> filter keep (w_ledger (wstep s o)) = u.
Proof.
  intros Hw H. pose proof (written_is_removed _ Hw) as Hr. destruct o as [f|f]; cbn in *.
  - unfold keep at 1. rewrite Hr. cbn. exact H.
  - rewrite filter_keep_drop by exact Hr. exact H.
Qed.
Lemma wstep_handles s o : w_handles (wstep s o) = w_handles s.
Proof. destruct o; reflexivity. Qed.
Lemma filter_keep_id (u : list fact) : Forall (fun f => removed f = false) u -> filter keep u = u.
Proof. induction 1 as [|f u Hf _ IH]; [reflexivity|]. cbn. unfold keep at 1. rewrite Hf. cbn. now rewrite IH. Qed.

(* wrap -> any Opacus activity (forward / backward / optimizer hooks: any sequence of writes and deletes of Opacus attributes on any
   parameter or module) -> to_standard_module : the ledger is the user's own again and no hook handle is left *)
Theorem unwrap_restores_ledger (u : list fact) (hooked : list nat) (ops : list wop) :
  Forall (fun f => removed f = false) u -> Forall (fun o => written (op_fact o) = true) ops ->
  unwrap (wrun (wrap hooked (mkw u [])) ops) = mkw u [].
Proof.
  intros Hu Hops. unfold unwrap. f_equal.
  assert (G : forall s, filter keep (w_ledger s) = u -> filter keep (w_ledger (wrun s ops)) = u).
  { induction Hops as [|o ops Ho _ IH]; intros s Hs; [exact Hs|]. cbn [wrun fold_left]. apply IH. now apply wstep_inv. }
  apply G. cbn. now apply filter_keep_id.
Qed.
(* while wrapped, every hooked sub-module carries exactly one handle per hook kind, all of them recorded (so all of them are removed) *)
Lemma wrun_handles s ops : w_handles (wrun s ops) = w_handles s.
Proof. revert s. induction ops as [|o ops IH]; intros s; [reflexivity|]. cbn [wrun fold_left]. unfold wrun in IH. rewrite IH. apply wstep_handles. Qed.
Theorem wrap_handles_recorded (hooked : list nat) (s : wstate) (ops : list wop) :
  w_handles (wrun (wrap hooked s) ops) = flat_map (fun m => map (fun k => (m, k)) hook_kinds) hooked ++ w_handles s.
Proof. now rewrite wrun_handles. Qed.

(* forward delegation and optimizer pass-through (generated definitions) *)
Theorem forward_delegates {A B} (f : A -> B) x : gsm_forward f x = f x.
Proof. reflexivity. Qed.
Theorem optimizer_passthrough {G S D} (o : inner_opt G S D) (g : G) (s : S) (d : D) :
  dp_param_groups o = i_param_groups o /\ dp_state o = i_state o /\ dp_defaults o = i_defaults o /\
  i_param_groups (dp_set_param_groups o g) = g /\ i_state (dp_set_state o s) = s /\ i_defaults (dp_set_defaults o d) = d /\
  i_state (dp_set_param_groups o g) = i_state o /\ i_defaults (dp_set_param_groups o g) = i_defaults o.
Proof. repeat split. Qed.

(* ghost-mode wrapping leaves every attribute of the caller's criterion as it was (there is nothing for to_standard_module to restore) *)
Theorem criterion_untouched {V} (own : pystr -> V) (c : list (pystr * V)) : crit_after_wrap own c = c.
Proof. reflexivity. Qed.
