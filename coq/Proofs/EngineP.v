(* Proofs/EngineP.v -- finite decision tables of the generated engine logic (C03) *)
From Coq Require Import ZArith List String Bool.
From OV Require Import Base.Num Base.NumZ Base.Py Gen.Engine.
Import ListNotations.
Open Scope string_scope.

Definition clippings := ["flat"; "per_layer"; "adaptive"].
Definition modes := ["hooks"; "functorch"; "ew"; "ghost"].
(* the documented table: which class each (clipping, distributed, grad_sample_mode) gets; None = rejected *)
Definition table (c : string) (d : bool) (m : string) : option string :=
  if String.eqb m "ghost" then
    (if String.eqb c "flat" then Some (if d then "DistributedDPOptimizerFastGradientClipping" else "DPOptimizerFastGradientClipping") else None)
  else if String.eqb c "flat" then Some (if d then "DistributedDPOptimizer" else "DPOptimizer")
  else if String.eqb c "per_layer" then
    (if d then (if String.eqb m "hooks" then Some "DistributedPerLayerOptimizer"
                else if String.eqb m "ew" then Some "SimpleDistributedPerLayerOptimizer" else None)
     else Some "DPPerLayerOptimizer")
  else if String.eqb c "adaptive" then (if d then None else Some "AdaClipDPOptimizer")
  else None.
Definition res_eq (r : result string) (o : option string) : bool :=
  match r, o with Ok a, Some b => String.eqb a b | Err ValueError, None => true | _, _ => false end.
Definition table_ok : bool :=
  forallb (fun c => forallb (fun d => forallb (fun m =>
     res_eq (optimizer_class c d m) (table c d m)) modes) [false; true]) clippings.
Theorem optimizer_class_table :
  forall c d m, In c clippings -> In m modes -> res_eq (optimizer_class c d m) (table c d m) = true.
Proof.
  assert (H : table_ok = true) by (vm_compute; reflexivity).
  intros c d m Hc Hm. unfold table_ok in H. rewrite forallb_forall in H. specialize (H c Hc).
  rewrite forallb_forall in H. specialize (H d ltac:(destruct d; cbn; auto)).
  rewrite forallb_forall in H. exact (H m Hm).
Qed.

(* expected_batch_size generated from make_private: the integer part of N / L, whatever the floating-point sample rate is; in particular
   exactly B when the loader has L batches of B samples *)
Theorem expected_batch_size_integer_part {T} {N : Num T} (Nd L : Z) (r : T) : engine_expected_batch_size Nd L r = (Nd / L)%Z.
Proof. reflexivity. Qed.
Theorem expected_batch_size_exact {T} {N : Num T} (B L : Z) (r : T) : (0 < L)%Z -> engine_expected_batch_size (B * L) L r = B.
Proof. intros H. rewrite expected_batch_size_integer_part. apply Z.div_mul. intros E; rewrite E in H; inversion H. Qed.
(* the binary64 product the engine used before: int(N * fl(1/L)) is B - 1 for the loader of 49 batches of 64 samples *)
From Coq Require Import Floats.PrimFloat.
From OV Require Import Base.NumF.
Example float_product_truncates_below : ntrunc (nmul (nofZ 3136%Z) (engine_sample_rate (T:=float) 49%Z)) = 63%Z.
Proof. vm_compute. reflexivity. Qed.
