(* Proofs/ValidP.v -- soundness of validation and safety of fix on the tree model, for the walks / predicates / fixers generated into
   Gen/Validators.v (C15). *)
From Coq Require Import ZArith List String Bool Lia.
From OV Require Import Base.Py Model.ModTree Gen.Validators.
Import ListNotations.

(* only containers have children (registered layer types are leaves of the walk) *)
Fixpoint leaves_childless (t : tree) : bool :=
  match t with Node k tr hp tk tg ch =>
    (match k with KSeq => true | _ => match ch with [] => true | _ => false end end) &&
    (fix go (l : list tree) : bool := match l with [] => true | c :: r => leaves_childless c && go r end) ch end.

Definition sum_verrs (l : list tree) : nat := fold_right (fun c a => verrs c + a) 0 l.
Lemma sum_verrs_cons c r : sum_verrs (c :: r) = verrs c + sum_verrs r.
Proof. reflexivity. Qed.
Lemma verrs_unfold k tr hp tk tg ch :
  verrs (Node k tr hp tk tg ch) = (if validate_visits (Node k tr hp tk tg ch) then validator_errs k tk else 0) + sum_verrs ch.
Proof. reflexivity. Qed.
Definition map_fixt b (l : list tree) := map (fixt b) l.
Lemma fixt_unfold b k tr hp tk tg ch :
  fixt b (Node k tr hp tk tg ch) =
  if fix_visits (Node k tr hp tk tg ch) && has_fixer k then fixer b (Node k tr hp tk tg ch) else Node k tr hp tk tg (map (fixt b) ch).
Proof.
  cbn [fixt]. destruct (fix_visits _ && has_fixer k); reflexivity.
Qed.
Lemma couples_unfold k tr hp tk tg ch :
  tree_couples (Node k tr hp tk tg ch) = node_couples (Node k tr hp tk tg ch) || existsb tree_couples ch.
Proof. reflexivity. Qed.
Lemma ctrain_unfold k tr hp tk tg ch :
  couplers_trainable (Node k tr hp tk tg ch) = (negb (node_couples (Node k tr hp tk tg ch)) || tr) && forallb couplers_trainable ch.
Proof. reflexivity. Qed.
Lemma childless_unfold k tr hp tk tg ch :
  leaves_childless (Node k tr hp tk tg ch) =
  (match k with KSeq => true | _ => match ch with [] => true | _ => false end end) && forallb leaves_childless ch.
Proof. reflexivity. Qed.

(* ---- soundness of validate, under the hypothesis that every coupling layer owns a trainable parameter *)
Lemma verrs_zero_no_coupling (t : tree) : couplers_trainable t = true -> verrs t = 0 -> tree_couples t = false.
Proof.
  induction t as [k tr hp tk tg ch IH] using tree_ind'. rewrite verrs_unfold, couples_unfold, ctrain_unfold.
  intros Hc Hv. apply andb_prop in Hc. destruct Hc as [Hc1 Hc2].
  assert (Hs : sum_verrs ch = 0) by lia.
  assert (Hn : (if validate_visits (Node k tr hp tk tg ch) then validator_errs k tk else 0) = 0) by lia.
  apply orb_false_intro.
  - unfold node_couples in *. cbn [n_training n_kind n_track validate_visits n_trainable] in *.
    destruct tg; [|reflexivity]. cbn [andb] in *.
    destruct k; try reflexivity.
    + (* BatchNorm *) destruct tr; cbn in Hc1, Hn; [discriminate Hn|discriminate Hc1].
    + (* InstanceNorm *) destruct tk; [|reflexivity]. destruct tr; cbn in Hc1, Hn; [discriminate Hn|discriminate Hc1].
  - clear Hn Hc1 Hv. induction IH as [|c r Hc _ IHr]; [reflexivity|].
    rewrite sum_verrs_cons in Hs. cbn [existsb forallb] in *. apply andb_prop in Hc2. destruct Hc2 as [H1 H2].
    apply orb_false_intro; [apply Hc; [exact H1|lia]|apply IHr; [exact H2|lia]].
Qed.
Theorem validate_sound_partial (t : tree) : couplers_trainable t = true -> validate t = 0 -> n_training t = true /\ tree_couples t = false.
Proof.
  unfold validate. intros Hc Hv. destruct (n_training t) eqn:E; [|lia]. split; [reflexivity|].
  apply verrs_zero_no_coupling; [exact Hc|lia].
Qed.

(* ---- fix then validate *)
Lemma fixer_verrs b k tr hp tk tg : validate_visits = fix_visits ->
  fix_visits (Node k tr hp tk tg []) && has_fixer k = true -> verrs (fixer b (Node k tr hp tk tg [])) = 0.
Proof.
  intros _ H. cbn [fix_visits n_trainable] in H. destruct k; cbn in H; try (rewrite andb_false_r in H; discriminate H);
    destruct tr; try discriminate H; cbn [fixer].
  - destruct b; [reflexivity|]. destruct hp; reflexivity.
  - destruct tk; cbn; reflexivity.
  - reflexivity.
  - reflexivity.
Qed.
Lemma fixt_verrs b (t : tree) : leaves_childless t = true -> verrs (fixt b t) = 0.
Proof.
  induction t as [k tr hp tk tg ch IH] using tree_ind'. rewrite childless_unfold, fixt_unfold. intros Hw.
  apply andb_prop in Hw. destruct Hw as [Hk Hch].
  destruct (fix_visits (Node k tr hp tk tg ch) && has_fixer k) eqn:E.
  - assert (ch = []) as ->. { destruct k; cbn in E; try (rewrite andb_false_r in E; discriminate E); (destruct ch; [reflexivity|discriminate Hk]). }
    apply fixer_verrs; [reflexivity|exact E].
  - rewrite verrs_unfold.
    assert (Hs : sum_verrs (map (fixt b) ch) = 0).
    { clear E Hk. induction IH as [|c r Hc _ IHr]; [reflexivity|]. cbn [map forallb] in *. rewrite sum_verrs_cons.
      apply andb_prop in Hch. destruct Hch as [H1 H2]. rewrite (Hc H1). cbn. apply IHr. exact H2. }
    rewrite Hs. cbn [validate_visits n_trainable fix_visits] in *.
    destruct tr; [|reflexivity]. cbn [andb] in E. destruct k; cbn in E; try discriminate E; reflexivity.
Qed.
Lemma fixt_training b (t : tree) : n_training t = true -> n_training (fixt b t) = true.
Proof.
  destruct t as [k tr hp tk tg ch]. rewrite fixt_unfold. cbn [n_training]. intros ->.
  destruct (fix_visits _ && has_fixer k); [|reflexivity].
  destruct k; cbn [fixer]; try reflexivity.
  - destruct b; reflexivity.
  - destruct (Nat.eqb _ 0); reflexivity.
Qed.
Theorem fix_then_valid b (t : tree) : leaves_childless t = true -> n_training t = true -> validate (fixt b t) = 0.
Proof. intros Hw Ht. unfold validate. rewrite (fixt_training b t Ht), (fixt_verrs b t Hw). reflexivity. Qed.

(* ---- fix changes nothing but the visited sub-modules that have a registered fixer *)
Fixpoint nothing_to_fix (t : tree) : bool :=
  match t with Node k tr hp tk tg ch =>
    negb (fix_visits t && has_fixer k) && (fix go (l : list tree) : bool := match l with [] => true | c :: r => nothing_to_fix c && go r end) ch end.
Theorem fix_identity_when_nothing_to_fix b (t : tree) : nothing_to_fix t = true -> fixt b t = t.
Proof.
  induction t as [k tr hp tk tg ch IH] using tree_ind'. intros H. rewrite fixt_unfold.
  assert (Hu : nothing_to_fix (Node k tr hp tk tg ch) = negb (fix_visits (Node k tr hp tk tg ch) && has_fixer k) && forallb nothing_to_fix ch).
  { reflexivity. }
  rewrite Hu in H. apply andb_prop in H. destruct H as [H1 H2]. apply negb_true_iff in H1. rewrite H1. f_equal.
  clear H1 Hu. induction IH as [|c r Hc _ IHr]; [reflexivity|]. cbn [map forallb] in *. apply andb_prop in H2. destruct H2 as [Ha Hb].
  rewrite (Hc Ha), (IHr Hb). reflexivity.
Qed.
(* ---- make_private *)
Theorem make_private_guards_sound (foreign : bool) (t : tree) :
  make_private_guards foreign t = Ok tt -> foreign = false /\ validate t = 0 /\ n_training t = true.
Proof.
  unfold make_private_guards. destruct foreign; [discriminate|]. destruct (Nat.ltb_spec 0 (validate t)); [discriminate|].
  intros _. split; [reflexivity|]. split; [lia|]. unfold validate in *. destruct (n_training t); [reflexivity|lia].
Qed.
Theorem make_private_rejects_eval (foreign : bool) (t : tree) : n_training t = false -> make_private_guards foreign t <> Ok tt.
Proof. intros H E. apply make_private_guards_sound in E. destruct E as [_ [_ E]]. congruence. Qed.

(* fix() keeps the train / eval mode: of every node it visits -- the replacement of a module is in the mode of the module it replaces
   (an eval-mode model does not get training-mode, i.e. dropout-active, replacements) -- and hence of the root *)
Lemma fixer_keeps_mode (b : bool) (t : tree) : n_training (fixer b t) = n_training t.
Proof. destruct t as [k tr hp tk tg ch]. destruct k; cbn; try reflexivity; try (destruct b; reflexivity). destruct (Nat.eqb _ 0); reflexivity. Qed.
Theorem fix_keeps_mode (b : bool) (t : tree) : n_training (fixt b t) = n_training t.
Proof.
  destruct t as [k tr hp tk tg ch]. cbn [fixt]. destruct (fix_visits _ && has_fixer k); [apply fixer_keeps_mode | reflexivity].
Qed.
