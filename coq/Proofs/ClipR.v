(* Proofs/ClipR.v -- the clipping arithmetic over the reals (C02, C03): the generated clip factor, norms of scaled
   vectors, the bound ||clip(g)|| <= C, removal of one sample from the clipped sum. *)
From Coq Require Import ZArith Reals List Lra Lia Bool.
From OV Require Import Base.Num Base.NumR Base.Py Model.OptimState Gen.Optim Model.ClipNum.
Import ListNotations.
Local Open Scope R_scope.

Definition eps6 : R := 1 * / IZR (10 ^ 6).
Lemma eps6_pos : 0 < eps6.
Proof. unfold eps6. assert (0 < IZR (10 ^ 6)) by (apply IZR_lt; reflexivity). rewrite Rmult_1_l. now apply Rinv_0_lt_compat. Qed.

(* the GENERATED clip factor is min(C / (n + 1e-6), 1) *)
Lemma clip_factor_R (C n : R) : clip_factor C n = Rmin (C / (n + eps6)) 1.
Proof.
  unfold clip_factor, nmin. cbn. unfold Rdec. cbn. change (IZR (10 ^ 6)) with (IZR 1000000). unfold eps6.
  replace (1 * 1) with 1 by ring. change (IZR (10 ^ 6)) with (IZR 1000000).
  unfold Rleb. destruct (Rle_dec (C / (n + 1 * / 1000000)) 1) as [H|H].
  - now rewrite Rmin_left.
  - rewrite Rmin_right; [reflexivity|lra].
Qed.
Lemma pl_clip_factor_R (C n : R) : pl_clip_factor C n = Rmin (C / (n + eps6)) 1.
Proof.
  unfold pl_clip_factor, nmin. cbn. unfold Rdec. cbn. change (IZR (10 ^ 6)) with (IZR 1000000). unfold eps6.
  replace (1 * 1) with 1 by ring. change (IZR (10 ^ 6)) with (IZR 1000000).
  unfold Rleb. destruct (Rle_dec (C / (n + 1 * / 1000000)) 1) as [H|H].
  - now rewrite Rmin_left.
  - rewrite Rmin_right; [reflexivity|lra].
Qed.

Lemma clip_factor_bounds C n : 0 <= C -> 0 <= n -> 0 <= clip_factor C n <= 1 /\ clip_factor C n * n <= C.
Proof.
  intros HC Hn. rewrite clip_factor_R. pose proof eps6_pos as He.
  assert (Hq : 0 <= C / (n + eps6)) by (apply Rmult_le_pos; [lra|]; left; apply Rinv_0_lt_compat; lra).
  split; [split; [apply Rmin_glb; lra | apply Rmin_r]|].
  apply Rle_trans with (C / (n + eps6) * n); [apply Rmult_le_compat_r; [lra|apply Rmin_l]|].
  unfold Rdiv. rewrite Rmult_assoc. rewrite <- (Rmult_1_r C) at 2. apply Rmult_le_compat_l; [lra|].
  apply Rmult_le_reg_l with (n + eps6); [lra|]. rewrite <- Rmult_assoc, Rinv_r by lra. lra.
Qed.
(* samples whose norm (+1e-6) is below C pass through unchanged *)
Lemma clip_factor_one C n : 0 <= n -> n + eps6 <= C -> clip_factor C n = 1.
Proof.
  intros Hn H. rewrite clip_factor_R. pose proof eps6_pos. apply Rmin_right.
  apply Rmult_le_reg_r with (n + eps6); [lra|]. unfold Rdiv. rewrite Rmult_assoc, Rinv_l by lra. lra.
Qed.

(* ---- sums of squares and norms ---- *)
Lemma fold_plus_acc (l : list R) a : fold_left Rplus l a = a + fold_left Rplus l 0.
Proof. revert a. induction l as [|x l IH]; intros a; cbn; [lra|]. rewrite IH, (IH (0 + x)). lra. Qed.
Lemma nsum_cons (x : R) l : nsum (x :: l) = x + nsum l.
Proof. unfold nsum. cbn. rewrite fold_plus_acc. lra. Qed.
Lemma nsum_nil : nsum (@nil R) = 0. Proof. reflexivity. Qed.
Lemma nsum_sq_nonneg (l : list R) : 0 <= nsum (map nsq l).
Proof. induction l as [|x l IH]; [cbn; lra|]. cbn [map]. rewrite nsum_cons. unfold nsq at 1. cbn. nra. Qed.
Lemma norm2_nonneg (v : list R) : 0 <= nnorm2 v.
Proof. unfold nnorm2, nnorm2sq. cbn. apply sqrt_pos. Qed.
Lemma nsum_sq_scale c (v : list R) : nsum (map nsq (vscale c v)) = c * c * nsum (map nsq v).
Proof.
  induction v as [|x v IH]; [cbn; unfold nsum; cbn; lra|].
  change (vscale c (x :: v)) with (nmul c x :: vscale c v). cbn [map]. rewrite !nsum_cons, IH.
  unfold nsq. cbn. ring.
Qed.
Lemma norm2_scale c (v : list R) : 0 <= c -> nnorm2 (vscale c v) = c * nnorm2 v.
Proof.
  intros Hc. unfold nnorm2, nnorm2sq. cbn [nsqrt NumR]. rewrite nsum_sq_scale.
  rewrite sqrt_mult; [|nra|apply nsum_sq_nonneg]. rewrite sqrt_square by lra. reflexivity.
Qed.
Lemma joint_norm_scale c (g : list (list R)) : 0 <= c -> joint_norm (pscale c g) = c * joint_norm g.
Proof.
  intros Hc. unfold joint_norm, pscale. rewrite map_map.
  rewrite (map_ext _ (fun v => c * nnorm2 v)) by (intros v; now apply norm2_scale).
  rewrite <- (map_map nnorm2 (fun x => c * x)). fold (vscale c (map nnorm2 g)). now apply norm2_scale.
Qed.
Lemma joint_norm_nonneg (g : list (list R)) : 0 <= joint_norm g.
Proof. apply norm2_nonneg. Qed.

(* C02 core: a clipped per-sample gradient has joint norm at most C *)
Theorem clip_scaled_norm_le C (g : list (list R)) : 0 <= C -> joint_norm (flat_clipped C g) <= C.
Proof.
  intros HC. unfold flat_clipped. pose proof (joint_norm_nonneg g) as Hn.
  destruct (clip_factor_bounds C (joint_norm g) HC Hn) as ((H0 & _) & H). rewrite joint_norm_scale by lra. exact H.
Qed.

(* ---- removing one sample from the sum ---- *)
Lemma vadd_nil_r (a : list R) : vadd a [] = a. Proof. destruct a; reflexivity. Qed.
Lemma vadd_comm (a b : list R) : vadd a b = vadd b a.
Proof. revert b. induction a as [|x a IH]; intros [|y b]; cbn; try reflexivity. rewrite IH. f_equal. lra. Qed.
Lemma vadd_assoc (a b c : list R) : vadd (vadd a b) c = vadd a (vadd b c).
Proof.
  revert b c. induction a as [|x a IH]; intros [|y b] [|z c]; cbn; try reflexivity. rewrite IH. f_equal. lra.
Qed.
Lemma padd_nil_r (a : list (list R)) : padd a [] = a. Proof. destruct a; reflexivity. Qed.
Lemma padd_comm (a b : list (list R)) : padd a b = padd b a.
Proof. revert b. induction a as [|x a IH]; intros [|y b]; cbn; try reflexivity. now rewrite IH, vadd_comm. Qed.
Lemma padd_assoc (a b c : list (list R)) : padd (padd a b) c = padd a (padd b c).
Proof. revert b c. induction a as [|x a IH]; intros [|y b] [|z c]; cbn; try reflexivity. now rewrite IH, vadd_assoc. Qed.
Lemma psum_acc (l : list (list (list R))) a : fold_left padd l a = padd a (psum l).
Proof.
  revert a. induction l as [|x l IH]; intros a; cbn; [now rewrite padd_nil_r|].
  unfold psum. cbn. rewrite IH, (IH (padd [] x)). cbn. now rewrite padd_assoc.
Qed.
Lemma psum_app (l1 l2 : list (list (list R))) : psum (l1 ++ l2) = padd (psum l1) (psum l2).
Proof. unfold psum. rewrite fold_left_app, psum_acc. reflexivity. Qed.
Lemma psum_cons x (l : list (list (list R))) : psum (x :: l) = padd x (psum l).
Proof. unfold psum. cbn. now rewrite psum_acc. Qed.

(* neighbouring batches: the clipped sum over l1 ++ x :: l2 is the clipped sum over l1 ++ l2 plus the one clipped term *)
Theorem sum_remove_one (f : list (list R) -> list (list R)) (l1 l2 : list (list (list R))) (x : list (list R)) :
  psum (map f (l1 ++ x :: l2)) = padd (psum (map f (l1 ++ l2))) (f x).
Proof.
  rewrite !map_app, !psum_app. cbn [map]. rewrite psum_cons.
  rewrite (padd_comm (f x)), <- padd_assoc. reflexivity.
Qed.

(* C02 (flat): removing any one example changes the pre-noise sum by a vector of joint norm <= C *)
Theorem flat_sensitivity C (l1 l2 : list (list (list R))) (x : list (list R)) : 0 <= C ->
  exists d, psum (map (flat_clipped C) (l1 ++ x :: l2)) = padd (psum (map (flat_clipped C) (l1 ++ l2))) d /\ joint_norm d <= C.
Proof. intros HC. exists (flat_clipped C x). split; [apply sum_remove_one | now apply clip_scaled_norm_le]. Qed.

(* per-layer clipping: each tensor of a clipped sample has norm <= its own bound *)
Lemma pl_tensor_bound C (v : list R) : 0 <= C -> nnorm2 (vscale (pl_clip_factor C (nnorm2 v)) v) <= C.
Proof.
  intros HC. pose proof (norm2_nonneg v) as Hn. rewrite pl_clip_factor_R, <- clip_factor_R.
  destruct (clip_factor_bounds C (nnorm2 v) HC Hn) as ((H0 & _) & H). rewrite norm2_scale by lra. exact H.
Qed.
Lemma norm2_mono (a b : list R) : Forall2 (fun x y => 0 <= x <= y) a b -> nnorm2 a <= nnorm2 b.
Proof.
  intros H. unfold nnorm2, nnorm2sq. cbn [nsqrt NumR]. apply sqrt_le_1_alt.
  induction H as [|x y a b Hxy _ IH]; [lra|]. cbn [map]. rewrite !nsum_cons. unfold nsq at 1 3. cbn. nra.
Qed.
Lemma norms_bounded (d : list (list R)) (Cs : list R) :
  Forall2 (fun t c => nnorm2 t <= c) d Cs -> Forall2 (fun x y => 0 <= x <= y) (map nnorm2 d) Cs.
Proof. induction 1 as [|t c d Cs Htc _ IH]; cbn [map]; constructor; [split; [apply norm2_nonneg|exact Htc]|exact IH]. Qed.
Theorem perlayer_sensitivity (Cs : list R) (l1 l2 : list (list (list R))) (x : list (list R)) :
  Forall (fun c => 0 <= c) Cs -> length x = length Cs ->
  exists d, psum (map (perlayer_clipped Cs) (l1 ++ x :: l2)) = padd (psum (map (perlayer_clipped Cs) (l1 ++ l2))) d /\
            Forall2 (fun t c => nnorm2 t <= c) d Cs /\ joint_norm d <= nnorm2 Cs.
Proof.
  intros HC HL. exists (perlayer_clipped Cs x). split; [apply sum_remove_one|].
  assert (F : Forall2 (fun t c => nnorm2 t <= c) (perlayer_clipped Cs x) Cs).
  { unfold perlayer_clipped. revert x HL. induction HC as [|c Cs Hc _ IH]; intros [|v x] HL; cbn in *; try discriminate; constructor.
    - now apply pl_tensor_bound.
    - apply IH. lia. }
  split; [exact F|]. unfold joint_norm. apply norm2_mono. now apply norms_bounded.
Qed.

Lemma clip_example : joint_norm (flat_clipped 1 [[3; 0]; [4]]) <= 1.
Proof. apply clip_scaled_norm_le; lra. Qed.

(* ---- per-layer bounds follow the max_grad_norm in force (DPPerLayerOptimizer.clip_and_accumulate after the repair):
   whatever value max_grad_norm has been given since construction (a clipping scheduler), the bounds actually used are non-negative
   multiples of the configured ones and their joint norm IS max_grad_norm -- the quantity the noise standard deviation is scaled by *)
Lemma pl_bounds_as_vscale (mgn : R) (Cs : list R) : pl_bounds_in_force mgn Cs = vscale (pl_scale mgn Cs) Cs.
Proof. unfold pl_bounds_in_force, vscale. apply map_ext. intros c. cbn. ring. Qed.
Theorem pl_bounds_in_force_norm (mgn : R) (Cs : list R) : 0 <= mgn -> 0 < nnorm2 Cs ->
  nnorm2 (pl_bounds_in_force mgn Cs) = mgn /\ (Forall (fun c => 0 <= c) Cs -> Forall (fun c => 0 <= c) (pl_bounds_in_force mgn Cs)).
Proof.
  intros Hm Hn. assert (Hs : 0 <= pl_scale mgn Cs).
  { unfold pl_scale. cbn. apply Rmult_le_pos; [exact Hm|]. left. now apply Rinv_0_lt_compat. }
  split.
  - rewrite pl_bounds_as_vscale, norm2_scale by exact Hs. unfold pl_scale. remember (nnorm2 Cs) as n eqn:En. cbn. field. lra.
  - intros H. unfold pl_bounds_in_force. apply Forall_map. eapply Forall_impl; [|exact H]. cbn. intros c Hc. now apply Rmult_le_pos.
Qed.
(* without a change of max_grad_norm (it starts as the norm of the bounds) the bounds in force are the configured ones *)
Theorem pl_bounds_unchanged (Cs : list R) : 0 < nnorm2 Cs -> pl_bounds_in_force (nnorm2 Cs) Cs = Cs.
Proof.
  intros Hn. unfold pl_bounds_in_force, pl_scale. remember (nnorm2 Cs) as n eqn:En. rewrite <- (map_id Cs) at 2. apply map_ext. intros c. cbn. field. lra.
Qed.
