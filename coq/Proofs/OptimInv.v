(* Proofs/OptimInv.v -- invariants of the DP training state machine (reference semantics;
   transported to the generated code by Proofs/OptimEq.v).
   Main results:  exec_inv (Inv is preserved by every operation, also by operations that raise),
   hence no (backward id, sample id) is released twice and every released contribution is clipped. *)
From Coq Require Import ZArith List Bool String Lia FinFun.
From OV Require Import Base.Num Base.Py Model.OptimState Model.OptimRef Gen.Optim Proofs.OptimSM Proofs.OptimEq.
Import ListNotations.

Section Inv.
Context {T : Type} {N : Num T}.

Definition key := (Z * Z)%type.
Definition ikey (it : item T) : key := (fst (fst it), snd (fst it)).
Definition clipped (it : item T) : Prop := snd it <> None.
Definition rel_items (e : event T) : list (item T) :=
  match e with EInner (Some g) => grad_items g | _ => [] end.
Definition released (evs : list (event T)) : list (item T) := flat_map rel_items evs.
Definition cells (g : gsv) : list cell := match g with GNone => [] | GTensor c => [c] | GList l => l end.
Definition skeys (o : option (sumv T)) : list key := match o with Some v => map ikey (s_items v) | None => [] end.
Definition sitems (o : option (sumv T)) : list (item T) := match o with Some v => s_items v | None => [] end.
Definition sproc (o : option (sumv T)) : bool := match o with Some v => s_proc v | None => false end.
Definition gitems (o : option (gradv T)) : list (item T) := match o with Some g => grad_items g | None => [] end.
Definition graw (o : option (gradv T)) : list key := match o with Some g => g_raw g | None => [] end.

Definition fresh (nb : Z) (ks : list key) : Prop := Forall (fun k => (fst k < nb)%Z) ks.
Definition disj (a b : list key) : Prop := forall k, In k a -> ~ In k b.

Record InvP (v : variant) (gs : gsv) (sm : option (sumv T)) (gr : option (gradv T))
            (rel : list (item T)) (nb : Z) : Prop := {
  i_bc : Forall (fun c => (c_bid c < nb)%Z) (cells gs);
  i_bs : fresh nb (skeys sm);
  i_br : fresh nb (map ikey rel);
  i_r : NoDup (map ikey rel);
  i_c1 : NoDup (map c_bid (cells gs));
  i_c2 : Forall (fun c => NoDup (c_sids c)) (cells gs);
  i_c3 : forall c, In c (cells gs) -> c_proc c = false ->
         forall k, fst k = c_bid c -> ~ In k (map ikey rel) /\ ~ In k (skeys sm);
  i_s : sproc sm = false -> NoDup (skeys sm) /\ disj (skeys sm) (map ikey rel);
  i_k1 : Forall clipped (sitems sm);
  i_k3 : Forall clipped rel;
  i_g : v = Ghost ->
        gs = GNone /\ graw gr = [] /\ Forall clipped (gitems gr) /\ fresh nb (map ikey (gitems gr)) /\
        (sproc sm = false -> NoDup (map ikey (gitems gr)) /\ disj (map ikey (gitems gr)) (map ikey rel)
                             /\ disj (map ikey (gitems gr)) (skeys sm))
}.
Definition Inv (s : ost T) : Prop :=
  InvP (o_variant s) (o_gs s) (o_summed s) (o_grad s) (released (o_events s)) (o_next_bid s).

(* ---------- list helpers ---------- *)
Lemma fresh_app nb a b : fresh nb (a ++ b) <-> fresh nb a /\ fresh nb b.
Proof. unfold fresh. apply Forall_app. Qed.
Lemma fresh_mono nb nb' ks : (nb <= nb')%Z -> fresh nb ks -> fresh nb' ks.
Proof. unfold fresh. intros H F. eapply Forall_impl; [|exact F]. cbn. intros; lia. Qed.
Lemma released_app a b : released (a ++ b) = released a ++ released b.
Proof. unfold released. apply flat_map_app. Qed.
Lemma NoDup_app_intro {A} (a b : list A) :
  NoDup a -> NoDup b -> (forall x, In x a -> ~ In x b) -> NoDup (a ++ b).
Proof.
  induction a as [|x a IH]; intros Ha Hb Hd; [exact Hb|]. inversion Ha; subst. cbn. constructor.
  - rewrite in_app_iff. intros [H|H]; [contradiction|]. apply (Hd x); [now left|exact H].
  - apply IH; auto. intros y Hy. apply Hd. now right.
Qed.
Lemma NoDup_app_l {A} (a b : list A) : NoDup (a ++ b) -> NoDup a.
Proof. induction a as [|x a IH]; intros H; [constructor|]. inversion H; subst. constructor; [rewrite in_app_iff in *; tauto|auto]. Qed.

Lemma ikey_clip_items C ids : map ikey (clip_items (T:=T) C ids) = ids.
Proof. unfold clip_items. rewrite map_map. rewrite <- (map_id ids) at 2. apply map_ext. intros [a b]; reflexivity. Qed.
Lemma clipped_clip_items C ids : Forall clipped (clip_items (T:=T) C ids).
Proof. unfold clip_items. apply Forall_forall. intros x Hx. apply in_map_iff in Hx as (p & <- & _). unfold clipped; cbn. discriminate. Qed.

(* keys of the flattened per-sample gradient *)
Definition allkeys (l : list cell) : list key := flat_map cell_ids l.
Lemma in_cell_ids c k : In k (cell_ids c) <-> fst k = c_bid c /\ In (snd k) (c_sids c).
Proof.
  unfold cell_ids. rewrite in_map_iff. split.
  - intros (sid & <- & H). cbn. auto.
  - intros (H1 & H2). exists (snd k). destruct k; cbn in *; subst; auto.
Qed.
Lemma NoDup_cell_ids c : NoDup (c_sids c) -> NoDup (cell_ids c).
Proof.
  unfold cell_ids. intros H. apply Injective_map_NoDup; [|exact H]. intros a b E. now inversion E.
Qed.
Lemma in_allkeys l k : In k (allkeys l) <-> exists c, In c l /\ fst k = c_bid c /\ In (snd k) (c_sids c).
Proof. unfold allkeys. rewrite in_flat_map. split; intros (c & H1 & H2); exists c; (split; [exact H1|]); now apply in_cell_ids. Qed.
Lemma NoDup_allkeys l :
  NoDup (map c_bid l) -> Forall (fun c => NoDup (c_sids c)) l -> NoDup (allkeys l).
Proof.
  induction l as [|c l IH]; intros H1 H2; [constructor|]. cbn in *. inversion H1; subst. inversion H2; subst.
  apply NoDup_app_intro; [now apply NoDup_cell_ids | auto |].
  intros k Hk Hk'. apply in_cell_ids in Hk as (E & _). apply in_allkeys in Hk' as (c' & Hc' & E' & _).
  apply H3. rewrite <- E, E'. now apply in_map.
Qed.
Lemma gs_flat_cells g ids : gs_flat g = Ok ids -> ids = allkeys (cells g).
Proof. destruct g; cbn; intros H; inversion H; subst; cbn; [now rewrite app_nil_r | reflexivity]. Qed.
Lemma gs_check_cells g : gs_check g = Ok tt -> Forall (fun c => c_proc c = false) (cells g).
Proof.
  destruct g as [|c|l]; cbn; intros H; [constructor | |].
  - destruct (c_proc c) eqn:E; [discriminate|]. now repeat constructor.
  - destruct (existsb c_proc l) eqn:E; [discriminate|]. apply Forall_forall. intros c Hc.
    destruct (c_proc c) eqn:Ec; [|reflexivity]. exfalso.
    assert (existsb c_proc l = true) by (apply existsb_exists; eauto). congruence.
Qed.
Lemma cells_mark g : cells (gs_mark g) = map (fun c => mkcell (c_bid c) (c_sids c) true) (cells g).
Proof. destruct g; reflexivity. Qed.

(* ---------- component-level preservation lemmas ---------- *)
Lemma disj_nil_l (b : list key) : disj [] b. Proof. intros k []. Qed.

Lemma InvP_fb v gs sm gr gr' rel nb sids :
  v <> Ghost -> NoDup sids -> InvP v gs sm gr rel nb ->
  InvP v (gs_promote gs (mkcell nb sids false)) sm gr' rel (nb + 1).
Proof.
  intros Hv Hsd [Hbc Hbs Hbr Hr Hc1 Hc2 Hc3 Hs Hk1 Hk3 Hg].
  assert (Hcells : forall c, In c (cells (gs_promote gs (mkcell nb sids false))) <->
                             In c (cells gs) \/ c = mkcell nb sids false).
  { intros c. destruct gs as [|c0|l]; cbn; rewrite ?in_app_iff; cbn; intuition (subst; auto). }
  assert (Hbids : map c_bid (cells (gs_promote gs (mkcell nb sids false))) = map c_bid (cells gs) ++ [nb]).
  { destruct gs as [|c0|l]; cbn; [reflexivity|reflexivity|]. now rewrite map_app. }
  rewrite Forall_forall in Hbc, Hc2. unfold fresh in *.
  constructor; auto.
  - apply Forall_forall. intros c Hc. apply Hcells in Hc as [Hc| ->]; [|cbn; lia]. specialize (Hbc c Hc). lia.
  - eapply Forall_impl; [|exact Hbs]. cbn; intros; lia.
  - eapply Forall_impl; [|exact Hbr]. cbn; intros; lia.
  - rewrite Hbids. apply NoDup_app_intro; auto; [repeat constructor; intros []|].
    intros b Hb [<-|[]]. apply in_map_iff in Hb as (c & E & Hc). specialize (Hbc c Hc). lia.
  - apply Forall_forall. intros c Hc. apply Hcells in Hc as [Hc| ->]; [now apply Hc2|exact Hsd].
  - intros c Hc Hp k Hk. apply Hcells in Hc as [Hc| ->]; [now apply (Hc3 c)|]. cbn in Hk.
    rewrite Forall_forall in Hbr, Hbs.
    split; intros Hin; [specialize (Hbr k Hin)|specialize (Hbs k Hin)]; lia.
  - intros E. contradiction.
Qed.

Lemma skeys_sum_add sm its : skeys (Some (sum_add sm its)) = skeys sm ++ map ikey its.
Proof. destruct sm as [v|]; cbn; [now rewrite map_app | reflexivity]. Qed.
Lemma sitems_sum_add sm its : sitems (Some (sum_add sm its)) = sitems sm ++ its.
Proof. destruct sm as [v|]; reflexivity. Qed.
Lemma sproc_sum_add sm its : sproc (Some (sum_add sm its)) = sproc sm.
Proof. destruct sm as [v|]; reflexivity. Qed.

(* clip_and_accumulate: all cells unprocessed -> their keys join summed, cells get marked *)
Lemma InvP_clip v gs sm gr rel nb C ids :
  v <> Ghost -> gs_check gs = Ok tt -> gs_flat gs = Ok ids -> InvP v gs sm gr rel nb ->
  InvP v (gs_mark gs) (Some (sum_add sm (clip_items C ids))) gr rel nb.
Proof.
  intros Hv Hck Hfl [Hbc Hbs Hbr Hr Hc1 Hc2 Hc3 Hs Hk1 Hk3 Hg].
  apply gs_flat_cells in Hfl. subst ids. apply gs_check_cells in Hck.
  rewrite Forall_forall in Hck, Hbc.
  assert (Hnew : forall k, In k (allkeys (cells gs)) -> (fst k < nb)%Z /\ ~ In k (map ikey rel) /\ ~ In k (skeys sm)).
  { intros k Hk. apply in_allkeys in Hk as (c & Hc & E & _). split; [rewrite E; now apply Hbc|]. now apply (Hc3 c Hc (Hck c Hc)). }
  constructor; rewrite ?cells_mark, ?skeys_sum_add, ?sitems_sum_add, ?sproc_sum_add, ?ikey_clip_items; auto.
  - apply Forall_forall. intros c Hc. apply in_map_iff in Hc as (c0 & <- & Hc0). cbn. now apply Hbc.
  - apply fresh_app. split; [exact Hbs|]. apply Forall_forall. intros k Hk. now apply Hnew.
  - rewrite map_map. cbn. exact Hc1.
  - apply Forall_forall. intros c Hc. apply in_map_iff in Hc as (c0 & <- & Hc0). cbn.
    rewrite Forall_forall in Hc2. now apply Hc2.
  - intros c Hc Hp. apply in_map_iff in Hc as (c0 & <- & Hc0). cbn in Hp. discriminate.
  - intros Hp. specialize (Hs Hp) as [Hnd Hdj]. split.
    + apply NoDup_app_intro; [exact Hnd | now apply NoDup_allkeys |]. intros k Hk Hk'. now apply (Hnew k Hk').
    + intros k Hk. apply in_app_iff in Hk as [Hk|Hk]; [now apply Hdj | now apply Hnew].
  - apply Forall_app. split; [exact Hk1 | apply clipped_clip_items].
  - intros E. contradiction.
Qed.

(* add_noise on an unprocessed summed: summed gets marked, p.grad := summed + noise *)
Lemma InvP_noise v gs v0 gr rel nb nz :
  s_proc v0 = false -> InvP v gs (Some v0) gr rel nb ->
  InvP v gs (Some (mksum (s_items v0) true)) (Some (mkgrad [] (s_items v0) nz [])) rel nb.
Proof.
  intros Hp [Hbc Hbs Hbr Hr Hc1 Hc2 Hc3 Hs Hk1 Hk3 Hg].
  constructor; auto.
  intros E. destruct (Hg E) as (G0 & _). split; [exact G0|]. split; [reflexivity|].
  split; [exact Hk1|]. split; [exact Hbs|]. cbn. intros H; discriminate.
Qed.

(* the inner optimizer consumes an armed p.grad *)
Lemma InvP_release v gs sm g rel nb :
  sproc sm = true -> Forall (fun c => c_proc c = true) (cells gs) ->
  g_raw g = [] -> Forall clipped (g_items g) -> fresh nb (map ikey (g_items g)) ->
  NoDup (map ikey (g_items g)) -> disj (map ikey (g_items g)) (map ikey rel) ->
  InvP v gs sm (Some g) rel nb ->
  InvP v gs sm (Some g) (rel ++ grad_items g) nb.
Proof.
  intros Hp Hcp Hraw Hcl Hfr Hnd Hdj [Hbc Hbs Hbr Hr Hc1 Hc2 Hc3 Hs Hk1 Hk3 Hg].
  assert (Hgi : grad_items g = g_items g) by (unfold grad_items; now rewrite Hraw).
  rewrite Hgi.
  constructor; rewrite ?map_app.
  - exact Hbc.
  - exact Hbs.
  - apply fresh_app; auto.
  - apply NoDup_app_intro; auto. intros k Hk Hk'. now apply (Hdj k Hk').
  - exact Hc1.
  - exact Hc2.
  - intros c Hc Hpc. rewrite Forall_forall in Hcp. rewrite (Hcp c Hc) in Hpc. discriminate.
  - intros Hp'. congruence.
  - exact Hk1.
  - apply Forall_app; auto.
  - intros E. destruct (Hg E) as (G0 & G1 & G2 & G3 & G4).
    split; [exact G0|]. split; [exact G1|]. split; [exact G2|]. split; [exact G3|]. intros Hp'. congruence.
Qed.

Lemma InvP_zero v gs sm gr rel nb (keep : bool) :
  InvP v gs sm gr rel nb -> InvP v GNone (if keep then sm else None) (grad_zero gr) rel nb.
Proof.
  intros [Hbc Hbs Hbr Hr Hc1 Hc2 Hc3 Hs Hk1 Hk3 Hg].
  assert (Z1 : graw (grad_zero gr) = []) by (destruct gr; reflexivity).
  assert (Z2 : gitems (grad_zero gr) = []) by (destruct gr; reflexivity).
  constructor; cbn [cells].
  - constructor.
  - destruct keep; [exact Hbs | constructor].
  - exact Hbr.
  - exact Hr.
  - constructor.
  - constructor.
  - intros c [].
  - destruct keep; [exact Hs|]. intros _. split; [constructor | apply disj_nil_l].
  - destruct keep; [exact Hk1 | constructor].
  - exact Hk3.
  - intros E. rewrite Z1, Z2. cbn. repeat split; try constructor; try apply disj_nil_l.
Qed.

(* ghost accumulate: the clipped gradients of p.grad move into summed; p.grad := None *)
Lemma InvP_fgc_acc gs sm g rel nb :
  InvP Ghost gs sm (Some g) rel nb ->
  InvP Ghost gs (Some (sum_add sm (grad_items g))) None rel nb.
Proof.
  intros [Hbc Hbs Hbr Hr Hc1 Hc2 Hc3 Hs Hk1 Hk3 Hg].
  destruct (Hg eq_refl) as (G0 & G1 & G2 & G3 & G4). cbn [gitems graw] in *.
  constructor; rewrite ?skeys_sum_add, ?sitems_sum_add, ?sproc_sum_add.
  - exact Hbc.
  - apply fresh_app; auto.
  - exact Hbr.
  - exact Hr.
  - exact Hc1.
  - exact Hc2.
  - subst gs. intros c [].
  - intros Hp. destruct (Hs Hp) as [Hnd Hdj]. destruct (G4 Hp) as (A1 & A2 & A3). split.
    + apply NoDup_app_intro; auto. intros k Hk Hk'. now apply (A3 k Hk').
    + intros k Hk. apply in_app_iff in Hk as [Hk|Hk]; [now apply Hdj | now apply A2].
  - apply Forall_app; auto.
  - exact Hk3.
  - intros _. cbn. repeat split; auto; try constructor; try apply disj_nil_l.
Qed.

(* ghost backward: zero_grad inside, then the clipped gradients of a fresh backward id *)
Lemma InvP_fb_ghost gs sm gr rel nb C sids (keep : bool) :
  NoDup sids -> InvP Ghost gs sm gr rel nb ->
  InvP Ghost GNone (if keep then sm else None)
       (Some (mkgrad [] ([] ++ clip_items C (map (fun sid => (nb, sid)) sids)) [] [])) rel (nb + 1).
Proof.
  intros Hsd I. apply (InvP_zero _ _ _ _ _ _ keep) in I.
  destruct I as [Hbc Hbs Hbr Hr Hc1 Hc2 Hc3 Hs Hk1 Hk3 Hg]. unfold fresh in *.
  assert (Hk : map ikey (grad_items (mkgrad [] ([] ++ clip_items C (map (fun sid => (nb, sid)) sids)) [] []))
               = map (fun sid => (nb, sid)) sids).
  { unfold grad_items. cbn. apply ikey_clip_items. }
  constructor.
  - constructor.
  - eapply Forall_impl; [|exact Hbs]. cbn; intros; lia.
  - eapply Forall_impl; [|exact Hbr]. cbn; intros; lia.
  - exact Hr.
  - exact Hc1.
  - exact Hc2.
  - exact Hc3.
  - exact Hs.
  - exact Hk1.
  - exact Hk3.
  - intros _. cbn [gitems graw]. rewrite Hk. split; [reflexivity|]. split; [reflexivity|]. split.
    { unfold grad_items. cbn. apply clipped_clip_items. }
    split. { apply Forall_forall. intros k Hin. apply in_map_iff in Hin as (sid & <- & _). cbn. lia. }
    intros Hp.
    assert (Hfr : forall k, In k (map (fun sid => (nb, sid)) sids) -> fst k = nb).
    { intros k Hin. apply in_map_iff in Hin as (sid & <- & _). reflexivity. }
    rewrite Forall_forall in Hbr, Hbs. repeat split.
    + apply Injective_map_NoDup; [|exact Hsd]. intros a b E. now inversion E.
    + intros k Hin Hin'. specialize (Hfr k Hin). specialize (Hbr k Hin'). lia.
    + intros k Hin Hin'. specialize (Hfr k Hin). specialize (Hbs k Hin'). lia.
Qed.

(* ---------- state-level ---------- *)
Definition core (s : ost T) :=
  (o_variant s, o_gs s, o_summed s, o_grad s, released (o_events s), o_next_bid s).
Lemma Inv_core s s' : core s' = core s -> Inv s -> Inv s'.
Proof.
  unfold core, Inv. intros E I. inversion E as [[E1 E2 E3 E4 E5 E6]].
  rewrite E1, E2, E3, E4, E5, E6. exact I.
Qed.
Definition AllProc (s : ost T) : Prop := Forall (fun c => c_proc c = true) (cells (o_gs s)).
Definition Armed (s : ost T) : Prop :=
  exists g, o_grad s = Some g /\ g_raw g = [] /\ Forall clipped (g_items g) /\
            fresh (o_next_bid s) (map ikey (g_items g)) /\ NoDup (map ikey (g_items g)) /\
            disj (map ikey (g_items g)) (map ikey (released (o_events s))) /\ sproc (o_summed s) = true.

Lemma released_snoc_silent evs e : rel_items e = [] -> released (evs ++ [e]) = released evs.
Proof. intros H. rewrite released_app. cbn. rewrite H. now rewrite !app_nil_r. Qed.

Lemma draw_core s std sh : core (fst (draw s std sh)) = core s.
Proof.
  unfold draw, core, emit. cbn. rewrite released_snoc_silent; [reflexivity|]. destruct sh; reflexivity.
Qed.

Lemma gen_noise_core s std r sec : core (sstate (ref_gen_noise s std r sec)) = core s.
Proof.
  unfold ref_gen_noise. destruct r; [|reflexivity]. destruct (neqb std (nofZ 0)); [reflexivity|].
  destruct sec.
  - destruct (draw s std Shape11) as [s1 x1] eqn:D1.
    destruct (draw s1 std ShapeRef) as [s2 x2] eqn:D2.
    destruct (draw s2 std ShapeRef) as [s3 x3] eqn:D3.
    destruct (draw s3 std ShapeRef) as [s4 x4] eqn:D4.
    destruct (draw s4 std ShapeRef) as [s5 x5] eqn:D5. cbn [sstate].
    pose proof (draw_core s std Shape11) as C1. rewrite D1 in C1.
    pose proof (draw_core s1 std ShapeRef) as C2. rewrite D2 in C2.
    pose proof (draw_core s2 std ShapeRef) as C3. rewrite D3 in C3.
    pose proof (draw_core s3 std ShapeRef) as C4. rewrite D4 in C4.
    pose proof (draw_core s4 std ShapeRef) as C5. rewrite D5 in C5. cbn [fst] in *. congruence.
  - destruct (draw s std ShapeRef) as [s1 x1] eqn:D1. cbn [sstate].
    pose proof (draw_core s std ShapeRef) as C1. rewrite D1 in C1. exact C1.
Qed.

Lemma InvP_gr v gs sm gr gr' rel nb :
  graw gr' = graw gr -> gitems gr' = gitems gr -> InvP v gs sm gr rel nb -> InvP v gs sm gr' rel nb.
Proof.
  intros E1 E2 [Hbc Hbs Hbr Hr Hc1 Hc2 Hc3 Hs Hk1 Hk3 Hg]. constructor; auto.
  intros E. rewrite E1, E2. now apply Hg.
Qed.
Lemma graw_div (g : option (gradv T)) d : graw (grad_div g d) = graw g.
Proof. destruct g; reflexivity. Qed.
Lemma gitems_div (g : option (gradv T)) d : gitems (grad_div g d) = gitems g.
Proof. destruct g; reflexivity. Qed.

Lemma add_noise_inv s :
  Inv s ->
  match ref_add_noise s with
  | SErr s' _ => core s' = core s
  | SOk s' _ => Inv s' /\ Armed s' /\ o_gs s' = o_gs s
  end.
Proof.
  intros I. unfold ref_add_noise. destruct (o_summed s) as [v0|] eqn:S; cbn [sum_check].
  - destruct (s_proc v0) eqn:P; [reflexivity|].
    pose proof (gen_noise_core s (nmul (o_nm s) (o_mgn s)) (Some v0) (o_secure s)) as C.
    destruct (ref_gen_noise s (nmul (o_nm s) (o_mgn s)) (Some v0) (o_secure s)) as [s2 nz|s2 e]; cbn [sbind sstate] in *;
      [|exact C].
    unfold core in C. inversion C as [[C1 C2 C3 C4 C5 C6]]. rewrite S in C3.
    unfold Inv in I. rewrite S in I.
    split; [|split].
    + unfold Inv, upd_summed, upd_grad. cbn [o_variant o_gs o_summed o_grad o_events o_next_bid].
      rewrite C1, C2, C3, C5, C6. cbn [grad_of_sum sum_mark]. now apply (InvP_noise _ _ _ (o_grad s)).
    + exists (mkgrad [] (s_items v0) nz []). unfold upd_summed, upd_grad.
      cbn [o_variant o_gs o_summed o_grad o_events o_next_bid]. rewrite C3, C5, C6.
      cbn [grad_of_sum sum_mark g_raw g_items sproc s_proc].
      destruct I as [Hbc Hbs Hbr Hr Hc1 Hc2 Hc3 Hs Hk1 Hk3 Hg]. destruct (Hs P) as [Hnd Hdj].
      repeat split; auto.
    + cbn. congruence.
  - reflexivity.
Qed.

Lemma scale_inv s :
  match ref_scale s with
  | SErr s' _ => s' = s
  | SOk s' _ => (Inv s -> Inv s') /\ (Armed s -> Armed s') /\ o_gs s' = o_gs s
  end.
Proof.
  unfold ref_scale. destruct (o_mean s); [|tauto]. destruct (ref_accit s) as [k|e]; [|reflexivity].
  split; [|split; [|reflexivity]].
  - unfold Inv. cbn. intros I. eapply InvP_gr; [| |exact I]; [apply graw_div|apply gitems_div].
  - intros (g & G & A1 & A2 & A3 & A4 & A5 & A6). cbn. rewrite G. cbn.
    eexists. split; [reflexivity|]. cbn. repeat split; auto.
Qed.

Lemma hook_core s : core (sstate (ref_hook s)) = core s.
Proof.
  unfold ref_hook. destruct (ref_accit s) as [k|e]; [|reflexivity].
  unfold ref_acc. destruct (o_acc s); destruct (rev (o_hist s)) as [|[[a b] n] r]; cbn [sbind sstate];
    try (unfold core, emit; cbn; rewrite ?released_snoc_silent; reflexivity).
  all: match goal with |- context [if ?c then _ else _] => destruct c end; cbn [sbind sstate];
       unfold core, emit; cbn; rewrite ?released_snoc_silent; reflexivity.
Qed.
Lemma Armed_core s s' : core s' = core s -> Armed s -> Armed s'.
Proof.
  unfold core. intros E (g & G & A). inversion E as [[E1 E2 E3 E4 E5 E6]].
  exists g. rewrite E3, E4, E5, E6. split; [exact G|exact A].
Qed.
Lemma core_gs s s' : core s' = core s -> o_gs s' = o_gs s.
Proof. unfold core. intros E. now inversion E. Qed.

(* everything after the accumulation stage *)
Lemma after_inv s :
  Inv s -> AllProc s ->
  match ref_after_accumulate s with
  | SOk s' true => Inv s' /\ AllProc s' /\ Armed s'
  | SOk s' false => Inv s'
  | SErr s' _ => Inv s'
  end.
Proof.
  intros I AP. unfold ref_after_accumulate, ref_check_skip.
  assert (Hq : exists s1 b, (match o_skipq s with [] => (s, false) | b :: q => (upd_skipq s q, b) end) = (s1, b)
                            /\ core s1 = core s).
  { destruct (o_skipq s); eexists; eexists; split; reflexivity. }
  destruct Hq as (s1 & b & -> & C1).
  assert (I1 : Inv s1) by (eapply Inv_core; eauto).
  assert (AP1 : AllProc s1) by (unfold AllProc; now rewrite (core_gs _ _ C1)).
  destruct b.
  { cbn. eapply Inv_core; [|exact I1]. reflexivity. }
  pose proof (add_noise_inv s1 I1) as HN.
  destruct (ref_add_noise s1) as [s2 u|s2 e]; cbn [sbind]; [|eapply Inv_core; eauto].
  destruct HN as (I2 & A2 & G2).
  pose proof (scale_inv s2) as HS.
  destruct (ref_scale s2) as [s3 u3|s3 e]; cbn [sbind]; [|now subst].
  destruct HS as (HI & HA & G3).
  assert (I3 := HI I2). assert (A3 := HA A2).
  assert (HH : match (if o_has_hook s3 then ref_hook s3 else SOk s3 tt) with
               | SOk s4 _ => core s4 = core s3 | SErr s4 _ => core s4 = core s3 end).
  { destruct (o_has_hook s3); [|reflexivity]. pose proof (hook_core s3) as H. destruct (ref_hook s3); exact H. }
  destruct (if o_has_hook s3 then ref_hook s3 else SOk s3 tt) as [s4 u4|s4 e]; cbn [sbind];
    [|eapply Inv_core; eauto].
  assert (C5 : core (upd_last_skipped s4 false) = core s3) by (rewrite <- HH; reflexivity).
  split; [eapply Inv_core; eauto|]. split; [|eapply Armed_core; eauto].
  unfold AllProc. rewrite (core_gs _ _ C5), G3, G2. exact AP1.
Qed.

Lemma Inv_intro s' v gs sm gr rel nb :
  core s' = (v, gs, sm, gr, rel, nb) -> InvP v gs sm gr rel nb -> Inv s'.
Proof. unfold core, Inv. intros E. inversion E. subst. auto. Qed.
Lemma ref_zero_core (s : ost T) :
  core (sstate (ref_zero s)) =
  (o_variant s, GNone, (if o_last_skipped s then o_summed s else None), grad_zero (o_grad s),
   released (o_events s), o_next_bid s) /\ o_mgn (sstate (ref_zero s)) = o_mgn s.
Proof. unfold ref_zero. cbn. destruct (o_last_skipped s); split; reflexivity. Qed.

Lemma released_snoc_inner evs g : released (evs ++ [EInner (Some g)]) = released evs ++ grad_items g.
Proof. rewrite released_app. cbn. now rewrite app_nil_r. Qed.

Lemma pre_step_inv s :
  Inv s ->
  match ref_pre_step s with
  | SOk s' true => Inv s' /\ AllProc s' /\ Armed s'
  | SOk s' false => Inv s'
  | SErr s' _ => Inv s'
  end.
Proof.
  intros I. unfold ref_pre_step. destruct (o_variant s) eqn:V.
  4: { (* ghost *)
    unfold ref_fgc_accumulate. destruct (o_grad s) as [g|] eqn:G; [|exact I]. cbn [sbind].
    apply after_inv.
    - unfold Inv, upd_grad, upd_summed. cbn [o_variant o_gs o_summed o_grad o_events o_next_bid].
      unfold Inv in I. rewrite V, G in *.
      replace (match o_summed s with Some v => Some (sum_iadd v (grad_items g)) | None => Some (mksum (grad_items g) false) end)
        with (Some (sum_add (o_summed s) (grad_items g))) by (destruct (o_summed s); reflexivity).
      now apply InvP_fgc_acc.
    - unfold AllProc, upd_grad, upd_summed. cbn [o_gs]. unfold Inv in I. destruct I as [_ _ _ _ _ _ _ _ _ _ Hg].
      destruct (Hg V) as (G0 & _). rewrite G0. constructor. }
  all: destruct (gs_flat (o_gs s)) as [ids|e] eqn:F; [|exact I];
       unfold ref_clip; destruct (gs_check (o_gs s)) as [[]|e] eqn:K; [|exact I];
       rewrite F; cbn [sbind]; apply after_inv;
       [ unfold Inv, upd_gs, upd_summed; cbn [o_variant o_gs o_summed o_grad o_events o_next_bid];
         apply InvP_clip; auto; rewrite V; discriminate
       | unfold AllProc, upd_gs, upd_summed; cbn [o_gs]; rewrite cells_mark; apply Forall_forall;
         intros c Hc; apply in_map_iff in Hc as (c0 & <- & _); reflexivity ].
Qed.

Lemma step_inv s : Inv s -> Inv (sstate (ref_step s)).
Proof.
  intros I. unfold ref_step. pose proof (pre_step_inv s I) as H.
  destruct (ref_pre_step s) as [s1 go|s1 e]; cbn [sbind sstate]; [|exact H].
  destruct go; cbn [sstate]; [|exact H].
  destruct H as (I1 & AP & (g & G & A1 & A2 & A3 & A4 & A5 & A6)).
  unfold Inv, emit, upd_events. cbn [o_variant o_gs o_summed o_grad o_events o_next_bid].
  rewrite G, released_snoc_inner. unfold Inv in I1. rewrite G in I1. now apply InvP_release.
Qed.

Definition op_wf (o : @op T) : Prop := match o with FB sids => NoDup sids | _ => True end.

Lemma exec_inv s o : op_wf o -> Inv s -> Inv (sstate (exec s o)).
Proof.
  intros W I. destruct o as [sids| | | |b|v|v]; cbn [exec op_wf] in *.
  - destruct (o_variant s) eqn:V.
    4: { unfold fb_ghost. cbv zeta. rewrite fgc_zero_eq.
         set (s1 := upd_grad (upd_next_bid s (o_next_bid s + 1)) _).
         assert (C1 : core s1 = (o_variant s, o_gs s, o_summed s, grad_add_raw (o_grad s) (map (fun sid => (o_next_bid s, sid)) sids),
                                 released (o_events s), (o_next_bid s + 1)%Z) /\ o_last_skipped s1 = o_last_skipped s /\ o_mgn s1 = o_mgn s)
           by (subst s1; repeat split).
         clearbody s1. destruct C1 as (C1 & L1 & M1).
         destruct (ref_zero_core s1) as (C2 & M2).
         assert (R : ref_zero s1 = SOk (sstate (ref_zero s1)) tt) by reflexivity. rewrite R. cbn [sbind sstate].
         set (s2 := sstate (ref_zero s1)) in *. clearbody s2.
         unfold core in C1, C2. inversion C1 as [[V1 G1 S1 R1 E1 B1]]. rewrite V1, S1, R1, E1, B1, L1 in C2.
         eapply Inv_intro.
         { unfold core, upd_grad. cbn [o_variant o_gs o_summed o_grad o_events o_next_bid].
           inversion C2 as [[V2 G2 S2 R2 E2 B2]]. rewrite V2, G2, S2, R2, E2, B2, M2, M1. reflexivity. }
         unfold Inv in I. rewrite V in *.
         replace (grad_add_items (grad_zero (grad_add_raw (o_grad s) (map (fun sid => (o_next_bid s, sid)) sids)))
                                 (clip_items (o_mgn s) (map (fun sid => (o_next_bid s, sid)) sids)))
           with (Some (mkgrad [] ([] ++ clip_items (o_mgn s) (map (fun sid => (o_next_bid s, sid)) sids)) [] []))
           by (destruct (o_grad s); reflexivity).
         destruct (o_last_skipped s).
         - exact (InvP_fb_ghost (o_gs s) (o_summed s) (o_grad s) _ _ (o_mgn s) sids true W I).
         - exact (InvP_fb_ghost (o_gs s) (o_summed s) (o_grad s) _ _ (o_mgn s) sids false W I). }
    all: unfold fb_hooks;
         match goal with |- context [if ?c then _ else _] => destruct c end; cbn [sstate];
         unfold Inv, upd_grad, upd_gs, upd_next_bid; cbn [o_variant o_gs o_summed o_grad o_events o_next_bid];
         (eapply InvP_fb; [rewrite V; discriminate | exact W | exact I]).
  - rewrite step_eq. now apply step_inv.
  - rewrite zero_eq. destruct (ref_zero_core s) as (C & _). eapply Inv_intro; [exact C|].
    destruct (o_last_skipped s).
    + apply (InvP_zero _ _ _ _ _ _ true I).
    + apply (InvP_zero _ _ _ _ _ _ false I).
  - cbn [sstate]. unfold Inv, upd_grad, upd_gs. cbn [o_variant o_gs o_summed o_grad o_events o_next_bid].
    apply (InvP_zero _ _ _ _ _ _ true I).
  - eapply Inv_core; [|exact I]. reflexivity.
  - eapply Inv_core; [|exact I]. reflexivity.
  - eapply Inv_core; [|exact I]. reflexivity.
Qed.

Lemma run_inv ops s : Forall op_wf ops -> Inv s -> Inv (run ops s).
Proof.
  revert s. induction ops as [|o ops IH]; intros s W I; [exact I|]. inversion W; subst. cbn [run fold_left].
  apply IH; auto. now apply exec_inv.
Qed.

Lemma init_inv v a nm mgn ebs rate mean secure accum : Inv (init_state v a nm mgn ebs rate mean secure accum).
Proof.
  unfold Inv, init_state. cbn [o_variant o_gs o_summed o_grad o_events o_next_bid released flat_map].
  constructor; cbn [cells skeys sitems sproc gitems graw map].
  - constructor.
  - constructor.
  - constructor.
  - constructor.
  - constructor.
  - constructor.
  - intros c [].
  - intros _. split; [constructor | apply disj_nil_l].
  - constructor.
  - constructor.
  - intros _. split; [reflexivity|]. split; [reflexivity|]. split; [constructor|]. split; [constructor|].
    intros _. split; [constructor|]. split; apply disj_nil_l.
Qed.

(* C11: no per-sample gradient is ever released twice, and only clipped gradients are released *)
Theorem no_double_release v a nm mgn ebs rate mean secure accum ops :
  Forall op_wf ops ->
  let s := run ops (init_state v a nm mgn ebs rate mean secure accum) in
  NoDup (map ikey (released (o_events s))) /\ Forall clipped (released (o_events s)).
Proof.
  intros W s. assert (I : Inv s) by (apply run_inv; [exact W | apply init_inv]).
  destruct I as [_ _ _ Hr _ _ _ _ _ Hk _]. split; assumption.
Qed.
End Inv.
