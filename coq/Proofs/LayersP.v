(* Proofs/LayersP.v -- every grad sampler formula is the adjoint of its layer's (affine-in-the-parameters) forward map, for ONE sample
   alone: <gs, delta> = <g, fwd(theta + delta, x) - fwd(theta, x)> for every perturbation delta of the layer's parameters, every
   cotangent g, every input and all extents.  Over an arbitrary commutative ring (no limits are needed: the maps are affine). *)
From Coq Require Import List Arith Lia Ring.
From OV Require Import Model.Layers.
Import ListNotations.
Section LayersP.
Variable K : Type.
Variables (k0 k1 : K) (kadd kmul ksub : K -> K -> K) (kopp : K -> K).
Hypothesis Kring : ring_theory k0 k1 kadd kmul ksub kopp (@eq K).
Add Ring KR : Kring.
Local Notation "a + b" := (kadd a b).
Local Notation "a * b" := (kmul a b).
Local Notation "a - b" := (ksub a b).
Local Notation sumn := (sumn K k0 kadd).

Lemma sumn_ext n f f' : (forall i, i < n -> f i = f' i) -> sumn n f = sumn n f'.
Proof. induction n as [|n IH]; intros H; cbn; [reflexivity|]. rewrite IH by (intros; apply H; lia). rewrite H by lia. reflexivity. Qed.
Lemma sumn_add n f f' : sumn n (fun i => f i + f' i) = sumn n f + sumn n f'.
Proof. induction n as [|n IH]; cbn; [ring|]. rewrite IH. ring. Qed.
Lemma sumn_sub n f f' : sumn n (fun i => f i - f' i) = sumn n f - sumn n f'.
Proof. induction n as [|n IH]; cbn; [ring|]. rewrite IH. ring. Qed.
Lemma sumn_mul_l n c f : sumn n (fun i => c * f i) = c * sumn n f.
Proof. induction n as [|n IH]; cbn; [ring|]. rewrite IH. ring. Qed.
Lemma sumn_mul_r n c f : sumn n (fun i => f i * c) = sumn n f * c.
Proof. induction n as [|n IH]; cbn; [ring|]. rewrite IH. ring. Qed.
Lemma sumn_zero n : sumn n (fun _ => k0) = k0.
Proof. induction n as [|n IH]; cbn; [reflexivity|]. rewrite IH. ring. Qed.
Lemma sumn_swap n m (f : nat -> nat -> K) : sumn n (fun i => sumn m (fun j => f i j)) = sumn m (fun j => sumn n (fun i => f i j)).
Proof.
  induction n as [|n IH]; cbn; [now rewrite sumn_zero|]. rewrite IH, <- sumn_add. reflexivity.
Qed.
(* Kronecker delta collapse *)
Lemma sumn_delta n k (f : nat -> K) : k < n -> sumn n (fun i => if Nat.eqb i k then f i else k0) = f k.
Proof.
  induction n as [|n IH]; intros H; [lia|]. cbn. destruct (Nat.eqb_spec n k) as [->|Hne].
  - rewrite (sumn_ext k _ (fun _ => k0)); [rewrite sumn_zero; ring|]. intros i Hi. destruct (Nat.eqb_spec i k); [lia|reflexivity].
  - rewrite IH by lia. ring.
Qed.

(* the adjoint identity determines the gradient: two families agreeing against every perturbation agree *)
Theorem adjoint_unique n (v v' : nat -> K) : (forall d : nat -> K, sumn n (fun i => v i * d i) = sumn n (fun i => v' i * d i)) -> forall i, i < n -> v i = v' i.
Proof.
  intros H i Hi. specialize (H (fun j => if Nat.eqb j i then k1 else k0)).
  rewrite (sumn_ext n _ (fun j => if Nat.eqb j i then v j else k0)) in H by (intros j _; destruct (Nat.eqb j i); ring).
  rewrite (sumn_ext n (fun j => v' j * _) (fun j => if Nat.eqb j i then v' j else k0)) in H by (intros j _; destruct (Nat.eqb j i); ring).
  now rewrite !sumn_delta in H by assumption.
Qed.

(* ---- Linear: weight and bias, any number T of positions per sample (input rank 2, 3, ...), any din, dout *)
Theorem linear_gs_is_grad (T din dout : nat) (W dW : nat -> nat -> K) (b db : nat -> K) (x g : nat -> nat -> K) :
  sumn dout (fun j => sumn din (fun i => lin_gs_w K k0 kadd kmul T g x j i * dW j i)) + sumn dout (fun j => lin_gs_b K k0 kadd T g j * db j)
  = pair2 K k0 kadd kmul T dout g (fun t j => lin_fwd K k0 kadd kmul din (fun j i => W j i + dW j i) (fun j => b j + db j) x t j - lin_fwd K k0 kadd kmul din W b x t j).
Proof.
  unfold pair2, lin_fwd, lin_gs_w, lin_gs_b.
  (* right side: sum_t sum_j g t j * (sum_i dW j i * x t i + db j) *)
  rewrite (sumn_ext T _ (fun t => sumn dout (fun j => sumn din (fun i => g t j * x t i * dW j i) + g t j * db j))).
  2:{ intros t _. apply sumn_ext. intros j _.
      assert (E : sumn din (fun i => (W j i + dW j i) * x t i) + (b j + db j) - (sumn din (fun i => W j i * x t i) + b j)
                  = sumn din (fun i => dW j i * x t i) + db j).
      { rewrite (sumn_ext din (fun i => (W j i + dW j i) * x t i) (fun i => W j i * x t i + dW j i * x t i)) by (intros; ring). rewrite sumn_add. ring. }
      rewrite E. transitivity (g t j * sumn din (fun i => dW j i * x t i) + g t j * db j); [ring|]. f_equal.
      rewrite <- sumn_mul_l. apply sumn_ext. intros; ring. }
  rewrite (sumn_ext T _ (fun t => sumn dout (fun j => sumn din (fun i => g t j * x t i * dW j i)) + sumn dout (fun j => g t j * db j))) by (intros; apply sumn_add).
  rewrite sumn_add. f_equal.
  - symmetry. rewrite sumn_swap. apply sumn_ext. intros j _. rewrite sumn_swap. apply sumn_ext. intros i _. now rewrite sumn_mul_r.
  - symmetry. rewrite sumn_swap. apply sumn_ext. intros j _. now rewrite sumn_mul_r.
Qed.

(* ---- convolutions (generic gather layer): any stride / padding / dilation / groups / number of spatial dimensions *)
Theorem conv_gs_is_grad (P O C Kk : nat) (chan src : nat -> nat -> nat) (W dW : nat -> nat -> nat -> K) (b db : nat -> K) (xp : nat -> nat -> K) (g : nat -> nat -> K) :
  sumn O (fun o => sumn C (fun c => sumn Kk (fun k => conv_gs_w K k0 kadd kmul P chan src g xp o c k * dW o c k))) + sumn O (fun o => conv_gs_b K k0 kadd P g o * db o)
  = pair2 K k0 kadd kmul P O g (fun p o => conv_fwd K k0 kadd kmul C Kk chan src (fun o c k => W o c k + dW o c k) (fun o => b o + db o) xp p o
                                          - conv_fwd K k0 kadd kmul C Kk chan src W b xp p o).
Proof.
  unfold pair2, conv_fwd, conv_gs_w, conv_gs_b.
  rewrite (sumn_ext P _ (fun p => sumn O (fun o => sumn C (fun c => sumn Kk (fun k => g p o * xp (chan o c) (src p k) * dW o c k)) + g p o * db o))).
  2:{ intros p _. apply sumn_ext. intros o _.
      assert (E : sumn C (fun c => sumn Kk (fun k => (W o c k + dW o c k) * xp (chan o c) (src p k))) + (b o + db o)
                  - (sumn C (fun c => sumn Kk (fun k => W o c k * xp (chan o c) (src p k))) + b o)
                  = sumn C (fun c => sumn Kk (fun k => dW o c k * xp (chan o c) (src p k))) + db o).
      { rewrite (sumn_ext C (fun c => sumn Kk (fun k => (W o c k + dW o c k) * xp (chan o c) (src p k)))
                          (fun c => sumn Kk (fun k => W o c k * xp (chan o c) (src p k)) + sumn Kk (fun k => dW o c k * xp (chan o c) (src p k)))).
        2:{ intros c _. rewrite <- sumn_add. apply sumn_ext. intros; ring. }
        rewrite sumn_add. ring. }
      rewrite E. transitivity (g p o * sumn C (fun c => sumn Kk (fun k => dW o c k * xp (chan o c) (src p k))) + g p o * db o); [ring|]. f_equal.
      rewrite <- sumn_mul_l. apply sumn_ext. intros c _. rewrite <- sumn_mul_l. apply sumn_ext. intros; ring. }
  rewrite (sumn_ext P _ (fun p => sumn O (fun o => sumn C (fun c => sumn Kk (fun k => g p o * xp (chan o c) (src p k) * dW o c k))) + sumn O (fun o => g p o * db o)))
    by (intros; apply sumn_add).
  rewrite sumn_add. f_equal.
  - symmetry. rewrite sumn_swap. apply sumn_ext. intros o _. rewrite sumn_swap. apply sumn_ext. intros c _. rewrite sumn_swap. apply sumn_ext. intros k _.
    now rewrite sumn_mul_r.
  - symmetry. rewrite sumn_swap. apply sumn_ext. intros o _. now rewrite sumn_mul_r.
Qed.

(* ---- Embedding, with or without padding_idx: the padding row is a constant, its gradient is zero *)
Definition padz (pad : option nat) (v : nat) (y : K) : K := match pad with Some p => if Nat.eqb v p then k0 else y | None => y end.
Lemma emb_gs_alt pad T g idx v d :
  emb_gs K k0 kadd pad T g idx v d = sumn T (fun t => if Nat.eqb v (idx t) then padz pad v (g t d) else k0).
Proof.
  unfold emb_gs, padz. destruct pad as [p|]; [destruct (Nat.eqb v p) eqn:E|].
  - rewrite (sumn_ext T _ (fun _ => k0)) by (intros t _; destruct (Nat.eqb v (idx t)); reflexivity). now rewrite sumn_zero.
  - apply sumn_ext. intros t _. now rewrite (Nat.eqb_sym (idx t) v).
  - apply sumn_ext. intros t _. now rewrite (Nat.eqb_sym (idx t) v).
Qed.
Theorem embedding_gs_is_grad (pad : option nat) (c : nat -> K) (T V D : nat) (W dW : nat -> nat -> K) (idx : nat -> nat) (g : nat -> nat -> K) :
  (forall t, t < T -> idx t < V) ->
  sumn V (fun v => sumn D (fun d => emb_gs K k0 kadd pad T g idx v d * dW v d))
  = pair2 K k0 kadd kmul T D g (fun t d => emb_fwd K pad c (fun v d => W v d + dW v d) idx t d - emb_fwd K pad c W idx t d).
Proof.
  intros Hidx. unfold pair2.
  set (h := fun t d v => if Nat.eqb v (idx t) then padz pad v (g t d) * dW v d else k0).
  (* right side as a triple sum *)
  transitivity (sumn T (fun t => sumn D (fun d => sumn V (fun v => h t d v)))).
  2:{ apply sumn_ext. intros t Ht. apply sumn_ext. intros d _. unfold h.
      rewrite (sumn_delta V (idx t) (fun v => padz pad v (g t d) * dW v d)) by (apply Hidx; exact Ht).
      unfold emb_fwd, padz. destruct pad as [p|]; [destruct (Nat.eqb (idx t) p)|]; ring. }
  (* left side as the same triple sum, reordered *)
  transitivity (sumn V (fun v => sumn D (fun d => sumn T (fun t => h t d v)))).
  { apply sumn_ext. intros v _. apply sumn_ext. intros d _. rewrite emb_gs_alt, <- sumn_mul_r. apply sumn_ext. intros t _.
    unfold h. destruct (Nat.eqb v (idx t)); ring. }
  transitivity (sumn V (fun v => sumn T (fun t => sumn D (fun d => h t d v)))).
  { apply sumn_ext. intros v _. exact (sumn_swap D T (fun d t => h t d v)). }
  rewrite (sumn_swap V T (fun v t => sumn D (fun d => h t d v))).
  apply sumn_ext. intros t _. exact (sumn_swap V D (fun v d => h t d v)).
Qed.

(* ---- EmbeddingBag (sum / mean), one bag: a corollary of the embedding theorem with the padding constant zero and the cotangent
   s * gb at every entry of the bag *)
Theorem embedding_bag_gs_is_grad (pad : option nat) (s : K) (T V D : nat) (W dW : nat -> nat -> K) (idx : nat -> nat) (gb : nat -> K) :
  (forall t, t < T -> idx t < V) ->
  sumn V (fun v => sumn D (fun d => bag_gs K k0 kadd kmul pad s T gb idx v d * dW v d))
  = sumn D (fun d => gb d * (bag_fwd K k0 kadd kmul pad s T (fun v d => W v d + dW v d) idx d - bag_fwd K k0 kadd kmul pad s T W idx d)).
Proof.
  intros Hidx. unfold bag_gs.
  rewrite (embedding_gs_is_grad pad (fun _ => k0) T V D W dW idx (fun _ d => s * gb d) Hidx).
  unfold pair2, bag_fwd. rewrite sumn_swap. apply sumn_ext. intros d _.
  rewrite <- sumn_mul_l. rewrite <- sumn_mul_l. rewrite <- sumn_sub. rewrite <- sumn_mul_l. apply sumn_ext. intros t _. ring.
Qed.

(* ---- affine part of GroupNorm / LayerNorm / InstanceNorm *)
Theorem norm_affine_gs_is_grad (P C : nat) (w dw b db : nat -> K) (xhat g : nat -> nat -> K) :
  sumn C (fun c => norm_gs_w K k0 kadd kmul P g xhat c * dw c) + sumn C (fun c => norm_gs_b K k0 kadd P g c * db c)
  = pair2 K k0 kadd kmul P C g (fun p c => norm_fwd K kadd kmul (fun c => w c + dw c) (fun c => b c + db c) xhat p c - norm_fwd K kadd kmul w b xhat p c).
Proof.
  unfold pair2, norm_fwd, norm_gs_w, norm_gs_b. rewrite sumn_swap, <- sumn_add. apply sumn_ext. intros c _.
  rewrite <- !sumn_mul_r, <- sumn_add. apply sumn_ext. intros p _. ring.
Qed.

(* ---- several uses of one layer within a forward (tied weights, time steps of a recurrent cell): the adjoint of a sum of maps is the
   sum of the per-use adjoints -- what create_or_accumulate_grad_sample adds up before promotion *)
Theorem uses_accumulate (U n : nat) (gs : nat -> nat -> K) (pairing : nat -> K) (d : nat -> K) :
  (forall u, u < U -> sumn n (fun i => gs u i * d i) = pairing u) ->
  sumn n (fun i => sumn U (fun u => gs u i) * d i) = sumn U pairing.
Proof.
  intros H. rewrite (sumn_ext n _ (fun i => sumn U (fun u => gs u i * d i))) by (intros; now rewrite sumn_mul_r).
  rewrite sumn_swap. apply sumn_ext. exact H.
Qed.

(* ---- mean loss reduction: the hook multiplies the incoming cotangent by the batch length n; with Loss = inv_n * sum_i L_i this is
   sample i's own cotangent (n * inv_n = 1); with sum reduction nothing is multiplied *)
Theorem mean_rescale (n inv_n g : K) : n * inv_n = k1 -> n * (inv_n * g) = g.
Proof. intros H. transitivity ((n * inv_n) * g); [ring|]. rewrite H. ring. Qed.

(* ---- the per-sample gradients of a batch sum to the batch gradient (linearity of the pairing in the cotangent) *)
Theorem gs_sum_is_batch_grad (B n : nat) (gs : nat -> nat -> K) (pairing : nat -> K) (d : nat -> K) :
  (forall s, s < B -> sumn n (fun i => gs s i * d i) = pairing s) ->
  sumn n (fun i => sumn B (fun s => gs s i) * d i) = sumn B pairing.
Proof. exact (uses_accumulate B n gs pairing d). Qed.
End LayersP.

(* ---- hook bookkeeping (Model/GsHooks.v): k uses of a layer in one forward, then the k matching backward hooks *)
From OV Require Import Model.GsHooks.
Section HooksP.
Variable K : Type.
Variable k0 : K.
Variable kadd : K -> K -> K.
Lemma fwd_iter_eq k n c l : Nat.iter k (fwd K) (mkp K n c l) = mkp K (k + n) c l.
Proof. induction k as [|k IH]; [reflexivity|]. cbn [Nat.iter nat_rect]. unfold Nat.iter in IH. rewrite IH. reflexivity. Qed.
(* while uses are outstanding the samples are ADDED (prefix-wise) into the accumulator; the last hook promotes it and deletes it *)
Lemma bwd_rest mb (gs : list (list K)) : forall (c : list K) (l : list (list K)), gs <> [] ->
  fold_left (bwd K k0 kadd mb) gs (mkp K (length gs) (Some c) l) = mkp K 0 None (l ++ [fold_left (prefix_add K kadd) gs c]).
Proof.
  induction gs as [|g gs IH]; intros c l Hne; [contradiction|].
  destruct gs as [|g' gs'].
  - reflexivity.
  - change (fold_left (bwd K k0 kadd mb) (g :: g' :: gs') (mkp K (length (g :: g' :: gs')) (Some c) l))
      with (fold_left (bwd K k0 kadd mb) (g' :: gs') (mkp K (length (g' :: gs')) (Some (prefix_add K kadd c g)) l)).
    rewrite IH by discriminate. reflexivity.
Qed.
(* for ANY number of uses (tied weights, recurrent time steps with shrinking batches) and any samples already stacked from earlier batches:
   after the matching backward hooks the counter is 0, the accumulator is gone, and ONE new entry -- the prefix-wise sum of the per-use
   samples, zero-padded to the batch length -- has been appended (stacked, not added) to grad_sample *)
Theorem uses_then_promote (mb : nat) (g1 : list K) (gs : list (list K)) (stacked : list (list K)) :
  fold_left (bwd K k0 kadd mb) (g1 :: gs) (Nat.iter (S (length gs)) (fwd K) (mkp K 0 None stacked))
  = mkp K 0 None (stacked ++ [fold_left (prefix_add K kadd) gs (pad K k0 mb g1)]).
Proof.
  rewrite fwd_iter_eq. rewrite Nat.add_0_r. destruct gs as [|g gs].
  - reflexivity.
  - change (fold_left (bwd K k0 kadd mb) (g1 :: g :: gs) (mkp K (S (length (g :: gs))) None stacked))
      with (fold_left (bwd K k0 kadd mb) (g :: gs) (mkp K (length (g :: gs)) (Some (pad K k0 mb g1)) stacked)).
    apply bwd_rest. discriminate.
Qed.
End HooksP.
