(* Proofs/NoiseP.v -- the noise ledger of one add_noise call (C04). *)
From Coq Require Import ZArith List Bool String Lia Reals Lra.
From OV Require Import Base.Num Base.NumR Base.Py Model.OptimState Model.OptimRef Gen.Optim Proofs.OptimSM Proofs.OptimEq Proofs.OptimTrace.
Import ListNotations.

Section NoiseP.
Context {T : Type} {N : Num T}.

(* events appended by one noise generation: nothing for std = 0; one draw of the parameter's shape; in secure
   mode one discarded (1,1) draw followed by four draws *)
Definition noise_shape (secure : bool) (std : T) (p : Z) : list (event T) :=
  if neqb std (nofZ 0) then []
  else if secure then [EDiscard std p; ENoise std (p + 1); ENoise std (p + 1 + 1); ENoise std (p + 1 + 1 + 1); ENoise std (p + 1 + 1 + 1 + 1)]%Z
  else [ENoise std p].
(* the noise value as a linear combination of standard draws: (position, std, divisor) *)
Definition noise_value (secure : bool) (std : T) (p : Z) : noise T :=
  if neqb std (nofZ 0) then []
  else if secure then [((p + 1)%Z, std, 2%Z); ((p + 1 + 1)%Z, std, 2%Z); ((p + 1 + 1 + 1)%Z, std, 2%Z); ((p + 1 + 1 + 1 + 1)%Z, std, 2%Z)]
  else [(p, std, 1%Z)].

Theorem add_noise_ledger (s : ost T) :
  match add_noise s with
  | SOk s' _ =>
      exists v0, o_summed s = Some v0 /\ s_proc v0 = false /\
      let std := nmul (o_nm s) (o_mgn s) in
      o_events s' = o_events s ++ noise_shape (o_secure s) std (o_noise_pos s) /\
      o_grad s' = Some (mkgrad [] (s_items v0) (noise_value (o_secure s) std (o_noise_pos s)) []) /\
      o_summed s' = Some (mksum (s_items v0) true)
  | SErr s' e => s' = s
  end.
Proof.
  rewrite add_noise_eq. unfold ref_add_noise. destruct (o_summed s) as [v0|] eqn:S; cbn [sum_check].
  2: { reflexivity. }
  destruct (s_proc v0) eqn:P; [reflexivity|].
  unfold ref_gen_noise, noise_shape, noise_value.
  destruct (neqb (nmul (o_nm s) (o_mgn s)) (nofZ 0)).
  { cbn [sbind]. exists v0. rewrite S. cbn. rewrite app_nil_r. repeat split; auto. }
  destruct (o_secure s).
  - unfold draw, emit. cbn. exists v0. rewrite S. cbn. rewrite <- !app_assoc. cbn. repeat split; auto.
  - unfold draw, emit. cbn. exists v0. rewrite S. cbn. repeat split; auto.
Qed.

(* noise_multiplier = 0 (std == 0): no draw is consumed and the noise is exactly zero *)
Corollary zero_std_no_noise (secure : bool) (std : T) p :
  neqb std (nofZ 0) = true -> noise_shape secure std p = [] /\ noise_value secure std p = [].
Proof. intros H. unfold noise_shape, noise_value. now rewrite H. Qed.

(* distributed optimizers: only rank 0 draws noise *)
Theorem ddp_noise_rank0_only (super_add_noise : ost T -> sres (ost T) unit) (s : ost T) :
  (o_rank s <> 0)%Z ->
  ddp_add_noise super_add_noise s = SOk (upd_grad s (grad_of_sum (o_summed s) [])) tt.
Proof. intros H. unfold ddp_add_noise. destruct (Z.eqb_spec (o_rank s) 0); [contradiction|reflexivity]. Qed.
Theorem ddp_noise_rank0 (super_add_noise : ost T -> sres (ost T) unit) (s : ost T) :
  (o_rank s = 0)%Z ->
  ddp_add_noise super_add_noise s = sbind (super_add_noise s) (fun s _ => SOk s tt).
Proof. intros H. unfold ddp_add_noise. rewrite H. reflexivity. Qed.
End NoiseP.

(* variance bookkeeping of the secure-mode expression over the reals: with independent standard draws xi_k,
   the value is sum_k (std / d_k) xi_k, so its variance is sum_k (std/d_k)^2 *)
Definition variance (n : noise R) : R := fold_right (fun '(_, sd, d) acc => (sd / IZR d) * (sd / IZR d) + acc)%R 0%R n.
Theorem secure_mode_variance (std : R) p : std <> 0%R ->
  variance (noise_value true std p) = (std * std)%R /\ variance (noise_value false std p) = (std * std)%R.
Proof.
  intros H. unfold noise_value.
  assert (E : neqb std (nofZ 0) = false).
  { cbn. unfold Reqb. destruct (Req_EM_T std 0); [contradiction|reflexivity]. }
  rewrite E. cbn. split; field.
Qed.
