(* Proofs/CkptP.v -- checkpoint round trips on the code generated from accountant.py / privacy_engine.py (C16). *)
From Coq Require Import ZArith List String Bool Lia.
From OV Require Import Base.Num Base.Py Model.SchedState Model.Ckpt Gen.Sched Gen.Ckpt Proofs.SchedP.
Import ListNotations.
Local Open Scope string_scope.
Local Open Scope list_scope.

Section Heap.
Context {T : Type}.
Lemma hget_alloc_old (h : heap T) v l : (l < List.length h)%nat -> hget (fst (halloc h v)) l = hget h l.
Proof. intros H. unfold hget, halloc. simpl. now rewrite app_nth1. Qed.
Lemma hget_alloc_new (h : heap T) v : hget (fst (halloc h v)) (snd (halloc h v)) = v.
Proof. unfold hget, halloc. simpl. rewrite app_nth2 by lia. now rewrite Nat.sub_diag. Qed.
Lemma hget_hset_other (h : heap T) l l' v : l <> l' -> (l < List.length h)%nat -> hget (hset h l v) l' = hget h l'.
Proof.
  unfold hget, hset. revert l l'. induction h as [|x h IH]; intros l l' Hne Hl; [simpl in Hl; lia|].
  destruct l as [|l]; destruct l' as [|l']; try lia; simpl; try reflexivity.
  apply IH; simpl in Hl; lia.
Qed.
Lemma hget_hset_same (h : heap T) l v : (l < List.length h)%nat -> hget (hset h l v) l = v.
Proof.
  unfold hget, hset. revert l. induction h as [|x h IH]; intros l Hl; [simpl in Hl; lia|].
  destruct l as [|l]; simpl; [reflexivity|]. apply IH. simpl in Hl. lia.
Qed.
End Heap.

Section Acc.
Context {T : Type} {N : Num T}.

(* state_dict(): the saved history is a fresh cell holding the current history; later in-place changes of the accountant's
   own list (accountant.step pops / appends in place) never reach it, and taking the state leaves the accountant untouched *)
Theorem acc_state_dict_isolated (h : heap T) (a : acc) : (a_loc a < List.length h)%nat ->
  let h1 := fst (acc_state_dict h a) in let d := snd (acc_state_dict h a) in
  exists l, sd_get d "history" = Some (VLoc l) /\ sd_get d "mechanism" = Some (VMech (a_mech a)) /\
    l <> a_loc a /\ hget h1 l = hget h (a_loc a) /\ hget h1 (a_loc a) = hget h (a_loc a) /\
    (forall v, hget (hset h1 (a_loc a) v) l = hget h (a_loc a)).
Proof.
  intros Hl. cbv beta zeta. unfold acc_state_dict.
  destruct (halloc h (hget h (a_loc a))) as [h1 l] eqn:E.
  assert (Hh1 : h1 = fst (halloc h (hget h (a_loc a)))) by now rewrite E.
  assert (Hl1 : l = snd (halloc h (hget h (a_loc a)))) by now rewrite E.
  exists l. cbn [fst snd]. repeat split.
  - subst l. unfold halloc. simpl. lia.
  - subst h1 l. apply hget_alloc_new.
  - subst h1. now apply hget_alloc_old.
  - intros v. rewrite hget_hset_other.
    + subst h1 l. apply hget_alloc_new.
    + subst l. unfold halloc. simpl. lia.
    + subst h1. unfold halloc. simpl. rewrite app_length. simpl. lia.
Qed.

(* load_state_dict(): the loaded history is again a FRESH cell (deepcopy): it holds the saved history, and it is neither the
   caller's list inside the state_dict nor any cell that existed before -- so stepping the loaded accountant in place
   never reaches the state_dict (which may be loaded into a second accountant) or the accountant it was taken from *)
Lemma acc_load_fresh (h : heap T) (b : acc) (d : asd) l m : sd_get d "history" = Some (VLoc l) -> sd_get d "mechanism" = Some (VMech m) ->
  a_mech b = m -> acc_load_state_dict h b (Some d) = Ok (fst (halloc h (hget h l)), mkacc (List.length h) (a_mech b)).
Proof.
  intros Hh Hm Hb. unfold acc_load_state_dict, sd_none_or_empty, sd_lacks, sd_mech_differs, sd_hist_loc.
  destruct d as [|kv d]; [discriminate|]. cbn [lnull]. rewrite Hh, Hm. cbn [oisSome negb bind]. subst m. unfold pystr_eqb. rewrite String.eqb_refl. reflexivity.
Qed.

Theorem acc_roundtrip (h : heap T) (a b : acc) : (a_loc a < List.length h)%nat -> a_mech b = a_mech a ->
  let h1 := fst (acc_state_dict h a) in let d := snd (acc_state_dict h a) in
  exists h2 b' l, sd_get d "history" = Some (VLoc l) /\ acc_load_state_dict h1 b (Some d) = Ok (h2, b') /\ a_mech b' = a_mech a /\
    hget h2 (a_loc b') = hget h (a_loc a) /\ a_loc b' <> l /\ a_loc b' <> a_loc a /\
    (forall v, hget (hset h2 (a_loc b') v) l = hget h (a_loc a) /\ hget (hset h2 (a_loc b') v) (a_loc a) = hget h (a_loc a)).
Proof.
  intros Hl Hm. cbv beta zeta. unfold acc_state_dict.
  destruct (halloc h (hget h (a_loc a))) as [h1 l] eqn:E. cbn [fst snd].
  assert (h1 = h ++ [hget h (a_loc a)] /\ l = List.length h) as [-> ->] by (unfold halloc in E; now inversion E).
  set (h1 := h ++ [hget h (a_loc a)]).
  assert (L1 : List.length h1 = S (List.length h)) by (unfold h1; rewrite app_length; simpl; lia).
  assert (G1 : hget h1 (List.length h) = hget h (a_loc a)) by (unfold h1, hget; rewrite app_nth2 by lia; now rewrite Nat.sub_diag).
  assert (G0 : hget h1 (a_loc a) = hget h (a_loc a)) by (unfold h1, hget; now rewrite app_nth1).
  exists (fst (halloc h1 (hget h1 (List.length h)))), (mkacc (List.length h1) (a_mech b)), (List.length h).
  split; [reflexivity|]. split.
  { apply acc_load_fresh with (m := a_mech a); [reflexivity|reflexivity|exact Hm]. }
  cbn [a_loc a_mech]. split; [exact Hm|]. split.
  { transitivity (hget h1 (List.length h)); [|exact G1]. exact (hget_alloc_new h1 (hget h1 (List.length h))). }
  split; [lia|]. split; [lia|]. intros v.
  assert (L2 : (List.length h1 < List.length (fst (halloc h1 (hget h1 (List.length h)))))%nat) by (unfold halloc; simpl; rewrite app_length; simpl; lia).
  split; (rewrite hget_hset_other; [|lia|exact L2]); rewrite hget_alloc_old by lia; assumption.
Qed.

(* one state_dict loaded into two accountants: two different cells *)
Theorem acc_load_twice_isolated (h : heap T) (b1 b2 : acc) (d : asd) l m h1 c1 h2 c2 :
  sd_get d "history" = Some (VLoc l) -> sd_get d "mechanism" = Some (VMech m) -> a_mech b1 = m -> a_mech b2 = m -> (l < List.length h)%nat ->
  acc_load_state_dict h b1 (Some d) = Ok (h1, c1) -> acc_load_state_dict h1 b2 (Some d) = Ok (h2, c2) ->
  a_loc c1 <> a_loc c2 /\ a_loc c1 <> l /\ a_loc c2 <> l /\ hget h2 (a_loc c1) = hget h l /\ hget h2 (a_loc c2) = hget h l /\
  (forall v, hget (hset h2 (a_loc c1) v) (a_loc c2) = hget h l /\ hget (hset h2 (a_loc c1) v) l = hget h l).
Proof.
  intros Hh Hm M1 M2 Hl E1 E2.
  rewrite (acc_load_fresh h b1 d l m Hh Hm M1) in E1. inversion E1; subst h1 c1; clear E1.
  rewrite (acc_load_fresh _ b2 d l m Hh Hm M2) in E2. inversion E2; subst h2 c2; clear E2.
  cbn [a_loc]. unfold halloc. cbn [fst]. rewrite !app_length. cbn [List.length].
  assert (A : hget (h ++ [hget h l]) l = hget h l) by (unfold hget; now rewrite app_nth1).
  rewrite A.
  assert (B : forall x, hget ((h ++ [hget h l]) ++ [x]) (List.length h) = hget h l).
  { intros x. unfold hget. rewrite app_nth1 by (rewrite app_length; simpl; lia). rewrite app_nth2 by lia. now rewrite Nat.sub_diag. }
  assert (C : forall x, hget ((h ++ [hget h l]) ++ [x]) (List.length h + 1) = x).
  { intros x. unfold hget. rewrite app_nth2 by (rewrite app_length; simpl; lia). rewrite app_length. simpl. now rewrite Nat.sub_diag. }
  assert (D : forall x, hget ((h ++ [hget h l]) ++ [x]) l = hget h l).
  { intros x. unfold hget. rewrite app_nth1 by (rewrite app_length; simpl; lia). now rewrite app_nth1. }
  repeat split; try lia; try apply B; try apply C; rewrite hget_hset_other; try lia; try apply C; try apply D; rewrite !app_length; simpl; lia.
Qed.

Theorem acc_load_rejects_none (h : heap T) (a : acc) : acc_load_state_dict h a None = Err ValueError.
Proof. reflexivity. Qed.
Theorem acc_load_rejects_empty (h : heap T) (a : acc) : acc_load_state_dict h a (Some []) = Err ValueError.
Proof. reflexivity. Qed.
Theorem acc_load_rejects_no_history (h : heap T) (a : acc) m : acc_load_state_dict h a (Some [("mechanism", VMech m)]) = Err ValueError.
Proof. reflexivity. Qed.
Theorem acc_load_rejects_no_mechanism (h : heap T) (a : acc) l : acc_load_state_dict h a (Some [("history", VLoc l)]) = Err ValueError.
Proof. reflexivity. Qed.
Theorem acc_load_rejects_other_mechanism (h h' : heap T) (a b : acc) : a_mech b <> a_mech a ->
  acc_load_state_dict h' b (Some (snd (acc_state_dict h a))) = Err ValueError.
Proof.
  intros Hm. unfold acc_state_dict. destruct (halloc h (hget h (a_loc a))) as [h1 l]. cbn.
  unfold acc_load_state_dict. cbn. unfold pystr_eqb. destruct (String.eqb_spec (a_mech b) (a_mech a)) as [E|E]; [contradiction|reflexivity].
Qed.

(* through torch.save / torch.load *)
Theorem acc_value_roundtrip (hs : hist T) (m : pystr) : acc_load_value m (Some (acc_save_value (hs, m))) = Ok hs.
Proof. unfold acc_save_value, acc_load_value. cbn. unfold acc_load_state_dict. cbn. unfold pystr_eqb. rewrite String.eqb_refl. reflexivity. Qed.
Theorem acc_value_other_mechanism (hs : hist T) (m m' : pystr) : m' <> m -> acc_load_value m' (Some (acc_save_value (hs, m))) = Err ValueError.
Proof.
  intros H. unfold acc_save_value, acc_load_value. cbn. unfold acc_load_state_dict. cbn.
  unfold pystr_eqb. destruct (String.eqb_spec m' m); [contradiction|reflexivity].
Qed.
Theorem acc_value_empty (m : pystr) : acc_load_value (T:=T) m (Some []) = Err ValueError /\ acc_load_value (T:=T) m None = Err ValueError.
Proof. split; reflexivity. Qed.
End Acc.

Section Sys.
Context {T : Type} {N : Num T} {P I : Type}.
Notation sys := (sys T P I).
Local Opaque acc_save_value acc_load_value noise_state_dict noise_load_state_dict clip_state_dict clip_load_state_dict.

(* load (save y) into a freshly constructed system y0 whose live hyper-parameters equal y's *)
Theorem load_save_roundtrip (y y0 : sys) : y_mech y0 = y_mech y ->
  f_oval (y_ns y0) = f_oval (y_ns y) -> f_oval (y_cs y0) = f_oval (y_cs y) ->
  f_lam (y_ns y0) = f_lam (y_ns y) -> f_lam (y_cs y0) = f_lam (y_cs y) ->
  load_ckpt y0 (save_ckpt y true true true) true true true = Ok y.
Proof.
  intros Hm Hn Hc Ln Lc. unfold save_ckpt, load_ckpt. cbn.
  rewrite Hm. rewrite acc_value_roundtrip. cbn.
  rewrite (noise_restore_exact_partial (y_ns y) (y_ns y0) Hn Ln).
  rewrite (clip_restore_exact_partial (y_cs y) (y_cs y0) Hc Lc).
  destruct y, y0; cbn in *. subst. reflexivity.
Qed.
(* whatever the flags and the live values: module parameters and accountant history are restored *)
Theorem load_save_ledger (y y0 : sys) (o n c : bool) : y_mech y0 = y_mech y ->
  exists y', load_ckpt y0 (save_ckpt y o n c) o n c = Ok y' /\ y_params y' = y_params y /\ y_hist y' = y_hist y /\
             (o = true -> y_inner y' = y_inner y).
Proof.
  intros Hm. unfold save_ckpt, load_ckpt. destruct o, n, c; cbn; rewrite Hm, acc_value_roundtrip; cbn;
    (eexists; split; [reflexivity|]); cbn; repeat split; intros; try reflexivity; discriminate.
Qed.
Theorem load_rejects_other_mechanism (y y0 : sys) (o n c : bool) : y_mech y0 <> y_mech y ->
  load_ckpt y0 (save_ckpt y o n c) o n c = Err ValueError.
Proof.
  intros Hm. unfold save_ckpt, load_ckpt. destruct o, n, c; cbn; rewrite (acc_value_other_mechanism _ _ _ Hm); reflexivity.
Qed.

(* one logical training step over abstract batches, gradients and inner optimizer *)
Context {B G : Type}.
Variable release : P -> B -> T -> T -> G.          (* clip+noise+scale at (sigma, C) in force; noise comes with the batch *)
Variable inner : P -> I -> G -> P * I.
Variable accstep : hist T -> T -> hist T.          (* accountant.step(noise_multiplier=sigma, sample_rate fixed) *)
Variable nsstep csstep : ss T -> ss T.             (* scheduler.step() of whichever scheduler is attached (identity if none) *)
Definition train (y : sys) (b : B) : sys :=
  let sigma := f_oval (y_ns y) in let C := f_oval (y_cs y) in
  let g := release (y_params y) b sigma C in
  let pi := inner (y_params y) (y_inner y) g in
  mksys (fst pi) (snd pi) (accstep (y_hist y) sigma) (y_mech y) (nsstep (y_ns y)) (csstep (y_cs y)).
Definition run (y : sys) (bs : list B) : sys := fold_left train bs y.

Theorem resume_refines_uninterrupted (fresh : sys) (bs1 bs2 : list B) :
  let y1 := run fresh bs1 in
  f_oval (y_ns fresh) = f_oval (y_ns y1) -> f_oval (y_cs fresh) = f_oval (y_cs y1) ->
  f_lam (y_ns fresh) = f_lam (y_ns y1) -> f_lam (y_cs fresh) = f_lam (y_cs y1) ->
  exists y2, load_ckpt fresh (save_ckpt y1 true true true) true true true = Ok y2 /\ run y2 bs2 = run fresh (bs1 ++ bs2).
Proof.
  intros y1 Hn Hc Ln Lc. exists y1. split.
  - apply load_save_roundtrip; auto.
    subst y1. unfold run. generalize fresh. clear. induction bs1 as [|b bs IH]; intros fresh; [reflexivity|].
    cbn [fold_left]. rewrite <- IH. reflexivity.
  - subst y1. unfold run. now rewrite fold_left_app.
Qed.
End Sys.
