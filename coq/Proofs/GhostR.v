(* Proofs/GhostR.v -- ghost-norm identities over the reals, for all extents (C02). *)
From Coq Require Import ZArith Reals List Lra.
From OV Require Import Base.Num Base.NumR Model.GhostNorm.
Local Open Scope R_scope.

Lemma sum_n_ext n (f g : nat -> R) : (forall i, (i < n)%nat -> f i = g i) -> sum_n n f = sum_n n g.
Proof. induction n as [|n IH]; intros H; cbn; [reflexivity|]. rewrite IH, H; auto. Qed.
Lemma sum_n_add n (f g : nat -> R) : sum_n n (fun i => f i + g i) = sum_n n f + sum_n n g.
Proof. induction n as [|n IH]; cbn; [lra|]. rewrite IH. lra. Qed.
Lemma sum_n_scale n c (f : nat -> R) : sum_n n (fun i => c * f i) = c * sum_n n f.
Proof. induction n as [|n IH]; cbn; [lra|]. rewrite IH. lra. Qed.
Lemma sum_n_scale_r n c (f : nat -> R) : sum_n n (fun i => f i * c) = sum_n n f * c.
Proof. induction n as [|n IH]; cbn; [lra|]. rewrite IH. lra. Qed.
Lemma sum_n_zero n : sum_n n (fun _ => 0) = 0.
Proof. induction n as [|n IH]; cbn; [reflexivity|]. rewrite IH. lra. Qed.
Lemma sum_n_swap m n (f : nat -> nat -> R) :
  sum_n m (fun i => sum_n n (fun j => f i j)) = sum_n n (fun j => sum_n m (fun i => f i j)).
Proof.
  induction m as [|m IH]; cbn.
  - now rewrite sum_n_zero.
  - rewrite IH, <- sum_n_add. reflexivity.
Qed.
Lemma sum_n_sq n (f : nat -> R) : sum_n n f * sum_n n f = sum_n n (fun t => sum_n n (fun s => f t * f s)).
Proof.
  rewrite <- sum_n_scale_r. apply sum_n_ext. intros t _. now rewrite sum_n_scale.
Qed.
Lemma sum_n_mul m n (f g : nat -> R) : sum_n m f * sum_n n g = sum_n m (fun i => sum_n n (fun j => f i * g j)).
Proof. rewrite <- sum_n_scale_r. apply sum_n_ext. intros t _. now rewrite sum_n_scale. Qed.

(* 3-D input, weight: || sum_t g_t a_t^T ||_F^2 = sum_{t,s} <g_t,g_s> <a_t,a_s> *)
Theorem ghost_weight_3d (L p q : nat) (g a : nat -> nat -> R) :
  true_norm_sq_weight L p q g a = ghost_sq_weight_3d L p q g a.
Proof.
  unfold true_norm_sq_weight, ghost_sq_weight_3d, gs_weight, ggT, nsq. cbn [nmul nadd NumR].
  (* expand the square *)
  rewrite (sum_n_ext p _ (fun i => sum_n q (fun j => sum_n L (fun t => sum_n L (fun s => (g t i * a t j) * (g s i * a s j)))))).
  2: { intros i _. apply sum_n_ext. intros j _. apply sum_n_sq. }
  (* move t, s outside *)
  rewrite (sum_n_ext p _ (fun i => sum_n L (fun t => sum_n q (fun j => sum_n L (fun s => g t i * a t j * (g s i * a s j)))))).
  2: { intros i _. apply sum_n_swap. }
  rewrite sum_n_swap. apply sum_n_ext. intros t _.
  rewrite (sum_n_ext p _ (fun i => sum_n L (fun s => sum_n q (fun j => g t i * a t j * (g s i * a s j))))).
  2: { intros i _. apply sum_n_swap. }
  rewrite sum_n_swap. apply sum_n_ext. intros s _.
  rewrite sum_n_mul. apply sum_n_ext. intros i _. apply sum_n_ext. intros j _. ring.
Qed.

(* 3-D input, bias: || sum_t g_t ||^2 = sum_{t,s} <g_t,g_s>   (the sum of ALL entries of g g^T) *)
Theorem ghost_bias_3d (L p : nat) (g : nat -> nat -> R) :
  true_norm_sq_bias L p g = ghost_sq_bias_3d L p g.
Proof.
  unfold true_norm_sq_bias, ghost_sq_bias_3d, gs_bias, ggT, nsq. cbn [nmul nadd NumR].
  rewrite (sum_n_ext p _ (fun i => sum_n L (fun t => sum_n L (fun s => g t i * g s i)))).
  2: { intros i _. apply sum_n_sq. }
  rewrite sum_n_swap. apply sum_n_ext. intros t _. apply sum_n_swap.
Qed.

(* 2-D input: || g a^T ||_F^2 = ||g||^2 ||a||^2 *)
Theorem ghost_weight_2d (p q : nat) (g a : nat -> R) :
  true_norm_sq_weight 1 p q (fun _ => g) (fun _ => a) = ghost_sq_weight_2d p q g a.
Proof.
  unfold true_norm_sq_weight, ghost_sq_weight_2d, gs_weight, nsq. cbn [sum_n nmul nadd n0 NumR].
  rewrite sum_n_mul. apply sum_n_ext. intros i _. apply sum_n_ext. intros j _. ring.
Qed.

(* the formula before the repair is NOT the bias norm: two positions, one output, g = (1, 1) *)
Theorem ghost_bias_3d_old_refuted :
  exists (L p : nat) (g : nat -> nat -> R), true_norm_sq_bias L p g <> ghost_sq_bias_3d_old L p g.
Proof.
  exists 2%nat, 1%nat, (fun _ _ => 2). unfold true_norm_sq_bias, ghost_sq_bias_3d_old, gs_bias, ggT, nsq. cbn. lra.
Qed.

(* ---------------- nn.Embedding ---------------- *)
From Coq Require Import Arith Permutation Lia.
Import ListNotations.

Lemma lsum_cons a (l : list nat) (f : nat -> R) : lsum (a :: l) f = f a + lsum l f.
Proof. reflexivity. Qed.
Lemma lsum_perm (l1 l2 : list nat) (f : nat -> R) : Permutation l1 l2 -> lsum l1 f = lsum l2 f.
Proof.
  induction 1 as [|x l l' _ IH|x y l|l l' l'' _ IH1 _ IH2]; rewrite ?lsum_cons; try lra; try congruence.
Qed.
Lemma lsum_ext (l : list nat) (f g : nat -> R) : (forall v, In v l -> f v = g v) -> lsum l f = lsum l g.
Proof.
  induction l as [|a l IH]; intros H; [reflexivity|]. rewrite !lsum_cons, H by (left; reflexivity). rewrite IH; [reflexivity|].
  intros v Hv. apply H. now right.
Qed.
Lemma lsum_filter_zero (l : list nat) (keep : nat -> bool) (f : nat -> R) :
  (forall v, In v l -> keep v = false -> f v = 0) -> lsum l f = lsum (filter keep l) f.
Proof.
  induction l as [|a l IH]; intros H; cbn [filter]; [reflexivity|].
  assert (IH' : lsum l f = lsum (filter keep l) f) by (apply IH; intros v Hv; apply H; now right).
  destruct (keep a) eqn:K; rewrite ?lsum_cons.
  - now rewrite IH'.
  - rewrite (H a (or_introl eq_refl) K), IH'. lra.
Qed.
Lemma lsum_app (l1 l2 : list nat) (f : nat -> R) : lsum (l1 ++ l2) f = lsum l1 f + lsum l2 f.
Proof. induction l1 as [|a l IH]; cbn [app]; rewrite ?lsum_cons; [unfold lsum; cbn; lra|]. rewrite IH. lra. Qed.
Lemma sum_n_seq n (f : nat -> R) : sum_n n f = lsum (seq 0 n) f.
Proof.
  induction n as [|n IH]; [reflexivity|]. rewrite seq_S, lsum_app. cbn [sum_n plus nadd NumR]. rewrite IH.
  rewrite lsum_cons. unfold lsum at 3. cbn. lra.
Qed.

(* a sum over the whole vocabulary of a function that vanishes on ids absent from the row = the sum over the distinct ids of the row *)
Lemma vocab_sum_row_ids (V L : nat) (idx : nat -> nat) (f : nat -> R) :
  (forall t, (t < L)%nat -> (idx t < V)%nat) ->
  (forall v, ~ In v (map idx (seq 0 L)) -> f v = 0) ->
  sum_n V f = lsum (row_ids L idx) f.
Proof.
  intros B Z. rewrite sum_n_seq.
  set (ids := map idx (seq 0 L)).
  rewrite (lsum_filter_zero (seq 0 V) (fun v => if in_dec Nat.eq_dec v ids then true else false) f).
  2: { intros v _ K. destruct (in_dec Nat.eq_dec v ids) as [|NI]; [discriminate|]. apply Z. exact NI. }
  apply lsum_perm. apply NoDup_Permutation.
  - apply NoDup_filter. apply seq_NoDup.
  - unfold row_ids. apply NoDup_nodup.
  - intros v. unfold row_ids. rewrite nodup_In, filter_In, in_seq. fold ids. split.
    + intros (_ & K). destruct (in_dec Nat.eq_dec v ids); [assumption|discriminate].
    + intros I. split.
      * unfold ids in I. apply in_map_iff in I. destruct I as (t & <- & It). apply in_seq in It. specialize (B t). lia.
      * destruct (in_dec Nat.eq_dec v ids); [reflexivity|contradiction].
Qed.

Lemma sum_n_absent (L : nat) (idx : nat -> nat) (v : nat) (h : nat -> R) :
  ~ In v (map idx (seq 0 L)) -> sum_n L (fun t => if Nat.eqb (idx t) v then h t else 0) = 0.
Proof.
  intros NI. rewrite (sum_n_ext L _ (fun _ => 0)); [apply sum_n_zero|].
  intros t Ht. destruct (Nat.eqb_spec (idx t) v) as [E|]; [|reflexivity].
  exfalso. apply NI. rewrite <- E. apply in_map. apply in_seq. lia.
Qed.

(* the ghost norm of the embedding layer is the norm of its per-sample gradient: for every vocabulary size, row length,
   embedding dimension, ids within the vocabulary, optional padding index and per-row factor (1, or 1/frequency) *)
Theorem ghost_embedding (sc : nat -> R) (pad : option nat) (V L D : nat) (idx : nat -> nat) (g : nat -> nat -> R) :
  (forall t, (t < L)%nat -> (idx t < V)%nat) ->
  true_norm_sq_embedding sc pad V L D idx g = ghost_sq_embedding sc pad L D idx g.
Proof.
  intros B. unfold true_norm_sq_embedding, ghost_sq_embedding.
  rewrite (vocab_sum_row_ids V L idx _ B).
  - apply lsum_ext. intros v _. apply sum_n_ext. intros d _. unfold nsq. cbn [nmul NumR].
    assert (E : emb_gs_row pad L idx g v d = sum_n L (fun t => if Nat.eqb (idx t) v then emb_masked pad idx g t d else n0)); [|now rewrite E].
    unfold emb_gs_row, emb_masked; destruct pad as [p|]; try reflexivity.
    destruct (Nat.eqb_spec v p) as [E|NE]; cbn [n0 NumR].
    + subst v. symmetry. rewrite (sum_n_ext L _ (fun _ => 0)); [apply sum_n_zero|]. intros t _. destruct (Nat.eqb (idx t) p); reflexivity.
    + apply sum_n_ext. intros t _. destruct (Nat.eqb_spec (idx t) v) as [E1|]; [|reflexivity].
      destruct (Nat.eqb_spec (idx t) p) as [E2|]; [congruence|reflexivity].
  - intros v NI. rewrite (sum_n_ext D _ (fun _ => 0)); [apply sum_n_zero|]. intros d _.
    unfold nsq, emb_gs_row. cbn [nmul n0 NumR]. destruct pad as [p|]; [destruct (Nat.eqb v p); [lra|]|];
      rewrite (sum_n_absent L idx v (fun t => g t d) NI); lra.
Qed.

(* without the masking (the sampler before the repair) the norm counts the padding row: one position holding the padding index *)
Theorem ghost_embedding_old_refuted :
  exists (V L D : nat) (idx : nat -> nat) (g : nat -> nat -> R),
    (forall t, (t < L)%nat -> (idx t < V)%nat) /\ true_norm_sq_embedding (fun _ => 1) (Some 0%nat) V L D idx g <> ghost_sq_embedding_old (fun _ => 1) L D idx g.
Proof.
  exists 1%nat, 1%nat, 1%nat, (fun _ => 0%nat), (fun _ _ => 1). split; [intros; lia|].
  unfold true_norm_sq_embedding, ghost_sq_embedding_old, ghost_sq_embedding, row_ids, emb_gs_row, emb_masked, lsum, nsq. cbn. lra.
Qed.

(* the per-sample gradient used above is the grad sampler's formula of Model/Layers (shown in C01 to be the sample's own gradient) *)
From OV Require Model.Layers.
Lemma sum_n_is_sumn n (f : nat -> R) : sum_n n f = Layers.sumn R 0 Rplus n f.
Proof. induction n as [|n IH]; cbn; [reflexivity|]. now rewrite IH. Qed.
Lemma emb_gs_row_is_layers (pad : option nat) (L : nat) (idx : nat -> nat) (g : nat -> nat -> R) (v d : nat) :
  emb_gs_row pad L idx g v d = Layers.emb_gs R 0 Rplus pad L g idx v d.
Proof. unfold emb_gs_row, Layers.emb_gs. destruct pad as [p|]; [destruct (Nat.eqb v p); [reflexivity|]|]; apply sum_n_is_sumn. Qed.
