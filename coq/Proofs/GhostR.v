(* Proofs/GhostR.v -- ghost-norm identities over the reals, for all extents (C02). *)
From Coq Require Import ZArith Reals List Lra.
From OV Require Import Base.Num Base.NumR Model.GhostNorm.
Local Open Scope R_scope.

Lemma sum_n_ext n (f g : nat -> R) : (forall i, (i < n)%nat -> f i = g i) -> sum_n n f = sum_n n g.
Proof. induction n as [|n IH]; intros H; cbn; [reflexivity|]. rewrite IH, H; auto. Qed.
Lemma sum_n_add n (f g : nat -> R) : sum_n n (fun i => f i + g i) = sum_n n f + sum_n n g.
Proof. induction n as [|n IH]; cbn; [lra|]. rewrite IH. lra. Qed.
Lemma sum_n_scale n c (f : nat -> R) : sum_n n (fun i => c * f i) = c * sum_n n f.
Proof. induction n as [|n IH]; cbn; [lra|]. rewrite IH. lra. Qed.
Lemma sum_n_scale_r n c (f : nat -> R) : sum_n n (fun i => f i * c) = sum_n n f * c.
Proof. induction n as [|n IH]; cbn; [lra|]. rewrite IH. lra. Qed.
Lemma sum_n_zero n : sum_n n (fun _ => 0) = 0.
Proof. induction n as [|n IH]; cbn; [reflexivity|]. rewrite IH. lra. Qed.
Lemma sum_n_swap m n (f : nat -> nat -> R) :
  sum_n m (fun i => sum_n n (fun j => f i j)) = sum_n n (fun j => sum_n m (fun i => f i j)).
Proof.
  induction m as [|m IH]; cbn.
  - now rewrite sum_n_zero.
  - rewrite IH, <- sum_n_add. reflexivity.
Qed.
Lemma sum_n_sq n (f : nat -> R) : sum_n n f * sum_n n f = sum_n n (fun t => sum_n n (fun s => f t * f s)).
Proof.
  rewrite <- sum_n_scale_r. apply sum_n_ext. intros t _. now rewrite sum_n_scale.
Qed.
Lemma sum_n_mul m n (f g : nat -> R) : sum_n m f * sum_n n g = sum_n m (fun i => sum_n n (fun j => f i * g j)).
Proof. rewrite <- sum_n_scale_r. apply sum_n_ext. intros t _. now rewrite sum_n_scale. Qed.

(* 3-D input, weight: || sum_t g_t a_t^T ||_F^2 = sum_{t,s} <g_t,g_s> <a_t,a_s> *)
Theorem ghost_weight_3d (L p q : nat) (g a : nat -> nat -> R) :
  true_norm_sq_weight L p q g a = ghost_sq_weight_3d L p q g a.
Proof.
  unfold true_norm_sq_weight, ghost_sq_weight_3d, gs_weight, ggT, nsq. cbn [nmul nadd NumR].
  (* expand the square *)
  rewrite (sum_n_ext p _ (fun i => sum_n q (fun j => sum_n L (fun t => sum_n L (fun s => (g t i * a t j) * (g s i * a s j)))))).
  2: { intros i _. apply sum_n_ext. intros j _. apply sum_n_sq. }
  (* move t, s outside *)
  rewrite (sum_n_ext p _ (fun i => sum_n L (fun t => sum_n q (fun j => sum_n L (fun s => g t i * a t j * (g s i * a s j)))))).
  2: { intros i _. apply sum_n_swap. }
  rewrite sum_n_swap. apply sum_n_ext. intros t _.
  rewrite (sum_n_ext p _ (fun i => sum_n L (fun s => sum_n q (fun j => g t i * a t j * (g s i * a s j))))).
  2: { intros i _. apply sum_n_swap. }
  rewrite sum_n_swap. apply sum_n_ext. intros s _.
  rewrite sum_n_mul. apply sum_n_ext. intros i _. apply sum_n_ext. intros j _. ring.
Qed.

(* 3-D input, bias: || sum_t g_t ||^2 = sum_{t,s} <g_t,g_s>   (the sum of ALL entries of g g^T) *)
Theorem ghost_bias_3d (L p : nat) (g : nat -> nat -> R) :
  true_norm_sq_bias L p g = ghost_sq_bias_3d L p g.
Proof.
  unfold true_norm_sq_bias, ghost_sq_bias_3d, gs_bias, ggT, nsq. cbn [nmul nadd NumR].
  rewrite (sum_n_ext p _ (fun i => sum_n L (fun t => sum_n L (fun s => g t i * g s i)))).
  2: { intros i _. apply sum_n_sq. }
  rewrite sum_n_swap. apply sum_n_ext. intros t _. apply sum_n_swap.
Qed.

(* 2-D input: || g a^T ||_F^2 = ||g||^2 ||a||^2 *)
Theorem ghost_weight_2d (p q : nat) (g a : nat -> R) :
  true_norm_sq_weight 1 p q (fun _ => g) (fun _ => a) = ghost_sq_weight_2d p q g a.
Proof.
  unfold true_norm_sq_weight, ghost_sq_weight_2d, gs_weight, nsq. cbn [sum_n nmul nadd n0 NumR].
  rewrite sum_n_mul. apply sum_n_ext. intros i _. apply sum_n_ext. intros j _. ring.
Qed.

(* the formula before the repair is NOT the bias norm: two positions, one output, g = (1, 1) *)
Theorem ghost_bias_3d_old_refuted :
  exists (L p : nat) (g : nat -> nat -> R), true_norm_sq_bias L p g <> ghost_sq_bias_3d_old L p g.
Proof.
  exists 2%nat, 1%nat, (fun _ _ => 2). unfold true_norm_sq_bias, ghost_sq_bias_3d_old, gs_bias, ggT, nsq. cbn. lra.
Qed.
