(* Proofs/OptimTrace.v -- what one optimizer step appends to the event trace (noise draws, accountant
   record, inner step), the accounting ledger invariant, and the "value in force" facts.
   About the reference semantics; transported to the generated code by Proofs/OptimEq.v. *)
From Coq Require Import ZArith List Bool String Lia FinFun.
From OV Require Import Base.Num Base.Py Model.OptimState Model.OptimRef Gen.Optim Proofs.OptimSM Proofs.OptimEq.
Import ListNotations.

Section Trace.
Context {T : Type} {N : Num T}.
(* Python's == on the recorded floats decides equality (true of Z and R; of binary64 except +0/-0) *)
Hypothesis neqb_sound : forall a b : T, neqb a b = true -> a = b.

Definition cfg (s : ost T) :=
  (o_variant s, o_acc s, o_nm s, o_mgn s, o_ebs s, o_mean s, o_secure s, o_has_hook s, o_rate s, o_accum_allowed s).
Definition noise_ev (std : T) (e : event T) : Prop :=
  match e with ENoise sd _ => sd = std | EDiscard sd _ => sd = std | _ => False end.

Lemma draw_trace s std sh :
  let s' := fst (draw s std sh) in
  cfg s' = cfg s /\ o_hist s' = o_hist s /\ exists e, o_events s' = o_events s ++ [e] /\ noise_ev std e.
Proof.
  unfold draw, emit. cbn. repeat split. eexists. split; [reflexivity|]. destruct sh; reflexivity.
Qed.

Lemma gen_noise_trace s std r sec :
  let s' := sstate (ref_gen_noise s std r sec) in
  cfg s' = cfg s /\ o_hist s' = o_hist s /\ o_summed s' = o_summed s /\ o_gs s' = o_gs s /\
  exists nz, o_events s' = o_events s ++ nz /\ Forall (noise_ev std) nz.
Proof.
  unfold ref_gen_noise. destruct r.
  2: { cbn. repeat split. exists []. now rewrite app_nil_r. }
  destruct (neqb std (nofZ 0)).
  { cbn. repeat split. exists []. now rewrite app_nil_r. }
  destruct sec.
  - unfold draw, emit. cbn. repeat split.
    eexists [_; _; _; _; _]. rewrite <- !app_assoc. cbn. split; [reflexivity|]. repeat constructor.
  - unfold draw, emit. cbn. repeat split. eexists [_]. split; [reflexivity|]. repeat constructor.
Qed.

(* expansion of the run-length history *)
Definition expand (h : list (T * T * Z)) : list (T * T) :=
  flat_map (fun '(a, b, n) => repeat (a, b) (Z.to_nat n)) h.
Definition acc_list (evs : list (event T)) : list (T * T) :=
  flat_map (fun e => match e with EAccount a b => [(a, b)] | _ => [] end) evs.
Definition runs_pos (h : list (T * T * Z)) : Prop := Forall (fun '(_, _, n) => (1 <= n)%Z) h.

Lemma expand_app a b : expand (a ++ b) = expand a ++ expand b.
Proof. unfold expand. apply flat_map_app. Qed.
Lemma acc_list_app a b : acc_list (a ++ b) = acc_list a ++ acc_list b.
Proof. unfold acc_list. apply flat_map_app. Qed.
Lemma repeat_snoc {A} (x : A) n : repeat x (S n) = repeat x n ++ [x].
Proof. induction n as [|n IH]; [reflexivity|]. cbn in *. now rewrite <- IH. Qed.

(* RDP / PRV accountants: step appends exactly one (sigma, q) to the expanded history *)
Lemma acc_runlength s sigma q :
  o_acc s <> AccGDP -> runs_pos (o_hist s) ->
  exists s', ref_acc s sigma q = SOk s' tt /\ cfg s' = cfg s /\ o_events s' = o_events s /\
             o_gs s' = o_gs s /\ o_summed s' = o_summed s /\ o_grad s' = o_grad s /\
             runs_pos (o_hist s') /\ expand (o_hist s') = expand (o_hist s) ++ [(sigma, q)].
Proof.
  intros HA HP. unfold ref_acc.
  assert (E : o_hist s = rev (rev (o_hist s))) by (now rewrite rev_involutive).
  destruct (o_acc s); [| |contradiction];
  (destruct (rev (o_hist s)) as [|[[s0 q0] n] r] eqn:R;
   [ eexists; split; [reflexivity|]; cbn; repeat split; auto;
     [ rewrite E; cbn; unfold runs_pos; repeat constructor; lia | rewrite E; reflexivity ]
   | cbn [rev] in E; rewrite E in HP; unfold runs_pos in HP; apply Forall_app in HP as [HP1 HP2];
     inversion HP2 as [|x l Hn _]; subst;
     destruct (neqb s0 sigma && neqb q0 q)%bool eqn:B;
     [ apply andb_true_iff in B as [B1 B2]; apply neqb_sound in B1, B2; subst;
       eexists; split; [reflexivity|]; cbn; repeat split; auto;
       [ unfold runs_pos; apply Forall_app; split; [exact HP1|repeat constructor; lia]
       | rewrite E, !expand_app; cbn; rewrite !app_nil_r;
         replace (Z.to_nat (n + 1)) with (S (Z.to_nat n)) by lia; rewrite repeat_snoc, app_assoc; reflexivity ]
     | eexists; split; [reflexivity|]; cbn; repeat split; auto;
       [ unfold runs_pos; rewrite !Forall_app; repeat split; auto; repeat constructor; lia
       | rewrite E, !expand_app; cbn; rewrite !app_nil_r; reflexivity ] ] ]).
Qed.

Lemma accum_iters_mark g : gs_accum_iters (gs_mark g) = gs_accum_iters g.
Proof. destruct g; cbn; [reflexivity|reflexivity|]. now rewrite map_length. Qed.

Definition same_ledger (s s' : ost T) : Prop :=
  cfg s' = cfg s /\ o_hist s' = o_hist s /\ o_events s' = o_events s.

Lemma clip_ledger s : let s' := sstate (ref_clip s) in same_ledger s s' /\ ref_accit s' = ref_accit s.
Proof.
  unfold ref_clip. destruct (gs_check (o_gs s)); [|cbn; repeat split].
  destruct (gs_flat (o_gs s)); cbn; repeat split; try (unfold ref_accit; cbn; now rewrite accum_iters_mark).
Qed.
Lemma fgc_acc_ledger s : let s' := sstate (ref_fgc_accumulate s) in same_ledger s s' /\ (o_variant s = Ghost -> ref_accit s' = ref_accit s).
Proof.
  unfold ref_fgc_accumulate. destruct (o_grad s); cbn; repeat split; try (unfold ref_accit; cbn; intros ->; reflexivity).
Qed.

(* one optimizer step, from the accumulation stage on *)
Lemma after_trace s :
  o_has_hook s = true -> o_acc s <> AccGDP -> runs_pos (o_hist s) ->
  let r := ref_after_accumulate s in
  let s' := sstate r in
  cfg s' = cfg s /\ runs_pos (o_hist s') /\
  exists nz, Forall (noise_ev (nmul (o_nm s) (o_mgn s))) nz /\
   (((match r with SOk _ true => False | _ => True end) /\
      o_events s' = o_events s ++ nz /\ o_hist s' = o_hist s)
   \/
   (exists k, r = SOk s' true /\ ref_accit s = Ok k /\
      o_events s' = o_events s ++ nz ++ [EAccount (o_nm s) (nmul (o_rate s) (nofZ k))] /\
      expand (o_hist s') = expand (o_hist s) ++ [(o_nm s, nmul (o_rate s) (nofZ k))])).
Proof.
  intros HH HA HP. unfold ref_after_accumulate, ref_check_skip.
  assert (Hq : exists s1 b, (match o_skipq s with [] => (s, false) | b :: q => (upd_skipq s q, b) end) = (s1, b)
                            /\ same_ledger s s1 /\ o_summed s1 = o_summed s /\ o_gs s1 = o_gs s).
  { unfold same_ledger. destruct (o_skipq s); eexists; eexists; repeat split. }
  destruct Hq as (s1 & b & -> & (C1 & H1 & E1) & S1 & G1).
  assert (N1 : o_nm s1 = o_nm s /\ o_mgn s1 = o_mgn s /\ o_rate s1 = o_rate s /\ o_has_hook s1 = o_has_hook s
               /\ o_acc s1 = o_acc s /\ o_variant s1 = o_variant s /\ o_mean s1 = o_mean s /\ o_secure s1 = o_secure s)
    by (unfold cfg in C1; inversion C1; repeat split; auto).
  destruct N1 as (Nnm & Nmg & Nrt & Nhk & Nac & Nvr & Nmn & Nsc).
  destruct b.
  { cbn [sstate]. split; [exact C1|]. split; [cbn; rewrite H1; exact HP|].
    exists []. split; [constructor|]. left. rewrite app_nil_r. cbn. auto. }
  (* add_noise *)
  unfold ref_add_noise.
  destruct (sum_check (o_summed s1)) as [[]|e] eqn:K.
  2: { cbn [sstate sbind]. split; [exact C1|]. split; [rewrite H1; exact HP|].
       exists []. split; [constructor|]. left. rewrite app_nil_r. auto. }
  pose proof (gen_noise_trace s1 (nmul (o_nm s1) (o_mgn s1)) (o_summed s1) (o_secure s1)) as GT.
  destruct (ref_gen_noise s1 (nmul (o_nm s1) (o_mgn s1)) (o_summed s1) (o_secure s1)) as [s2 nzv|s2 e];
    cbn [sstate sbind] in *; destruct GT as (C2 & H2 & S2 & G2 & nz & E2 & F2); rewrite Nnm, Nmg in F2.
  2: { split; [congruence|]. split; [rewrite H2, H1; exact HP|]. exists nz. split; [exact F2|]. left.
       split; [exact I|]. split; [rewrite E2, E1; reflexivity | congruence]. }
  assert (L3 : exists s3, s3 = upd_summed (upd_grad s2 (grad_of_sum (o_summed s2) nzv)) (sum_mark (o_summed s2)) /\
                          cfg s3 = cfg s2 /\ o_hist s3 = o_hist s2 /\ o_events s3 = o_events s2 /\ o_gs s3 = o_gs s2)
    by (eexists; repeat split).
  destruct L3 as (s3 & D3 & C3 & H3 & E3 & G3). rewrite <- D3. clear D3.
  (* scale *)
  unfold ref_scale.
  assert (A3 : ref_accit s3 = ref_accit s).
  { assert (V3 : o_variant s3 = o_variant s) by (unfold cfg in C1, C2, C3; inversion C1; inversion C2; inversion C3; congruence).
    assert (Gs : o_gs s3 = o_gs s) by congruence.
    unfold ref_accit. rewrite V3, Gs. reflexivity. }
  assert (M3 : o_mean s3 = o_mean s) by (unfold cfg in C1, C2, C3; inversion C1; inversion C2; inversion C3; congruence).
  assert (Cs3 : cfg s3 = cfg s) by congruence.
  assert (Hs3 : o_hist s3 = o_hist s) by congruence.
  assert (Es3 : o_events s3 = o_events s ++ nz) by (rewrite E3, E2, E1; reflexivity).
  destruct (o_mean s3) eqn:MM.
  - destruct (ref_accit s3) as [k|e] eqn:AK.
    2: { cbn [sbind sstate]. split; [exact Cs3|]. split; [rewrite Hs3; exact HP|].
         exists nz. split; [exact F2|]. left. split; [exact I|]. split; auto. }
    cbn [sbind].
    assert (P4 : exists s4, s4 = upd_grad s3 (grad_div (o_grad s3) (nmul (o_ebs s3) (nofZ k))) /\
                 cfg s4 = cfg s /\ o_hist s4 = o_hist s /\ o_events s4 = o_events s ++ nz /\ ref_accit s4 = Ok k)
      by (eexists; split; [reflexivity|]; repeat split; auto; unfold ref_accit in *; cbn; exact AK).
    destruct P4 as (s4 & D4 & C4 & H4 & E4 & A4). rewrite <- D4. clear D4.
    assert (HK : o_has_hook s4 = true) by (unfold cfg in C4; inversion C4; congruence).
    rewrite HK. unfold ref_hook. rewrite A4.
    assert (HA4 : o_acc s4 <> AccGDP) by (unfold cfg in C4; inversion C4; congruence).
    assert (HP4 : runs_pos (o_hist s4)) by (rewrite H4; exact HP).
    destruct (acc_runlength s4 (o_nm s4) (nmul (o_rate s4) (nofZ k)) HA4 HP4) as (s5 & R5 & C5 & E5 & _ & _ & _ & P5 & X5).
    rewrite R5. cbn [sbind sstate].
    assert (Q : o_nm s4 = o_nm s /\ o_rate s4 = o_rate s) by (unfold cfg in C4; inversion C4; auto).
    destruct Q as (Q1 & Q2). rewrite Q1, Q2 in *.
    split; [unfold cfg in *; cbn; congruence|]. split; [unfold emit, upd_events, upd_last_skipped; cbn [sstate o_hist]; exact P5|].
    exists nz. split; [exact F2|]. right. exists k. split; [reflexivity|]. split; [congruence|]. split.
    + unfold emit, upd_events, upd_last_skipped; cbn [sstate o_hist o_events]. rewrite E5, E4. now rewrite <- app_assoc.
    + unfold emit, upd_events, upd_last_skipped; cbn [sstate o_hist o_events]. rewrite X5, H4. reflexivity.
  - cbn [sbind].
    assert (HK : o_has_hook s3 = true) by (unfold cfg in Cs3; inversion Cs3; congruence).
    rewrite HK. unfold ref_hook. destruct (ref_accit s3) as [k|e] eqn:AK.
    2: { cbn [sbind sstate]. split; [exact Cs3|]. split; [rewrite Hs3; exact HP|].
         exists nz. split; [exact F2|]. left. split; [exact I|]. split; auto. }
    assert (HA4 : o_acc s3 <> AccGDP) by (unfold cfg in Cs3; inversion Cs3; congruence).
    assert (HP4 : runs_pos (o_hist s3)) by (rewrite Hs3; exact HP).
    destruct (acc_runlength s3 (o_nm s3) (nmul (o_rate s3) (nofZ k)) HA4 HP4) as (s5 & R5 & C5 & E5 & _ & _ & _ & P5 & X5).
    rewrite R5. cbn [sbind sstate].
    assert (Q : o_nm s3 = o_nm s /\ o_rate s3 = o_rate s) by (unfold cfg in Cs3; inversion Cs3; auto).
    destruct Q as (Q1 & Q2). rewrite Q1, Q2 in *.
    split; [unfold cfg in *; cbn; congruence|]. split; [unfold emit, upd_events, upd_last_skipped; cbn [sstate o_hist]; exact P5|].
    exists nz. split; [exact F2|]. right. exists k. split; [reflexivity|]. split; [congruence|]. split.
    + unfold emit, upd_events, upd_last_skipped; cbn [sstate o_hist o_events]. rewrite E5, Es3. now rewrite <- app_assoc.
    + unfold emit, upd_events, upd_last_skipped; cbn [sstate o_hist o_events]. rewrite X5, Hs3. reflexivity.
Qed.

(* one whole optimizer step *)
Lemma step_trace s :
  o_has_hook s = true -> o_acc s <> AccGDP -> runs_pos (o_hist s) ->
  let r := ref_step s in
  let s' := sstate r in
  cfg s' = cfg s /\ runs_pos (o_hist s') /\
  exists nz, Forall (noise_ev (nmul (o_nm s) (o_mgn s))) nz /\
   ((o_events s' = o_events s ++ nz /\ o_hist s' = o_hist s)
   \/
   (exists k og, r = SOk s' tt /\ ref_accit s = Ok k /\
      o_events s' = o_events s ++ nz ++ [EAccount (o_nm s) (nmul (o_rate s) (nofZ k)); EInner og] /\
      expand (o_hist s') = expand (o_hist s) ++ [(o_nm s, nmul (o_rate s) (nofZ k))])).
Proof.
  intros HH HA HP. unfold ref_step, ref_pre_step.
  set (PRE := match o_variant s with
             | Ghost => sbind (ref_fgc_accumulate s) (fun s _ => ref_after_accumulate s)
             | _ => match gs_flat (o_gs s) with
                    | Err e => SErr s e
                    | Ok _ => sbind (ref_clip s) (fun s _ => ref_after_accumulate s) end end).
  assert (Stage : exists s1, same_ledger s s1 /\ ref_accit s1 = ref_accit s /\
                             (PRE = ref_after_accumulate s1 \/ exists e, PRE = SErr s1 e)).
  { subst PRE. destruct (o_variant s) eqn:V.
    4: { pose proof (fgc_acc_ledger s) as (L & A). specialize (A V).
         destruct (ref_fgc_accumulate s) as [s1 u|s1 e]; cbn [sstate sbind] in *;
           exists s1; (split; [exact L|]); (split; [exact A|]); [left; reflexivity | right; eauto]. }
    all: destruct (gs_flat (o_gs s)) as [ids|e];
         [ pose proof (clip_ledger s) as (L & A);
           destruct (ref_clip s) as [s1 u|s1 e]; cbn [sstate sbind] in *;
           exists s1; (split; [exact L|]); (split; [exact A|]); [left; reflexivity | right; eauto]
         | exists s; unfold same_ledger; repeat split; auto; right; eauto ]. }
  destruct Stage as (s1 & (C1 & H1 & E1) & A1 & Hstage).
  assert (Q : o_nm s1 = o_nm s /\ o_mgn s1 = o_mgn s /\ o_rate s1 = o_rate s /\ o_has_hook s1 = o_has_hook s /\ o_acc s1 = o_acc s)
    by (unfold cfg in C1; inversion C1; repeat split; auto).
  destruct Q as (Q1 & Q2 & Q3 & Q4 & Q5).
  destruct Hstage as [Hstage | (e & Hstage)]; rewrite Hstage; clear Hstage PRE.
  2: { cbn [sbind sstate]. split; [exact C1|]. split; [rewrite H1; exact HP|]. exists []. split; [constructor|].
       left. rewrite app_nil_r. auto. }
  assert (HH1 : o_has_hook s1 = true) by congruence.
  assert (HA1 : o_acc s1 <> AccGDP) by congruence.
  assert (HP1 : runs_pos (o_hist s1)) by (rewrite H1; exact HP).
  pose proof (after_trace s1 HH1 HA1 HP1) as AT. cbn zeta in AT.
  destruct AT as (C2 & P2 & nz & F2 & AT). rewrite Q1, Q2 in F2.
  destruct AT as [(NT & E2 & H2) | (k & R2 & K2 & E2 & X2)].
  - destruct (ref_after_accumulate s1) as [s2 go|s2 e]; cbn [sbind sstate] in *.
    + destruct go; [contradiction|]. cbn [sstate]. split; [congruence|]. split; [exact P2|].
      exists nz. split; [exact F2|]. left. split; [rewrite E2, E1; reflexivity | congruence].
    + split; [congruence|]. split; [exact P2|].
      exists nz. split; [exact F2|]. left. split; [rewrite E2, E1; reflexivity | congruence].
  - rewrite R2. cbn [sbind sstate] in *. unfold emit, upd_events. cbn [o_hist o_events].
    split; [unfold cfg in *; cbn; congruence|]. split; [exact P2|].
    exists nz. split; [exact F2|]. right. exists k, (o_grad (sstate (ref_after_accumulate s1))).
    split; [reflexivity|]. split; [congruence|]. split.
    + rewrite E2, E1, Q1, Q3. rewrite <- !app_assoc. reflexivity.
    + rewrite X2, H1, Q1, Q3. reflexivity.
Qed.

(* ---------- the ledger invariant over whole programs ---------- *)
Fixpoint wo (pending : bool) (evs : list (event T)) : bool :=
  match evs with
  | [] => negb pending
  | EAccount _ _ :: r => negb pending && wo true r
  | EInner _ :: r => pending && wo false r
  | _ :: r => negb pending && wo false r
  end.
Definition count_inner (evs : list (event T)) : nat :=
  List.length (filter (fun e => match e with EInner _ => true | _ => false end) evs).

Lemma wo_app p a b : wo p a = true -> wo p (a ++ b) = wo false b.
Proof.
  revert p. induction a as [|e a IH]; intros p H; cbn in *.
  - destruct p; [discriminate|reflexivity].
  - destruct e; cbn in *; apply andb_true_iff in H as [H1 H2]; rewrite H1; cbn; now apply IH.
Qed.
Lemma wo_noise std nz : Forall (noise_ev std) nz -> wo false nz = true.
Proof. induction 1 as [|e nz He _ IH]; [reflexivity|]. destruct e; cbn in *; try contradiction; exact IH. Qed.
Lemma wo_counts p evs :
  wo p evs = true -> count_inner evs = (List.length (acc_list evs) + (if p then 1 else 0))%nat.
Proof.
  revert p. induction evs as [|e evs IH]; intros p H.
  - destruct p; [discriminate|reflexivity].
  - destruct e; cbn [wo] in H; apply andb_true_iff in H as [H1 H2]; specialize (IH _ H2);
      unfold count_inner, acc_list in *; cbn [filter flat_map List.length app] in *;
      destruct p; try discriminate; cbn [List.length] in *; lia.
Qed.

Definition Ledger (s : ost T) : Prop :=
  o_has_hook s = true /\ o_acc s <> AccGDP /\ runs_pos (o_hist s) /\
  expand (o_hist s) = acc_list (o_events s) /\ wo false (o_events s) = true.

Lemma ledger_quiet s s' :
  o_has_hook s' = o_has_hook s -> o_acc s' = o_acc s -> o_hist s' = o_hist s -> o_events s' = o_events s ->
  Ledger s -> Ledger s'.
Proof. unfold Ledger. intros -> -> -> ->. tauto. Qed.

Lemma acc_list_noise std nz : Forall (noise_ev std) nz -> acc_list nz = [].
Proof. induction 1 as [|e nz He _ IH]; [reflexivity|]. destruct e; cbn in *; try contradiction; exact IH. Qed.

Lemma step_ledger s : Ledger s -> Ledger (sstate (ref_step s)).
Proof.
  intros (HH & HA & HP & HX & HW). pose proof (step_trace s HH HA HP) as ST. cbn zeta in ST.
  destruct ST as (C & P & nz & F & ST).
  assert (Q : o_has_hook (sstate (ref_step s)) = o_has_hook s /\ o_acc (sstate (ref_step s)) = o_acc s)
    by (unfold cfg in C; inversion C; auto).
  destruct Q as (Q1 & Q2). unfold Ledger. rewrite Q1, Q2. split; [exact HH|]. split; [exact HA|]. split; [exact P|].
  destruct ST as [(E & H) | (k & og & R & K & E & X)].
  - rewrite E, H, acc_list_app, (acc_list_noise _ _ F), app_nil_r. split; [exact HX|].
    rewrite (wo_app _ _ _ HW). now apply (wo_noise _ _ F).
  - rewrite E, X, !acc_list_app, (acc_list_noise _ _ F), HX. cbn. split; [reflexivity|].
    rewrite (wo_app _ _ _ HW). rewrite (wo_app _ _ _ (wo_noise _ _ F)). reflexivity.
Qed.

Lemma exec_ledger s o : Ledger s -> Ledger (sstate (exec s o)).
Proof.
  intros L. destruct o as [sids| | | |b|v|v]; cbn [exec].
  - destruct (o_variant s).
    4: { unfold fb_ghost. rewrite fgc_zero_eq. unfold ref_zero. cbn [sbind sstate].
         cbn [o_last_skipped upd_gs upd_grad upd_next_bid]. destruct (o_last_skipped s);
         (eapply ledger_quiet; [| | | |exact L]; reflexivity). }
    all: unfold fb_hooks; match goal with |- context [if ?c then _ else _] => destruct c end; cbn [sstate];
         (eapply ledger_quiet; [| | | |exact L]; reflexivity).
  - rewrite step_eq. now apply step_ledger.
  - rewrite zero_eq. unfold ref_zero. cbn [sstate]. cbn [o_last_skipped upd_gs]. destruct (o_last_skipped s);
    (eapply ledger_quiet; [| | | |exact L]; reflexivity).
  - cbn [sstate]. eapply ledger_quiet; [| | | |exact L]; reflexivity.
  - cbn [sstate]. eapply ledger_quiet; [| | | |exact L]; reflexivity.
  - cbn [sstate]. eapply ledger_quiet; [| | | |exact L]; reflexivity.
  - cbn [sstate]. eapply ledger_quiet; [| | | |exact L]; reflexivity.
Qed.

Lemma run_ledger ops s : Ledger s -> Ledger (run ops s).
Proof. revert s. induction ops as [|o ops IH]; intros s L; [exact L|]. cbn [run fold_left]. apply IH. now apply exec_ledger. Qed.

(* C05: after ANY program, the accountant's expanded history is exactly the list of accountant records, one per
   inner-optimizer step, each immediately before that step *)
Theorem accounting_exact v a nm mgn ebs rate mean secure accum ops :
  a <> AccGDP ->
  let s := run ops (init_state v a nm mgn ebs rate mean secure accum) in
  expand (o_hist s) = acc_list (o_events s) /\ wo false (o_events s) = true /\
  count_inner (o_events s) = List.length (expand (o_hist s)).
Proof.
  intros Ha s.
  assert (L : Ledger s).
  { apply run_ledger. unfold Ledger, init_state. cbn. repeat split; auto. constructor. }
  destruct L as (_ & _ & _ & HX & HW). split; [exact HX|]. split; [exact HW|].
  pose proof (wo_counts false _ HW) as C. rewrite HX, C. apply Nat.add_0_r.
Qed.

(* ---------- noise draws consume fresh, consecutive positions of the generator stream ---------- *)
Definition npos (evs : list (event T)) : list Z :=
  flat_map (fun e => match e with ENoise _ p => [p] | EDiscard _ p => [p] | _ => [] end) evs.
Definition NP (s : ost T) : Prop := (0 <= o_noise_pos s)%Z /\ npos (o_events s) = zrange 0 (o_noise_pos s).
Definition core2 (s : ost T) := (npos (o_events s), o_noise_pos s).
Lemma npos_app a b : npos (a ++ b) = npos a ++ npos b.
Proof. unfold npos. apply flat_map_app. Qed.
Lemma np_frame s s' : core2 s' = core2 s -> NP s -> NP s'.
Proof. unfold core2, NP. intros E. inversion E as [[E1 E2]]. now rewrite E1, E2. Qed.
Lemma zrange_snoc n : (0 <= n)%Z -> zrange 0 (n + 1) = zrange 0 n ++ [n].
Proof.
  intros H. unfold zrange. rewrite !Z.sub_0_r. replace (Z.to_nat (n + 1)) with (S (Z.to_nat n)) by lia.
  rewrite seq_S, map_app. cbn. f_equal. f_equal. lia.
Qed.
Lemma draw_np s std sh : NP s -> NP (fst (draw s std sh)).
Proof.
  unfold NP, draw, emit. cbn. intros (H0 & H). split; [lia|].
  rewrite npos_app, H, zrange_snoc by lia. destruct sh; reflexivity.
Qed.
Lemma gen_noise_np s std r sec : NP s -> NP (sstate (ref_gen_noise s std r sec)).
Proof.
  intros H. unfold ref_gen_noise. destruct r; [|exact H]. destruct (neqb std (nofZ 0)); [exact H|].
  destruct sec.
  - destruct (draw s std Shape11) as [s1 x1] eqn:D1.
    destruct (draw s1 std ShapeRef) as [s2 x2] eqn:D2.
    destruct (draw s2 std ShapeRef) as [s3 x3] eqn:D3.
    destruct (draw s3 std ShapeRef) as [s4 x4] eqn:D4.
    destruct (draw s4 std ShapeRef) as [s5 x5] eqn:D5. cbn [sstate].
    pose proof (draw_np s std Shape11 H) as H1. rewrite D1 in H1.
    pose proof (draw_np s1 std ShapeRef H1) as H2. rewrite D2 in H2.
    pose proof (draw_np s2 std ShapeRef H2) as H3. rewrite D3 in H3.
    pose proof (draw_np s3 std ShapeRef H3) as H4. rewrite D4 in H4.
    pose proof (draw_np s4 std ShapeRef H4) as H5. rewrite D5 in H5. exact H5.
  - destruct (draw s std ShapeRef) as [s1 x1] eqn:D1. cbn [sstate].
    pose proof (draw_np s std ShapeRef H) as H1. rewrite D1 in H1. exact H1.
Qed.
Lemma add_noise_np s : NP s -> NP (sstate (ref_add_noise s)).
Proof.
  intros H. unfold ref_add_noise. destruct (sum_check (o_summed s)); [|exact H].
  pose proof (gen_noise_np s (nmul (o_nm s) (o_mgn s)) (o_summed s) (o_secure s) H) as G.
  destruct (ref_gen_noise s (nmul (o_nm s) (o_mgn s)) (o_summed s) (o_secure s)); cbn [sbind sstate] in *; [|exact G].
  eapply np_frame; [|exact G]. reflexivity.
Qed.
Lemma scale_np s : NP s -> NP (sstate (ref_scale s)).
Proof.
  intros H. unfold ref_scale. destruct (o_mean s); [|exact H]. destruct (ref_accit s); [|exact H].
  eapply np_frame; [|exact H]. reflexivity.
Qed.
Lemma hook_np s : NP s -> NP (sstate (ref_hook s)).
Proof.
  intros H. unfold ref_hook. destruct (ref_accit s) as [k|e]; [|exact H].
  unfold ref_acc. destruct (o_acc s); destruct (rev (o_hist s)) as [|[[a b] n] r]; cbn [sbind sstate];
    try (eapply np_frame; [|exact H]; unfold core2, emit; cbn; rewrite ?npos_app; cbn; rewrite ?app_nil_r; reflexivity).
  all: match goal with |- context [if ?c then _ else _] => destruct c end; cbn [sbind sstate];
       (eapply np_frame; [|exact H]; unfold core2, emit; cbn; rewrite ?npos_app; cbn; rewrite ?app_nil_r; reflexivity).
Qed.
Lemma after_np s : NP s -> NP (sstate (ref_after_accumulate s)).
Proof.
  intros H. unfold ref_after_accumulate, ref_check_skip.
  assert (Hq : exists s1 b, (match o_skipq s with [] => (s, false) | b :: q => (upd_skipq s q, b) end) = (s1, b) /\ NP s1).
  { destruct (o_skipq s) as [|b q].
    - exists s, false. split; [reflexivity|exact H].
    - exists (upd_skipq s q), b. split; [reflexivity|]. eapply np_frame; [|exact H]. reflexivity. }
  destruct Hq as (s1 & b & -> & H1). destruct b; [cbn; eapply np_frame; [|exact H1]; reflexivity|].
  pose proof (add_noise_np s1 H1) as H2. destruct (ref_add_noise s1) as [s2 u|s2 e]; cbn [sbind sstate] in *; [|exact H2].
  pose proof (scale_np s2 H2) as H3. destruct (ref_scale s2) as [s3 u3|s3 e]; cbn [sbind sstate] in *; [|exact H3].
  assert (H4 : NP (sstate (if o_has_hook s3 then ref_hook s3 else SOk s3 tt))) by (destruct (o_has_hook s3); [now apply hook_np|exact H3]).
  destruct (if o_has_hook s3 then ref_hook s3 else SOk s3 tt) as [s4 u4|s4 e]; cbn [sbind sstate] in *; [|exact H4].
  eapply np_frame; [|exact H4]. reflexivity.
Qed.
Lemma step_np s : NP s -> NP (sstate (ref_step s)).
Proof.
  intros H. unfold ref_step, ref_pre_step.
  assert (P : NP (sstate (match o_variant s with
             | Ghost => sbind (ref_fgc_accumulate s) (fun s _ => ref_after_accumulate s)
             | _ => match gs_flat (o_gs s) with
                    | Err e => SErr s e
                    | Ok _ => sbind (ref_clip s) (fun s _ => ref_after_accumulate s) end end))).
  { destruct (o_variant s).
    4: { unfold ref_fgc_accumulate. destruct (o_grad s); [|exact H]. cbn [sbind]. apply after_np.
         eapply np_frame; [|exact H]. reflexivity. }
    all: destruct (gs_flat (o_gs s)); [|exact H]; unfold ref_clip; destruct (gs_check (o_gs s)); [|exact H];
         destruct (gs_flat (o_gs s)); [|exact H]; cbn [sbind]; apply after_np; eapply np_frame; [|exact H]; reflexivity. }
  destruct (match o_variant s with Ghost => _ | _ => _ end) as [s1 go|s1 e]; cbn [sbind sstate] in *; [|exact P].
  destruct go; cbn [sstate]; [|exact P]. eapply np_frame; [|exact P].
  unfold core2, emit. cbn. rewrite npos_app. cbn. now rewrite app_nil_r.
Qed.
Lemma exec_np s o : NP s -> NP (sstate (exec s o)).
Proof.
  intros H. destruct o as [sids| | | |b|v|v]; cbn [exec].
  - destruct (o_variant s).
    4: { unfold fb_ghost. rewrite fgc_zero_eq. unfold ref_zero. cbn [sbind sstate].
         cbn [o_last_skipped upd_gs upd_grad upd_next_bid]. destruct (o_last_skipped s);
         (eapply np_frame; [|exact H]; reflexivity). }
    all: unfold fb_hooks; match goal with |- context [if ?c then _ else _] => destruct c end; cbn [sstate];
         (eapply np_frame; [|exact H]; reflexivity).
  - rewrite step_eq. now apply step_np.
  - rewrite zero_eq. unfold ref_zero. cbn [sstate]. cbn [o_last_skipped upd_gs]. destruct (o_last_skipped s);
    (eapply np_frame; [|exact H]; reflexivity).
  - cbn [sstate]. eapply np_frame; [|exact H]; reflexivity.
  - cbn [sstate]. eapply np_frame; [|exact H]; reflexivity.
  - cbn [sstate]. eapply np_frame; [|exact H]; reflexivity.
  - cbn [sstate]. eapply np_frame; [|exact H]; reflexivity.
Qed.
Lemma run_np ops s : NP s -> NP (run ops s).
Proof. revert s. induction ops as [|o ops IH]; intros s H; [exact H|]. cbn [run fold_left]. apply IH. now apply exec_np. Qed.

Lemma NoDup_zrange n : NoDup (zrange 0 n).
Proof.
  unfold zrange. apply FinFun.Injective_map_NoDup; [|apply seq_NoDup]. intros a b E. lia.
Qed.
(* C04 (ledger part): over any program, no position of the generator stream is read twice *)
Theorem noise_positions_fresh v a nm mgn ebs rate mean secure accum ops :
  let s := run ops (init_state v a nm mgn ebs rate mean secure accum) in
  NoDup (npos (o_events s)).
Proof.
  intros s. assert (H : NP s) by (apply run_np; unfold NP, init_state; cbn; split; [lia|reflexivity]).
  destruct H as (_ & ->). apply NoDup_zrange.
Qed.
End Trace.
