(* Proofs/DistR.v -- distributed DP step = single-process DP step on the union batch, over R, on the code generated into Gen/Dist.v (C18).
   One gradient component is followed (every operation is linear and component-wise); S_w is rank w's clipped sum (per-sample clipping
   does not depend on the sharding: C02), z the noise drawn where the generated test says so. *)
From Coq Require Import ZArith String List Reals Lra Lia Bool.
From OV Require Import Base.Num Base.NumR Base.Py Gen.Dist Proofs.ClipR.
Import ListNotations.
Local Open Scope R_scope.

Definition ranks_from (r0 : Z) (n : nat) : list Z := map (fun k => (r0 + Z.of_nat k)%Z) (seq 0 n).
Lemma ranks_from_cons r0 n : ranks_from r0 (S n) = r0 :: ranks_from (r0 + 1) n.
Proof.
  unfold ranks_from. cbn [seq map]. rewrite Z.add_0_r. f_equal. rewrite <- seq_shift, map_map. apply map_ext. intros k. lia.
Qed.

Lemma nsum_map_div (c : R) (l : list R) : nsum (map (fun x => x / c) l) = nsum l / c.
Proof. induction l as [|x l IH]; [cbn; unfold nsum; cbn; lra|]. cbn [map]. rewrite !nsum_cons, IH. lra. Qed.

(* only rank 0 carries the noise: the sum over ranks of the (un-scaled) rank gradients is sum S + z *)
Lemma noised_sum_pos (noised : Z -> R -> R -> R) (z : R) (Ss : list R) (r0 : Z) :
  (forall r S, (r <> 0)%Z -> noised r S z = S) -> (0 < r0)%Z ->
  nsum (map (fun p => noised (fst p) (snd p) z) (combine (ranks_from r0 (length Ss)) Ss)) = nsum Ss.
Proof.
  intros Hn. revert r0. induction Ss as [|S Ss IH]; intros r0 Hr; [reflexivity|].
  cbn [length]. rewrite ranks_from_cons. cbn [combine map fst snd]. rewrite !nsum_cons, IH by lia. rewrite Hn by lia. reflexivity.
Qed.
Lemma noised_sum (noised : Z -> R -> R -> R) (z : R) (Ss : list R) :
  (forall r S, (r <> 0)%Z -> noised r S z = S) -> (forall S, noised 0%Z S z = S + z) -> Ss <> [] ->
  nsum (map (fun p => noised (fst p) (snd p) z) (combine (ranks_from 0 (length Ss)) Ss)) = nsum Ss + z.
Proof.
  intros Hn H0 Hne. destruct Ss as [|S Ss]; [contradiction|].
  cbn [length]. rewrite ranks_from_cons. cbn [combine map fst snd]. rewrite !nsum_cons, H0.
  rewrite (noised_sum_pos noised z Ss (0 + 1)%Z Hn) by lia. lra.
Qed.

Lemma ddp_noised_other r S z : (r <> 0)%Z -> ddp_noised (T:=R) r S z = S.
Proof. intros H. unfold ddp_noised. destruct (Z.eqb_spec r 0); [contradiction|reflexivity]. Qed.
Lemma ddp_noised_zero S z : ddp_noised (T:=R) 0 S z = S + z.
Proof. reflexivity. Qed.
Lemma ddpfgc_noised_other r S z : (r <> 0)%Z -> ddpfgc_noised (T:=R) r S z = S.
Proof. intros H. unfold ddpfgc_noised. destruct (Z.eqb_spec r 0); [contradiction|reflexivity]. Qed.
Lemma dpl_noised_other r S z : (r <> 0)%Z -> dpl_noised (T:=R) r S z = S.
Proof. intros H. unfold dpl_noised. destruct (Z.eqb_spec r 0); [contradiction|reflexivity]. Qed.

(* what every rank holds after DistributedDPOptimizer.step's pre_step + reduce_gradients, per-worker expected batch size B / W *)
Definition dist_flat (noised : Z -> R -> R -> R) (reduce : bool -> Z -> list R -> R) (mean : bool) (B : R) (k : Z) (Ss : list R) (z : R) : R :=
  let W := Z.of_nat (length Ss) in
  reduce mean W (map (fun p => opt_scale mean (noised (fst p) (snd p) z) (B / IZR W) k) (combine (ranks_from 0 (length Ss)) Ss)).
(* the single-process DPOptimizer on the union batch with the total expected batch size B *)
Definition single (mean : bool) (B : R) (k : Z) (S z : R) : R := opt_scale mean (S + z) B k.

Lemma dist_flat_generic noised mean B k Ss z :
  (forall r S, (r <> 0)%Z -> noised r S z = S) -> (forall S, noised 0%Z S z = S + z) ->
  Ss <> [] -> B <> 0 -> (k <> 0)%Z ->
  dist_flat noised ddp_reduce mean B k Ss z = single mean B k (nsum Ss) z.
Proof.
  intros Hn H0 Hne HB Hk. unfold dist_flat, single, ddp_reduce, opt_scale, opt_denominator.
  set (W := Z.of_nat (length Ss)).
  assert (HW : IZR W <> 0). { apply not_0_IZR. subst W. destruct Ss; [contradiction|cbn; lia]. }
  assert (Hk' : IZR k <> 0) by now apply not_0_IZR.
  destruct mean.
  - cbn [nofZ ndiv nmul NumR].
    rewrite <- (map_map (fun p => noised (fst p) (snd p) z) (fun x => x / (B / IZR W * IZR k))).
    rewrite nsum_map_div, (noised_sum noised z Ss Hn H0 Hne). field. repeat split; assumption.
  - cbv beta iota. now rewrite (noised_sum noised z Ss Hn H0 Hne).
Qed.

Theorem dist_flat_equals_union mean B k Ss z : Ss <> [] -> B <> 0 -> (k <> 0)%Z ->
  dist_flat ddp_noised ddp_reduce mean B k Ss z = single mean B k (nsum Ss) z.
Proof. intros. apply dist_flat_generic; auto using ddp_noised_other, ddp_noised_zero. Qed.
Lemma ddpfgc_reduce_eq : @ddpfgc_reduce R _ = @ddp_reduce R _. Proof. reflexivity. Qed.
Theorem dist_ghost_equals_union mean B k Ss z : Ss <> [] -> B <> 0 -> (k <> 0)%Z ->
  dist_flat ddpfgc_noised ddpfgc_reduce mean B k Ss z = single mean B k (nsum Ss) z.
Proof. intros. rewrite ddpfgc_reduce_eq. apply dist_flat_generic; auto using ddpfgc_noised_other. Qed.

(* SimpleDistributedPerLayerOptimizer: per-layer clipping, distributed noise / reduce / step *)
Theorem simple_dpl_mro :
  simple_dpl_resolves "clip_and_accumulate"%string = "DPPerLayerOptimizer"%string /\ simple_dpl_resolves "add_noise"%string = "DistributedDPOptimizer"%string /\
  simple_dpl_resolves "reduce_gradients"%string = "DistributedDPOptimizer"%string /\ simple_dpl_resolves "step"%string = "DistributedDPOptimizer"%string /\
  simple_dpl_resolves "scale_grad"%string = "DPOptimizer"%string /\ simple_dpl_resolves "pre_step"%string = "DPOptimizer"%string.
Proof. repeat split. Qed.

(* DPDDP construction: every rank starts from rank 0's parameters *)
Theorem dpddp_broadcast_from_rank0 (ps : list R) : ps <> [] -> Forall (fun p => p = nth 0 ps 0) (dpddp_init ps).
Proof. intros _. unfold dpddp_init. apply Forall_forall. intros x Hx. apply in_map_iff in Hx. destruct Hx as [y [Hy _]]. now subst x. Qed.
Lemma dpddp_init_length (ps : list R) : length (dpddp_init ps) = length ps.
Proof. unfold dpddp_init. now rewrite map_length. Qed.

(* DistributedPerLayerOptimizer (per-parameter backward hooks + torch DDP).  torch's side is MODELLED from observation (harness):
   the tensor hook assigns p.grad AND returns it, autograd accumulates the returned value onto the assigned one (factor 2), and DDP
   averages over the ranks. *)
Definition dpl_release (mean : bool) (B : R) (k : Z) (Ss : list R) (z : R) : R :=
  let W := Z.of_nat (length Ss) in
  nsum (map (fun p => 2 * dpl_scale mean (dpl_noised (fst p) (snd p) z) (B / IZR W) k W) (combine (ranks_from 0 (length Ss)) Ss)) / IZR W.
Lemma nsum_map_mul (c : R) (l : list R) : nsum (map (fun x => c * x) l) = c * nsum l.
Proof. induction l as [|x l IH]; [cbn; unfold nsum; cbn; lra|]. cbn [map]. rewrite !nsum_cons, IH. lra. Qed.
Lemma dpl_release_closed mean B k Ss z : Ss <> [] -> B <> 0 -> (k <> 0)%Z ->
  dpl_release mean B k Ss z = 2 / IZR (Z.of_nat (length Ss)) * single mean B k (nsum Ss) z.
Proof.
  intros Hne HB Hk. unfold dpl_release, single, dpl_scale, dpl_denominator, opt_scale, opt_denominator.
  set (W := Z.of_nat (length Ss)).
  assert (HW : IZR W <> 0). { apply not_0_IZR. subst W. destruct Ss; [contradiction|cbn; lia]. }
  assert (Hk' : IZR k <> 0) by now apply not_0_IZR.
  pose proof (noised_sum dpl_noised z Ss (fun r S H => dpl_noised_other r S z H) (fun S => eq_refl) Hne) as Hs.
  destruct mean.
  - cbn [nofZ ndiv nmul NumR].
    rewrite <- (map_map (fun p => dpl_noised (fst p) (snd p) z) (fun x => 2 * (x / (B / IZR W * IZR k * IZR W)))).
    rewrite (map_ext (fun x => 2 * (x / (B / IZR W * IZR k * IZR W))) (fun x => (2 / (B / IZR W * IZR k * IZR W)) * x)).
    + rewrite nsum_map_mul, Hs. field. repeat split; assumption.
    + intros x. field. repeat split; assumption.
  - rewrite <- (map_map (fun p => dpl_noised (fst p) (snd p) z) (fun x => 2 * x)). rewrite nsum_map_mul, Hs. field. assumption.
Qed.
Theorem dpl_two_workers_equals_union mean B k S0 S1 z : B <> 0 -> (k <> 0)%Z ->
  dpl_release mean B k [S0; S1] z = single mean B k (nsum [S0; S1]) z.
Proof. intros HB Hk. rewrite dpl_release_closed by (auto; discriminate). cbn [length Z.of_nat Pos.of_succ_nat Pos.succ]. lra. Qed.

(* several optimizers built in turn over the same parameters (a second make_private on one engine): on the generated _register_hooks only
   the LAST optimizer's tensor hook is left on a parameter, so one backward pass clips and accumulates a sample once -- each firing hook adds
   the clipped gradient c to p.summed_grad, the total is (number of hooks) * c *)
Theorem dpl_one_hook_after_any_history {H : Type} (hs : list H) (h : H) : fold_left dpl_register (hs ++ [h]) [] = [h].
Proof. rewrite fold_left_app. reflexivity. Qed.
Definition dpl_accumulated {H : Type} (hooks : list H) (c : R) : R := INR (length hooks) * c.
Theorem dpl_accumulates_once {H : Type} (hs : list H) (h : H) (c : R) : dpl_accumulated (fold_left dpl_register (hs ++ [h]) []) c = c.
Proof. rewrite dpl_one_hook_after_any_history. unfold dpl_accumulated. cbn. lra. Qed.
(* appending instead of replacing: two optimizers, every sample counted twice *)
Theorem dpl_append_refuted : exists c : R, dpl_accumulated (fold_left (fun old h => old ++ [h]) [1%nat; 2%nat] []) c <> c.
Proof. exists 1. unfold dpl_accumulated. cbn. lra. Qed.
