(* Proofs/ClipEval.v -- numeric reading of one released gradient (C03). *)
From Coq Require Import ZArith Reals List Lra Bool.
From OV Require Import Base.Num Base.NumR Base.Py Model.OptimState Gen.Optim Model.ClipNum Proofs.ClipR.
Import ListNotations.
Local Open Scope R_scope.

Section E.
Context {T : Type} {N : Num T}.
(* a release whose ledger is: clipped items of the samples `ids` w.r.t. C, noise nz, one divisor d  (or none) *)
Lemma eval_grad_closed (g z : Z -> psg) (C : T) (ids : list (Z * Z)) (nz : noise T) (divs : list T) :
  eval_grad g z (mkgrad [] (clip_items C ids) nz divs) =
  fold_left (fun acc d => pdiv d acc) divs
    (padd (psum (map (fun id => flat_clipped C (g (snd id))) ids)) (eval_noise z nz)).
Proof.
  unfold eval_grad, grad_items, clip_items. cbn [g_raw g_items g_noise g_divs map app]. rewrite map_map. reflexivity.
Qed.
End E.

Lemma pscale_one (g : list (list R)) : pscale 1 g = g.
Proof.
  unfold pscale, vscale. rewrite <- (map_id g) at 2. apply map_ext. intros v.
  rewrite <- (map_id v) at 2. apply map_ext. intros x. cbn. lra.
Qed.
(* zero noise and a clipping norm above every per-sample norm (+1e-6): the release is the plain averaged gradient *)
Theorem vanilla_when_unclipped (g z : Z -> list (list R)) (C d : R) (ids : list (Z * Z)) :
  (forall id, In id ids -> joint_norm (g (snd id)) + eps6 <= C) ->
  eval_grad g z (mkgrad [] (clip_items C ids) [] [d]) = pdiv d (psum (map (fun id => g (snd id)) ids)).
Proof.
  intros H. rewrite eval_grad_closed. cbn [fold_left]. unfold eval_noise. cbn [map]. unfold psum at 2. cbn [fold_left].
  rewrite padd_nil_r. f_equal. f_equal. apply map_ext_in. intros id Hid. unfold flat_clipped.
  rewrite clip_factor_one; [apply pscale_one | apply joint_norm_nonneg | now apply H].
Qed.
