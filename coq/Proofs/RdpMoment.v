(* Proofs/RdpMoment.v -- C06: where the integer-order series A_alpha comes from, and why RDP adds under composition.
   (1) For ANY expectation operator E that is linear on finite sums and has the Gaussian moment generating function
       E[exp(t z)] = exp(t^2 sigma^2 / 2), the alpha-th moment of the privacy-loss ratio of the Poisson-subsampled Gaussian mechanism,
       E_{z ~ N(0, sigma^2)} [ ((1 - q) + q exp((2 z - 1) / (2 sigma^2)))^alpha ], is exactly the series A_int the code sums
       (binomial theorem + linearity + MGF).  The remaining link -- that this moment is the Renyi divergence of the mechanism in the worse
       direction (Mironov, Talwar, Zhang 2019) -- is cited.
   (2) For finite distributions the alpha-moment of a product (non-adaptive composition) is the product of the moments, so bounds of the
       form mom <= exp((alpha - 1) rho) compose by ADDING rho -- what RDPAccountant sums over its history. *)
From Coq Require Import ZArith Reals Lra List Rpower Lia.
From OV Require Import Base.Num Base.NumR Base.Py Gen.Rdp Proofs.RdpR Proofs.RdpToDp.
Import ListNotations.
Open Scope R_scope.

Lemma exp_pow_INR x (n : nat) : exp x ^ n = exp (INR n * x).
Proof.
  induction n as [|n IH]; [cbn; now rewrite Rmult_0_l, exp_0|].
  rewrite <- tech_pow_Rmult, IH, <- exp_plus, S_INR. f_equal. ring.
Qed.
Section Moment.
Variable sigma : R.
Hypothesis sigma_pos : 0 < sigma.
Variable E : (R -> R) -> R.
Hypothesis E_ext : forall f g, (forall z, f z = g z) -> E f = E g.
Hypothesis E_sum : forall (f : nat -> R -> R) n, E (fun z => sum_f_R0 (fun i => f i z) n) = sum_f_R0 (fun i => E (f i)) n.
Hypothesis E_scal : forall c f, E (fun z => c * f z) = c * E f.
Hypothesis E_mgf : forall t, E (fun z => exp (t * z)) = exp (t * t * (sigma * sigma) / 2).

Definition ratio (q z : R) : R := (1 - q) + q * exp ((2 * z - 1) / (2 * (sigma * sigma))).

Lemma E_exp_k (k : nat) : E (fun z => exp ((2 * z - 1) / (2 * (sigma * sigma))) ^ k) = exp (INR (k * k - k) / (2 * (sigma * sigma))).
Proof.
  assert (Hs0 : sigma <> 0) by lra.
  rewrite (E_ext _ (fun z => exp (- INR k / (2 * (sigma * sigma))) * exp (INR k / (sigma * sigma) * z))).
  2:{ intros z. rewrite exp_pow_INR, <- exp_plus. f_equal. field. exact Hs0. }
  rewrite E_scal, E_mgf, <- exp_plus. f_equal.
  assert (Hk : INR (k * k - k) = INR k * INR k - INR k).
  { destruct k as [|k]; [cbn; ring|]. rewrite minus_INR by nia. rewrite mult_INR. ring. }
  rewrite Hk. field. exact Hs0.
Qed.

Theorem sgm_moment_expansion (q : R) (alpha : nat) : E (fun z => ratio q z ^ alpha) = A_int q sigma alpha.
Proof.
  unfold A_int, ratio.
  rewrite (E_ext _ (fun z => sum_f_R0 (fun i => C alpha i * q ^ i * (1 - q) ^ (alpha - i) * exp ((2 * z - 1) / (2 * (sigma * sigma))) ^ i) alpha)).
  2:{ intros z. rewrite Rplus_comm. rewrite binomial. apply sum_eq. intros i Hi. rewrite Rpow_mult_distr. ring. }
  rewrite E_sum. apply sum_eq. intros i Hi. unfold term.
  rewrite (E_scal (C alpha i * q ^ i * (1 - q) ^ (alpha - i)) (fun z => exp ((2 * z - 1) / (2 * (sigma * sigma))) ^ i)), E_exp_k. reflexivity.
Qed.
End Moment.

(* ---- non-adaptive composition of two mechanisms with finite output distributions ---- *)
Definition dprod (d1 d2 : list (R * R)) : list (R * R) :=
  flat_map (fun pq => map (fun pq' => (fst pq * fst pq', snd pq * snd pq')) d2) d1.
Lemma mom_app a d1 d2 : mom a (d1 ++ d2) = mom a d1 + mom a d2.
Proof. unfold mom. induction d1 as [|x d1 IH]; simpl; [lra|]. rewrite IH. lra. Qed.
Lemma mom_cons a p q d : mom a ((p, q) :: d) = Rpower p a * Rpower q (1 - a) + mom a d.
Proof. reflexivity. Qed.
Lemma mom_scale a p q d : 0 < p -> 0 < q -> pos d ->
  mom a (map (fun pq' => (p * fst pq', q * snd pq')) d) = Rpower p a * Rpower q (1 - a) * mom a d.
Proof.
  intros Hp Hq Hd. induction Hd as [|[p' q'] d [Hp' Hq'] _ IH]; [unfold mom; simpl; lra|].
  cbn [map fst snd]. rewrite !mom_cons, IH. cbn [fst snd] in Hp', Hq'. rewrite <- !Rpower_mult_distr by assumption. ring.
Qed.
Theorem mom_product a d1 d2 : pos d1 -> pos d2 -> mom a (dprod d1 d2) = mom a d1 * mom a d2.
Proof.
  intros H1 H2. unfold dprod. induction H1 as [|[p q] d1 [Hp Hq] _ IH]; [unfold mom; simpl; lra|].
  cbn [flat_map fst snd]. rewrite mom_app, IH, mom_cons. cbn [fst snd] in Hp, Hq. rewrite (mom_scale a p q d2 Hp Hq H2). ring.
Qed.
Lemma mom_nonneg a d : 0 <= mom a d.
Proof. induction d as [|[p q] d IH]; [unfold mom; simpl; lra|]. rewrite mom_cons. unfold Rpower. pose proof (exp_pos (a * ln p)). pose proof (exp_pos ((1 - a) * ln q)). nra. Qed.
Theorem rdp_adds_under_composition a rho1 rho2 d1 d2 : pos d1 -> pos d2 ->
  mom a d1 <= exp ((a - 1) * rho1) -> mom a d2 <= exp ((a - 1) * rho2) ->
  mom a (dprod d1 d2) <= exp ((a - 1) * (rho1 + rho2)).
Proof.
  intros H1 H2 B1 B2. rewrite mom_product by assumption.
  replace ((a - 1) * (rho1 + rho2)) with ((a - 1) * rho1 + (a - 1) * rho2) by ring. rewrite exp_plus.
  apply Rmult_le_compat; try apply mom_nonneg; assumption.
Qed.
Lemma dprod_pos d1 d2 : pos d1 -> pos d2 -> pos (dprod d1 d2).
Proof.
  intros H1 H2. unfold dprod, pos. apply Forall_flat_map. apply Forall_forall. intros [p q] Hin.
  unfold pos in H1. rewrite Forall_forall in H1. destruct (H1 _ Hin) as [Hp Hq]. apply Forall_map. unfold pos in H2.
  eapply Forall_impl; [|exact H2]. intros [p' q'] [Hp' Hq']. cbn in *. split; nra.
Qed.
(* end to end: RDP bounds of two mechanisms at order a, ADDED, then converted with the code's epsilon expression, bound the hockey-stick
   divergence of the composition by delta *)
Theorem composed_rdp_to_dp_sound a rho1 rho2 delta d1 d2 : pos d1 -> pos d2 -> 1 < a -> 0 < delta ->
  mom a d1 <= exp ((a - 1) * rho1) -> mom a d2 <= exp ((a - 1) * rho2) ->
  hs (exp (eps_of_rdp (rho1 + rho2) a delta)) (dprod d1 d2) <= delta.
Proof.
  intros H1 H2 Ha Hd B1 B2. apply rdp_to_dp_sound; [now apply dprod_pos|exact Ha|exact Hd|].
  now apply rdp_adds_under_composition.
Qed.
