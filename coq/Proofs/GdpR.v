(* Proofs/GdpR.v -- C12: the GDP accountant's central-limit formula (generated compute_mu_poisson) over the reals *)
From Coq Require Import ZArith Reals Lra.
From OV Require Import Base.Num Base.NumR Base.Py Gen.Rdp.
Local Open Scope R_scope.

Lemma gdp_mu_formula (T : Z) (sigma q : R) :
  gdp_mu_poisson T sigma q = sqrt (exp (1 / (sigma * sigma)) - 1) * sqrt (IZR T) * q.
Proof. unfold gdp_mu_poisson. cbn. unfold nsq. cbn. reflexivity. Qed.
(* mu is non-decreasing in the number of steps and in the sample rate, non-increasing in sigma *)
Lemma gdp_mu_mono_steps (T T' : Z) sigma q : 0 <= q -> (0 <= T <= T')%Z -> gdp_mu_poisson T sigma q <= gdp_mu_poisson T' sigma q.
Proof.
  intros Hq (H0 & H). rewrite !gdp_mu_formula. apply Rmult_le_compat_r; [exact Hq|].
  apply Rmult_le_compat_l; [apply sqrt_pos|]. apply sqrt_le_1_alt. now apply IZR_le.
Qed.
Lemma gdp_mu_mono_rate (T : Z) sigma q q' : q <= q' -> gdp_mu_poisson T sigma q <= gdp_mu_poisson T sigma q'.
Proof.
  intros H. rewrite !gdp_mu_formula. apply Rmult_le_compat_l; [|exact H]. apply Rmult_le_pos; apply sqrt_pos.
Qed.
Lemma gdp_mu_antitone_sigma (T : Z) sigma sigma' q : 0 <= q -> 0 < sigma <= sigma' -> gdp_mu_poisson T sigma' q <= gdp_mu_poisson T sigma q.
Proof.
  intros Hq (H0 & H). rewrite !gdp_mu_formula. apply Rmult_le_compat_r; [exact Hq|]. apply Rmult_le_compat_r; [apply sqrt_pos|].
  apply sqrt_le_1_alt. apply Rplus_le_compat_r.
  destruct (Req_dec sigma sigma') as [E|Hne]; [subst; right; reflexivity|]. left. apply exp_increasing.
  assert (Hlt : sigma < sigma') by (destruct H as [H|H]; [exact H|contradiction]).
  assert (S1 : sigma * sigma < sigma' * sigma') by (apply Rmult_le_0_lt_compat; lra).
  assert (S2 : 0 < sigma * sigma) by (apply Rmult_lt_0_compat; lra).
  unfold Rdiv. rewrite !Rmult_1_l. apply Rinv_lt_contravar; [apply Rmult_lt_0_compat; lra | exact S1].
Qed.
