(* Proofs/CalibP.v -- C08: the GENERATED noise-multiplier search, for an ARBITRARY epsilon function
   (no monotonicity or continuity is needed for safety): whatever it returns does not overshoot the budget. *)
From Coq Require Import ZArith Reals List Bool Lra.
From OV Require Import Base.Num Base.NumR Base.Py Gen.Calib.
Import ListNotations.
Local Open Scope R_scope.

Lemma whileM_inv {A} (I : A -> Prop) (c : A -> bool) (body : A -> result A) :
  (forall a, I a -> c a = true -> forall a', body a = Ok a' -> I a') ->
  forall fuel a r, I a -> whileM fuel c body a = Ok r -> I r /\ c r = false.
Proof.
  intros Hb. induction fuel as [|f IH]; intros a r Ha H; cbn in H; [discriminate|].
  destruct (c a) eqn:C.
  - destruct (body a) as [a'|e] eqn:B; cbn in H; [|discriminate]. eapply IH; [|exact H]. eapply Hb; eauto.
  - inversion H; subst. auto.
Qed.

Theorem bisection_invariant (ninf : R) (eps_of : R -> R) (fuel : nat) (target tol : R) (sigma : R) :
  target < ninf ->                      (* eps_high starts at float('inf') *)
  calib_search ninf eps_of fuel target tol = Ok sigma ->
  eps_of sigma <= target /\ target - eps_of sigma <= tol.
Proof.
  intros Hinf. unfold calib_search. cbn [nofdec nofZ NumR].
  set (c1 := fun '(sigma_high, eps_high) => nltb target eps_high).
  set (b1 := fun '(sigma_high, eps_high) => _).
  destruct (whileM fuel c1 b1 (Rdec 1 1, ninf)) as [[sh eh]|e] eqn:W1; cbn [bind]; [|discriminate].
  assert (S1 : forall a, (fun '(s, e) => e = eps_of s \/ e = ninf) a -> c1 a = true -> forall a', b1 a = Ok a' ->
               (fun '(s, e) => e = eps_of s \/ e = ninf) a').
  { intros [s0 e0] _ _ [s1 e1] Hb. unfold b1 in Hb. cbn in Hb.
    destruct (Rltb _ _); [discriminate|]. inversion Hb; subst. now left. }
  pose proof (whileM_inv _ c1 b1 S1 fuel (Rdec 1 1, ninf) (sh, eh) (or_intror eq_refl) W1) as (Q1 & C1).
  cbn in Q1, C1. apply Rltb_false in C1.
  assert (E1 : eh = eps_of sh) by (destruct Q1 as [Q|Q]; [exact Q|lra]).
  set (c2 := fun '(sigma_high, eps_high, sigma_low) => nltb tol (nsub target eps_high)).
  set (b2 := fun '(sigma_high, eps_high, sigma_low) => _).
  destruct (whileM fuel c2 b2 (sh, eh, Rdec 0 (-1))) as [[[sh2 eh2] sl2]|e] eqn:W2; cbn [bind]; [|discriminate].
  intros H. inversion H; subst sigma. clear H.
  assert (S2 : forall a, (fun '(s, e, l) => e = eps_of s /\ e <= target) a -> c2 a = true -> forall a', b2 a = Ok a' ->
               (fun '(s, e, l) => e = eps_of s /\ e <= target) a').
  { intros [[s0 e0] l0] J _ [[s1 e1] l1] Hb. cbn in J. destruct J as (J1 & J2). unfold b2 in Hb. cbn in Hb.
    destruct (Rltb (eps_of ((l0 + s0) / 2)) target) eqn:B; inversion Hb; subst.
    - apply Rltb_true in B. split; [reflexivity|lra].
    - split; [try reflexivity; try assumption|lra]. }
  pose proof (whileM_inv _ c2 b2 S2 fuel (sh, eh, Rdec 0 (-1)) (sh2, eh2, sl2) (conj E1 C1) W2) as ((Q2 & L2) & C2).
  cbn in C2. apply Rltb_false in C2. subst eh2. split; lra.
Qed.
