(* Proofs/SchedP.v -- closed forms of the *generated* scheduler code (Gen/Sched.v).
   Stated over an arbitrary Num instance (no ring laws are needed: the closed form is the
   k-fold iterate of the multiplication the code performs, which is also the bit-exact float
   statement); the familiar  init * gamma^k  forms over R are in Proofs/SchedR.v. *)
From Coq Require Import ZArith List Lia Bool.
From OV Require Import Base.Num Base.Py Base.ZX Model.SchedState Gen.Sched.
Import ListNotations.

Section P.
Context {T : Type} {N : Num T}.

(* k scheduler steps; a raising step ends the run with that exception *)
Fixpoint steps (step : ss T -> sres (ss T) unit) (k : nat) (s : ss T) : result (ss T) :=
  match k with
  | O => Ok s
  | S k' => match step s with SOk s' _ => steps step k' s' | SErr _ e => Err e end
  end.

Lemma steps_snoc step k s :
  steps step (S k) s =
  bind (steps step k s) (fun s' => match step s' with SOk s'' _ => Ok s'' | SErr _ e => Err e end).
Proof.
  revert s. induction k as [|k IH]; intros s.
  - cbn [steps bind]. destruct (step s) as [s' u|s' e]; reflexivity.
  - change (steps step (S (S k)) s) with (match step s with SOk s' _ => steps step (S k) s' | SErr _ e => Err e end).
    cbn [steps]. destruct (step s) as [s' u|s' e]; cbn [bind]; [apply IH | reflexivity].
Qed.

Fixpoint iter (k : nat) (f : T -> T) (x : T) : T := match k with O => x | S k' => f (iter k' f x) end.

(* "same scheduler, possibly different epoch / live value" *)
Definition same_cfg (a b : ss T) :=
  f_gamma a = f_gamma b /\ f_step_size a = f_step_size b /\ f_base a = f_base b /\ f_lam a = f_lam b.

(* ---------------- noise schedulers ---------------- *)

Lemma noise_exp_ctor s0 v g :
  exists s1, noise_exp_init s0 v g (-1) = SOk s1 tt /\
             f_last_epoch s1 = 0%Z /\ f_oval s1 = v /\ f_gamma s1 = g.
Proof. eexists; split; [reflexivity|]; cbn; auto. Qed.

Lemma noise_exp_one s :
  (0 <= f_last_epoch s)%Z ->
  exists s', noise_step noise_exp_get s = SOk s' tt /\ f_last_epoch s' = (f_last_epoch s + 1)%Z /\
             f_oval s' = nmul (f_oval s) (f_gamma s) /\ same_cfg s' s.
Proof.
  intros H. unfold noise_step, noise_exp_get. cbn.
  destruct (Z.eqb_spec (f_last_epoch s + 1) 0) as [E|E]; [lia|]. cbn.
  eexists; split; [reflexivity|]; cbn; unfold same_cfg; cbn; repeat split; auto.
Qed.

Theorem noise_exp_closed_form s1 k :
  f_last_epoch s1 = 0%Z ->
  exists sk, steps (noise_step noise_exp_get) k s1 = Ok sk /\
             f_last_epoch sk = Z.of_nat k /\
             f_oval sk = iter k (fun x => nmul x (f_gamma s1)) (f_oval s1) /\ same_cfg sk s1.
Proof.
  intros H0. induction k as [|k IH].
  - exists s1; cbn; unfold same_cfg; repeat split; auto.
  - destruct IH as (sk & Hs & He & Hv & Hc). rewrite steps_snoc, Hs. cbn [bind].
    destruct (noise_exp_one sk) as (s' & Hst & He' & Hv' & Hc'); [lia|].
    rewrite Hst. exists s'. split; [reflexivity|]. split; [lia|]. split.
    + rewrite Hv', Hv. cbn [iter]. destruct Hc as (Hg & _). now rewrite Hg.
    + unfold same_cfg in *. intuition congruence.
Qed.

Lemma noise_step_ctor s0 v sz g :
  exists s1, noise_stepc_init s0 v sz g (-1) = SOk s1 tt /\
             f_last_epoch s1 = 0%Z /\ f_oval s1 = v /\ f_gamma s1 = g /\ f_step_size s1 = sz.
Proof. eexists; split; [reflexivity|]; cbn; auto. Qed.

Lemma noise_step_one s :
  (0 <= f_last_epoch s)%Z ->
  exists s', noise_step noise_step_get s = SOk s' tt /\ f_last_epoch s' = (f_last_epoch s + 1)%Z /\
             f_oval s' = (if ((f_last_epoch s + 1) mod f_step_size s =? 0)%Z
                          then nmul (f_gamma s) (f_oval s) else f_oval s) /\ same_cfg s' s.
Proof.
  intros H. unfold noise_step, noise_step_get. cbn.
  destruct (Z.eqb_spec (f_last_epoch s + 1) 0) as [E|E]; [lia|]. cbn [orb].
  destruct ((f_last_epoch s + 1) mod f_step_size s =? 0)%Z; cbn;
    (eexists; split; [reflexivity|]; cbn; unfold same_cfg; cbn; repeat split; auto).
Qed.

Theorem noise_step_closed_form s1 k :
  f_last_epoch s1 = 0%Z -> (0 < f_step_size s1)%Z ->
  exists sk, steps (noise_step noise_step_get) k s1 = Ok sk /\
             f_last_epoch sk = Z.of_nat k /\
             f_oval sk = iter (Z.to_nat (Z.of_nat k / f_step_size s1)) (fun x => nmul (f_gamma s1) x) (f_oval s1) /\
             same_cfg sk s1.
Proof.
  intros H0 Hsz. induction k as [|k IH].
  - exists s1; cbn [steps]. rewrite Z.div_0_l by lia. cbn; unfold same_cfg; repeat split; auto.
  - destruct IH as (sk & Hs & He & Hv & Hc). rewrite steps_snoc, Hs. cbn [bind].
    destruct (noise_step_one sk) as (s' & Hst & He' & Hv' & Hc'); [lia|].
    rewrite Hst. exists s'. split; [reflexivity|]. split; [lia|]. split.
    + rewrite Hv'. destruct Hc as (Hg & Hz & _). rewrite Hg, Hz, He, Hv.
      replace (Z.of_nat k + 1)%Z with (Z.of_nat (S k)) by lia.
      destruct (Z.eqb_spec (Z.of_nat (S k) mod f_step_size s1) 0) as [E|E].
      * replace (Z.to_nat (Z.of_nat (S k) / f_step_size s1))
          with (S (Z.to_nat (Z.of_nat k / f_step_size s1))); [reflexivity|].
        assert (Z.of_nat (S k) / f_step_size s1 = Z.of_nat k / f_step_size s1 + 1)%Z
          by (replace (Z.of_nat (S k)) with (Z.of_nat k + 1)%Z in * by lia; apply div_succ_hit; lia).
        assert (0 <= Z.of_nat k / f_step_size s1)%Z by (apply Z.div_pos; lia). lia.
      * replace (Z.of_nat (S k) / f_step_size s1)%Z with (Z.of_nat k / f_step_size s1)%Z; [reflexivity|].
        replace (Z.of_nat (S k)) with (Z.of_nat k + 1)%Z in * by lia. symmetry; apply div_succ_miss; lia.
    + unfold same_cfg in *. intuition congruence.
Qed.

Lemma noise_lambda_ctor s0 v f :
  exists s1, noise_lambda_init s0 v f (-1) = SOk s1 tt /\
             f_last_epoch s1 = 0%Z /\ f_oval s1 = nmul v (f 0%Z) /\ f_base s1 = v /\ f_lam s1 = f.
Proof. eexists; split; [reflexivity|]; cbn; auto. Qed.

Lemma noise_lambda_one s :
  exists s', noise_step noise_lambda_get s = SOk s' tt /\ f_last_epoch s' = (f_last_epoch s + 1)%Z /\
             f_oval s' = nmul (f_base s) (f_lam s (f_last_epoch s + 1)%Z) /\ same_cfg s' s.
Proof. unfold noise_step, noise_lambda_get. cbn. eexists; split; [reflexivity|]; cbn; unfold same_cfg; cbn; repeat split; auto. Qed.

Theorem noise_lambda_closed_form s1 k :
  f_last_epoch s1 = 0%Z -> f_oval s1 = nmul (f_base s1) (f_lam s1 0%Z) ->
  exists sk, steps (noise_step noise_lambda_get) k s1 = Ok sk /\
             f_last_epoch sk = Z.of_nat k /\
             f_oval sk = nmul (f_base s1) (f_lam s1 (Z.of_nat k)) /\ same_cfg sk s1.
Proof.
  intros H0 Hv0. induction k as [|k IH].
  - exists s1; cbn; unfold same_cfg; repeat split; auto.
  - destruct IH as (sk & Hs & He & Hv & Hc). rewrite steps_snoc, Hs. cbn [bind].
    destruct (noise_lambda_one sk) as (s' & Hst & He' & Hv' & Hc').
    rewrite Hst. exists s'. split; [reflexivity|]. split; [lia|]. split.
    + rewrite Hv'. destruct Hc as (_ & _ & Hb & Hl). rewrite Hb, Hl, He. f_equal. f_equal. lia.
    + unfold same_cfg in *. intuition congruence.
Qed.

(* restore.  state_dict() holds every scheduler field but NOT the live scheduled value, which
   lives on the optimizer.  Loading it into a fresh scheduler s' therefore reproduces s exactly
   iff the fresh optimizer already carries the same live value (PARTIAL: the full statement
   "a restored scheduler continues the same trajectory" is refuted in Findings/C17.v). *)
Theorem noise_restore_exact_partial (s s' : ss T) :
  f_oval s' = f_oval s -> f_lam s' = f_lam s -> noise_load_state_dict s' (noise_state_dict s) = s.
Proof. intros H L. destruct s, s'; cbn in *. now subst. Qed.

Theorem noise_restore_fields (s s' : ss T) : f_lam s' = f_lam s ->
  let r := noise_load_state_dict s' (noise_state_dict s) in
  f_last_epoch r = f_last_epoch s /\ same_cfg r s /\ f_oval r = f_oval s'.
Proof. intros L. destruct s, s'; cbn in *; unfold same_cfg; cbn; subst; repeat split. Qed.

(* a Lambda schedule is correct again from its next step on: the base value is part of its state *)
Theorem noise_lambda_restore_next (s s' : ss T) : f_lam s' = f_lam s ->
  noise_step noise_lambda_get (noise_load_state_dict s' (noise_state_dict s)) = noise_step noise_lambda_get s.
Proof. intros L. destruct s, s'; cbn in L; subst; reflexivity. Qed.

(* ---------------- grad-clip schedulers (same shapes, other attribute) ---------------- *)

Lemma clip_exp_ctor s0 v g :
  exists s1, clip_exp_init s0 v g (-1) = SOk s1 tt /\
             f_last_epoch s1 = 0%Z /\ f_oval s1 = v /\ f_gamma s1 = g.
Proof. eexists; split; [reflexivity|]; cbn; auto. Qed.

Lemma clip_exp_one s :
  (0 <= f_last_epoch s)%Z ->
  exists s', clip_step clip_exp_get s = SOk s' tt /\ f_last_epoch s' = (f_last_epoch s + 1)%Z /\
             f_oval s' = nmul (f_oval s) (f_gamma s) /\ same_cfg s' s.
Proof.
  intros H. unfold clip_step, clip_exp_get. cbn.
  destruct (Z.eqb_spec (f_last_epoch s + 1) 0) as [E|E]; [lia|]. cbn.
  eexists; split; [reflexivity|]; cbn; unfold same_cfg; cbn; repeat split; auto.
Qed.

Theorem clip_exp_closed_form s1 k :
  f_last_epoch s1 = 0%Z ->
  exists sk, steps (clip_step clip_exp_get) k s1 = Ok sk /\
             f_last_epoch sk = Z.of_nat k /\
             f_oval sk = iter k (fun x => nmul x (f_gamma s1)) (f_oval s1) /\ same_cfg sk s1.
Proof.
  intros H0. induction k as [|k IH].
  - exists s1; cbn; unfold same_cfg; repeat split; auto.
  - destruct IH as (sk & Hs & He & Hv & Hc). rewrite steps_snoc, Hs. cbn [bind].
    destruct (clip_exp_one sk) as (s' & Hst & He' & Hv' & Hc'); [lia|].
    rewrite Hst. exists s'. split; [reflexivity|]. split; [lia|]. split.
    + rewrite Hv', Hv. cbn [iter]. destruct Hc as (Hg & _). now rewrite Hg.
    + unfold same_cfg in *. intuition congruence.
Qed.

Lemma clip_step_ctor s0 v sz g :
  exists s1, clip_stepc_init s0 v sz g (-1) = SOk s1 tt /\
             f_last_epoch s1 = 0%Z /\ f_oval s1 = v /\ f_gamma s1 = g /\ f_step_size s1 = sz.
Proof. eexists; split; [reflexivity|]; cbn; auto. Qed.

Lemma clip_step_one s :
  (0 <= f_last_epoch s)%Z ->
  exists s', clip_step clip_step_get s = SOk s' tt /\ f_last_epoch s' = (f_last_epoch s + 1)%Z /\
             f_oval s' = (if ((f_last_epoch s + 1) mod f_step_size s =? 0)%Z
                          then nmul (f_gamma s) (f_oval s) else f_oval s) /\ same_cfg s' s.
Proof.
  intros H. unfold clip_step, clip_step_get. cbn.
  destruct (Z.eqb_spec (f_last_epoch s + 1) 0) as [E|E]; [lia|]. cbn [orb].
  destruct ((f_last_epoch s + 1) mod f_step_size s =? 0)%Z; cbn;
    (eexists; split; [reflexivity|]; cbn; unfold same_cfg; cbn; repeat split; auto).
Qed.

Theorem clip_step_closed_form s1 k :
  f_last_epoch s1 = 0%Z -> (0 < f_step_size s1)%Z ->
  exists sk, steps (clip_step clip_step_get) k s1 = Ok sk /\
             f_last_epoch sk = Z.of_nat k /\
             f_oval sk = iter (Z.to_nat (Z.of_nat k / f_step_size s1)) (fun x => nmul (f_gamma s1) x) (f_oval s1) /\
             same_cfg sk s1.
Proof.
  intros H0 Hsz. induction k as [|k IH].
  - exists s1; cbn [steps]. rewrite Z.div_0_l by lia. cbn; unfold same_cfg; repeat split; auto.
  - destruct IH as (sk & Hs & He & Hv & Hc). rewrite steps_snoc, Hs. cbn [bind].
    destruct (clip_step_one sk) as (s' & Hst & He' & Hv' & Hc'); [lia|].
    rewrite Hst. exists s'. split; [reflexivity|]. split; [lia|]. split.
    + rewrite Hv'. destruct Hc as (Hg & Hz & _). rewrite Hg, Hz, He, Hv.
      replace (Z.of_nat k + 1)%Z with (Z.of_nat (S k)) by lia.
      destruct (Z.eqb_spec (Z.of_nat (S k) mod f_step_size s1) 0) as [E|E].
      * replace (Z.to_nat (Z.of_nat (S k) / f_step_size s1))
          with (S (Z.to_nat (Z.of_nat k / f_step_size s1))); [reflexivity|].
        assert (Z.of_nat (S k) / f_step_size s1 = Z.of_nat k / f_step_size s1 + 1)%Z
          by (replace (Z.of_nat (S k)) with (Z.of_nat k + 1)%Z in * by lia; apply div_succ_hit; lia).
        assert (0 <= Z.of_nat k / f_step_size s1)%Z by (apply Z.div_pos; lia). lia.
      * replace (Z.of_nat (S k) / f_step_size s1)%Z with (Z.of_nat k / f_step_size s1)%Z; [reflexivity|].
        replace (Z.of_nat (S k)) with (Z.of_nat k + 1)%Z in * by lia. symmetry; apply div_succ_miss; lia.
    + unfold same_cfg in *. intuition congruence.
Qed.

Lemma clip_lambda_ctor s0 v f :
  exists s1, clip_lambda_init s0 v f (-1) = SOk s1 tt /\
             f_last_epoch s1 = 0%Z /\ f_oval s1 = nmul v (f 0%Z) /\ f_base s1 = v /\ f_lam s1 = f.
Proof. eexists; split; [reflexivity|]; cbn; auto. Qed.

Lemma clip_lambda_one s :
  exists s', clip_step clip_lambda_get s = SOk s' tt /\ f_last_epoch s' = (f_last_epoch s + 1)%Z /\
             f_oval s' = nmul (f_base s) (f_lam s (f_last_epoch s + 1)%Z) /\ same_cfg s' s.
Proof. unfold clip_step, clip_lambda_get. cbn. eexists; split; [reflexivity|]; cbn; unfold same_cfg; cbn; repeat split; auto. Qed.

Theorem clip_lambda_closed_form s1 k :
  f_last_epoch s1 = 0%Z -> f_oval s1 = nmul (f_base s1) (f_lam s1 0%Z) ->
  exists sk, steps (clip_step clip_lambda_get) k s1 = Ok sk /\
             f_last_epoch sk = Z.of_nat k /\
             f_oval sk = nmul (f_base s1) (f_lam s1 (Z.of_nat k)) /\ same_cfg sk s1.
Proof.
  intros H0 Hv0. induction k as [|k IH].
  - exists s1; cbn; unfold same_cfg; repeat split; auto.
  - destruct IH as (sk & Hs & He & Hv & Hc). rewrite steps_snoc, Hs. cbn [bind].
    destruct (clip_lambda_one sk) as (s' & Hst & He' & Hv' & Hc').
    rewrite Hst. exists s'. split; [reflexivity|]. split; [lia|]. split.
    + rewrite Hv'. destruct Hc as (_ & _ & Hb & Hl). rewrite Hb, Hl, He. f_equal. f_equal. lia.
    + unfold same_cfg in *. intuition congruence.
Qed.

Theorem clip_restore_exact_partial (s s' : ss T) :
  f_oval s' = f_oval s -> f_lam s' = f_lam s -> clip_load_state_dict s' (clip_state_dict s) = s.
Proof. intros H L. destruct s, s'; cbn in *. now subst. Qed.

Theorem clip_lambda_restore_next (s s' : ss T) : f_lam s' = f_lam s ->
  clip_step clip_lambda_get (clip_load_state_dict s' (clip_state_dict s)) = clip_step clip_lambda_get s.
Proof. intros L. destruct s, s'; cbn in L; subst; reflexivity. Qed.
(* the saved state holds no function: it can be pickled whatever the schedule is *)
Theorem state_dict_holds_no_function (s : ss T) : sd_lam (noise_state_dict s) = None /\ sd_lam (clip_state_dict s) = None.
Proof. split; reflexivity. Qed.

End P.
