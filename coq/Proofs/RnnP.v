(* Proofs/RnnP.v -- the batched / packed time loop refines the per-sequence recurrence (C13); compute_seq_lengths is correct. *)
From Coq Require Import List Arith Lia.
From OV Require Import Gen.Rnn.
Import ListNotations.
Set Implicit Arguments.

Section Pack.
Variables X H : Type.
Variable cell : X -> H -> H.

Fixpoint scan (h : H) (xs : list X) : list H :=
  match xs with [] => [] | x :: xs' => let h' := cell x h in h' :: scan h' xs' end.

Definition nonempty (A : Type) (l : list A) : bool := match l with [] => false | _ => true end.
Fixpoint takeWhile (A : Type) (p : A -> bool) (l : list A) : list A :=
  match l with [] => [] | a :: l' => if p a then a :: takeWhile p l' else [] end.
Definition heads (A : Type) (rows : list (list A)) : list A := flat_map (firstn 1) rows.
Definition map2 (A B C : Type) (f : A -> B -> C) (la : list A) (lb : list B) : list C :=
  map (fun ab => f (fst ab) (snd ab)) (combine la lb).

(* time-major "packed" view of a ragged, prefix-closed batch; fuel = max length *)
Fixpoint cols (A : Type) (fuel : nat) (rows : list (list A)) : list (list A) :=
  match fuel with
  | 0 => []
  | S f => match takeWhile (@nonempty A) rows with
           | [] => []
           | ne => heads ne :: cols f (map (@tl A) ne)
           end
  end.

(* the code's time loop: h_prev[:batch_size_t] then the cell, row-wise *)
Fixpoint loop (xs : list (list X)) (h : list H) : list (list H) :=
  match xs with
  | [] => []
  | x :: xs' => let h' := map2 cell x (firstn (length x) h) in h' :: loop xs' h'
  end.

Definition scans (h0 : list H) (rows : list (list X)) : list (list H) := map2 (fun s h => scan h s) rows h0.

Lemma heads_cons (A : Type) (x : A) r ne : heads ((x :: r) :: ne) = x :: heads ne.
Proof. reflexivity. Qed.
Lemma map2_cons (A B C : Type) (f : A -> B -> C) a la b lb : map2 f (a :: la) (b :: lb) = f a b :: map2 f la lb.
Proof. reflexivity. Qed.
Lemma scans_cons h hs r rs : scans (h :: hs) (r :: rs) = scan h r :: scans hs rs.
Proof. reflexivity. Qed.

Lemma nonempty_scan h s : nonempty (scan h s) = nonempty s.
Proof. destruct s; reflexivity. Qed.

Lemma takeWhile_scans : forall rows h0, length rows <= length h0 ->
  takeWhile (@nonempty H) (scans h0 rows) =
  scans (firstn (length (takeWhile (@nonempty X) rows)) h0) (takeWhile (@nonempty X) rows).
Proof.
  induction rows as [|r rows IH]; intros h0 Hl; [reflexivity|].
  destruct h0 as [|h h0]; [simpl in Hl; lia|]. rewrite scans_cons. simpl takeWhile.
  rewrite nonempty_scan. destruct (nonempty r); [|reflexivity].
  simpl length. simpl firstn. rewrite scans_cons. f_equal. apply IH. simpl in Hl; lia.
Qed.

Lemma takeWhile_all (A : Type) (p : A -> bool) l : Forall (fun a => p a = true) (takeWhile p l).
Proof. induction l as [|a l IH]; simpl; [constructor|]. destruct (p a) eqn:E; constructor; assumption. Qed.

Lemma heads_scans : forall ne h, length ne = length h -> Forall (fun r => nonempty r = true) ne ->
  heads (scans h ne) = map2 cell (heads ne) h.
Proof.
  induction ne as [|r ne IH]; intros h Hl Hne; [reflexivity|].
  destruct h as [|h0 h]; [discriminate|]. inversion Hne as [|? ? Hr Hne']; subst.
  destruct r as [|x r]; [discriminate|]. rewrite scans_cons. cbn [scan]. rewrite !heads_cons, map2_cons.
  f_equal. apply IH; [simpl in Hl; lia|assumption].
Qed.

Lemma tails_scans : forall ne h, length ne = length h -> Forall (fun r => nonempty r = true) ne ->
  map (@tl H) (scans h ne) = scans (map2 cell (heads ne) h) (map (@tl X) ne).
Proof.
  induction ne as [|r ne IH]; intros h Hl Hne; [reflexivity|].
  destruct h as [|h0 h]; [discriminate|]. inversion Hne as [|? ? Hr Hne']; subst.
  destruct r as [|x r]; [discriminate|]. rewrite scans_cons. cbn [scan map tl]. rewrite heads_cons, map2_cons.
  rewrite scans_cons. f_equal.
  apply IH; [simpl in Hl; lia|assumption].
Qed.

Lemma heads_length (A : Type) (ne : list (list A)) : Forall (fun r => nonempty r = true) ne -> length (heads ne) = length ne.
Proof. induction 1 as [|r ne Hr _ IH]; [reflexivity|]. destruct r; [discriminate|]. rewrite heads_cons. simpl. lia. Qed.

Lemma map2_length (A B C : Type) (f : A -> B -> C) la lb : length la = length lb -> length (map2 f la lb) = length la.
Proof. intros E. unfold map2. rewrite map_length, combine_length. lia. Qed.

(* packing the per-sequence recurrences = running the batched loop on the packed input *)
Lemma takeWhile_length_le (A : Type) (p : A -> bool) l : length (takeWhile p l) <= length l.
Proof. induction l as [|a l IH]; simpl; [lia|]. destruct (p a); simpl; lia. Qed.

Theorem packed_forward_refines_scan : forall fuel rows h0, length rows <= length h0 ->
  loop (cols fuel rows) h0 = cols fuel (scans h0 rows).
Proof.
  induction fuel as [|f IH]; intros rows h0 Hl; [reflexivity|].
  cbn [cols]. rewrite (takeWhile_scans rows h0 Hl).
  pose proof (takeWhile_all (@nonempty X) rows) as Hne.
  pose proof (takeWhile_length_le (@nonempty X) rows) as Hk.
  remember (takeWhile (@nonempty X) rows) as ne eqn:Ene.
  destruct ne as [|r0 ne']; [reflexivity|].
  destruct h0 as [|h1 h0']; [simpl in *; lia|].
  cbn [length firstn]. rewrite scans_cons. cbv iota. rewrite <- scans_cons.
  set (hk := h1 :: firstn (length ne') h0').
  assert (Hhk: length (r0 :: ne') = length hk).
  { unfold hk. simpl. rewrite firstn_length. simpl in Hk, Hl. lia. }
  cbn [loop]. rewrite heads_length by assumption.
  replace (firstn (length (r0 :: ne')) (h1 :: h0')) with hk by reflexivity.
  rewrite heads_scans by assumption. f_equal.
  rewrite tails_scans by assumption. apply IH.
  rewrite map_length, map2_length; rewrite heads_length by assumption; lia.
Qed.
End Pack.

(* ---------- compute_seq_lengths ---------- *)
Unset Implicit Arguments.
(* ascending form: for each time step t, (b_{t-1} - b_t) sequences end after t steps; the last b_T run to the end *)
Fixpoint asc (k prev : nat) (rest : list nat) : list nat :=
  match rest with
  | [] => repeat (k + 1) prev
  | b :: r => repeat (k + 1) (prev - b) ++ asc (k + 1) b r
  end.
Lemma csl_loop_asc rest : forall prev k acc,
  let '(running, acc', last) := csl_loop prev rest k acc in acc' ++ repeat (running + 1) last = acc ++ asc k prev rest.
Proof.
  induction rest as [|b r IH]; intros prev k acc; cbn [csl_loop asc]; [reflexivity|].
  specialize (IH b (k + 1) (acc ++ repeat (k + 1) (prev - b))).
  destruct (csl_loop b r (k + 1) (acc ++ repeat (k + 1) (prev - b))) as [[running acc'] last].
  rewrite IH. now rewrite <- app_assoc.
Qed.
Lemma compute_seq_lengths_asc b0 rest : compute_seq_lengths (b0 :: rest) = rev (asc 0 b0 rest).
Proof.
  unfold compute_seq_lengths. destruct rest as [|b r].
  - cbn. induction b0 as [|n IHn]; [reflexivity|]. cbn [repeat rev]. rewrite <- IHn. clear IHn.
    induction n as [|m IHm]; [reflexivity|]. cbn [repeat app]. now rewrite <- IHm.
  - cbn [length Nat.eqb]. pose proof (csl_loop_asc (b :: r) b0 0 []) as H.
    destruct (csl_loop b0 (b :: r) 0 []) as [[running acc] last]. now rewrite H.
Qed.
(* batch sizes of a PackedSequence: non-increasing *)
Fixpoint noninc (prev : nat) (rest : list nat) : Prop := match rest with [] => True | b :: r => b <= prev /\ noninc b r end.
Definition longer (i : nat) (bs : list nat) : nat := length (filter (fun b => Nat.ltb i b) bs).
Lemma asc_length rest : forall k prev, noninc prev rest -> length (asc k prev rest) = prev.
Proof.
  induction rest as [|b r IH]; intros k prev H; cbn [asc]; [apply repeat_length|].
  destruct H as [Hb Hr]. rewrite app_length, repeat_length, (IH _ _ Hr). lia.
Qed.
Lemma longer_zero_tail b r i : noninc b r -> b <= i -> longer i (b :: r) = 0.
Proof.
  revert b. induction r as [|c r IH]; intros b H Hi; unfold longer in *; cbn [filter].
  - destruct (Nat.ltb_spec i b); [lia|reflexivity].
  - destruct (Nat.ltb_spec i b); [lia|]. destruct H as [Hc Hr]. apply (IH c Hr). lia.
Qed.
Lemma nth_repeat_lt (a : nat) m n d : n < m -> nth n (repeat a m) d = a.
Proof. revert n. induction m as [|m IH]; intros n H; [lia|]. destruct n as [|n]; [reflexivity|]. cbn. apply IH. lia. Qed.
Lemma nth_rev_asc rest : forall k prev i, noninc prev rest -> i < prev ->
  nth i (rev (asc k prev rest)) 0 = k + longer i (prev :: rest).
Proof.
  induction rest as [|b r IH]; intros k prev i H Hi; cbn [asc].
  - unfold longer. cbn [filter]. destruct (Nat.ltb_spec i prev); [|lia]. cbn [length].
    rewrite rev_nth by (rewrite repeat_length; lia). rewrite repeat_length. rewrite nth_repeat_lt by lia. lia.
  - destruct H as [Hb Hr]. rewrite rev_app_distr.
    assert (Hl : length (rev (asc (k + 1) b r)) = b) by (rewrite rev_length; now apply asc_length).
    destruct (Nat.lt_ge_cases i b) as [Hlt|Hge].
    + rewrite app_nth1 by lia. rewrite (IH _ _ _ Hr Hlt).
      unfold longer. cbn [filter]. destruct (Nat.ltb_spec i prev); [|lia]. destruct (Nat.ltb_spec i b); [|lia]. cbn [length]. lia.
    + rewrite app_nth2 by lia. rewrite Hl. rewrite rev_nth by (rewrite repeat_length; lia). rewrite repeat_length.
      rewrite nth_repeat_lt by lia.
      pose proof (longer_zero_tail b r i Hr Hge) as Hz. unfold longer in *. cbn [filter] in *.
      destruct (Nat.ltb_spec i prev); [|lia]. cbn [length]. destruct (Nat.ltb_spec i b); [lia|]. lia.
Qed.
(* entry i of compute_seq_lengths is the number of time steps whose batch still contains sequence i: its length *)
Theorem seq_lengths_correct b0 rest i : noninc b0 rest -> i < b0 ->
  nth i (compute_seq_lengths (b0 :: rest)) 0 = longer i (b0 :: rest).
Proof. intros H Hi. rewrite compute_seq_lengths_asc, nth_rev_asc by assumption. reflexivity. Qed.
Theorem seq_lengths_length b0 rest : noninc b0 rest -> length (compute_seq_lengths (b0 :: rest)) = b0.
Proof. intros H. rewrite compute_seq_lengths_asc, rev_length. now apply asc_length. Qed.

(* ---------- reverse direction: growing batch, rows of h_0 entering as their sequences start ---------- *)
Section Reverse.
Variables X H : Type.
Variable cell : X -> H -> H.
Fixpoint rscan (h : H) (xs : list X) : list H := match xs with [] => [] | x :: xs' => let h' := cell x h in h' :: rscan h' xs' end.
Definition rmap2 (x : list X) (h : list H) : list H := map (fun ab => cell (fst ab) (snd ab)) (combine x h).
(* the code's reversed time loop: previous outputs, completed with the rows of h_0 that enter now, cut to the current batch
   (first step: h = [] gives h_0[:batch]; later: torch.cat((h, h_0[prev:batch])) ) *)
Fixpoint rloop (h0 : list H) (xs : list (list X)) (h : list H) : list (list H) :=
  match xs with
  | [] => []
  | x :: xs' => let h' := rmap2 x (firstn (length x) (h ++ skipn (length h) h0)) in h' :: rloop h0 xs' h'
  end.
(* row i of a time-major list of columns: the entries of the columns that are long enough *)
Definition rowseq (A : Type) (i : nat) (cs : list (list A)) : list A :=
  flat_map (fun c => match nth_error c i with Some v => [v] | None => [] end) cs.
Fixpoint nondecreasing (n : nat) (cs : list (list X)) : Prop :=
  match cs with [] => True | c :: r => n <= length c /\ nondecreasing (length c) r end.

Lemma nth_error_fill (h h0 : list H) i : length h <= i -> nth_error (h ++ skipn (length h) h0) i = nth_error h0 i.
Proof.
  intros Hi. rewrite nth_error_app2 by exact Hi. revert i Hi. generalize (length h) as n. revert h0.
  induction h0 as [|a h0 IH]; intros n i Hi.
  - rewrite skipn_nil. destruct (i - n), i; reflexivity.
  - destruct n as [|n]; [now rewrite Nat.sub_0_r|]. destruct i as [|i]; [lia|]. cbn [skipn nth_error Nat.sub]. apply IH. lia.
Qed.
Lemma rmap2_length x h : length x <= length h -> length (rmap2 x h) = length x.
Proof. intros Hl. unfold rmap2. rewrite map_length, combine_length. lia. Qed.
Lemma rmap2_nth x h i xi hi : nth_error x i = Some xi -> nth_error h i = Some hi -> nth_error (rmap2 x h) i = Some (cell xi hi).
Proof.
  revert h i. induction x as [|a x IH]; intros h i Hx Hh; [destruct i; discriminate|].
  destruct h as [|b h]; [destruct i; discriminate|]. destruct i as [|i]; cbn in *.
  - inversion Hx; inversion Hh; subst. reflexivity.
  - apply IH; assumption.
Qed.
Lemma nth_error_firstn (A : Type) (l : list A) n i : i < n -> nth_error (firstn n l) i = nth_error l i.
Proof.
  revert n i. induction l as [|a l IH]; intros n i Hi; [now rewrite firstn_nil|].
  destruct n as [|n]; [lia|]. destruct i as [|i]; [reflexivity|]. cbn. apply IH. lia.
Qed.
Lemma fill_length (h h0 : list H) : length h <= length h0 -> length (h ++ skipn (length h) h0) = length h0.
Proof. intros Hl. rewrite app_length, skipn_length. lia. Qed.

(* row i of the loop's output columns is the recurrence over row i of the input columns, started from the state that row holds on entry *)
Theorem rloop_rows (h0 : list H) (cs : list (list X)) : forall (h : list H) (i : nat) (hi : H),
  nondecreasing (length h) cs -> Forall (fun c => length c <= length h0) cs -> length h <= length h0 ->
  nth_error (h ++ skipn (length h) h0) i = Some hi ->
  rowseq H i (rloop h0 cs h) = rscan hi (rowseq X i cs).
Proof.
  induction cs as [|c cs IH]; intros h i hi Hnd Hle Hh Hi; [reflexivity|].
  destruct Hnd as [Hhc Hnd]. inversion Hle as [|? ? Hc Hle']; subst.
  cbn [rloop]. set (hh := h ++ skipn (length h) h0) in *.
  set (h' := rmap2 c (firstn (length c) hh)).
  assert (Lhh : length hh = length h0) by (apply fill_length; exact Hh).
  assert (Lh' : length h' = length c) by (apply rmap2_length; rewrite firstn_length; lia).
  unfold rowseq at 1 2. cbn [flat_map]. fold (rowseq H i (rloop h0 cs h')). fold (rowseq X i cs).
  destruct (nth_error c i) as [xi|] eqn:Ec.
  - assert (Hic : i < length c) by (apply nth_error_Some; congruence).
    assert (Eh' : nth_error h' i = Some (cell xi hi)).
    { apply rmap2_nth; [exact Ec|]. rewrite nth_error_firstn by exact Hic. exact Hi. }
    rewrite Eh'. cbn [app rscan]. f_equal.
    apply IH; [rewrite Lh'; exact Hnd|exact Hle'|lia|].
    rewrite nth_error_app1 by lia. exact Eh'.
  - assert (Hic : length c <= i) by (apply nth_error_None; exact Ec).
    assert (Eh' : nth_error h' i = None) by (apply nth_error_None; lia).
    rewrite Eh'. cbn [app].
    apply IH; [rewrite Lh'; exact Hnd|exact Hle'|lia|].
    rewrite nth_error_fill by lia. rewrite <- Hi. unfold hh. symmetry. apply nth_error_fill. lia.
Qed.
Lemma rowseq_rev (A : Type) i (cs : list (list A)) : rowseq A i (rev cs) = rev (rowseq A i cs).
Proof.
  unfold rowseq. induction cs as [|c cs IH]; [reflexivity|]. cbn [rev flat_map]. rewrite flat_map_app, IH, rev_app_distr. cbn [flat_map].
  rewrite app_nil_r. destruct (nth_error c i); reflexivity.
Qed.
(* the whole reversed layer, row by row: the time-ordered outputs of row i are the reversed recurrence over the reversed row *)
Theorem reverse_layer_rows (h0 : list H) (cols_fwd : list (list X)) (i : nat) (hi : H) :
  nondecreasing 0 (rev cols_fwd) -> Forall (fun c => length c <= length h0) cols_fwd -> nth_error h0 i = Some hi ->
  rowseq H i (rev (rloop h0 (rev cols_fwd) [])) = rev (rscan hi (rev (rowseq X i cols_fwd))).
Proof.
  intros Hnd Hle Hi. rewrite rowseq_rev. f_equal. rewrite <- rowseq_rev.
  apply rloop_rows; [exact Hnd| |cbn; lia|cbn; exact Hi].
  apply Forall_rev. exact Hle.
Qed.
End Reverse.
