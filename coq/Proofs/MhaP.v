(* Proofs/MhaP.v -- the head split / merge reshapes generated from DPMultiheadAttention.forward are the intended index maps (C14). *)
From Coq Require Import List Arith Lia.
From OV Require Import Model.ViewOps Gen.Mha.
Import ListNotations.

Lemma mul_add_inj s x c x' c' : c < s -> c' < s -> x * s + c = x' * s + c' -> x = x' /\ c = c'.
Proof. intros H1 H2 E. apply (Nat.div_mod_unique s x x' c c' H1 H2). lia. Qed.
(* a row-major offset determines the in-range index *)
Lemma flat_inj (s : shape) (i j : idx) : inr s i -> inr s j -> flat s i = flat s j -> i = j.
Proof.
  destruct s as [[s0 s1] s2], i as [[a b] c], j as [[a' b'] c']. cbn. intros [_ [Hb Hc]] [_ [Hb' Hc']] E.
  apply mul_add_inj in E; try assumption. destruct E as [E1 ->].
  apply mul_add_inj in E1; try assumption. destruct E1 as [-> ->]. reflexivity.
Qed.
Lemma head_index_lt B H b h : b < B -> h < H -> b * H + h < B * H.
Proof. intros. nia. Qed.
Lemma feature_index_lt H hd h d : h < H -> d < hd -> h * hd + d < H * hd.
Proof. intros. nia. Qed.

(* q.contiguous().view(L, B*H, hd).transpose(0, 1): entry (b*H + h, l, d) of the head tensor is entry (l, b, h*hd + d) of the projection *)
Theorem split_heads_correct (L B H hd l b h d : nat) : l < L -> b < B -> h < H -> d < hd ->
  let st := vrun (split_q_ops L B H hd) (vinit (L, B, H * hd)) in
  fst st = (B * H, L, hd) /\ snd st (b * H + h, l, d) (l, b, h * hd + d).
Proof.
  intros Hl Hb Hh Hd. cbn. split; [reflexivity|].
  exists (l, b, h * hd + d). split; [|split; [|reflexivity]].
  - cbn. repeat split; try assumption. now apply feature_index_lt.
  - cbn. ring.
Qed.
(* ... and nothing else: the source index is unique *)
Theorem split_heads_functional (L B H hd : nat) (x src src' : idx) :
  let st := vrun (split_q_ops L B H hd) (vinit (L, B, H * hd)) in snd st x src -> snd st x src' -> src = src'.
Proof.
  cbn. destruct x as [[i j] k]. intros [y [Hy [Ey Ry]]] [y' [Hy' [Ey' Ry']]]. subst src src'.
  destruct y as [[a b] c], y' as [[a' b'] c']. apply (flat_inj (L, B, H * hd)); cbn; try assumption. lia.
Qed.
(* attn_output.transpose(0,1).contiguous().view(L, B, E): entry (l, b, h*hd + d) of the merged output is entry (b*H + h, l, d) of the per-head result *)
Theorem merge_heads_correct (L B H hd l b h d : nat) : l < L -> b < B -> h < H -> d < hd ->
  let st := vrun (merge_ops_seq_first L B H hd) (vinit (B * H, L, hd)) in
  fst st = (L, B, H * hd) /\ snd st (l, b, h * hd + d) (b * H + h, l, d).
Proof.
  intros Hl Hb Hh Hd. cbn. split; [reflexivity|].
  exists (l, b * H + h, d). split; [|split; [|reflexivity]].
  - cbn. repeat split; try assumption. now apply head_index_lt.
  - cbn. ring.
Qed.
Theorem merge_heads_functional (L B H hd : nat) (x src src' : idx) :
  let st := vrun (merge_ops_seq_first L B H hd) (vinit (B * H, L, hd)) in snd st x src -> snd st x src' -> src = src'.
Proof.
  cbn. destruct x as [[i j] k]. intros [y [Hy [Ey Ry]]] [y' [Hy' [Ey' Ry']]].
  destruct y as [[a b] c], y' as [[a' b'] c']. cbn in *.
  assert ((a, b, c) = (a', b', c')) as E by (apply (flat_inj (L, B * H, hd)); cbn; try assumption; lia).
  inversion E; subst. congruence.
Qed.
(* batch_first = True: the same merge followed by a transposition: entry (b, l, h*hd + d) is entry (b*H + h, l, d) of the per-head result *)
Theorem merge_heads_batch_first_correct (L B H hd l b h d : nat) : l < L -> b < B -> h < H -> d < hd ->
  let st := vrun (merge_ops_batch_first L B H hd) (vinit (B * H, L, hd)) in
  fst st = (B, L, H * hd) /\ snd st (b, l, h * hd + d) (b * H + h, l, d).
Proof.
  intros Hl Hb Hh Hd. cbn. split; [reflexivity|].
  exists (l, b * H + h, d). split; [|split; [|reflexivity]].
  - cbn. repeat split; try assumption. now apply head_index_lt.
  - cbn. ring.
Qed.
Theorem merge_heads_batch_first_functional (L B H hd : nat) (x src src' : idx) :
  let st := vrun (merge_ops_batch_first L B H hd) (vinit (B * H, L, hd)) in snd st x src -> snd st x src' -> src = src'.
Proof.
  cbn. destruct x as [[i j] k]. intros [y [Hy [Ey Ry]]] [y' [Hy' [Ey' Ry']]].
  destruct y as [[a b] c], y' as [[a' b'] c']. cbn in *.
  assert ((a, b, c) = (a', b', c')) as E by (apply (flat_inj (L, B * H, hd)); cbn; try assumption; lia).
  inversion E; subst. congruence.
Qed.
(* merging the split heads gives the projection back: split and merge are mutually inverse index maps *)
Theorem merge_split_inverse (L B H hd l b h d : nat) : l < L -> b < B -> h < H -> d < hd ->
  exists hidx, snd (vrun (merge_ops_seq_first L B H hd) (vinit (B * H, L, hd))) (l, b, h * hd + d) hidx /\
               snd (vrun (split_q_ops L B H hd) (vinit (L, B, H * hd))) hidx (l, b, h * hd + d).
Proof.
  intros Hl Hb Hh Hd. exists (b * H + h, l, d). split.
  - apply (merge_heads_correct L B H hd l b h d); assumption.
  - apply (split_heads_correct L B H hd l b h d); assumption.
Qed.
(* the key / value split is the same reshape over the source length *)
Theorem split_kv_same (S B H hd : nat) : split_k_ops S B H hd = split_q_ops S B H hd /\ split_v_ops S B H hd = split_q_ops S B H hd.
Proof. split; reflexivity. Qed.
