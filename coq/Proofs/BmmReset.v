(* Proofs/BmmReset.v -- what BatchMemoryManager's clean-up (generated drop_unfinished_logical_batch, run at the start of every iteration of
   the splitting sampler and at __exit__) does to the optimizer ledger (C10 / C11). *)
From Coq Require Import ZArith List Bool.
From OV Require Import Base.Num Base.Py Model.OptimState Model.OptimRef Gen.Optim Proofs.OptimSM Proofs.OptimEq Proofs.OptimTrace.
Import ListNotations.
Section R.
Context {T : Type} {N : Num T}.
Definition v_drop (s : ost T) : sres (ost T) unit := drop_unfinished_logical_batch (fun s _ => v_zero s) s.

(* the closed form: the queue is emptied; a half-finished logical batch (last step skipped) is forgotten: flag down, clipped sum and
   per-sample gradients cleared; nothing else moves -- no event, no accountant entry, no hyper-parameter *)
Definition ref_drop (s : ost T) : ost T :=
  let s := upd_skipq s [] in
  if o_last_skipped s then
    let s := upd_last_skipped s false in
    upd_grad (upd_summed (upd_gs s GNone) None) (grad_zero (o_grad s))
  else s.
Theorem drop_is_ref (s : ost T) : v_drop s = SOk (ref_drop s) tt.
Proof.
  unfold v_drop, drop_unfinished_logical_batch, ref_drop. cbn [o_last_skipped upd_skipq].
  destruct (o_last_skipped s) eqn:L; [|reflexivity].
  rewrite zero_eq. unfold ref_zero. cbn. reflexivity.
Qed.
Theorem drop_post (s : ost T) :
  let s' := ref_drop s in
  o_skipq s' = [] /\ o_last_skipped s' = false /\ (o_last_skipped s = true -> o_summed s' = None /\ o_gs s' = GNone) /\
  o_events s' = o_events s /\ o_hist s' = o_hist s /\ o_nm s' = o_nm s /\ o_mgn s' = o_mgn s /\ o_noise_pos s' = o_noise_pos s.
Proof.
  unfold ref_drop. cbn [o_last_skipped upd_skipq]. destruct (o_last_skipped s) eqn:L; cbn; repeat split; auto; try discriminate.
Qed.
(* after an iteration that ran to its end (queue consumed, last step was a real one) the clean-up changes nothing *)
Theorem drop_clean_noop (s : ost T) : o_skipq s = [] -> o_last_skipped s = false -> ref_drop s = s.
Proof. intros Q L. unfold ref_drop. cbn [o_last_skipped upd_skipq]. rewrite L. destruct s. cbn in *. subst. reflexivity. Qed.
(* signals queued for physical batches that never reached step() are irrelevant to everything that follows *)
Theorem stale_signals_irrelevant (s : ost T) (q q' : list bool) : ref_drop (upd_skipq s q) = ref_drop (upd_skipq s q').
Proof. unfold ref_drop. cbn. reflexivity. Qed.
(* whatever program of forward/backward passes, steps, clears and signals follows the clean-up, it runs exactly as after an iteration
   that left nothing behind *)
Corollary after_cleanup_as_from_clean_queue (s : ost T) (q : list bool) (ops : list (@op T)) :
  run ops (ref_drop (upd_skipq s q)) = run ops (ref_drop (upd_skipq s [])).
Proof. now rewrite (stale_signals_irrelevant s q []). Qed.
End R.

Section A.
Context {T : Type} {N : Num T}.
Hypothesis neqb_sound : forall a b : T, neqb a b = true -> a = b.
(* the clean-up writes no accountant record and no event: the ledger invariant survives it, so accounting stays exact over any number of
   iterations of the memory manager's loader, complete or abandoned *)
Lemma cleanup_keeps_ledger (s : ost T) : Ledger s -> Ledger (ref_drop s).
Proof.
  intros L. destruct (drop_post s) as (_ & _ & _ & E & H & _).
  eapply ledger_quiet; [| | exact H | exact E | exact L]; unfold ref_drop; cbn [o_last_skipped upd_skipq];
    destruct (o_last_skipped s); reflexivity.
Qed.
Theorem accounting_exact_across_cleanups v a nm mgn ebs rate mean secure accum (epochs : list (list (@op T))) :
  a <> AccGDP ->
  let s := fold_left (fun s ops => ref_drop (run ops s)) epochs (init_state v a nm mgn ebs rate mean secure accum) in
  expand (o_hist s) = acc_list (o_events s) /\ wo false (o_events s) = true /\
  count_inner (o_events s) = List.length (expand (o_hist s)).
Proof.
  intros Ha s.
  assert (L : Ledger s).
  { subst s. assert (L0 : Ledger (init_state v a nm mgn ebs rate mean secure accum)).
    { unfold Ledger, init_state. cbn. repeat split; auto. constructor. }
    revert L0. generalize (init_state v a nm mgn ebs rate mean secure accum).
    induction epochs as [|ops eps IH]; intros s0 L0; [exact L0|]. cbn [fold_left]. apply IH.
    apply cleanup_keeps_ledger. now apply (run_ledger neqb_sound). }
  destruct L as (_ & _ & _ & HX & HW). split; [exact HX|]. split; [exact HW|].
  pose proof (wo_counts false _ HW) as C. rewrite HX, C. apply Nat.add_0_r.
Qed.
End A.
