(* Proofs/OptimMore.v -- misuse sequences raise instead of releasing (C11), GDP accountant step (C05),
   value-in-force corollaries (C17/C04). *)
From Coq Require Import ZArith List Bool String Lia.
From OV Require Import Base.Num Base.Py Model.OptimState Model.OptimRef Gen.Optim Proofs.OptimSM Proofs.OptimEq
  Proofs.OptimInv Proofs.OptimTrace.
Import ListNotations.

Section More.
Context {T : Type} {N : Num T}.

(* stepping again on already consumed per-sample gradients raises and changes nothing (hooks variants) *)
Theorem reuse_raises (s : ost T) :
  o_variant s <> Ghost -> cells (o_gs s) <> [] -> Forall (fun c => c_proc c = true) (cells (o_gs s)) ->
  v_step s = SErr s ValueError.
Proof.
  intros V NE AP. rewrite step_eq. unfold ref_step, ref_pre_step.
  assert (F : exists ids, gs_flat (o_gs s) = Ok ids) by (destruct (o_gs s); cbn in *; [contradiction|eauto|eauto]).
  destruct F as (ids & F).
  assert (K : gs_check (o_gs s) = Err ValueError).
  { destruct (o_gs s) as [|c|l]; cbn in *; [contradiction| |].
    - inversion AP as [|? ? Hc _]; subst. now rewrite Hc.
    - destruct l as [|c l]; [contradiction|]. inversion AP as [|? ? Hc _]; subst. cbn. now rewrite Hc. }
  destruct (o_variant s); try contradiction; rewrite F; unfold ref_clip; rewrite K; reflexivity.
Qed.

(* ghost clipping: a step whose summed gradient was already released raises *)
Theorem ghost_reuse_raises (s : ost T) :
  o_variant s = Ghost -> sproc (o_summed s) = true -> o_skipq s = [] ->
  exists s', v_step s = SErr s' ValueError /\ o_events s' = o_events s.
Proof.
  intros V P Q. rewrite step_eq. unfold ref_step, ref_pre_step. rewrite V. unfold ref_fgc_accumulate.
  destruct (o_grad s) as [g|]; [|eexists; split; reflexivity]. cbn [sbind].
  unfold ref_after_accumulate, ref_check_skip. cbn [o_skipq upd_grad upd_summed]. rewrite Q.
  unfold ref_add_noise. cbn [o_summed upd_grad upd_summed].
  destruct (o_summed s) as [v0|]; cbn in P; [|discriminate]. cbn [sum_check sum_iadd s_proc]. rewrite P.
  eexists; split; reflexivity.
Qed.

(* Poisson sampling (accumulation forbidden): a second backward without a step raises *)
Theorem second_backward_raises (s : ost T) sids :
  o_accum_allowed s = false -> cells (o_gs s) <> [] ->
  exists s', fb_hooks s sids = SErr s' ValueError.
Proof.
  intros A G. unfold fb_hooks. cbn [o_accum_allowed upd_gs upd_grad upd_next_bid o_gs]. rewrite A.
  destruct (o_gs s) as [|c|l]; cbn in G; [contradiction| |].
  - cbn. eexists; reflexivity.
  - destruct l as [|c0 l]; [contradiction|]. cbn [gs_promote gs_is_multi negb andb].
    rewrite app_length. cbn [List.length].
    match goal with |- context [(?a <? ?b)%nat] => destruct (Nat.ltb_spec a b) end;
      [eexists; reflexivity | exfalso; lia].
Qed.

(* GDP accountant: a step either raises (different parameters) or keeps a single run *)
Theorem gdp_single_run (s : ost T) sigma q :
  o_acc s = AccGDP ->
  match ref_acc s sigma q with
  | SOk s' _ => exists n, o_hist s' = [(sigma, q, n)] \/ exists s0 q0, o_hist s' = [(s0, q0, n)] /\ neqb s0 sigma = true /\ neqb q0 q = true
  | SErr _ e => e = ValueError
  end.
Proof.
  intros A. unfold ref_acc. rewrite A. destruct (rev (o_hist s)) as [|[[s0 q0] n] r].
  - cbn. exists 1%Z. now left.
  - destruct (neqb s0 sigma) eqn:E1, (neqb q0 q) eqn:E2; cbn; try reflexivity.
    exists (n + 1)%Z. right. exists s0, q0. auto.
Qed.

(* a refused accountant step (GDP with other parameters) leaves the ledger exactly as it was *)
Theorem refused_step_keeps_ledger (s : ost T) sigma q s' e :
  ref_acc s sigma q = SErr s' e -> s' = s.
Proof.
  unfold ref_acc. destruct (o_acc s); destruct (rev (o_hist s)) as [|[[s0 q0] n] r]; try discriminate.
  all: match goal with |- context [if ?b then _ else _] => destruct b end; try discriminate.
  intros H. now inversion H.
Qed.

(* a skipped physical sub-batch step: no noise draw, no accountant record, no inner step *)
Theorem skipped_step_silent (s : ost T) q :
  o_skipq s = true :: q -> o_events (sstate (v_step s)) = o_events s /\ o_hist (sstate (v_step s)) = o_hist s.
Proof.
  intros Q. rewrite step_eq. unfold ref_step, ref_pre_step.
  assert (A : forall s1, o_skipq s1 = true :: q -> o_events s1 = o_events s -> o_hist s1 = o_hist s ->
              o_events (sstate (sbind (ref_after_accumulate s1) (fun s0 go => if go then SOk (emit s0 (EInner (o_grad s0))) tt else SOk s0 tt))) = o_events s /\
              o_hist (sstate (sbind (ref_after_accumulate s1) (fun s0 go => if go then SOk (emit s0 (EInner (o_grad s0))) tt else SOk s0 tt))) = o_hist s).
  { intros s1 Q1 E1 H1. unfold ref_after_accumulate, ref_check_skip. rewrite Q1. cbn. auto. }
  destruct (o_variant s).
  4: { unfold ref_fgc_accumulate. destruct (o_grad s); [|cbn; auto]. cbn [sbind]. apply A; auto. }
  all: destruct (gs_flat (o_gs s)); [|cbn; auto]; unfold ref_clip; destruct (gs_check (o_gs s)); [|cbn; auto];
       destruct (gs_flat (o_gs s)); [|cbn; auto]; cbn [sbind]; apply A; auto.
Qed.

(* the trace theorem, stated for the GENERATED step *)
Theorem v_step_trace (neqb_sound : forall a b : T, neqb a b = true -> a = b) (s : ost T) :
  o_has_hook s = true -> o_acc s <> AccGDP -> runs_pos (o_hist s) ->
  let r := v_step s in
  let s' := sstate r in
  cfg s' = cfg s /\ runs_pos (o_hist s') /\
  exists nz, Forall (noise_ev (nmul (o_nm s) (o_mgn s))) nz /\
   ((o_events s' = o_events s ++ nz /\ o_hist s' = o_hist s)
   \/
   (exists k og, r = SOk s' tt /\ ref_accit s = Ok k /\
      o_events s' = o_events s ++ nz ++ [EAccount (o_nm s) (nmul (o_rate s) (nofZ k)); EInner og] /\
      expand (o_hist s') = expand (o_hist s) ++ [(o_nm s, nmul (o_rate s) (nofZ k))])).
Proof. rewrite step_eq. now apply step_trace. Qed.

(* what a noise / clip scheduler step (SetNm / SetC) writes is what the next optimizer step uses:
   noise std = nm' * c', accountant record = nm' *)
Corollary scheduled_value_used (neqb_sound : forall a b : T, neqb a b = true -> a = b) (s : ost T) nm' c' :
  o_has_hook s = true -> o_acc s <> AccGDP -> runs_pos (o_hist s) ->
  let s1 := sstate (exec (sstate (exec s (SetNm nm'))) (SetC c')) in
  let r := exec s1 Step in
  let s' := sstate r in
  exists nz, Forall (noise_ev (nmul nm' c')) nz /\
   ((o_events s' = o_events s ++ nz /\ o_hist s' = o_hist s)
   \/
   (exists k og, r = SOk s' tt /\
      o_events s' = o_events s ++ nz ++ [EAccount nm' (nmul (o_rate s) (nofZ k)); EInner og] /\
      expand (o_hist s') = expand (o_hist s) ++ [(nm', nmul (o_rate s) (nofZ k))])).
Proof.
  intros HH HA HP s1 r s'. subst r s'. cbn [exec].
  pose proof (v_step_trace neqb_sound s1) as ST. cbn zeta in ST.
  assert (E1 : o_events s1 = o_events s /\ o_nm s1 = nm' /\ o_mgn s1 = c' /\ o_rate s1 = o_rate s /\
               o_has_hook s1 = o_has_hook s /\ o_acc s1 = o_acc s /\ o_hist s1 = o_hist s) by (subst s1; repeat split).
  destruct E1 as (E1 & N1 & M1 & R1 & K1 & A1 & H1).
  rewrite K1, A1, H1, N1, M1, R1, E1 in ST. specialize (ST HH HA HP).
  destruct ST as (_ & _ & nz & F & [(E & Hh) | (k & og & R & _ & E & X)]); exists nz; (split; [exact F|]).
  - left. auto.
  - right. exists k, og. auto.
Qed.
End More.
