(* Proofs/SamplerP.v -- C09: indices of a Poisson batch, batches per epoch, strided shards partition the dataset. *)
From Coq Require Import ZArith List Bool Lia Sorting.Sorted Permutation Arith.
From OV Require Import Base.Num Base.Py Model.Sampler.
Import ListNotations.

Lemma mask_indices_from_spec base m i :
  In i (mask_indices_from base m) <-> (base <= i < base + Z.of_nat (length m))%Z /\ nth (Z.to_nat (i - base)) m false = true.
Proof.
  revert base. induction m as [|b m IH]; intros base; cbn [mask_indices_from length].
  - split; [intros []|intros (H & _); lia].
  - rewrite in_app_iff, IH. split.
    + intros [H|(H1 & H2)].
      * destruct b; [|destruct H]. destruct H as [<-|[]]. split; [lia|]. now rewrite Z.sub_diag.
      * split; [lia|]. replace (Z.to_nat (i - base)) with (S (Z.to_nat (i - (base + 1)))) by lia. exact H2.
    + intros (H1 & H2). destruct (Z.eq_dec i base) as [->|Hne].
      * left. rewrite Z.sub_diag in H2. cbn in H2. subst b. now left.
      * right. split; [lia|]. replace (Z.to_nat (i - base)) with (S (Z.to_nat (i - (base + 1)))) in H2 by lia. exact H2.
Qed.
Lemma mask_indices_from_lb base m : Forall (fun i => (base <= i)%Z) (mask_indices_from base m).
Proof. apply Forall_forall. intros i H. apply mask_indices_from_spec in H. lia. Qed.
Lemma mask_indices_from_sorted base m : StronglySorted Z.lt (mask_indices_from base m).
Proof.
  revert base. induction m as [|b m IH]; intros base; cbn [mask_indices_from]; [constructor|].
  destruct b; cbn [app]; [|apply IH]. constructor; [apply IH|].
  eapply Forall_impl; [|apply mask_indices_from_lb]. cbn. intros; lia.
Qed.
Lemma sorted_nodup (l : list Z) : StronglySorted Z.lt l -> NoDup l.
Proof.
  induction 1 as [|x l _ IH F]; constructor; [|exact IH]. intros H. rewrite Forall_forall in F. specialize (F x H). lia.
Qed.

(* a Poisson batch: strictly increasing (hence duplicate free), in range, and i is in it iff u_i < q *)
Theorem batch_indices_spec {T} {N : Num T} (q : T) (us : list T) :
  let b := mask_indices (sample_mask q us) in
  StronglySorted Z.lt b /\ NoDup b /\
  forall i, In i b <-> (0 <= i < Z.of_nat (length us))%Z /\ nltb (nth (Z.to_nat i) us q) q = true.
Proof.
  cbn zeta. unfold mask_indices. split; [apply mask_indices_from_sorted|]. split; [apply sorted_nodup, mask_indices_from_sorted|].
  intros i. rewrite mask_indices_from_spec. unfold sample_mask. rewrite map_length, Z.sub_0_r, Z.add_0_l.
  split; intros (H1 & H2); (split; [exact H1|]).
  - rewrite (nth_indep _ false ((fun u => nltb u q) q)) in H2 by (rewrite map_length; lia).
    now rewrite (map_nth (fun u => nltb u q)) in H2.
  - rewrite (nth_indep _ false ((fun u => nltb u q) q)) by (rewrite map_length; lia).
    now rewrite (map_nth (fun u => nltb u q)).
Qed.

(* every epoch has exactly `steps` batches, the b-th computed from the b-th fresh block of uniforms only *)
Theorem batches_per_epoch {T} {N : Num T} (steps : Z) (q : T) (u : Z -> list T) : (0 <= steps)%Z ->
  length (sampler_epoch steps q u) = Z.to_nat steps /\
  forall b, (0 <= b < steps)%Z -> nth (Z.to_nat b) (sampler_epoch steps q u) [] = mask_indices (sample_mask q (u b)).
Proof.
  intros H. unfold sampler_epoch, zrange. rewrite !map_length, seq_length, Z.sub_0_r. split; [reflexivity|].
  intros b Hb. rewrite map_map.
  rewrite (nth_indep _ [] ((fun k => mask_indices (sample_mask q (u (0 + Z.of_nat k)%Z))) O)) by (rewrite map_length, seq_length; lia).
  rewrite (map_nth (fun k => mask_indices (sample_mask q (u (0 + Z.of_nat k)%Z)))). rewrite seq_nth by lia. cbn [plus].
  f_equal. f_equal. f_equal. lia.
Qed.

(* ---- strided shards  l[r::W] ---- *)
Lemma stride_from_length {A} (l : list A) (W : nat) : (0 < W)%nat -> forall k, (k < W)%nat ->
  length (stride_from k W l) = ((length l + (W - 1 - k)) / W)%nat.
Proof.
  intros HW. induction l as [|x l IH]; intros k Hk; cbn [stride_from length].
  - symmetry. apply Nat.div_small. lia.
  - destruct k as [|k].
    + cbn [length]. rewrite IH by lia. replace (W - 1 - (W - 1))%nat with 0%nat by lia.
      replace (S (length l) + (W - 1 - 0))%nat with (length l + 0 + 1 * W)%nat by lia.
      rewrite Nat.div_add by lia. lia.
    + rewrite IH by lia. f_equal. lia.
Qed.
(* element-wise: the j-th element of shard r is the (r + j W)-th element of l *)
Lemma stride_from_nth {A} (d : A) (l : list A) (W : nat) : (0 < W)%nat -> forall k j, (k < W)%nat ->
  nth j (stride_from k W l) d = nth (k + j * W) l d.
Proof.
  intros HW. induction l as [|x l IH]; intros k j Hk; cbn [stride_from].
  - now rewrite !nth_overflow by (cbn; lia).
  - destruct k as [|k].
    + destruct j as [|j]; [reflexivity|]. cbn [nth]. rewrite IH by lia.
      replace (0 + S j * W)%nat with (S (W - 1 + j * W)) by lia. reflexivity.
    + rewrite IH by lia. reflexivity.
Qed.
(* shards are pairwise disjoint in positions and cover every position: position n belongs to shard (n mod W), slot n / W *)
Theorem strided_shards_partition {A} (d : A) (l : list A) (W : nat) : (0 < W)%nat ->
  (forall n, (n < length l)%nat -> nth (n / W) (shard (n mod W) W l) d = nth n l d) /\
  (forall r j, (r < W)%nat -> (j < length (shard r W l))%nat -> nth j (shard r W l) d = nth (r + j * W) l d /\ (r + j * W < length l)%nat) /\
  (forall r, (r < W)%nat -> length (shard r W l) = (length l / W + (if Nat.ltb r (length l mod W) then 1 else 0))%nat).
Proof.
  intros HW. unfold shard. split; [|split].
  - intros n Hn. rewrite stride_from_nth by (auto; apply Nat.mod_upper_bound; lia).
    f_equal. rewrite Nat.add_comm, Nat.mul_comm. symmetry. apply Nat.div_mod. lia.
  - intros r j Hr Hj. split; [now apply stride_from_nth|].
    rewrite stride_from_length in Hj by auto.
    assert (H : (j * W + W <= length l + (W - 1 - r))%nat).
    { pose proof (Nat.mul_div_le (length l + (W - 1 - r)) W ltac:(lia)). nia. }
    lia.
  - intros r Hr. rewrite stride_from_length by auto.
    pose proof (Nat.div_mod (length l) W ltac:(lia)) as DM. pose proof (Nat.mod_upper_bound (length l) W ltac:(lia)) as MB.
    set (q := (length l / W)%nat) in *. set (m := (length l mod W)%nat) in *.
    destruct (Nat.ltb_spec r m).
    + symmetry. apply Nat.div_unique with (r := (m + (W - 1 - r) - W)%nat); lia.
    + symmetry. rewrite Nat.add_0_r. apply Nat.div_unique with (r := (m + (W - 1 - r))%nat); lia.
Qed.
