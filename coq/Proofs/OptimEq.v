(* Proofs/OptimEq.v -- Tie A obligations: the transitions generated from the optimizer sources
   (Gen/Optim.v, resolved per class in Proofs/OptimSM.v) equal the reference semantics
   (Model/OptimRef.v).  A change of guard, order of side effects, dropped call or changed
   constant in the Python source breaks one of these lemmas. *)
From Coq Require Import ZArith List Bool String Lia.
From OV Require Import Base.Num Base.Py Model.OptimState Model.OptimRef Gen.Optim Proofs.OptimSM.
Import ListNotations.

Section Eq.
Context {T : Type} {N : Num T}.

Lemma len_geb1 {A} (l : list A) : Z.geb (Z.of_nat (List.length l)) 1 = negb (lnull l).
Proof. destruct l; cbn [lnull negb List.length]; [reflexivity|]. apply Z.geb_le. lia. Qed.

Lemma lpop_rev {A} (l : list A) : lpop l = match rev l with [] => Err IndexError | x :: r => Ok (rev r, x) end.
Proof. reflexivity. Qed.

Lemma lnull_rev {A} (l : list A) : lnull l = lnull (rev l).
Proof. destruct l as [|a l]; [reflexivity|]. cbn. destruct (rev l); reflexivity. Qed.

Lemma clip_eq (s : ost T) : clip_and_accumulate s = ref_clip s.
Proof.
  unfold clip_and_accumulate, ref_clip, bindr, sum_add.
  destruct (gs_check (o_gs s)); [|reflexivity].
  destruct (gs_flat (o_gs s)); [|reflexivity].
  destruct (o_summed s); reflexivity.
Qed.
Lemma pl_clip_eq (s : ost T) : pl_clip_and_accumulate s = ref_clip s.
Proof.
  unfold pl_clip_and_accumulate, ref_clip, bindr, sum_add.
  destruct (gs_check (o_gs s)); [|reflexivity].
  destruct (gs_flat (o_gs s)); [|reflexivity].
  destruct (o_summed s); reflexivity.
Qed.
Lemma ada_clip_eq (s : ost T) : ada_clip_loop s = ref_clip s.
Proof.
  unfold ada_clip_loop, ref_clip, bindr, sum_add.
  destruct (gs_check (o_gs s)); [|reflexivity].
  destruct (gs_flat (o_gs s)); [|reflexivity].
  destruct (o_summed s); reflexivity.
Qed.

Lemma check_skip_eq (s : ost T) :
  check_skip_next_step s true = let '(s', b) := ref_check_skip s in SOk s' b.
Proof. unfold check_skip_next_step, ref_check_skip. destruct (o_skipq s); reflexivity. Qed.

Lemma gen_noise_eq (s : ost T) std r sec : generate_noise s std r tt sec = ref_gen_noise s std r sec.
Proof.
  unfold generate_noise, ref_gen_noise, deref_zeros. destruct r; [|reflexivity]. cbn [sbind].
  destruct (neqb std (nofZ 0)); [reflexivity|]. destruct sec; reflexivity.
Qed.

Lemma add_noise_eq (s : ost T) : add_noise s = ref_add_noise s.
Proof.
  unfold add_noise, ref_add_noise, bindr. destruct (sum_check (o_summed s)); [|reflexivity].
  rewrite gen_noise_eq. destruct (ref_gen_noise _ _ _ _); reflexivity.
Qed.

Lemma accit_eq (s : ost T) : v_accit s = match ref_accit s with Ok k => SOk s k | Err e => SErr s e end.
Proof.
  unfold v_accit, ref_accit, fgc_accumulated_iterations, accumulated_iterations, bindr.
  destruct (o_variant s); try reflexivity; destruct (gs_accum_iters (o_gs s)); reflexivity.
Qed.

Lemma scale_eq (s : ost T) : v_scale s = ref_scale s.
Proof.
  unfold v_scale, scale_grad, ref_scale. rewrite accit_eq.
  destruct (o_mean s); cbn; [|reflexivity]. destruct (ref_accit s); reflexivity.
Qed.

Lemma acc_eq (s : ost T) sigma q :
  (match o_acc s with
   | AccRDP => rdp_acc_step s sigma q | AccPRV => prv_acc_step s sigma q | AccGDP => gdp_acc_step s sigma q end)
  = ref_acc s sigma q.
Proof.
  unfold ref_acc, rdp_acc_step, prv_acc_step, gdp_acc_step, lgetlast.
  rewrite len_geb1, lnull_rev, lpop_rev.
  destruct (o_acc s); destruct (rev (o_hist s)) as [|[[s0 q0] n] r] eqn:E; cbn [lnull negb bindr];
    try reflexivity.
  all: try (assert (H : o_hist s = []) by (rewrite <- (rev_involutive (o_hist s)), E; reflexivity);
            rewrite H; reflexivity).
  all: try (destruct (neqb s0 sigma && neqb q0 q)%bool; reflexivity).
  all: try (destruct (negb (neqb s0 sigma) || negb (neqb q0 q))%bool; reflexivity).
Qed.

Lemma hook_eq (s : ost T) : v_hook s = ref_hook s.
Proof.
  unfold v_hook, step_hook, ref_hook, acc_step. rewrite accit_eq.
  destruct (ref_accit s); [|reflexivity]. cbn [sbind]. rewrite acc_eq.
  destruct (ref_acc _ _ _); reflexivity.
Qed.

Lemma fgc_accumulate_eq (s : ost T) : fgc_accumulate s = ref_fgc_accumulate s.
Proof.
  unfold fgc_accumulate, ref_fgc_accumulate, grad_data, sum_of_grad.
  destruct (o_grad s) eqn:G; cbn [oisSome negb]; [|reflexivity].
  destruct (o_summed s) eqn:S; cbn [oisSome negb sbind]; rewrite ?G; cbn [sbind]; rewrite ?S; reflexivity.
Qed.

(* everything after the accumulation stage is shared by DPOptimizer.pre_step and the ghost pre_step *)
Lemma after_eq (s : ost T) :
  sbind (check_skip_next_step s true) (fun s r =>
    if r then SOk (upd_last_skipped s true) false
    else sbind (add_noise s) (fun s _ => sbind (v_scale s) (fun s _ =>
         if oisSome (if o_has_hook s then Some tt else None)
         then sbind (v_hook s) (fun s _ => SOk (upd_last_skipped s false) true)
         else SOk (upd_last_skipped s false) true)))
  = ref_after_accumulate s.
Proof.
  unfold ref_after_accumulate. rewrite check_skip_eq.
  destruct (ref_check_skip s) as [s1 b]. cbn [sbind]. destruct b; [reflexivity|].
  rewrite add_noise_eq. destruct (ref_add_noise s1) as [s2 u|s2 e]; [|reflexivity]. cbn [sbind].
  rewrite scale_eq. destruct (ref_scale s2) as [s3 u3|s3 e]; [|reflexivity]. cbn [sbind].
  destruct (o_has_hook s3); cbn [oisSome]; [|reflexivity].
  rewrite hook_eq. destruct (ref_hook s3); reflexivity.
Qed.

Lemma pre_step_eq (s : ost T) : v_pre_step s = ref_pre_step s.
Proof.
  unfold v_pre_step, ref_pre_step.
  destruct (o_variant s) eqn:V.
  1-3: unfold pre_step, grad_samples, bindr; destruct (gs_flat (o_gs s)) eqn:F; [|reflexivity];
       cbn [sbind]; rewrite F; cbn [sbind List.length Z.of_nat Z.eqb orb Pos.eqb Pos.of_succ_nat];
       unfold v_clip; rewrite V, ?clip_eq, ?pl_clip_eq, ?ada_clip_eq;
       destruct (ref_clip s) as [s1 u|s1 e]; [|reflexivity]; cbn [sbind]; apply after_eq.
  unfold fgc_pre_step. rewrite fgc_accumulate_eq.
  destruct (ref_fgc_accumulate s) as [s1 u|s1 e]; [|reflexivity]. cbn [sbind]. apply after_eq.
Qed.

Lemma step_eq (s : ost T) : v_step s = ref_step s.
Proof.
  unfold v_step, step, ref_step, inner_step. rewrite pre_step_eq.
  destruct (ref_pre_step s) as [s1 b|s1 e]; [|reflexivity]. cbn [sbind]. destruct b; reflexivity.
Qed.

Lemma zero_eq (s : ost T) : v_zero s = ref_zero s.
Proof.
  unfold v_zero, ref_zero, zero_grad, fgc_zero_grad, inner_zero_grad.
  destruct (o_variant s); cbn; destruct (o_last_skipped s); reflexivity.
Qed.
Lemma fgc_zero_eq (s : ost T) : fgc_zero_grad s false = ref_zero s.
Proof. unfold ref_zero, fgc_zero_grad, inner_zero_grad. cbn. destruct (o_last_skipped s); reflexivity. Qed.
End Eq.
