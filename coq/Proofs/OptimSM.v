(* Proofs/OptimSM.v -- the DP training state machine: operations of a user program over the
   generated optimizer transitions (Gen/Optim.v).  Definitions only; proofs are in OptimInv.v. *)
From Coq Require Import ZArith List Bool String.
From OV Require Import Base.Num Base.Py Model.OptimState Gen.Optim.
Import ListNotations.

Section SM.
Context {T : Type} {N : Num T}.

(* method resolution per optimizer class (checked against the class hierarchy by gen_optim.py) *)
Definition v_accit (s : ost T) : sres (ost T) Z :=
  match o_variant s with Ghost => fgc_accumulated_iterations s | _ => accumulated_iterations s end.
Definition v_hook (s : ost T) := step_hook v_accit s.
Definition v_scale (s : ost T) := scale_grad v_accit s.
Definition v_clip (s : ost T) : sres (ost T) unit :=
  match o_variant s with
  | PerLayer => pl_clip_and_accumulate s
  | AdaClip => ada_clip_loop s
  | Ghost => SOk s tt
  | Flat => clip_and_accumulate s
  end.
Definition v_pre_step (s : ost T) : sres (ost T) bool :=
  match o_variant s with
  | Ghost => fgc_pre_step add_noise v_scale v_hook s
  | _ => pre_step v_clip add_noise v_scale v_hook s
  end.
Definition v_step (s : ost T) : sres (ost T) unit := step v_pre_step s.
Definition v_zero (s : ost T) : sres (ost T) unit :=
  match o_variant s with Ghost => fgc_zero_grad s false | _ => zero_grad s false end.

(* one forward+backward pass through GradSampleModule on a batch with the given sample ids
   (capture_backprops_hook -> promote_current_grad_sample; autograd also accumulates the
   ordinary batch gradient into p.grad) *)
Definition fb_hooks (s : ost T) (sids : list Z) : sres (ost T) unit :=
  let c := mkcell (o_next_bid s) sids false in
  let s := upd_next_bid s (o_next_bid s + 1)%Z in
  let s := upd_grad s (grad_add_raw (o_grad s) (cell_ids c)) in
  let s := upd_gs s (gs_promote (o_gs s) c) in
  if negb (o_accum_allowed s) && gs_is_multi (o_gs s) then SErr s ValueError else SOk s tt.
(* DPTensorFastGradientClipping.backward: backward of the reduced loss, optimizer.zero_grad(),
   backward of sum_i coeff_i * loss_i with hooks disabled *)
Definition fb_ghost (s : ost T) (sids : list Z) : sres (ost T) unit :=
  let bid := o_next_bid s in
  let ids := map (fun sid => (bid, sid)) sids in
  let s := upd_next_bid s (bid + 1)%Z in
  let s := upd_grad s (grad_add_raw (o_grad s) ids) in
  sbind (fgc_zero_grad s false) (fun s _ =>
  SOk (upd_grad s (grad_add_items (o_grad s) (clip_items (o_mgn s) ids))) tt).

Inductive op := FB (sids : list Z) | Step | OptZero | ModZero | Skip (b : bool) | SetNm (v : T) | SetC (v : T).

Definition exec (s : ost T) (o : op) : sres (ost T) unit :=
  match o with
  | FB sids => match o_variant s with Ghost => fb_ghost s sids | _ => fb_hooks s sids end
  | Step => v_step s
  | OptZero => v_zero s
  | ModZero => SOk (upd_grad (upd_gs s GNone) (grad_zero (o_grad s))) tt   (* GradSampleModule.zero_grad *)
  | Skip b => signal_skip_step s b
  | SetNm v => SOk (upd_nm s v) tt        (* what a noise scheduler step does to the optimizer *)
  | SetC v => SOk (upd_mgn s v) tt        (* what a grad-clip scheduler step does *)
  end.
Definition run (ops : list op) (s : ost T) : ost T := fold_left (fun s o => sstate (exec s o)) ops s.

Definition init_state (v : variant) (a : acckind) (nm mgn ebs rate : T) (mean secure accum : bool) : ost T :=
  mkost v a GNone None None [] false nm mgn ebs mean secure true rate [] 0%Z 0%Z accum 0%Z 1%Z 0%Z n0 n0 n0 n0 n0 n0 [].
End SM.
