(* Proofs/GhostBackward.v -- the hand-written model of the ghost criterion's backward (Proofs/OptimSM.fb_ghost, used by C03 C05 C10 C11) IS the
   interpretation of the operation list GENERATED from DPTensorFastGradientClipping.backward: reduced-loss backward with hooks on (raw batch
   gradient into p.grad, norms computed), optimizer.zero_grad(), coefficients, second loss, hooks off, second backward (clipped gradients into
   p.grad), hooks on.  A reordering of the statements changes the list and breaks the lemma. *)
From Coq Require Import ZArith List Bool String.
From OV Require Import Base.Num Base.Py Model.OptimState Gen.Optim Gen.Ghost Proofs.OptimSM.
Import ListNotations.
Section GB.
Context {T : Type} {N : Num T}.
(* ledger effect of one statement; the boolean is `hooks_enabled` of the GradSampleModule *)
Definition gop_step (ids : list (Z * Z)) (bid : Z) (r : sres (ost T) bool) (o : gop) : sres (ost T) bool :=
  sbind r (fun s hooks =>
    match o with
    | GBackwardReduced =>
        if hooks then let s := upd_next_bid s (bid + 1)%Z in SOk (upd_grad s (grad_add_raw (o_grad s) ids)) hooks
        else SErr s ValueError                       (* without hooks no norms would be computed *)
    | GOptZeroGrad => sbind (fgc_zero_grad s false) (fun s' _ => SOk s' hooks)
    | GDisableHooks => SOk s false
    | GEnableHooks => SOk s true
    | GBackwardSecond =>
        if hooks then SErr s ValueError              (* with hooks on, the second pass would recompute norms / per-sample gradients *)
        else SOk (upd_grad s (grad_add_items (o_grad s) (clip_items (o_mgn s) ids))) hooks
    | _ => SOk s hooks                               (* pure tensor computations: reduced loss, coefficients, second loss *)
    end).
Definition run_gops (ops : list gop) (s : ost T) (sids : list Z) : sres (ost T) unit :=
  let bid := o_next_bid s in
  let ids := map (fun sid => (bid, sid)) sids in
  sbind (fold_left (gop_step ids bid) ops (SOk s true)) (fun s' hooks => if hooks then SOk s' tt else SErr s' ValueError).

Lemma fb_ghost_is_generated (s : ost T) (sids : list Z) : fb_ghost s sids = run_gops ghost_backward_ops s sids.
Proof.
  unfold run_gops, ghost_backward_ops, fb_ghost. cbn [fold_left gop_step sbind].
  destruct (fgc_zero_grad _ false) as [s1 u|s1 e]; cbn [sbind]; reflexivity.
Qed.
End GB.
